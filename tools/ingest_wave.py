#!/usr/bin/env python3
"""usage: ingest_wave.py <worktree-prefix>   e.g. /tmp/seed5_
For every worktree <prefix>cNN with OUT/meta.json (written by the seeding sub-agent), confirm and
store each change with tools/ingest_seed.py, copy the notes, remove the worktree."""
import glob, json, os, re, subprocess, sys
V = os.path.dirname(os.path.dirname(os.path.abspath(__file__)))
prefix = sys.argv[1]
only = [a.lower() for a in sys.argv[2:]]  # optional: cNN ... (only these; their worktrees are removed afterwards)
for wt in sorted(glob.glob(prefix + "c[0-9][0-9]")):
    pid = "C" + wt[-2:]
    if only and pid.lower() not in only:
        continue
    mp = os.path.join(wt, "OUT", "meta.json")
    if not os.path.exists(mp):
        print("NO META", wt)
        continue
    try:
        metas = json.load(open(mp))
    except ValueError as e:
        print("BAD META", wt, e)
        continue
    allok = True
    for m in metas:
        name = re.sub(r"[^a-z0-9_]+", "_", str(m.get("name", "change%s" % m.get("k"))).lower()).strip("_")
        if not name.startswith(pid.lower()):
            name = pid.lower() + "_" + name
        if os.path.exists(os.path.join(V, "seeded", name)):
            name += "_w" + os.path.basename(prefix.rstrip("_"))[-1]
        args = [sys.executable, os.path.join(V, "tools", "ingest_seed.py"), wt, str(m["k"]), name, pid, m.get("breaks", ""), m.get("needs", "")]
        if m.get("pkgdir"):
            args.append(m["pkgdir"].strip("/"))
        r = subprocess.run(args, capture_output=True, text=True)
        ok = r.returncode == 0
        allok = allok and ok
        print(pid, name, "stored" if ok else "FAIL: " + (r.stdout + r.stderr).strip()[-600:])
    n = os.path.join(wt, "OUT", "notes.md")
    if os.path.exists(n):
        import shutil
        shutil.copy(n, os.path.join(V, "seeded", "notes_%s_%s.md" % (os.path.basename(prefix.rstrip("_")), pid.lower())))
    if only and allok:
        subprocess.run(["git", "-C", "/repo", "worktree", "remove", "--force", wt], capture_output=True)
