#!/usr/bin/env python3
"""usage: ingest_wave.py <worktree-prefix>   e.g. /tmp/seed5_
For every worktree <prefix>cNN with OUT/meta.json (written by the seeding sub-agent), confirm and
store each change with tools/ingest_seed.py, copy the notes, remove the worktree."""
import glob, json, os, re, subprocess, sys
V = os.path.dirname(os.path.dirname(os.path.abspath(__file__)))
prefix = sys.argv[1]
for wt in sorted(glob.glob(prefix + "c[0-9][0-9]")):
    pid = "C" + wt[-2:]
    mp = os.path.join(wt, "OUT", "meta.json")
    if not os.path.exists(mp):
        print("NO META", wt)
        continue
    try:
        metas = json.load(open(mp))
    except ValueError as e:
        print("BAD META", wt, e)
        continue
    for m in metas:
        name = re.sub(r"[^a-z0-9_]+", "_", str(m.get("name", "change%s" % m.get("k"))).lower()).strip("_")
        if not name.startswith(pid.lower()):
            name = pid.lower() + "_" + name
        if os.path.exists(os.path.join(V, "seeded", name)):
            name += "_w" + os.path.basename(prefix.rstrip("_"))[-1]
        args = [sys.executable, os.path.join(V, "tools", "ingest_seed.py"), wt, str(m["k"]), name, pid, m.get("breaks", ""), m.get("needs", "")]
        if m.get("pkgdir"):
            args.append(m["pkgdir"].strip("/"))
        r = subprocess.run(args, capture_output=True, text=True)
        print(pid, name, (r.stdout + r.stderr).strip().split("\n")[-1][:200])
    n = os.path.join(wt, "OUT", "notes.md")
    if os.path.exists(n):
        import shutil
        shutil.copy(n, os.path.join(V, "seeded", "notes_%s_%s.md" % (os.path.basename(prefix.rstrip("_")), pid.lower())))
