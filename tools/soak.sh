#!/bin/sh
# usage: tools/soak.sh "<seeds>" [tier]  -- runs every check with each seed, logs verdict lines
cd /verif
TIER=${2:-quick}
for seed in $1; do
  for p in C01 C02 C03 C04 C05 C06 C07 C08 C09 C10 C11 C12 C13 C14 C15 C16 C17 C18; do
    s=$(date +%s); VERIF_SEED=$seed ./check $p --tier $TIER > .build/soak_${p}_$seed.log 2>&1; rc=$?; e=$(date +%s)
    echo "seed=$seed $p rc=$rc $((e-s))s viol=$(grep -c '^VIOLATION' .build/soak_${p}_$seed.log) $(grep '^DETAIL' .build/soak_${p}_$seed.log | head -2 | cut -c1-200 | tr '\n' ' ')"
  done
done
