#!/usr/bin/env python3
"""Prints the markdown table 'seeded change -> which check catches it' from seeded/*/meta.json and seeded/RESULTS.json."""
import json, os
V = os.path.dirname(os.path.dirname(os.path.abspath(__file__)))
S = os.path.join(V, "seeded")
res = json.load(open(os.path.join(S, "RESULTS.json"))) if os.path.exists(os.path.join(S, "RESULTS.json")) else {}
print("| seeded change | property | what it breaks / what it needs | caught by (first signals) | failing input found |")
print("|---|---|---|---|---|")
for n in sorted(os.listdir(S)):
    mp = os.path.join(S, n, "meta.json")
    if not os.path.exists(mp):
        continue
    m = json.load(open(mp))
    r = res.get(n, {})
    props = m["property"] if isinstance(m["property"], list) else [m["property"]]
    for p in props:
        c = r.get("checks", {}).get(p, {})
        keys = [l.split("key=")[1].split(" ")[0] for l in c.get("lines", []) if l.startswith("DETAIL") and "key=" in l]
        det = "**MISSED**" if not c.get("detected") else ", ".join("`%s`" % k for k in keys[:3])
        print("| `%s` | %s | %s — needs: %s | %s | %s |" % (n, p, m.get("breaks", ""), m.get("needs", ""), det, "yes" if c.get("found_input") else ("no" if c.get("detected") else "-")))
