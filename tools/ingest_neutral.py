#!/usr/bin/env python3
"""usage: ingest_neutral.py <worktree-prefix>   e.g. /tmp/neut_
For every worktree <prefix>cNN with OUT/meta.json (written by a sub-agent asked for
behaviour-preserving maintenance edits): confirm that each changeK.diff applies to the clean tree,
builds and keeps the existing suite green; store it as neutral/<name>/{patch.diff, meta.json}.
Equivalence itself is the sub-agent's argument (kept in neutral/notes_<cNN>.md); a check that
alarms on one of these is examined by hand (tools/run_neutral.py)."""
import glob
import json
import os
import re
import shutil
import subprocess
import sys

V = os.path.dirname(os.path.dirname(os.path.abspath(__file__)))
ENV = dict(os.environ, GOPROXY="off", GOSUMDB="off", GOTOOLCHAIN="local", GOFLAGS="")


def sh(cmd, cwd, timeout=1800):
    p = subprocess.run(cmd, cwd=cwd, env=ENV, shell=True, capture_output=True, text=True, timeout=timeout)
    return p.returncode, (p.stdout + p.stderr)


def main():
    prefix = sys.argv[1]
    only = [a.lower() for a in sys.argv[2:]]
    os.makedirs(os.path.join(V, "neutral"), exist_ok=True)
    for wt in sorted(glob.glob(prefix + "c[0-9][0-9]")):
        pid = "C" + wt[-2:]
        if only and pid.lower() not in only:
            continue
        mp = os.path.join(wt, "OUT", "meta.json")
        if not os.path.exists(mp):
            print("NO META", wt)
            continue
        try:
            metas = json.load(open(mp))
        except ValueError as e:
            print("BAD META", wt, e)
            continue
        for m in metas:
            name = re.sub(r"[^a-z0-9_]+", "_", str(m.get("name", "change%s" % m.get("k"))).lower()).strip("_")
            name = "n_" + pid.lower() + "_" + name
            patch = os.path.join(wt, "OUT", "change%s.diff" % m["k"])
            sh("git checkout -q -- . && git clean -fdq -e OUT -e TASK.md", wt)
            rc, o = sh("git apply --check " + patch, wt)
            if rc != 0:
                print(pid, name, "REJECT: does not apply", o[-200:])
                continue
            sh("git apply " + patch, wt)
            rc, o = sh("go build ./... && go test -vet=off -count=1 ./...", wt)
            sh("git checkout -q -- . && git clean -fdq -e OUT -e TASK.md", wt)
            if rc != 0:
                print(pid, name, "REJECT: build/suite fails", o[-300:])
                continue
            d = os.path.join(V, "neutral", name)
            os.makedirs(d, exist_ok=True)
            shutil.copy(patch, os.path.join(d, "patch.diff"))
            files = re.findall(r"^\+\+\+ b/(\S+)", open(patch).read(), re.M)
            json.dump({"property": pid, "kind": m.get("kind", ""), "what": m.get("what", ""), "files": files,
                       "source": "fresh sub-agent asked for behaviour-preserving maintenance edits near the property's code (property text + scratch worktree only)",
                       "ran": "git apply --check; go build ./... && go test -vet=off -count=1 ./... with the change: all ok"},
                      open(os.path.join(d, "meta.json"), "w"), indent=1)
            print(pid, name, "stored")
        n = os.path.join(wt, "OUT", "notes.md")
        if os.path.exists(n):
            shutil.copy(n, os.path.join(V, "neutral", "notes_%s.md" % pid.lower()))
        if only:
            subprocess.run(["git", "-C", "/repo", "worktree", "remove", "--force", wt], capture_output=True)


if __name__ == "__main__":
    main()
