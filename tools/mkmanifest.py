#!/usr/bin/env python3
"""Regenerates MANIFEST.json from vlib/props/*.py (SPEC["manifest"]) so that it is always valid."""
import importlib, json, os, sys
V = os.path.dirname(os.path.dirname(os.path.abspath(__file__)))
sys.path.insert(0, V)
ALL = ["C%02d" % i for i in range(1, 19)]
EXCLUDE = set()
for a in sys.argv[1:]:
    if a.startswith("--exclude="):
        EXCLUDE = set(a.split("=", 1)[1].split(","))
checks, na, engines = [], [], []
for pid in ALL:
    if pid in EXCLUDE:
        na.append({"property_id": pid, "reason": "check still being built in this round (design in DESIGN.md section 5); nothing is claimed for it yet"})
        continue
    try:
        mod = importlib.import_module("vlib.props." + pid.lower())
    except ModuleNotFoundError:
        na.append({"property_id": pid, "reason": "check not built yet in this round (design in DESIGN.md section 5); nothing is claimed for it"})
        continue
    from vlib import runner
    spec = runner.collect(mod.SPEC)
    if not spec["props_files"]:
        na.append({"property_id": pid, "reason": "check not built yet in this round (design in DESIGN.md section 5); nothing is claimed for it"})
        continue
    m = spec["manifest"]
    checks.append({
        "property_id": pid,
        "quick_cmd": "./check %s --tier quick" % pid,
        "thorough_cmd": "./check %s --tier thorough" % pid,
        "evidence_file": "/verif/evidence/%s.json" % pid,
        "replay_cmd_template": "./check replay {path}",
        "engine": ",".join(e["name"] for e in spec.get("engines", [])) or "coq",
        "level_claimed": {"category": spec.get("level", "proof"), "text": m["level_text"], "design_ref": m.get("design_ref", "DESIGN.md section 5, " + pid)},
        "level_note": m["level_note"],
        "technique": m["technique"],
    })
    for e in spec.get("engines", []):
        engines.append({"name": pid + "/" + e["name"], "path": "harness/overlay/" + e["files"][0], "serves_properties": [pid],
                        "kind_free_text": e.get("kind", "Go test injected with -overlay into /repo package %s; emits correspondence cases evaluated in Coq and direct property-oracle verdicts" % e["pkg"])})
man = {
    "version": 1,
    "setup_cmd": "./check setup",
    "hooks": {
        "guard": "verif",
        "enable": "no source hooks: white-box access is by `go test -overlay` files kept under /verif/harness/overlay (nothing is written to /repo); the build tag `verif` is reserved",
        "baseline_off_cmd": "cd /repo && GOPROXY=off GOSUMDB=off GOTOOLCHAIN=local go test -vet=off -count=1 ./...",
        "source_commits": [],
        "add_only": True,
    },
    "engines": engines,
    "checks": checks,
    "not_applicable": na,
    "notes": "Technique: machine-checked proof in Coq 8.16.1. Models in coq/model, lemmas in coq/proofs, property theorems in coq/props/Cnn.v; "
             "tie to /repo: (a) tools/l4gen regenerates coq/gen/*.v from the working tree on every run, (b) Go engines run the implementation and the "
             "model is evaluated inside Coq (vm_compute) on the same cases. Known findings: known_findings.txt. See DESIGN.md.",
}
json.dump(man, open(os.path.join(V, "MANIFEST.json"), "w"), indent=1)
print("checks:", len(checks), "not_applicable:", len(na))
