#!/usr/bin/env python3
"""Confirm a seeded change produced by a sub-agent and store it under /verif/seeded/<name>/.

usage: ingest_seed.py <worktree> <k> <name> <property[,property]> <breaks> <needs>

In the scratch worktree: checks that changeK.diff applies to the clean tree, that the tree builds
and the existing tests pass with it, that the demo test passes WITHOUT the change and FAILS WITH
it; then writes seeded/<name>/{patch.diff, demo_test.go, meta.json}."""
import json
import os
import re
import shutil
import subprocess
import sys

V = os.path.dirname(os.path.dirname(os.path.abspath(__file__)))
ENV = dict(os.environ, GOPROXY="off", GOSUMDB="off", GOTOOLCHAIN="local", GOFLAGS="")


def sh(cmd, cwd, timeout=1800):
    p = subprocess.run(cmd, cwd=cwd, env=ENV, shell=True, capture_output=True, text=True, timeout=timeout)
    return p.returncode, (p.stdout + p.stderr)


def main():
    wt, k, name, props, breaks, needs = sys.argv[1:7]
    out = os.path.join(wt, "OUT")
    patch = os.path.join(out, "change%s.diff" % k)
    demo = os.path.join(out, "demo%s_test.go" % k)
    src = open(demo).read()
    m = re.search(r"(modules/\w+|layer4|integration)", src.split("\n")[0]) or re.search(r"(modules/\w+|layer4|integration)", src[:600])
    pkgdir = m.group(1) if m else None
    if len(sys.argv) > 7:
        pkgdir = sys.argv[7]
    assert pkgdir, "cannot tell the demo's package directory"
    dst = os.path.join(wt, pkgdir, "zz_demo_test.go")
    sh("git checkout -q -- . && git clean -fdq -e OUT -e TASK.md", wt)
    log = {}
    rc, o = sh("git apply --check " + patch, wt)
    assert rc == 0, "patch does not apply: " + o
    shutil.copy(demo, dst)
    mt = re.findall(r"func (Test\w+)\(", src)
    runre = "^(" + "|".join(mt) + ")$"
    rc, o = sh("go test -vet=off -count=1 -run '%s' ./%s/" % (runre, pkgdir), wt)
    log["demo_clean"] = o[-400:]
    assert rc == 0, "demo does not pass on the clean tree: " + o[-1500:]
    sh("git apply " + patch, wt)
    rc, o = sh("go test -vet=off -count=1 -run '%s' ./%s/" % (runre, pkgdir), wt)
    log["demo_patched"] = o[-600:]
    assert rc != 0, "demo does not fail with the change"
    os.remove(dst)
    rc, o = sh("go build ./... && go test -vet=off -count=1 ./...", wt)
    log["suite_patched"] = "\n".join(l for l in o.split("\n") if l.startswith(("ok", "FAIL", "---")))[-1500:]
    assert rc == 0, "existing suite fails with the change: " + o[-1500:]
    sh("git checkout -q -- . && git clean -fdq -e OUT -e TASK.md", wt)
    d = os.path.join(V, "seeded", name)
    os.makedirs(d, exist_ok=True)
    shutil.copy(patch, os.path.join(d, "patch.diff"))
    shutil.copy(demo, os.path.join(d, "demo_test.go"))
    pl = props.split(",")
    meta = {"property": pl if len(pl) > 1 else pl[0],
            "source": "fresh sub-agent given only the property text and a scratch worktree of /repo",
            "breaks": breaks, "needs": needs,
            "demo": "demo_test.go, to be placed in %s/ (tests: %s): passes on the unchanged tree, fails with patch.diff" % (pkgdir, ", ".join(mt)),
            "ran": "in a scratch worktree: git apply --check; demo on clean tree: pass; demo with patch: FAIL; go build ./... && go test -vet=off -count=1 ./... with patch: all ok",
            "log": log}
    json.dump(meta, open(os.path.join(d, "meta.json"), "w"), indent=1)
    print("stored", d)


if __name__ == "__main__":
    main()
