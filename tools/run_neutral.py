#!/usr/bin/env python3
"""Run the registered checks against the behaviour-preserving changes under /verif/neutral/<name>/
(false-alarm test): scratch worktree of /repo's HEAD outside /repo and /verif, patch applied,
`VERIF_REPO=<worktree> ./check <property>` for the property the change was written next to and for
every property whose engines/translator read a touched file; any non-zero exit is an alarm to be
examined. Results: neutral/RESULTS.json. Usage: tools/run_neutral.py [name ...] [--jobs N]"""
import concurrent.futures
import hashlib
import json
import os
import shutil
import subprocess
import sys
import tempfile

V = os.path.dirname(os.path.dirname(os.path.abspath(__file__)))
NEUTRAL = os.path.join(V, "neutral")

# which checks exercise a source file (engines' packages + what tools/l4gen reads)
FILEMAP = [
    ("layer4/connection.go", ["C01", "C08", "C13", "C05"]),
    ("layer4/routes.go", ["C02", "C05"]),
    ("layer4/server.go", ["C09", "C05"]),
    ("layer4/listener.go", ["C13"]),
    ("layer4/handlers.go", ["C02"]),
    ("layer4/matchers.go", ["C14", "C06"]),
    ("layer4/", ["C02", "C15"]),
    ("modules/l4proxyprotocol/", ["C12", "C04"]),
    ("modules/l4proxy/", ["C03", "C10", "C11", "C12"]),
    ("modules/l4tls/", ["C07", "C01"]),
    ("modules/l4http/", ["C06", "C05", "C14"]),
    ("modules/l4socks/", ["C16", "C04", "C14"]),
    ("modules/l4throttle/", ["C17", "C01"]),
    ("modules/l4tee/", ["C08", "C01"]),
    ("modules/l4subroute/", ["C02", "C05"]),
    ("modules/l4wireguard/", ["C18", "C14", "C04", "C06"]),
    ("modules/l4winbox/", ["C18", "C14", "C04", "C06"]),
    ("modules/l4rdp/", ["C18", "C14", "C04", "C06"]),
    ("modules/l4openvpn/", ["C18", "C14", "C04", "C06"]),
    ("modules/", ["C14", "C04", "C06"]),
    ("", ["C15"]),
]


def props_for(meta, patch_text):
    props = [meta["property"]]
    for f in meta.get("files", []):
        for pre, ps in FILEMAP:
            if f.startswith(pre) and not (pre == "" and "/" in f):
                for p in ps:
                    if p not in props:
                        props.append(p)
                break
    if "addyfile" in patch_text and "C15" not in props:
        props.append("C15")
    return props


def run_one(name):
    d = os.path.join(NEUTRAL, name)
    meta = json.load(open(os.path.join(d, "meta.json")))
    props = props_for(meta, open(os.path.join(d, "patch.diff")).read())
    wt = tempfile.mkdtemp(prefix="neutral_%s_" % name, dir="/tmp")
    os.rmdir(wt)
    res = {"name": name, "properties": props, "checks": {}}
    try:
        for attempt in range(5):
            if subprocess.run(["git", "-C", "/repo", "worktree", "add", "-q", "--detach", wt, "HEAD"], capture_output=True).returncode == 0:
                break
            import time
            time.sleep(2 + attempt)
        else:
            res["error"] = "git worktree add failed"
            return res
        ap = subprocess.run(["git", "-C", wt, "apply", os.path.join(d, "patch.diff")], capture_output=True, text=True)
        if ap.returncode != 0:
            res["error"] = "patch does not apply: " + ap.stderr[-500:]
            return res
        for p in props:
            env = dict(os.environ, VERIF_REPO=wt)
            r = subprocess.run([os.path.join(V, "check"), p, "--tier", "quick"], cwd=V, env=env, capture_output=True, text=True, timeout=3600)
            lines = [l for l in r.stdout.split("\n") if l.startswith(("VIOLATION", "DETAIL", "OK"))]
            res["checks"][p] = {"exit": r.returncode, "quiet": r.returncode == 0, "lines": [l[:400] for l in lines][:10]}
    finally:
        subprocess.run(["git", "-C", "/repo", "worktree", "remove", "--force", wt], capture_output=True)
        shutil.rmtree(wt, ignore_errors=True)
        alt = os.path.join(V, ".build", "alt", hashlib.sha1(os.path.realpath(wt).encode()).hexdigest()[:10])
        shutil.rmtree(alt, ignore_errors=True)
    return res


def main():
    args = sys.argv[1:]
    jobs = 2
    if "--jobs" in args:
        i = args.index("--jobs")
        jobs = int(args[i + 1])
        del args[i:i + 2]
    names = args or sorted(n for n in os.listdir(NEUTRAL) if os.path.isdir(os.path.join(NEUTRAL, n)))
    rp = os.path.join(NEUTRAL, "RESULTS.json")
    out = json.load(open(rp)) if os.path.exists(rp) else {}
    with concurrent.futures.ThreadPoolExecutor(max_workers=jobs) as ex:
        for res in ex.map(run_one, names):
            out[res["name"]] = res
            print(res["name"], {p: ("quiet" if c["quiet"] else "ALARM") for p, c in res.get("checks", {}).items()}, res.get("error", ""), flush=True)
            json.dump(out, open(rp, "w"), indent=1, sort_keys=True)


if __name__ == "__main__":
    main()
