#!/usr/bin/env python3
"""Run the registered checks against the seeded breaking changes under /verif/seeded/<name>/.

For every seeded change: a scratch worktree of /repo's HEAD is created outside /repo and /verif,
patch.diff is applied there, `VERIF_REPO=<worktree> ./check <property>` runs (private copy of the
Coq project: see vlib/core.py), the verdict is recorded in seeded/RESULTS.json and the worktree
is removed. Usage: tools/run_seeded.py [name ...] [--tier quick|thorough] [--jobs N]"""
import concurrent.futures
import json
import os
import shutil
import subprocess
import sys
import tempfile

V = os.path.dirname(os.path.dirname(os.path.abspath(__file__)))
SEEDED = os.path.join(V, "seeded")


PROPS_OVERRIDE = None


def run_one(name, tier):
    d = os.path.join(SEEDED, name)
    meta = json.load(open(os.path.join(d, "meta.json")))
    props = meta["property"] if isinstance(meta["property"], list) else [meta["property"]]
    if PROPS_OVERRIDE:
        props = PROPS_OVERRIDE
    wt = tempfile.mkdtemp(prefix="seeded_%s_" % name, dir="/tmp")
    os.rmdir(wt)
    res = {"name": name, "properties": props, "checks": {}}
    try:
        for attempt in range(5):  # `git worktree add` can collide with another one running at the same moment
            if subprocess.run(["git", "-C", "/repo", "worktree", "add", "-q", "--detach", wt, "HEAD"], capture_output=True).returncode == 0:
                break
            import time
            time.sleep(2 + attempt)
        else:
            res["error"] = "git worktree add failed"
            return res
        ap = subprocess.run(["git", "-C", wt, "apply", os.path.join(d, "patch.diff")], capture_output=True, text=True)
        if ap.returncode != 0:
            res["error"] = "patch does not apply: " + ap.stderr[-500:]
            return res
        for p in props:
            env = dict(os.environ, VERIF_REPO=wt)
            r = subprocess.run([os.path.join(V, "check"), p, "--tier", tier], cwd=V, env=env, capture_output=True, text=True, timeout=3600)
            lines = [l for l in r.stdout.split("\n") if l.startswith(("VIOLATION", "DETAIL", "KNOWN-FINDING", "OK"))]
            res["checks"][p] = {"exit": r.returncode, "detected": r.returncode == 1 and any(l.startswith("VIOLATION") for l in lines),
                                "found_input": any(l.startswith("VIOLATION") and "no-failing-input-found" not in l for l in lines),
                                "lines": [l[:300] for l in lines][:12]}
    finally:
        subprocess.run(["git", "-C", "/repo", "worktree", "remove", "--force", wt], capture_output=True)
        shutil.rmtree(wt, ignore_errors=True)
        # private build copy of this worktree
        import hashlib
        alt = os.path.join(V, ".build", "alt", hashlib.sha1(os.path.realpath(wt).encode()).hexdigest()[:10])
        shutil.rmtree(alt, ignore_errors=True)
    return res


def main():
    args = sys.argv[1:]
    tier = "quick"
    jobs = 2
    if "--tier" in args:
        i = args.index("--tier")
        tier = args[i + 1]
        del args[i:i + 2]
    if "--jobs" in args:
        i = args.index("--jobs")
        jobs = int(args[i + 1])
        del args[i:i + 2]
    rp = os.path.join(SEEDED, "RESULTS.json")
    if "--out" in args:  # separate result file (merge later with --merge) so that two runs can go on side by side
        i = args.index("--out")
        rp = args[i + 1]
        del args[i:i + 2]
    if "--props" in args:  # run these checks instead of the ones named in meta.json (triage)
        global PROPS_OVERRIDE
        i = args.index("--props")
        PROPS_OVERRIDE = args[i + 1].split(",")
        del args[i:i + 2]
    if "--merge" in args:
        i = args.index("--merge")
        extra = json.load(open(args[i + 1]))
        cur = json.load(open(rp)) if os.path.exists(rp) else {}
        cur.update(extra)
        json.dump(cur, open(rp, "w"), indent=1, sort_keys=True)
        print("merged", len(extra), "results into", rp)
        return
    names = args or sorted(n for n in os.listdir(SEEDED) if os.path.isdir(os.path.join(SEEDED, n)))
    out = {}
    if os.path.exists(rp):
        out = json.load(open(rp))
    with concurrent.futures.ThreadPoolExecutor(max_workers=jobs) as ex:
        for res in ex.map(lambda n: run_one(n, tier), names):
            out[res["name"]] = res
            det = {p: c["detected"] for p, c in res.get("checks", {}).items()}
            print(res["name"], det, res.get("error", ""), flush=True)
            json.dump(out, open(rp + ".tmp", "w"), indent=1, sort_keys=True)
            os.replace(rp + ".tmp", rp)


if __name__ == "__main__":
    main()
