package main

import (
	"fmt"
	"go/ast"
	"go/token"
	"strconv"
	"strings"
)

// ---------- small matchers (C04/C06/C14; appended by b-msmall) ----------
//
//	l4xmpp_xmppWord_len / _be     the package variable xmppWord (string literal) as length and big-endian integer
//	l4xmpp_minXmppLength          the package variable minXmppLength (int literal)
//	l4postgres_match_checks_length       MatchPostgres.Match tests the length field against initMessageSizeLength and
//	                                     layer4.MaxMatchingBytes before make()
//	l4postgres_match_checks_code         MatchPostgres.Match tests len(data) against the 4-byte request code
//	l4postgres_readstring_checks_offset  message.ReadString tests `end > maximum` before indexing
//	l4socks_socks5_rejects_zero_methods  Socks5Matcher.Match returns false for NMETHODS == 0
func shapeMSmall(pk map[string]*pkgInfo) []fact {
	b2s := func(b bool) string {
		if b {
			return "true"
		}
		return "false"
	}
	var out []fact
	// top-level `var name = <basic literal>` of a package
	varLit := func(p *pkgInfo, name string) (*ast.BasicLit, bool) {
		if p == nil {
			return nil, false
		}
		for _, f := range p.files {
			for _, d := range f.Decls {
				gd, ok := d.(*ast.GenDecl)
				if !ok || gd.Tok != token.VAR {
					continue
				}
				for _, sp := range gd.Specs {
					vs := sp.(*ast.ValueSpec)
					for i, n := range vs.Names {
						if n.Name == name && i < len(vs.Values) {
							if bl, ok := vs.Values[i].(*ast.BasicLit); ok {
								return bl, true
							}
						}
					}
				}
			}
		}
		return nil, false
	}
	if bl, ok := varLit(pk["l4xmpp"], "xmppWord"); ok && bl.Kind == token.STRING {
		if s, err := strconv.Unquote(bl.Value); err == nil && len(s) <= 7 {
			var v uint64
			for i := 0; i < len(s); i++ {
				v = v<<8 | uint64(s[i])
			}
			out = append(out, fact{"l4xmpp_xmppWord_len", "Z", fmt.Sprint(len(s)), "len(xmppWord) in package l4xmpp"})
			out = append(out, fact{"l4xmpp_xmppWord_be", "Z", fmt.Sprint(v), "the bytes of xmppWord (" + strconv.Quote(s) + ") as a big-endian integer"})
		}
	}
	if bl, ok := varLit(pk["l4xmpp"], "minXmppLength"); ok && bl.Kind == token.INT {
		out = append(out, fact{"l4xmpp_minXmppLength", "Z", bl.Value, "package variable minXmppLength of l4xmpp"})
	}
	if pg := pk["l4postgres"]; pg != nil {
		chkLen, chkCode, chkStr := false, false, false
		if fd := pg.findFunc("MatchPostgres", "Match"); fd != nil {
			s := pg.src(fd.Body)
			mk := strings.Index(s, "make([]byte")
			if i := strings.Index(s, "MaxMatchingBytes"); i >= 0 && mk >= 0 {
				j := strings.Index(s, "< initMessageSizeLength")
				// both tests must precede the allocation of the payload buffer (the second make)
				mk2 := strings.Index(s[mk+1:], "make([]byte")
				if mk2 >= 0 {
					mk2 += mk + 1
					chkLen = j >= 0 && j < mk2 && i < mk2
				}
			}
			chkCode = strings.Contains(s, "len(data) < 4")
		}
		if fd := pg.findFunc("message", "ReadString"); fd != nil {
			s := pg.src(fd.Body)
			i := strings.Index(s, "end > maximum")
			j := strings.Index(s, "b.data[end]")
			chkStr = i >= 0 && j >= 0 && i < j
		}
		out = append(out, fact{"l4postgres_match_checks_length", "bool", b2s(chkLen), "MatchPostgres.Match rejects a length field below initMessageSizeLength or above the matching buffer before make()"})
		out = append(out, fact{"l4postgres_match_checks_code", "bool", b2s(chkCode), "MatchPostgres.Match rejects a payload shorter than the request code"})
		out = append(out, fact{"l4postgres_readstring_checks_offset", "bool", b2s(chkStr), "message.ReadString checks the offset against the end of the message before indexing"})
	}
	if sk := pk["l4socks"]; sk != nil {
		z := false
		if fd := sk.findFunc("Socks5Matcher", "Match"); fd != nil {
			s := pg5strip(sk.src(fd.Body))
			z = strings.Contains(s, "ifbuf[0]==0{returnfalse,nil}")
		}
		out = append(out, fact{"l4socks_socks5_rejects_zero_methods", "bool", b2s(z), "Socks5Matcher.Match rejects a greeting whose NMETHODS is zero"})
	}
	return out
}

// pg5strip removes all white space and comments-free formatting differences from a source fragment
func pg5strip(s string) string {
	var b strings.Builder
	for _, r := range s {
		if r != ' ' && r != '\t' && r != '\n' && r != '\r' {
			b.WriteRune(r)
		}
	}
	return b.String()
}
