package main

import (
	"bytes"
	"fmt"
	"go/ast"
	"go/constant"
	"go/printer"
	"go/token"
	"sort"
	"strings"
)

// ---------- helpers ----------

func recvTypeName(fd *ast.FuncDecl) string {
	if fd.Recv == nil || len(fd.Recv.List) == 0 {
		return ""
	}
	t := fd.Recv.List[0].Type
	if st, ok := t.(*ast.StarExpr); ok {
		t = st.X
	}
	if id, ok := t.(*ast.Ident); ok {
		return id.Name
	}
	return ""
}

func (p *pkgInfo) findFunc(recv, name string) *ast.FuncDecl {
	for _, f := range p.files {
		for _, d := range f.Decls {
			if fd, ok := d.(*ast.FuncDecl); ok && fd.Name.Name == name && recvTypeName(fd) == recv {
				return fd
			}
		}
	}
	return nil
}

func (p *pkgInfo) src(n ast.Node) string {
	var b bytes.Buffer
	_ = printer.Fprint(&b, p.fset, n)
	return b.String()
}

// callsNamed counts calls whose selector (or identifier) is name, anywhere in the package.
func (p *pkgInfo) callsNamed(name string) int {
	c := 0
	for _, f := range p.files {
		ast.Inspect(f, func(n ast.Node) bool {
			if ce, ok := n.(*ast.CallExpr); ok {
				switch fn := ce.Fun.(type) {
				case *ast.SelectorExpr:
					if fn.Sel.Name == name {
						c++
					}
				case *ast.Ident:
					if fn.Name == name {
						c++
					}
				}
			}
			return true
		})
	}
	return c
}

func contains(node ast.Node, p *pkgInfo, sub string) bool {
	if node == nil {
		return false
	}
	return strings.Contains(p.src(node), sub)
}

// ---------- Shape.v ----------

type fact struct {
	name, typ, val, comment string
}

func emitShape(pk map[string]*pkgInfo) string {
	var facts []fact
	add := func(name, typ, val, comment string) { facts = append(facts, fact{name, typ, val, comment}) }
	b2s := func(b bool) string {
		if b {
			return "true"
		}
		return "false"
	}

	l4 := pk["layer4"]
	px := pk["l4proxy"]

	// C11: is countConn ever called (other than its own declaration)?
	add("l4proxy_countConn_calls", "Z", fmt.Sprint(px.callsNamed("countConn")), "number of call sites of peer.countConn in package l4proxy")

	// C08/C13: listener.handle returns the matching buffer to the pool even when the connection was hijacked?
	if fd := l4.findFunc("listener", "handle"); fd != nil {
		uncond := false
		for _, st := range fd.Body.List {
			if ds, ok := st.(*ast.DeferStmt); ok {
				if contains(ds.Call, l4, "bufPool.Put") {
					if _, isLit := ds.Call.Fun.(*ast.FuncLit); !isLit {
						uncond = true
					} else if !contains(ds.Call, l4, "if ") {
						uncond = true
					}
				}
			}
		}
		add("layer4_listener_handle_put_unconditional", "bool", b2s(uncond), "listener.handle defers bufPool.Put(buf) without testing for hijack")
	}
	if fd := l4.findFunc("Server", "handle"); fd != nil {
		put := false
		for _, st := range fd.Body.List {
			if ds, ok := st.(*ast.DeferStmt); ok && contains(ds.Call, l4, "bufPool.Put") {
				put = true
			}
		}
		add("layer4_server_handle_put_deferred", "bool", b2s(put), "Server.handle defers bufPool.Put(buf)")
	}

	// C05: what unit does packetConn.SetReadDeadline store?
	if fd := l4.findFunc("packetConn", "SetReadDeadline"); fd != nil {
		s := l4.src(fd.Body)
		unit := "0"
		switch {
		case strings.Contains(s, "UnixNano()"):
			unit = "1"
		case strings.Contains(s, "UnixMicro()"):
			unit = "1000"
		case strings.Contains(s, "UnixMilli()"):
			unit = "1000000"
		case strings.Contains(s, "Unix()"):
			unit = "1000000000"
		}
		add("layer4_udp_deadline_granularity_ns", "Z", unit, "granularity (ns) at which packetConn.SetReadDeadline stores the deadline (0 = not recognised)")
	}

	// C09: program order inside packetConn.Close: position of close(readCh) and of the closeCh notification
	if fd := l4.findFunc("packetConn", "Close"); fd != nil {
		posClose, posNotify := -1, -1
		for i, st := range fd.Body.List {
			s := l4.src(st)
			if strings.HasPrefix(s, "close(pc.readCh)") && posClose < 0 {
				posClose = i
			}
			if strings.Contains(s, "pc.closeCh <-") && posNotify < 0 {
				posNotify = i
			}
		}
		add("layer4_pc_close_pos_close_readCh", "Z", fmt.Sprint(posClose), "statement index of close(pc.readCh) in packetConn.Close (-1: absent)")
		add("layer4_pc_close_pos_notify", "Z", fmt.Sprint(posNotify), "statement index of pc.closeCh <- addr in packetConn.Close (-1: absent)")
	}

	// C10: round robin uses the value returned by atomic.AddUint32 (rather than re-reading r.robin)?
	if fd := px.findFunc("RoundRobinSelection", "Select"); fd != nil {
		usesResult := false
		ast.Inspect(fd.Body, func(n ast.Node) bool {
			switch x := n.(type) {
			case *ast.AssignStmt:
				for _, r := range x.Rhs {
					if contains(r, px, "atomic.AddUint32") {
						usesResult = true
					}
				}
			case *ast.IndexExpr:
				if contains(x.Index, px, "atomic.AddUint32") {
					usesResult = true
				}
			}
			return true
		})
		add("l4proxy_round_robin_uses_add_result", "bool", b2s(usesResult), "RoundRobinSelection.Select indexes with the result of atomic.AddUint32")
	}

	// C01: Connection.Wrap copies buf/offset into the new Connection?
	if fd := l4.findFunc("Connection", "Wrap"); fd != nil {
		s := l4.src(fd.Body)
		add("layer4_wrap_copies_buf", "bool", b2s(strings.Contains(s, "cx.buf") && !strings.Contains(s, "cx.buf = ")), "Connection.Wrap shares cx.buf with the new Connection")
	}

	for _, f := range shapeC05(l4) {
		facts = append(facts, f)
	}

	facts = append(facts, shapeC08(pk)...)         // C08/C13 pool life cycles (tools/l4gen/access_c08.go)
	facts = append(facts, shapeUDP(l4)...)         // C09 (appended at the end of this file)
	facts = append(facts, shapeRelayHealth(pk)...) // C03/C11 (appended at the end of this file)
	facts = append(facts, shapeMSmall(pk)...)      // C04/C06/C14 small matchers (shape_msmall.go)
	facts = append(facts, shapeC12(pk)...)         // C12 (tools/l4gen/shape_c12.go)
	facts = append(facts, shapeMDns(pk)...)        // C14/C04 DNS size bounds (tools/l4gen/shape_mdns.go)
	sort.Slice(facts, func(i, j int) bool { return facts[i].name < facts[j].name })
	var b bytes.Buffer
	b.WriteString("(* GENERATED by tools/l4gen from /repo's working tree. Do not edit. *)\n")
	b.WriteString("From Coq Require Import ZArith Bool.\nOpen Scope Z_scope.\n\n")
	for _, f := range facts {
		fmt.Fprintf(&b, "(* %s *)\nDefinition %s : %s := %s.\n", f.comment, f.name, f.typ, f.val)
	}
	return b.String()
}

// ---------- Access.v (C08) ----------
//
// An entry per syntactic access to a struct field that (a) belongs to a type whose values are
// shared between connection goroutines (module structs after provisioning, peer, packetConn's
// deadline) and (b) occurs in a method that runs per connection (not Provision / Validate /
// Cleanup / Unmarshal* / CaddyModule). Each access is classified as atomic (argument of a
// sync/atomic call or method of an atomic.* typed field), write or read.

type access struct {
	pkg, typ, field, fn, kind string // kind: atomic | read | write
	line                      int
}

var setupFuncs = map[string]bool{"Provision": true, "Validate": true, "Cleanup": true, "CaddyModule": true,
	"UnmarshalCaddyfile": true, "UnmarshalJSON": true, "MarshalJSON": true, "provision": true, "String": true}

func structFields(p *pkgInfo, typ string) map[string]string {
	out := map[string]string{}
	for _, f := range p.files {
		for _, d := range f.Decls {
			gd, ok := d.(*ast.GenDecl)
			if !ok || gd.Tok != token.TYPE {
				continue
			}
			for _, s := range gd.Specs {
				ts := s.(*ast.TypeSpec)
				st, ok := ts.Type.(*ast.StructType)
				if !ok || ts.Name.Name != typ {
					continue
				}
				for _, fl := range st.Fields.List {
					for _, n := range fl.Names {
						out[n.Name] = p.src(fl.Type)
					}
				}
			}
		}
	}
	return out
}

func collectAccesses(p *pkgInfo, typ string, recvOnly bool) []access {
	fields := structFields(p, typ)
	var out []access
	for _, f := range p.files {
		for _, d := range f.Decls {
			fd, ok := d.(*ast.FuncDecl)
			if !ok || fd.Body == nil || setupFuncs[fd.Name.Name] {
				continue
			}
			if strings.HasPrefix(fd.Name.Name, "Unmarshal") {
				continue
			}
			// receiver variable name when the method belongs to typ
			recvVar := ""
			if recvTypeName(fd) == typ && len(fd.Recv.List[0].Names) > 0 {
				recvVar = fd.Recv.List[0].Names[0].Name
			}
			if recvOnly && recvVar == "" {
				continue
			}
			fnName := fd.Name.Name
			if r := recvTypeName(fd); r != "" {
				fnName = r + "." + fnName
			}
			// classify selector expressions x.field where x is the receiver (or any expr when !recvOnly and field unique)
			atomicArgs := map[ast.Node]bool{}
			writes := map[ast.Node]bool{}
			ast.Inspect(fd.Body, func(n ast.Node) bool {
				switch x := n.(type) {
				case *ast.CallExpr:
					if se, ok := x.Fun.(*ast.SelectorExpr); ok {
						if id, ok := se.X.(*ast.Ident); ok && id.Name == "atomic" {
							for _, a := range x.Args {
								if ue, ok := a.(*ast.UnaryExpr); ok && ue.Op == token.AND {
									atomicArgs[ue.X] = true
								}
							}
						}
						// method call on an atomic.* typed field: pc.deadline.Store(..)
						if inner, ok := se.X.(*ast.SelectorExpr); ok {
							if t, ok := fields[inner.Sel.Name]; ok && strings.HasPrefix(t, "atomic.") {
								atomicArgs[inner] = true
							}
						}
					}
				case *ast.AssignStmt:
					for _, l := range x.Lhs {
						writes[l] = true
					}
				case *ast.IncDecStmt:
					writes[x.X] = true
				}
				return true
			})
			ast.Inspect(fd.Body, func(n ast.Node) bool {
				se, ok := n.(*ast.SelectorExpr)
				if !ok {
					return true
				}
				if _, isField := fields[se.Sel.Name]; !isField {
					return true
				}
				id, ok := se.X.(*ast.Ident)
				if !ok {
					return true
				}
				if recvOnly && id.Name != recvVar {
					return true
				}
				if !recvOnly && id.Name != recvVar {
					// heuristic: variables conventionally named after the type
					lc := strings.ToLower(typ)
					if !(id.Name == lc || id.Name == lc[:1] || id.Name == "p" || id.Name == "up" || id.Name == "upstream" || id.Name == "host") {
						return true
					}
				}
				kind := "read"
				if atomicArgs[se] {
					kind = "atomic"
				} else if writes[se] {
					kind = "write"
				}
				out = append(out, access{p.name, typ, se.Sel.Name, fnName, kind, p.fset.Position(se.Pos()).Line})
				return true
			})
		}
	}
	return out
}

func emitAccess(pk map[string]*pkgInfo) string {
	// the refined table lives in access_c08.go; the first cut below is kept for reference
	if true {
		return emitAccessC08(pk)
	}
	type spec struct {
		pkg, typ string
		recvOnly bool
	}
	specs := []spec{
		{"l4proxy", "peer", false},
		{"l4proxy", "RoundRobinSelection", true},
		{"l4proxy", "Handler", true},
		{"l4openvpn", "MatchOpenVPN", true},
		{"layer4", "packetConn", true},
		{"l4throttle", "Handler", true},
		{"l4tee", "Handler", true},
		{"l4proxyprotocol", "Handler", true},
	}
	var all []access
	for _, s := range specs {
		if p := pk[s.pkg]; p != nil {
			all = append(all, collectAccesses(p, s.typ, s.recvOnly)...)
		}
	}
	sort.Slice(all, func(i, j int) bool {
		a, b := all[i], all[j]
		if a.pkg != b.pkg {
			return a.pkg < b.pkg
		}
		if a.typ != b.typ {
			return a.typ < b.typ
		}
		if a.field != b.field {
			return a.field < b.field
		}
		if a.fn != b.fn {
			return a.fn < b.fn
		}
		if a.kind != b.kind {
			return a.kind < b.kind
		}
		return a.line < b.line
	})
	var b bytes.Buffer
	b.WriteString("(* GENERATED by tools/l4gen from /repo's working tree. Do not edit. *)\n")
	b.WriteString("From Coq Require Import String List.\nImport ListNotations.\nOpen Scope string_scope.\n\n")
	b.WriteString("Inductive akind := AAtomic | ARead | AWrite.\n")
	b.WriteString("Record access := { a_loc : string; a_fn : string; a_kind : akind }.\n\n")
	b.WriteString("Definition table : list access := [\n")
	// dedupe on (loc, fn, kind): line numbers are deliberately not part of the table
	seen := map[string]bool{}
	first := true
	for _, a := range all {
		loc := a.pkg + "." + a.typ + "." + a.field
		k := map[string]string{"atomic": "AAtomic", "read": "ARead", "write": "AWrite"}[a.kind]
		key := loc + "|" + a.fn + "|" + k
		if seen[key] {
			continue
		}
		seen[key] = true
		if !first {
			b.WriteString(";\n")
		}
		first = false
		fmt.Fprintf(&b, "  {| a_loc := \"%s\"; a_fn := \"%s\"; a_kind := %s |}", loc, a.fn, k)
	}
	b.WriteString("\n].\n")
	return b.String()
}

// ---------- C05: where RouteList.Compile arms and clears the matching deadline ----------
//
// (appended by the C02/C05 builder) Facts about the handler function literal returned by
// RouteList.Compile:
//
//	layer4_compile_arms_at_loop_label    the statement labelled `loop:` is the assignment from
//	                                     cx.Conn.SetReadDeadline(deadline) and no other call arms it
//	layer4_compile_clears_on_match       the `if matched {` block calls SetReadDeadline(time.Time{})
//	                                     before handler.Handle
//	layer4_compile_clears_before_fallback the final fallback exit clears the deadline
//	layer4_compile_last_exit_clears_deadline  the `lastMatchedRouteIdx == len(routes)-1` exit
//	                                     clears the deadline (when nothing matched) before next.Handle
func shapeC05(l4 *pkgInfo) []fact {
	b2s := func(b bool) string {
		if b {
			return "true"
		}
		return "false"
	}
	fd := l4.findFunc("RouteList", "Compile")
	if fd == nil {
		return nil
	}
	const arm = "SetReadDeadline(deadline)"
	const clear = "SetReadDeadline(time.Time{})"
	armsAtLabel, armCalls := false, 0
	clearsOnMatch, lastExitClears, fallbackClears := false, false, false
	ast.Inspect(fd.Body, func(n ast.Node) bool {
		switch x := n.(type) {
		case *ast.LabeledStmt:
			if x.Label.Name == "loop" && contains(x.Stmt, l4, arm) {
				if _, isAssign := x.Stmt.(*ast.AssignStmt); isAssign {
					armsAtLabel = true
				}
			}
		case *ast.CallExpr:
			if strings.HasSuffix(l4.src(x), arm) {
				armCalls++
			}
		case *ast.IfStmt:
			cond := l4.src(x.Cond)
			body := l4.src(x.Body)
			if cond == "matched" {
				ci := strings.Index(body, clear)
				hi := strings.Index(body, "handler.Handle(cx)")
				clearsOnMatch = ci >= 0 && hi >= 0 && ci < hi
			}
			if strings.Contains(cond, "lastMatchedRouteIdx == len(routes)-1") {
				ci := strings.Index(body, clear)
				hi := strings.Index(body, "next.Handle(cx)")
				lastExitClears = ci >= 0 && hi >= 0 && ci < hi
			}
		case *ast.ForStmt:
			// the fallback exit is the tail of the outer `for {}` body
			if x.Cond == nil && x.Init == nil && x.Post == nil && len(x.Body.List) >= 2 {
				l := x.Body.List
				if rs, ok := l[len(l)-1].(*ast.ReturnStmt); ok && contains(rs, l4, "next.Handle(cx)") {
					for _, st := range l[len(l)-3:] {
						if contains(st, l4, clear) {
							if _, isIf := st.(*ast.IfStmt); !isIf {
								fallbackClears = true
							}
						}
					}
				}
			}
		}
		return true
	})
	// packetConn.Read: when the deadline timer ticks, is the stored deadline compared with the clock
	// again (a tick may be stale: left over from an earlier SetReadDeadline) before reporting a timeout?
	rechecks := false
	if rd := l4.findFunc("packetConn", "Read"); rd != nil {
		ast.Inspect(rd.Body, func(n ast.Node) bool {
			cc, ok := n.(*ast.CommClause)
			if !ok || cc.Comm == nil || !contains(cc.Comm, l4, "deadlineTimer.C") {
				return true
			}
			for _, st := range cc.Body {
				if is, ok := st.(*ast.IfStmt); ok && contains(is.Cond, l4, "isDeadlineExceeded(") && contains(is.Body, l4, "ErrDeadlineExceeded") {
					rechecks = true
				}
			}
			return true
		})
	}
	return []fact{
		{"layer4_pc_read_timer_tick_rechecks_deadline", "bool", b2s(rechecks), "packetConn.Read compares the stored deadline with the clock again when the deadline timer ticks (a tick may be stale)"},
		{"layer4_compile_arms_at_loop_label", "bool", b2s(armsAtLabel && armCalls == 1), "RouteList.Compile arms the matching deadline exactly once, at the `loop:` label (not per read)"},
		{"layer4_compile_clears_on_match", "bool", b2s(clearsOnMatch), "RouteList.Compile clears the deadline in `if matched` before running the route's handlers"},
		{"layer4_compile_clears_before_fallback", "bool", b2s(fallbackClears), "RouteList.Compile clears the deadline before the final fallback next.Handle"},
		{"layer4_compile_last_exit_clears_deadline", "bool", b2s(lastExitClears), "the `lastMatchedRouteIdx == len(routes)-1` exit of RouteList.Compile clears the deadline before next.Handle"},
	}
}

// ---------- C09: shape of the UDP server loop (appended by b-c09) ----------
//
// Channel capacities of servePacket, the statement list of packetConn.Close as op codes, and how
// the loop sends to / forgets an association. coq/model/Udp.v builds its configuration from these.
//
// Close op codes: 0 release lastPacket; 1 close(pc.readCh); 2 drain readCh with `range` (needs a
// closed channel to terminate); 3 notify the loop (pc.closeCh <- ...); 4 return; 5 signal closure
// without closing readCh (close(pc.closed), possibly under a sync.Once); 6 drain readCh without
// blocking (select with default); 9 anything else.
func shapeUDP(l4 *pkgInfo) []fact {
	var out []fact
	add := func(name, typ, val, comment string) { out = append(out, fact{name, typ, val, comment}) }
	b2s := func(b bool) string {
		if b {
			return "true"
		}
		return "false"
	}
	chanCap := func(e ast.Expr) (int, bool) {
		ce, ok := e.(*ast.CallExpr)
		if !ok {
			return 0, false
		}
		if id, ok := ce.Fun.(*ast.Ident); !ok || id.Name != "make" || len(ce.Args) == 0 {
			return 0, false
		}
		if _, ok := ce.Args[0].(*ast.ChanType); !ok {
			return 0, false
		}
		if len(ce.Args) < 2 {
			return 0, true
		}
		// a literal or any constant expression over the package's constants (a named capacity)
		if v, ok := l4.eval(ce.Args[1], 0); ok {
			if n, exact := constant.Int64Val(constant.ToInt(v)); exact {
				return int(n), true
			}
		}
		return -1, true
	}
	// every function / method of the package by name (methods of any receiver)
	byName := map[string][]*ast.FuncDecl{}
	for _, f := range l4.files {
		for _, d := range f.Decls {
			if fd, ok := d.(*ast.FuncDecl); ok && fd.Body != nil {
				byName[fd.Name.Name] = append(byName[fd.Name.Name], fd)
			}
		}
	}
	// callee of a call expression when it is a function or method of this package (unique by name)
	callee := func(ce *ast.CallExpr) *ast.FuncDecl {
		name := ""
		switch fn := ce.Fun.(type) {
		case *ast.Ident:
			name = fn.Name
		case *ast.SelectorExpr:
			name = fn.Sel.Name
		}
		if c := byName[name]; len(c) == 1 {
			return c[0]
		}
		return nil
	}
	// reach: the body of fd and, as if they were inlined, the bodies of the package's own functions
	// it calls (two levels; Server.handle and what lies behind it is the handler, not the loop)
	reach := func(fd *ast.FuncDecl) []ast.Node {
		seen := map[*ast.FuncDecl]bool{fd: true}
		nodes := []ast.Node{fd.Body}
		frontier := []*ast.FuncDecl{fd}
		for depth := 0; depth < 2; depth++ {
			var next []*ast.FuncDecl
			for _, f := range frontier {
				ast.Inspect(f.Body, func(n ast.Node) bool {
					if ce, ok := n.(*ast.CallExpr); ok {
						if c := callee(ce); c != nil && !seen[c] && c.Name.Name != "handle" && c.Name.Name != "Handle" {
							seen[c] = true
							nodes = append(nodes, c.Body)
							next = append(next, c)
						}
						// a method value handed to sync.Once.Do and the like
						for _, a := range ce.Args {
							if se, ok := a.(*ast.SelectorExpr); ok {
								if c := byName[se.Sel.Name]; len(c) == 1 && !seen[c[0]] {
									seen[c[0]] = true
									nodes = append(nodes, c[0].Body)
									next = append(next, c[0])
								}
							}
						}
					}
					return true
				})
			}
			frontier = next
		}
		return nodes
	}
	srcAll := func(nodes []ast.Node) string {
		var b strings.Builder
		for _, n := range nodes {
			b.WriteString(l4.src(n))
			b.WriteString("\n")
		}
		return b.String()
	}
	pcFields := structFields(l4, "packetConn")

	if fd := l4.findFunc("Server", "servePacket"); fd != nil {
		nodes := reach(fd)
		caps := map[string]int{"packets": -1, "closeCh": -1, "readCh": -1}
		closeElem := ""
		// a channel is recognised by the name it is bound to, else by its element type
		bind := func(name string, e ast.Expr) {
			c, ok := chanCap(e)
			if !ok {
				return
			}
			elem := strings.ReplaceAll(l4.src(e.(*ast.CallExpr).Args[0].(*ast.ChanType).Value), " ", "")
			if _, want := caps[name]; !want {
				switch elem {
				case "packet":
					name = "packets"
				case "*packet":
					name = "readCh"
				case "string", "*packetConn":
					name = "closeCh"
				default:
					return
				}
			}
			if caps[name] < 0 {
				caps[name] = c
			}
			if name == "closeCh" {
				closeElem = elem
			}
		}
		for _, nd := range nodes {
			ast.Inspect(nd, func(n ast.Node) bool {
				switch x := n.(type) {
				case *ast.AssignStmt:
					if len(x.Lhs) == len(x.Rhs) {
						for i := range x.Lhs {
							switch l := x.Lhs[i].(type) {
							case *ast.Ident:
								bind(l.Name, x.Rhs[i])
							case *ast.SelectorExpr:
								bind(l.Sel.Name, x.Rhs[i])
							}
						}
					}
				case *ast.ValueSpec:
					if len(x.Names) == len(x.Values) {
						for i := range x.Names {
							bind(x.Names[i].Name, x.Values[i])
						}
					}
				case *ast.KeyValueExpr:
					if id, ok := x.Key.(*ast.Ident); ok {
						bind(id.Name, x.Value)
					}
				}
				return true
			})
		}
		if closeElem == "" {
			// second form: the declared type of the field the notifications are sent on
			if t := strings.ReplaceAll(pcFields["closeCh"], " ", ""); strings.HasPrefix(t, "chan") {
				closeElem = strings.TrimPrefix(strings.TrimPrefix(t, "chan<-"), "chan")
			}
		}
		add("layer4_udp_cap_packets", "Z", fmt.Sprintf("(%d)", caps["packets"]), "capacity of the packets channel in servePacket (-1: not found)")
		add("layer4_udp_cap_closeCh", "Z", fmt.Sprintf("(%d)", caps["closeCh"]), "capacity of closeCh in servePacket (-1: not found)")
		add("layer4_udp_cap_readCh", "Z", fmt.Sprintf("(%d)", caps["readCh"]), "capacity of packetConn.readCh as created in servePacket (-1: not found)")
		add("layer4_udp_close_notify_identity", "bool", b2s(closeElem != "" && closeElem != "string"),
			"closeCh carries the association itself (not its address string), so the loop can tell a stale notification")

		// how does the loop send to conn.readCh, does it look at conn.closed before using a table entry,
		// and is the delete guarded by the identity of the notifying association?
		guarded, plain, skips, deleteChecked, deletes := false, false, false, false, 0
		isReadChSend := func(st ast.Stmt) bool {
			ss, ok := st.(*ast.SendStmt)
			return ok && strings.HasSuffix(l4.src(ss.Chan), ".readCh")
		}
		mentionsClosed := func(s string) bool { return strings.Contains(s, "isClosed()") || strings.Contains(s, ".closed") }
		leaves := func(b *ast.BlockStmt) bool {
			if b == nil || len(b.List) == 0 {
				return false
			}
			switch x := b.List[len(b.List)-1].(type) {
			case *ast.BranchStmt:
				return x.Tok == token.CONTINUE || x.Tok == token.BREAK || x.Tok == token.GOTO
			case *ast.ReturnStmt:
				return true
			}
			return false
		}
		hasDelete := func(n ast.Node) bool { return n != nil && strings.Contains(l4.src(n), "delete(udpConns") }
		identityCmp := func(hdr, op string) bool {
			h := strings.ReplaceAll(hdr, " ", "")
			return strings.Contains(h, "udpConns[") && strings.Contains(h, op)
		}
		var walk func(n ast.Node)
		walk = func(n ast.Node) {
			ast.Inspect(n, func(m ast.Node) bool {
				switch x := m.(type) {
				case *ast.SelectStmt:
					hasClosed, hasDefault := false, false
					for _, c := range x.Body.List {
						cc := c.(*ast.CommClause)
						if cc.Comm == nil {
							hasDefault = true
						} else if !isReadChSend(cc.Comm) && strings.Contains(l4.src(cc.Comm), ".closed") {
							hasClosed = true
						}
					}
					for _, c := range x.Body.List {
						cc := c.(*ast.CommClause)
						if cc.Comm != nil && isReadChSend(cc.Comm) {
							if hasClosed {
								guarded = true
							} else {
								plain = true
							}
						}
						for _, b := range cc.Body {
							walk(b)
						}
					}
					if hasClosed && hasDefault {
						skips = true // a non-blocking look at conn.closed
					}
					return false
				case *ast.SendStmt:
					if isReadChSend(x) {
						plain = true
					}
				case *ast.IfStmt:
					hdr := l4.src(x.Cond)
					if x.Init != nil {
						hdr = l4.src(x.Init) + ";" + hdr
					}
					if mentionsClosed(hdr) {
						skips = true
					}
					if identityCmp(hdr, "==") && hasDelete(x.Body) {
						deleteChecked = true
					}
				case *ast.CaseClause:
					for _, e := range x.List {
						if mentionsClosed(l4.src(e)) {
							skips = true
						}
					}
				case *ast.BlockStmt:
					// `if udpConns[k] != conn { continue }` (or break / return) in front of the delete
					for i, st := range x.List {
						if is, ok := st.(*ast.IfStmt); ok && is.Else == nil && leaves(is.Body) {
							hdr := l4.src(is.Cond)
							if is.Init != nil {
								hdr = l4.src(is.Init) + ";" + hdr
							}
							if identityCmp(hdr, "!=") {
								for _, later := range x.List[i+1:] {
									if hasDelete(later) {
										deleteChecked = true
									}
								}
							}
						}
					}
				case *ast.CallExpr:
					if id, ok := x.Fun.(*ast.Ident); ok && id.Name == "delete" && len(x.Args) > 0 && l4.src(x.Args[0]) == "udpConns" {
						deletes++
					}
				}
				return true
			})
		}
		for _, nd := range nodes {
			walk(nd)
		}
		// a CommClause of the outer select is a block of statements as well
		for _, nd := range nodes {
			ast.Inspect(nd, func(m ast.Node) bool {
				if cc, ok := m.(*ast.CommClause); ok {
					blk := &ast.BlockStmt{List: cc.Body}
					for i, st := range blk.List {
						if is, ok := st.(*ast.IfStmt); ok && is.Else == nil && leaves(is.Body) && identityCmp(l4.src(is.Cond), "!=") {
							for _, later := range blk.List[i+1:] {
								if hasDelete(later) {
									deleteChecked = true
								}
							}
						}
					}
				}
				return true
			})
		}
		add("layer4_udp_loop_send_guarded", "bool", b2s(guarded && !plain), "every send to conn.readCh in servePacket is a select case next to a receive from conn.closed")
		add("layer4_udp_loop_skips_closed", "bool", b2s(skips), "servePacket tests whether the association found in udpConns has already ended before using it")
		add("layer4_udp_loop_delete_checked", "bool", b2s(deleteChecked && deletes == 1), "the only delete(udpConns, ...) is guarded by a comparison of the table entry with the notifying association")
	}
	if fd := l4.findFunc("packetConn", "Close"); fd != nil {
		// classify Close by what each statement does to the modelled state (readCh, closed, closeCh,
		// lastPacket); statements that touch none of it are not part of the model; a call of one of the
		// package's own methods is classified through its body; deferred statements run last
		touches := func(s string) bool {
			for _, w := range []string{"readCh", "closeCh", "closed", "closeOnce", "lastPacket", "lastBuf"} {
				if strings.Contains(s, w) {
					return true
				}
			}
			return false
		}
		var classify func(list []ast.Stmt, depth int) (codes []int, deferred []int)
		classifyOne := func(st ast.Stmt) int {
			if ls, ok := st.(*ast.LabeledStmt); ok {
				st = ls.Stmt
			}
			s := l4.src(st)
			flat := strings.Join(strings.Fields(s), " ")
			switch x := st.(type) {
			case *ast.IfStmt:
				hdr := l4.src(x.Cond)
				if x.Init != nil {
					hdr = l4.src(x.Init) + ";" + hdr
				}
				if strings.Contains(hdr, "lastPacket") && strings.Contains(hdr, "nil") && strings.Contains(s, "udpBufPool.Put(") &&
					strings.Contains(flat, "pc.lastPacket = nil") && x.Else == nil && !strings.Contains(s, "<-") && !strings.Contains(s, "close(") {
					return 0
				}
			case *ast.ExprStmt:
				switch {
				case flat == "close(pc.readCh)":
					return 1
				case strings.Contains(flat, "close(pc.closed)") && !strings.Contains(flat, "readCh") && !strings.Contains(flat, "closeCh"):
					return 5
				}
			case *ast.RangeStmt:
				if l4.src(x.X) == "pc.readCh" && strings.Contains(s, "udpBufPool.Put(") && !strings.Contains(s, "<-") && !strings.Contains(s, "close(") {
					return 2
				}
			case *ast.SendStmt:
				if l4.src(x.Chan) == "pc.closeCh" {
					return 3
				}
			case *ast.ReturnStmt:
				return 4
			case *ast.ForStmt:
				// for { select { case pkt := <-pc.readCh: Put; default: <leave the loop> } }, flag-driven or with a labeled break / return
				if strings.Contains(s, "<-pc.readCh") && strings.Contains(s, "default:") && strings.Contains(s, "udpBufPool.Put(") && !strings.Contains(s, "close(") && !strings.Contains(s, "pc.closeCh") {
					return 6
				}
			}
			return 9
		}
		classify = func(list []ast.Stmt, depth int) (codes []int, deferred []int) {
			for _, st := range list {
				if ls, ok := st.(*ast.LabeledStmt); ok {
					st = ls.Stmt
				}
				if ds, ok := st.(*ast.DeferStmt); ok {
					var body []ast.Stmt
					if fl, ok := ds.Call.Fun.(*ast.FuncLit); ok {
						body = fl.Body.List
					} else {
						body = []ast.Stmt{&ast.ExprStmt{X: ds.Call}}
					}
					c, _ := classify(body, depth)
					deferred = append(append([]int{}, c...), deferred...) // LIFO
					continue
				}
				code := classifyOne(st)
				if code == 9 {
					// one of the package's own methods / functions: what its body does
					if es, ok := st.(*ast.ExprStmt); ok && depth < 2 {
						if ce, ok := es.X.(*ast.CallExpr); ok {
							cands := []*ast.FuncDecl{callee(ce)}
							for _, a := range ce.Args { // pc.closeOnce.Do(pc.signal)
								if se, ok := a.(*ast.SelectorExpr); ok {
									if c := byName[se.Sel.Name]; len(c) == 1 {
										cands = append(cands, c[0])
									}
								}
							}
							done := false
							for _, c := range cands {
								if c != nil && c.Name.Name != "Close" {
									cc, dd := classify(c.Body.List, depth+1)
									for len(cc) > 0 && cc[len(cc)-1] == 4 {
										cc = cc[:len(cc)-1]
									}
									codes = append(append(codes, cc...), dd...)
									done = true
									break
								}
							}
							if done {
								continue
							}
						}
					}
					if !touches(l4.src(st)) {
						continue // does not touch the modelled state
					}
				}
				codes = append(codes, code)
			}
			return
		}
		cs, ds := classify(fd.Body.List, 0)
		// deferred statements run when the function returns: before the final `return` of the list
		if len(ds) > 0 {
			if n := len(cs); n > 0 && cs[n-1] == 4 {
				cs = append(append(cs[:n-1:n-1], ds...), 4)
			} else {
				cs = append(cs, ds...)
			}
		}
		val := "nil"
		for i := len(cs) - 1; i >= 0; i-- {
			val = "(cons " + fmt.Sprint(cs[i]) + " " + val + ")"
		}
		add("layer4_pc_close_ops", "list Z", val, "packetConn.Close statement by statement: 0 release lastPacket, 1 close(readCh), 2 drain by range, 3 notify loop, 4 return, 5 signal closed, 6 non-blocking drain, 9 other")
	}
	if fd := l4.findFunc("packetConn", "Read"); fd != nil {
		nodes := reach(fd)
		s := srcAll(nodes)
		add("layer4_pc_read_selects_closed", "bool", b2s(strings.Contains(s, "<-pc.closed")), "packetConn.Read has a select case on pc.closed")
		// the two places that lead to the EOF path: a nil packet (closed readCh) and the idle timer
		add("layer4_pc_read_eof_notifies", "bool", b2s(strings.Contains(s, "pc.closeCh <-")), "packetConn.Read notifies the loop before returning io.EOF")
		// is every notification in Read a plain (blocking) send, or a case of a select that has a default branch (can be lost)?
		blocking := true
		for _, nd := range nodes {
			ast.Inspect(nd, func(n ast.Node) bool {
				sel, ok := n.(*ast.SelectStmt)
				if !ok {
					return true
				}
				hasSend, hasDefault := false, false
				for _, c := range sel.Body.List {
					cc := c.(*ast.CommClause)
					if cc.Comm == nil {
						hasDefault = true
					} else if ss, ok := cc.Comm.(*ast.SendStmt); ok && strings.HasSuffix(l4.src(ss.Chan), "closeCh") {
						hasSend = true
					}
				}
				if hasSend && hasDefault {
					blocking = false
				}
				return true
			})
		}
		add("layer4_pc_read_notify_blocking", "bool", b2s(blocking), "the notification packetConn.Read sends before io.EOF is a blocking send (not a select case next to a default branch, which would drop it when closeCh is full)")
	}
	return out
}

// ---------- C03/C11: method sets of the connection wrappers, call sites of the peer counters (appended by b-c03) ----------
//
// coq/model/Relay.v computes "does CloseWrite on down.Conn reach the transport" from the method
// sets of the wrapper types; coq/model/Health.v reads whether connections are counted and the
// shape of the forgetter / tryAgain.
func shapeRelayHealth(pk map[string]*pkgInfo) []fact {
	var out []fact
	add := func(name, typ, val, comment string) { out = append(out, fact{name, typ, val, comment}) }
	b2s := func(b bool) string {
		if b {
			return "true"
		}
		return "false"
	}
	hasMethod := func(pkg, recv, name string) bool {
		p := pk[pkg]
		return p != nil && p.findFunc(recv, name) != nil
	}
	add("layer4_Connection_has_CloseWrite", "bool", b2s(hasMethod("layer4", "Connection", "CloseWrite")), "*layer4.Connection declares a CloseWrite method (its embedded net.Conn interface does not promote one)")
	add("l4throttle_throttledConn_has_CloseWrite", "bool", b2s(hasMethod("l4throttle", "throttledConn", "CloseWrite")), "l4throttle.throttledConn declares a CloseWrite method")
	add("l4tee_nextConn_has_CloseWrite", "bool", b2s(hasMethod("l4tee", "nextConn", "CloseWrite")), "l4tee.nextConn declares a CloseWrite method")
	add("l4proxyprotocol_conn_has_CloseWrite", "bool", b2s(ppWrapperHasCloseWrite(pk["l4proxyprotocol"])), "the connection the proxy_protocol handler passes to cx.Wrap is a local struct type embedding *proxyprotocol.Conn that declares CloseWrite")
	px := pk["l4proxy"]
	if px != nil {
		// peer.countConn(+1)/(-1) reached from Handler.Handle, through same-package helpers (inlined, with
		// constant arguments resolved at the call site)
		up, down := 0, 0
		stop := map[string]bool{"countConn": true, "countFail": true}
		if fd := px.findFunc("Handler", "Handle"); fd != nil {
			for _, l := range px.inlinedLeaves(fd, stop, 3) {
				if l.name == "countConn" && len(l.args) == 1 {
					switch l.args[0] {
					case "1", "+1":
						up++
					case "-1":
						down++
					}
				}
			}
		}
		add("l4proxy_countConn_up_calls", "Z", fmt.Sprint(up), "calls peer.countConn(1) reached from Handler.Handle (same-package helpers inlined)")
		add("l4proxy_countConn_down_calls", "Z", fmt.Sprint(down), "calls peer.countConn(-1) reached from Handler.Handle (same-package helpers inlined)")
		if fd := px.findFunc("Handler", "countFailure"); fd != nil {
			ls := px.inlinedLeaves(fd, stop, 3)
			incNow, decLater, decOther, otherFail := 0, 0, 0, 0
			sleepsExactly := false
			for i, l := range ls {
				if l.name != "countFail" || len(l.args) != 1 {
					continue
				}
				switch {
				case (l.args[0] == "1" || l.args[0] == "+1") && l.goID == 0:
					incNow++
				case l.args[0] == "-1" && l.goID != 0:
					decLater++
					// the last sleep before it in the same goroutine
					for k := i - 1; k >= 0; k-- {
						if ls[k].goID == l.goID && ls[k].full == "time.Sleep" && len(ls[k].args) == 1 {
							sleepsExactly = ls[k].args[0] == "time.Duration(h.HealthChecks.Passive.FailDuration)"
							break
						}
					}
				case l.args[0] == "-1":
					decOther++
				default:
					otherFail++
				}
			}
			add("l4proxy_forgetter_sleeps_fail_duration", "bool", b2s(sleepsExactly && decLater == 1), "the forgetter goroutine started by countFailure sleeps exactly Passive.FailDuration before countFail(-1) (helpers inlined)")
			add("l4proxy_countFailure_up_down", "bool", b2s(incNow == 1 && decLater == 1 && decOther == 0 && otherFail == 0), "countFailure calls countFail(1) once itself and countFail(-1) once in the goroutine it starts (helpers inlined)")
		}
		if fd := px.findFunc("LoadBalancing", "tryAgain"); fd != nil {
			s := px.src(fd.Body)
			add("l4proxy_tryAgain_compares_try_duration", "bool", b2s(strings.Contains(s, "time.Since(start) >= time.Duration(lb.TryDuration)")), "tryAgain stops when time.Since(start) >= TryDuration")
			add("l4proxy_tryAgain_sleeps_try_interval", "bool", b2s(strings.Contains(s, "time.After(time.Duration(lb.TryInterval))")), "tryAgain waits TryInterval before the next attempt")
		}
	}
	return out
}

// ppWrapperHasCloseWrite: does Handler.Handle of package l4proxyprotocol hand a value of a local
// struct type that embeds (*)proxyprotocol.Conn and declares a CloseWrite method to cx.Wrap?
// (appended by b-c03)
func ppWrapperHasCloseWrite(p *pkgInfo) bool {
	if p == nil {
		return false
	}
	// local struct types embedding proxyprotocol.Conn
	wrappers := map[string]bool{}
	for _, f := range p.files {
		for _, d := range f.Decls {
			gd, ok := d.(*ast.GenDecl)
			if !ok || gd.Tok != token.TYPE {
				continue
			}
			for _, sp := range gd.Specs {
				ts := sp.(*ast.TypeSpec)
				st, ok := ts.Type.(*ast.StructType)
				if !ok {
					continue
				}
				for _, fld := range st.Fields.List {
					if len(fld.Names) != 0 {
						continue
					}
					t := fld.Type
					if se, ok := t.(*ast.StarExpr); ok {
						t = se.X
					}
					if sel, ok := t.(*ast.SelectorExpr); ok && sel.Sel.Name == "Conn" {
						if id, ok := sel.X.(*ast.Ident); ok && id.Name == "proxyprotocol" {
							wrappers[ts.Name.Name] = true
						}
					}
				}
			}
		}
	}
	litType := func(e ast.Expr) string {
		if ue, ok := e.(*ast.UnaryExpr); ok && ue.Op == token.AND {
			e = ue.X
		}
		if cl, ok := e.(*ast.CompositeLit); ok {
			if id, ok := cl.Type.(*ast.Ident); ok {
				return id.Name
			}
		}
		return ""
	}
	fd := p.findFunc("Handler", "Handle")
	if fd == nil {
		return false
	}
	// what each local variable of Handle was last assigned from a composite literal
	assigned := map[string]string{}
	wrapped := ""
	ast.Inspect(fd.Body, func(n ast.Node) bool {
		switch x := n.(type) {
		case *ast.AssignStmt:
			for i, l := range x.Lhs {
				if id, ok := l.(*ast.Ident); ok && i < len(x.Rhs) {
					if t := litType(x.Rhs[i]); t != "" {
						assigned[id.Name] = t
					} else {
						delete(assigned, id.Name)
					}
				}
			}
		case *ast.CallExpr:
			if se, ok := x.Fun.(*ast.SelectorExpr); ok && se.Sel.Name == "Wrap" && len(x.Args) == 1 {
				if t := litType(x.Args[0]); t != "" {
					wrapped = t
				} else if id, ok := x.Args[0].(*ast.Ident); ok {
					wrapped = assigned[id.Name]
				} else {
					wrapped = ""
				}
			}
		}
		return true
	})
	return wrapped != "" && wrappers[wrapped] && p.findFunc(wrapped, "CloseWrite") != nil
}

// ---------- inlining of same-package helpers for the call-site facts (appended by b-c03) ----------

// leaf is a call that is not inlined: name = selector or identifier called, full = printed callee,
// args = printed arguments with parameters and simple local definitions resolved, goID != 0 when the
// call happens in a goroutine started (directly or through helpers) by the analysed function
type leaf struct {
	name, full string
	args       []string
	goID       int
	deferred   bool
}

func isIdentByte(c byte) bool {
	return c == '_' || (c >= '0' && c <= '9') || (c >= 'a' && c <= 'z') || (c >= 'A' && c <= 'Z')
}

// substIdents replaces free identifiers (not field selectors) that are keys of env
func substIdents(src string, env map[string]string) string {
	var b strings.Builder
	for i := 0; i < len(src); {
		c := src[i]
		if isIdentByte(c) && !(c >= '0' && c <= '9') {
			j := i
			for j < len(src) && isIdentByte(src[j]) {
				j++
			}
			id := src[i:j]
			if v, ok := env[id]; ok && (i == 0 || src[i-1] != '.') {
				if strings.ContainsAny(strings.TrimPrefix(v, "-"), " +-*/%&|<>") {
					b.WriteString("(" + v + ")")
				} else {
					b.WriteString(v)
				}
			} else {
				b.WriteString(id)
			}
			i = j
			continue
		}
		if c >= '0' && c <= '9' { // a number (do not look inside for identifiers)
			j := i
			for j < len(src) && (isIdentByte(src[j]) || src[j] == '.') {
				j++
			}
			b.WriteString(src[i:j])
			i = j
			continue
		}
		b.WriteByte(c)
		i++
	}
	return b.String()
}

func normExpr(s string) string {
	s = strings.Join(strings.Fields(s), "")
	for len(s) >= 2 && s[0] == '(' && s[len(s)-1] == ')' {
		depth, ok := 0, true
		for i := 0; i < len(s)-1; i++ {
			if s[i] == '(' {
				depth++
			} else if s[i] == ')' {
				depth--
			}
			if depth == 0 {
				ok = false
				break
			}
		}
		if !ok {
			break
		}
		s = s[1 : len(s)-1]
	}
	return s
}

func (p *pkgInfo) declsNamed(name string) []*ast.FuncDecl {
	var out []*ast.FuncDecl
	for _, f := range p.files {
		for _, d := range f.Decls {
			if fd, ok := d.(*ast.FuncDecl); ok && fd.Name.Name == name && fd.Body != nil {
				out = append(out, fd)
			}
		}
	}
	return out
}

func paramNames(ft *ast.FuncType) []string {
	var ns []string
	if ft.Params == nil {
		return ns
	}
	for _, f := range ft.Params.List {
		if len(f.Names) == 0 {
			ns = append(ns, "_")
		}
		for _, n := range f.Names {
			ns = append(ns, n.Name)
		}
	}
	return ns
}

// inlinedLeaves lists, in source order, the calls made by fd with calls to same-package functions and
// methods (resolved by name when the name is unique in the package and not in stop) and function
// literals replaced by their bodies, up to the given depth
func (p *pkgInfo) inlinedLeaves(fd *ast.FuncDecl, stop map[string]bool, depth int) []leaf {
	var out []leaf
	goSeq := 0
	var walk func(n ast.Node, env map[string]string, depth, goID int, deferred bool)
	var call func(ce *ast.CallExpr, env map[string]string, depth, goID int, deferred bool)
	bind := func(ft *ast.FuncType, args []ast.Expr, env, base map[string]string) map[string]string {
		ne := map[string]string{}
		for k, v := range base {
			ne[k] = v
		}
		ns := paramNames(ft)
		for i, n := range ns {
			if i < len(args) && n != "_" {
				ne[n] = normExpr(substIdents(p.src(args[i]), env))
			} else {
				delete(ne, n)
			}
		}
		return ne
	}
	call = func(ce *ast.CallExpr, env map[string]string, depth, goID int, deferred bool) {
		for _, a := range ce.Args {
			walk(a, env, depth, goID, deferred)
		}
		switch fn := ce.Fun.(type) {
		case *ast.FuncLit:
			walk(fn.Body, bind(fn.Type, ce.Args, env, env), depth, goID, deferred)
			return
		case *ast.Ident, *ast.SelectorExpr:
			name := ""
			if id, ok := fn.(*ast.Ident); ok {
				name = id.Name
			} else {
				se := fn.(*ast.SelectorExpr)
				name = se.Sel.Name
				walk(se.X, env, depth, goID, deferred)
				if x, ok := se.X.(*ast.Ident); ok && (x.Name == "time" || x.Name == "atomic" || x.Name == "net" || x.Name == "fmt" || x.Name == "log" || x.Name == "zap") {
					// a call into another package that happens to share a name with a local function
					args := make([]string, len(ce.Args))
					for i, a := range ce.Args {
						args[i] = normExpr(substIdents(p.src(a), env))
					}
					out = append(out, leaf{name: name, full: p.src(fn), args: args, goID: goID, deferred: deferred})
					return
				}
			}
			if ds := p.declsNamed(name); len(ds) == 1 && !stop[name] && depth > 0 {
				// the callee's own locals shadow the caller's: start from the parameters only
				walk(ds[0].Body, bind(ds[0].Type, ce.Args, env, map[string]string{}), depth-1, goID, deferred)
				return
			}
			args := make([]string, len(ce.Args))
			for i, a := range ce.Args {
				args[i] = normExpr(substIdents(p.src(a), env))
			}
			out = append(out, leaf{name: name, full: p.src(fn), args: args, goID: goID, deferred: deferred})
		default:
			walk(ce.Fun, env, depth, goID, deferred)
		}
	}
	walk = func(n ast.Node, env map[string]string, depth, goID int, deferred bool) {
		if n == nil {
			return
		}
		ast.Inspect(n, func(x ast.Node) bool {
			switch y := x.(type) {
			case *ast.GoStmt:
				goSeq++
				call(y.Call, env, depth, goSeq, deferred)
				return false
			case *ast.DeferStmt:
				call(y.Call, env, depth, goID, true)
				return false
			case *ast.CallExpr:
				call(y, env, depth, goID, deferred)
				return false
			case *ast.FuncLit:
				// a literal that is not called on the spot (stored, passed on): its body may run
				walk(y.Body, env, depth, goID, deferred)
				return false
			case *ast.AssignStmt:
				for _, r := range y.Rhs {
					walk(r, env, depth, goID, deferred)
				}
				if len(y.Lhs) == len(y.Rhs) {
					for i, l := range y.Lhs {
						if id, ok := l.(*ast.Ident); ok && id.Name != "_" {
							if _, isCall := y.Rhs[i].(*ast.CallExpr); isCall && !strings.HasPrefix(p.src(y.Rhs[i]), "time.Duration(") {
								delete(env, id.Name) // the result of a call is not a constant of the source
							} else {
								env[id.Name] = normExpr(substIdents(p.src(y.Rhs[i]), env))
							}
						}
					}
				} else {
					for _, l := range y.Lhs {
						if id, ok := l.(*ast.Ident); ok {
							delete(env, id.Name)
						}
					}
				}
				return false
			}
			return true
		})
	}
	walk(fd.Body, map[string]string{}, depth, 0, false)
	return out
}
