package main

// C08 (owned by the C08/C13 builder): the refined shared-state access table (Access.v) and the
// pool life-cycle facts that Shape.v needs for model/Pool.v.
//
// Access.v lists the syntactic accesses to locations that are shared between goroutines serving
// connections:
//
//   (1) fields of every Caddy module struct (any type with a CaddyModule method, in any package
//       under modules/ and layer4) accessed through the receiver in code that runs per connection,
//       i.e. in a function that is reachable from a run-time entry point (a method that no
//       set-up function exclusively calls, or the body of a `go` statement started from set-up
//       code such as the health checker).  One module value serves all connections, so every
//       such access site may run in many threads at once (a_many = true);
//   (2) fields of l4proxy.peer (shared by all connections proxied to the peer and the health
//       checker) and RoundRobinSelection.robin;
//   (3) layer4.packetConn.deadline: Read against SetReadDeadline (one thread each per packetConn);
//   (4) the fields of layer4.Connection touched by Connection.Read / Connection.Write, attributed
//       to the goroutines that l4proxy's Handler.proxy starts: the per-upstream copier (started
//       in a loop: many per Connection) calls down.Write, the single downstream pump calls
//       down.Read.  The handler goroutine itself is ordered with them by the go statements and
//       wg.Wait()/channel receive, so its own accesses are not listed.
//
// Two entries are taken to be concurrent when they belong to different sites (a_fn) or to the
// same site with a_many = true.  readonly_after_provision lists the locations of kind (1) that
// are assigned in set-up code and only read afterwards.

import (
	"bytes"
	"fmt"
	"go/ast"
	"go/constant"
	"go/token"
	"sort"
	"strconv"
	"strings"
)

// ---------- Shape facts ----------

func shapeC08(pk map[string]*pkgInfo) []fact {
	b2s := func(b bool) string {
		if b {
			return "true"
		}
		return "false"
	}
	var out []fact
	tee, l4 := pk["l4tee"], pk["layer4"]
	if tee != nil && l4 != nil {
		aliases := true
		if fd := tee.findFunc("Handler", "Handle"); fd != nil {
			wrapShares := true
			if w := l4.findFunc("Connection", "Wrap"); w != nil {
				ws := l4.src(w.Body)
				wrapShares = strings.Contains(ws, "cx.buf") && !strings.Contains(ws, "cx.buf = ")
			}
			// name of the *layer4.Connection parameter
			cxName := ""
			for _, f := range fd.Type.Params.List {
				if strings.Contains(tee.src(f.Type), "layer4.Connection") && len(f.Names) > 0 {
					cxName = f.Names[0].Name
				}
			}
			// any `x := *cx` / `var x = *cx` copies the struct, and with it the slice header of buf
			structCopy, usesWrap, usesWrapConnection := false, false, false
			isDeref := func(e ast.Expr) bool {
				if st, ok := e.(*ast.StarExpr); ok {
					if id, ok := st.X.(*ast.Ident); ok && id.Name == cxName {
						return true
					}
				}
				return false
			}
			ast.Inspect(fd.Body, func(n ast.Node) bool {
				switch v := n.(type) {
				case *ast.AssignStmt:
					for _, r := range v.Rhs {
						if isDeref(r) {
							structCopy = true
						}
					}
				case *ast.ValueSpec:
					for _, r := range v.Values {
						if isDeref(r) {
							structCopy = true
						}
					}
				case *ast.CompositeLit:
					// layer4.Connection{...} built by hand cannot set the unexported buf: no alias
				case *ast.CallExpr:
					if se, ok := v.Fun.(*ast.SelectorExpr); ok {
						if id, ok := se.X.(*ast.Ident); ok && id.Name == cxName && se.Sel.Name == "Wrap" {
							usesWrap = true
						}
						if se.Sel.Name == "WrapConnection" {
							usesWrapConnection = true
						}
					}
				}
				return true
			})
			switch {
			case structCopy:
				aliases = true
			case usesWrap:
				aliases = wrapShares
			case usesWrapConnection:
				// WrapConnection(conn, buf, ...) takes the buffer as an argument: assume the worst
				aliases = true
			default:
				aliases = true // shape not recognised
			}
		}
		out = append(out, fact{"l4tee_branch_aliases_buf", "bool", b2s(aliases),
			"the tee branch Connection shares cx.buf's backing array with the Connection of the main chain"})
	}
	// listener.handle: the array goes back to the pool exactly when the connection was not hijacked:
	//   defer func() { if !errors.Is(err, errHijacked) { bufPool.Put(buf) } }()
	// and nowhere else in the function
	if l4 != nil {
		exact := false
		if fd := l4.findFunc("listener", "handle"); fd != nil {
			puts := 0
			ast.Inspect(fd.Body, func(n ast.Node) bool {
				if ce, ok := n.(*ast.CallExpr); ok && l4.src(ce.Fun) == "bufPool.Put" {
					puts++
				}
				return true
			})
			for _, st := range fd.Body.List {
				ds, ok := st.(*ast.DeferStmt)
				if !ok {
					continue
				}
				fl, ok := ds.Call.Fun.(*ast.FuncLit)
				if !ok || len(fl.Body.List) != 1 {
					continue
				}
				is, ok := fl.Body.List[0].(*ast.IfStmt)
				if !ok || is.Else != nil || is.Init != nil || len(is.Body.List) != 1 {
					continue
				}
				cond := strings.Join(strings.Fields(l4.src(is.Cond)), "")
				body := strings.Join(strings.Fields(l4.src(is.Body.List[0])), "")
				if (cond == "!errors.Is(err,errHijacked)" || cond == "err!=errHijacked") && body == "bufPool.Put(buf)" && puts == 1 {
					exact = true
				}
			}
		}
		out = append(out, fact{"layer4_listener_handle_put_iff_not_hijacked", "bool", b2s(exact),
			"listener.handle returns its array to bufPool in exactly one place: a deferred `if !errors.Is(err, errHijacked) { bufPool.Put(buf) }`"})
		// Server.handle: exactly one bufPool.Put, deferred, at top level
		one := false
		if fd := l4.findFunc("Server", "handle"); fd != nil {
			puts, deferred := 0, 0
			ast.Inspect(fd.Body, func(n ast.Node) bool {
				if ce, ok := n.(*ast.CallExpr); ok && l4.src(ce.Fun) == "bufPool.Put" {
					puts++
				}
				return true
			})
			for _, st := range fd.Body.List {
				if ds, ok := st.(*ast.DeferStmt); ok && strings.Join(strings.Fields(l4.src(ds.Call)), "") == "bufPool.Put(buf)" {
					deferred++
				}
			}
			one = puts == 1 && deferred == 1
		}
		out = append(out, fact{"layer4_server_handle_put_once_deferred", "bool", b2s(one),
			"Server.handle returns its array to bufPool in exactly one place: a top-level `defer bufPool.Put(buf)`"})
		// prefetch: cx.buf only ever becomes a reslice of itself or the result of append(cx.buf, ...)
		// (never the temporary pooled chunk)
		okAssign := false
		if fd := l4.findFunc("Connection", "prefetch"); fd != nil {
			okAssign = true
			ast.Inspect(fd.Body, func(n ast.Node) bool {
				as, ok := n.(*ast.AssignStmt)
				if !ok {
					return true
				}
				for i, lh := range as.Lhs {
					if strings.Join(strings.Fields(l4.src(lh)), "") != "cx.buf" || i >= len(as.Rhs) {
						continue
					}
					r := strings.Join(strings.Fields(l4.src(as.Rhs[i])), "")
					if !(strings.HasPrefix(r, "cx.buf[:") || strings.HasPrefix(r, "append(cx.buf,")) {
						okAssign = false
					}
				}
				return true
			})
		}
		out = append(out, fact{"layer4_prefetch_buf_only_grows_itself", "bool", b2s(okAssign),
			"Connection.prefetch assigns cx.buf only a reslice of cx.buf or append(cx.buf, ...): the temporary pooled chunk never becomes the buffer"})
	}
	out = append(out, shapeC08Udp(l4)...)
	out = append(out, shapeC13Wg(l4)...)
	return out
}

// C13: where the listener wrapper registers a handle goroutine with its WaitGroup
func shapeC13Wg(l4 *pkgInfo) []fact {
	if l4 == nil {
		return nil
	}
	norm := func(n ast.Node) string { return strings.Join(strings.Fields(l4.src(n)), "") }
	ok := false
	if loop := l4.findFunc("listener", "loop"); loop != nil {
		// in some block of loop: `l.wg.Add(1)` immediately followed by `go l.handle(conn)`, and no other `go l.handle`
		pairs, gos := 0, 0
		ast.Inspect(loop.Body, func(n ast.Node) bool {
			if gs, isGo := n.(*ast.GoStmt); isGo && strings.HasPrefix(norm(gs.Call), "l.handle(") {
				gos++
			}
			bl, isBlock := n.(*ast.BlockStmt)
			if !isBlock {
				return true
			}
			for i := 0; i+1 < len(bl.List); i++ {
				if norm(bl.List[i]) == "l.wg.Add(1)" {
					if gs, isGo := bl.List[i+1].(*ast.GoStmt); isGo && strings.HasPrefix(norm(gs.Call), "l.handle(") {
						pairs++
					}
				}
			}
			return true
		})
		addsInHandle := 0
		if h := l4.findFunc("listener", "handle"); h != nil {
			ast.Inspect(h.Body, func(n ast.Node) bool {
				if ce, isCall := n.(*ast.CallExpr); isCall && strings.HasSuffix(norm(ce.Fun), "wg.Add") {
					addsInHandle++
				}
				return true
			})
		}
		ok = pairs == 1 && gos == 1 && addsInHandle == 0
	}
	v := "false"
	if ok {
		v = "true"
	}
	return []fact{{"layer4_listener_wg_add_before_go", "bool", v,
		"listener.loop executes l.wg.Add(1) immediately before its only `go l.handle(conn)`, and handle itself never calls wg.Add"}}
}

// UDP datagram buffers (model/UdpPool.v)
func shapeC08Udp(l4 *pkgInfo) []fact {
	if l4 == nil {
		return nil
	}
	b2s := func(b bool) string {
		if b {
			return "true"
		}
		return "false"
	}
	norm := func(n ast.Node) string { return strings.Join(strings.Fields(l4.src(n)), "") }
	var out []fact

	// size of the arrays udpBufPool makes
	size := "0"
	for _, f := range l4.files {
		for _, d := range f.Decls {
			gd, ok := d.(*ast.GenDecl)
			if !ok || gd.Tok != token.VAR {
				continue
			}
			for _, sp := range gd.Specs {
				vs := sp.(*ast.ValueSpec)
				if len(vs.Names) == 1 && vs.Names[0].Name == "udpBufPool" {
					ast.Inspect(vs, func(n ast.Node) bool {
						if ce, ok := n.(*ast.CallExpr); ok && l4.src(ce.Fun) == "make" && len(ce.Args) == 2 && norm(ce.Args[0]) == "[]byte" {
							if v, ok := l4.eval(ce.Args[1], 0); ok {
								if n, exact := constant.Int64Val(constant.ToInt(v)); exact {
									size = strconv.FormatInt(n, 10)
								}
							}
						}
						return true
					})
				}
			}
		}
	}
	out = append(out, fact{"layer4_udp_buf_size", "Z", size, "length of the arrays made by udpBufPool.New"})

	// packetConn.Read: the pending-partial-datagram branch is guarded by pc.lastPacket != nil, and when the
	// reader is drained it Puts pc.lastPacket.pooledBuf once and sets pc.lastPacket = nil
	clears := false
	readOnce := false
	if fd := l4.findFunc("packetConn", "Read"); fd != nil && len(fd.Body.List) > 0 {
		if is, ok := fd.Body.List[0].(*ast.IfStmt); ok && norm(is.Cond) == "pc.lastPacket!=nil" {
			ast.Inspect(is.Body, func(n ast.Node) bool {
				inner, ok := n.(*ast.IfStmt)
				if !ok || norm(inner.Cond) != "pc.lastBuf.Len()==0" {
					return true
				}
				puts, nils := 0, false
				for _, st := range inner.Body.List {
					switch norm(st) {
					case "udpBufPool.Put(pc.lastPacket.pooledBuf)":
						puts++
					case "pc.lastPacket=nil":
						nils = true
					}
				}
				clears = puts == 1 && nils
				return false
			})
		}
		// the fresh-datagram branch: Put exactly when buf.Len() == 0, otherwise remember the packet
		ast.Inspect(fd.Body, func(n ast.Node) bool {
			cc, ok := n.(*ast.CommClause)
			if !ok || cc.Comm == nil || !strings.Contains(norm(cc.Comm), "<-pc.readCh") {
				return true
			}
			for _, st := range cc.Body {
				if is, ok := st.(*ast.IfStmt); ok && norm(is.Cond) == "buf.Len()==0" && is.Else != nil {
					thenPut := len(is.Body.List) == 1 && norm(is.Body.List[0]) == "udpBufPool.Put(pkt.pooledBuf)"
					elseKeep := strings.Contains(norm(is.Else), "pc.lastPacket=pkt") && !strings.Contains(norm(is.Else), "udpBufPool.Put")
					readOnce = thenPut && elseKeep
				}
			}
			return false
		})
	}
	// packetConn.Close: Puts lastPacket only under `if pc.lastPacket != nil` and clears it; every drained packet is Put once
	closeOnce := false
	if fd := l4.findFunc("packetConn", "Close"); fd != nil {
		guard, drain, puts := false, false, 0
		ast.Inspect(fd.Body, func(n ast.Node) bool {
			switch v := n.(type) {
			case *ast.CallExpr:
				if l4.src(v.Fun) == "udpBufPool.Put" {
					puts++
				}
			case *ast.IfStmt:
				if norm(v.Cond) == "pc.lastPacket!=nil" && len(v.Body.List) == 2 &&
					norm(v.Body.List[0]) == "udpBufPool.Put(pc.lastPacket.pooledBuf)" && norm(v.Body.List[1]) == "pc.lastPacket=nil" {
					guard = true
				}
			case *ast.CommClause:
				if v.Comm != nil && strings.Contains(norm(v.Comm), "pkt:=<-pc.readCh") && len(v.Body) == 1 && norm(v.Body[0]) == "udpBufPool.Put(pkt.pooledBuf)" {
					drain = true
				}
			}
			return true
		})
		closeOnce = guard && drain && puts == 2
	}
	out = append(out, fact{"layer4_udp_read_clears_lastpacket", "bool", b2s(clears && readOnce && closeOnce),
		"packetConn.Read tests pc.lastPacket for a pending remainder, Puts it once and sets it to nil when drained; a fresh datagram is Put iff fully consumed; Close Puts lastPacket under the same test and each drained packet once"})

	// servePacket: the packet whose address is enqueued is declared by the receive in the select case
	// (`case pkt := <-packets:`), i.e. a new variable for every datagram, and nothing else is sent on readCh
	fresh := false
	if fd := l4.findFunc("Server", "servePacket"); fd != nil {
		declared, sends, okSends := false, 0, 0
		ast.Inspect(fd.Body, func(n ast.Node) bool {
			switch v := n.(type) {
			case *ast.CommClause:
				if as, ok := v.Comm.(*ast.AssignStmt); ok && as.Tok == token.DEFINE && norm(as) == "pkt:=<-packets" {
					declared = true
				}
			case *ast.SendStmt:
				if strings.HasSuffix(norm(v.Chan), ".readCh") {
					sends++
					if norm(v.Value) == "&pkt" {
						okSends++
					}
				}
			}
			return true
		})
		fresh = declared && sends >= 1 && sends == okSends
	}
	out = append(out, fact{"layer4_udp_loop_fresh_packet_var", "bool", b2s(fresh),
		"servePacket declares pkt in the select case (`case pkt := <-packets:`: one variable per datagram) and readCh only ever receives &pkt"})
	return out
}

// ---------- Access.v ----------

type accessC08 struct {
	loc, fn, kind string
	many          bool
}

// names of functions (by "Recv.Name" or "Name") reachable from run-time entry points of p
func runtimeFuncs(p *pkgInfo) map[string]bool {
	type fn struct {
		name    string
		decl    *ast.FuncDecl
		callees map[string]bool
		goCalls map[string]bool // callees inside `go` statements
	}
	byShort := map[string][]*fn{} // by bare method/function name
	var all []*fn
	for _, f := range p.files {
		for _, d := range f.Decls {
			fd, ok := d.(*ast.FuncDecl)
			if !ok || fd.Body == nil {
				continue
			}
			n := fd.Name.Name
			if r := recvTypeName(fd); r != "" {
				n = r + "." + n
			}
			x := &fn{name: n, decl: fd, callees: map[string]bool{}, goCalls: map[string]bool{}}
			all = append(all, x)
			byShort[fd.Name.Name] = append(byShort[fd.Name.Name], x)
		}
	}
	callName := func(ce *ast.CallExpr) string {
		switch f := ce.Fun.(type) {
		case *ast.SelectorExpr:
			return f.Sel.Name
		case *ast.Ident:
			return f.Name
		}
		return ""
	}
	for _, x := range all {
		ast.Inspect(x.decl.Body, func(n ast.Node) bool {
			switch v := n.(type) {
			case *ast.GoStmt:
				ast.Inspect(v.Call, func(m ast.Node) bool {
					if ce, ok := m.(*ast.CallExpr); ok {
						if c := callName(ce); c != "" && len(byShort[c]) > 0 {
							x.goCalls[c] = true
						}
					}
					return true
				})
			case *ast.CallExpr:
				if c := callName(v); c != "" && len(byShort[c]) > 0 {
					x.callees[c] = true
				}
			}
			return true
		})
	}
	isSetup := func(x *fn) bool {
		return setupFuncs[x.decl.Name.Name] || strings.HasPrefix(x.decl.Name.Name, "Unmarshal")
	}
	called := map[string]bool{}
	for _, x := range all {
		for c := range x.callees {
			called[c] = true
		}
	}
	reach := map[string]bool{}
	var visit func(x *fn)
	visit = func(x *fn) {
		if reach[x.name] || isSetup(x) {
			return
		}
		reach[x.name] = true
		for c := range x.callees {
			for _, y := range byShort[c] {
				visit(y)
			}
		}
	}
	for _, x := range all {
		if isSetup(x) {
			// goroutines started by set-up code run concurrently with the handlers
			for c := range x.goCalls {
				for _, y := range byShort[c] {
					visit(y)
				}
			}
			continue
		}
		// entry points: exported, or not called from anywhere inside the package
		if ast.IsExported(x.decl.Name.Name) || !called[x.decl.Name.Name] {
			visit(x)
		}
	}
	return reach
}

func moduleTypes(p *pkgInfo) []string {
	seen := map[string]bool{}
	for _, f := range p.files {
		for _, d := range f.Decls {
			if fd, ok := d.(*ast.FuncDecl); ok && fd.Name.Name == "CaddyModule" {
				if r := recvTypeName(fd); r != "" {
					seen[r] = true
				}
			}
		}
	}
	var out []string
	for t := range seen {
		if len(structFields(p, t)) > 0 {
			out = append(out, t)
		}
	}
	sort.Strings(out)
	return out
}

// fields of typ assigned through the receiver in set-up functions
func setupWrites(p *pkgInfo, typ string) map[string]bool {
	fields := structFields(p, typ)
	out := map[string]bool{}
	for _, f := range p.files {
		for _, d := range f.Decls {
			fd, ok := d.(*ast.FuncDecl)
			if !ok || fd.Body == nil || recvTypeName(fd) != typ || len(fd.Recv.List[0].Names) == 0 {
				continue
			}
			if !(setupFuncs[fd.Name.Name] || strings.HasPrefix(fd.Name.Name, "Unmarshal")) {
				continue
			}
			rv := fd.Recv.List[0].Names[0].Name
			ast.Inspect(fd.Body, func(n ast.Node) bool {
				if as, ok := n.(*ast.AssignStmt); ok {
					for _, l := range as.Lhs {
						if se, ok := l.(*ast.SelectorExpr); ok {
							if id, ok := se.X.(*ast.Ident); ok && id.Name == rv {
								if _, isF := fields[se.Sel.Name]; isF {
									out[se.Sel.Name] = true
								}
							}
						}
					}
				}
				return true
			})
		}
	}
	return out
}

// sliceElementWrites finds, in the run-time methods of typ, writes into the backing array of a
// field of typ: the field itself or a local variable that was assigned the field (or a reslice of it).
func sliceElementWrites(p *pkgInfo, typ string, rt map[string]bool) []access {
	fields := structFields(p, typ)
	var out []access
	for _, f := range p.files {
		for _, d := range f.Decls {
			fd, ok := d.(*ast.FuncDecl)
			if !ok || fd.Body == nil || recvTypeName(fd) != typ || len(fd.Recv.List[0].Names) == 0 {
				continue
			}
			fnName := typ + "." + fd.Name.Name
			if !rt[fnName] {
				continue
			}
			rv := fd.Recv.List[0].Names[0].Name
			// the field an expression is a (reslice of a) view of: rv.F, rv.F[a:b], alias, alias[a:b]
			alias := map[string]string{}
			var fieldOf func(e ast.Expr) string
			fieldOf = func(e ast.Expr) string {
				switch v := e.(type) {
				case *ast.ParenExpr:
					return fieldOf(v.X)
				case *ast.SliceExpr:
					return fieldOf(v.X)
				case *ast.SelectorExpr:
					if id, ok := v.X.(*ast.Ident); ok && id.Name == rv {
						if _, isF := fields[v.Sel.Name]; isF {
							return v.Sel.Name
						}
					}
				case *ast.Ident:
					return alias[v.Name]
				}
				return ""
			}
			// aliases first (flow-insensitive)
			for pass := 0; pass < 2; pass++ {
				ast.Inspect(fd.Body, func(n ast.Node) bool {
					switch v := n.(type) {
					case *ast.AssignStmt:
						for i, l := range v.Lhs {
							if id, ok := l.(*ast.Ident); ok && i < len(v.Rhs) {
								if fld := fieldOf(v.Rhs[i]); fld != "" {
									if t := fields[fld]; strings.HasPrefix(t, "[]") || strings.HasSuffix(t, "Pool") || strings.HasPrefix(t, "map[") {
										alias[id.Name] = fld
									}
								}
							}
						}
					case *ast.ValueSpec:
						for i, nm := range v.Names {
							if i < len(v.Values) {
								if fld := fieldOf(v.Values[i]); fld != "" {
									alias[nm.Name] = fld
								}
							}
						}
					}
					return true
				})
			}
			add := func(fld string, pos token.Pos) {
				if fld != "" {
					out = append(out, access{p.name, typ, fld, fnName, "write", p.fset.Position(pos).Line})
				}
			}
			mutators := map[string]bool{"copy": true, "sort.Slice": true, "sort.SliceStable": true, "sort.Sort": true, "sort.Stable": true,
				"slices.Sort": true, "slices.SortFunc": true, "slices.SortStableFunc": true, "slices.Delete": true, "slices.DeleteFunc": true,
				"slices.Insert": true, "slices.Reverse": true, "slices.Compact": true, "slices.CompactFunc": true, "slices.Replace": true, "clear": true}
			ast.Inspect(fd.Body, func(n ast.Node) bool {
				switch v := n.(type) {
				case *ast.AssignStmt:
					for _, l := range v.Lhs {
						if ix, ok := l.(*ast.IndexExpr); ok {
							add(fieldOf(ix.X), ix.Pos())
						}
					}
				case *ast.IncDecStmt:
					if ix, ok := v.X.(*ast.IndexExpr); ok {
						add(fieldOf(ix.X), ix.Pos())
					}
				case *ast.CallExpr:
					name := strings.Join(strings.Fields(p.src(v.Fun)), "")
					if name == "append" && len(v.Args) > 0 {
						// appending to a reslice writes into the array the field shares
						if se, ok := v.Args[0].(*ast.SliceExpr); ok {
							add(fieldOf(se), v.Pos())
						}
					} else if mutators[name] && len(v.Args) > 0 {
						add(fieldOf(v.Args[0]), v.Pos())
					}
				}
				return true
			})
		}
	}
	return out
}

// goroutines started by l4proxy's Handler.proxy and the Connection methods they call
type proxySite struct {
	name   string
	many   bool
	method string // "Read" or "Write" on the downstream *layer4.Connection
}

func proxySites(px *pkgInfo) []proxySite {
	fd := px.findFunc("Handler", "proxy")
	if fd == nil || fd.Type.Params == nil {
		return nil
	}
	down := ""
	for _, f := range fd.Type.Params.List {
		if strings.Contains(px.src(f.Type), "layer4.Connection") && len(f.Names) > 0 {
			down = f.Names[0].Name
		}
	}
	if down == "" {
		return nil
	}
	// variables derived from the downstream connection (var downTee io.Reader = down; downTee = io.TeeReader(downTee, up))
	derived := map[string]bool{down: true}
	ast.Inspect(fd.Body, func(n ast.Node) bool {
		switch v := n.(type) {
		case *ast.ValueSpec:
			for i, nm := range v.Names {
				if i < len(v.Values) {
					if id, ok := v.Values[i].(*ast.Ident); ok && derived[id.Name] {
						derived[nm.Name] = true
					}
				}
			}
		}
		return true
	})
	var out []proxySite
	idx := 0
	var walk func(n ast.Node, inLoop bool)
	walk = func(n ast.Node, inLoop bool) {
		ast.Inspect(n, func(m ast.Node) bool {
			switch v := m.(type) {
			case *ast.ForStmt:
				if v != n {
					walk(v.Body, true)
					return false
				}
			case *ast.RangeStmt:
				if v != n {
					walk(v.Body, true)
					return false
				}
			case *ast.GoStmt:
				idx++
				site := fmt.Sprintf("Handler.proxy.go%d", idx)
				ast.Inspect(v.Call, func(k ast.Node) bool {
					ce, ok := k.(*ast.CallExpr)
					if !ok {
						return true
					}
					if px.src(ce.Fun) == "io.Copy" && len(ce.Args) == 2 {
						if id, ok := ce.Args[0].(*ast.Ident); ok && id.Name == down {
							out = append(out, proxySite{site + ">Connection.Write", inLoop, "Write"})
						}
						if id, ok := ce.Args[1].(*ast.Ident); ok && derived[id.Name] {
							out = append(out, proxySite{site + ">Connection.Read", inLoop, "Read"})
						}
					}
					return true
				})
				return false
			}
			return true
		})
	}
	walk(fd.Body, false)
	return out
}

func emitAccessC08(pk map[string]*pkgInfo) string {
	var all []accessC08
	readonly := map[string]bool{}

	// (1) module structs, every package
	var names []string
	for n := range pk {
		names = append(names, n)
	}
	sort.Strings(names)
	for _, pn := range names {
		p := pk[pn]
		rt := runtimeFuncs(p)
		for _, typ := range moduleTypes(p) {
			sw := setupWrites(p, typ)
			rtWritten := map[string]bool{}
			seenField := map[string]bool{}
			for _, a := range collectAccesses(p, typ, true) {
				if !rt[a.fn] {
					continue
				}
				all = append(all, accessC08{a.pkg + "." + a.typ + "." + a.field, a.fn, a.kind, true})
				seenField[a.field] = true
				if a.kind != "read" {
					rtWritten[a.field] = true
				}
			}
			// writes through the backing array of a slice-typed field: directly (h.F[i] = x,
			// append(h.F[:i], ...), copy/sort/slices.Delete on it) or through a local alias (v := h.F)
			for _, a := range sliceElementWrites(p, typ, rt) {
				all = append(all, accessC08{a.pkg + "." + a.typ + "." + a.field, a.fn, "write", true})
				seenField[a.field] = true
				rtWritten[a.field] = true
			}
			for f := range seenField {
				if sw[f] && !rtWritten[f] {
					readonly[p.name+"."+typ+"."+f] = true
				}
			}
		}
	}
	// (2) peer fields (any variable conventionally holding a peer) and the round-robin counter
	if px := pk["l4proxy"]; px != nil {
		rt := runtimeFuncs(px)
		for _, a := range collectAccesses(px, "peer", false) {
			if rt[a.fn] {
				all = append(all, accessC08{"l4proxy.peer." + a.field, a.fn, a.kind, true})
			}
		}
	}
	// (3) packetConn.deadline
	if l4 := pk["layer4"]; l4 != nil {
		for _, a := range collectAccesses(l4, "packetConn", true) {
			if a.field == "deadline" {
				all = append(all, accessC08{"layer4.packetConn.deadline", a.fn, a.kind, false})
			}
		}
		// (4) Connection fields from the proxy's goroutines
		if px := pk["l4proxy"]; px != nil {
			byMethod := map[string][]access{}
			for _, a := range collectAccesses(l4, "Connection", true) {
				if a.fn == "Connection.Read" || a.fn == "Connection.Write" {
					byMethod[strings.TrimPrefix(a.fn, "Connection.")] = append(byMethod[strings.TrimPrefix(a.fn, "Connection.")], a)
				}
			}
			for _, s := range proxySites(px) {
				for _, a := range byMethod[s.method] {
					all = append(all, accessC08{"layer4.Connection." + a.field, s.name, a.kind, s.many})
				}
			}
			// (5) listener.handle after the hand-over: once pipeConnection has sent the Connection to the
			// wrapped listener, its consumer reads and writes it concurrently with the rest of handle.
			// Counter reads in handle after compiledRoute.Handle that are not behind a test for
			// errHijacked are concurrent with the consumer's Connection.Read / Write.
			if fd := l4.findFunc("listener", "handle"); fd != nil {
				norm := func(n ast.Node) string { return strings.Join(strings.Fields(l4.src(n)), "") }
				after, guarded := false, false
				fields := map[string]bool{}
				for _, st := range fd.Body.List {
					if !after {
						if strings.Contains(norm(st), "compiledRoute.Handle(") {
							after = true
						}
						continue
					}
					if is, ok := st.(*ast.IfStmt); ok {
						c := norm(is.Cond)
						if strings.Contains(c, "errHijacked") {
							if !strings.HasPrefix(c, "!") && !strings.Contains(c, "&&!errors.Is(err,errHijacked)") && len(is.Body.List) > 0 {
								if _, ret := is.Body.List[len(is.Body.List)-1].(*ast.ReturnStmt); ret {
									guarded = true // `if errors.Is(err, errHijacked) { ...; return }`
								}
							}
							if strings.HasPrefix(c, "!errors.Is(err,errHijacked)") || strings.Contains(c, "&&!errors.Is(err,errHijacked)") {
								continue // the body only runs for connections that were not handed over
							}
						}
					}
					if guarded {
						continue
					}
					ast.Inspect(st, func(n ast.Node) bool {
						if se, ok := n.(*ast.SelectorExpr); ok && (se.Sel.Name == "bytesRead" || se.Sel.Name == "bytesWritten") {
							fields[se.Sel.Name] = true
						}
						return true
					})
				}
				for f := range fields {
					all = append(all, accessC08{"layer4.Connection." + f, "listener.handle(after hand-over)", "read", false})
					m := map[string]string{"bytesRead": "Read", "bytesWritten": "Write"}[f]
					for _, a := range byMethod[m] {
						if a.field == f {
							all = append(all, accessC08{"layer4.Connection." + f, "wrapped listener's consumer>Connection." + m, a.kind, false})
						}
					}
				}
			}
		}
	}

	sort.Slice(all, func(i, j int) bool {
		a, b := all[i], all[j]
		if a.loc != b.loc {
			return a.loc < b.loc
		}
		if a.fn != b.fn {
			return a.fn < b.fn
		}
		return a.kind < b.kind
	})
	var b bytes.Buffer
	b.WriteString("(* GENERATED by tools/l4gen from /repo's working tree. Do not edit. *)\n")
	b.WriteString("From Coq Require Import String List.\nImport ListNotations.\nOpen Scope string_scope.\n\n")
	b.WriteString("Inductive akind := AAtomic | ARead | AWrite.\n")
	b.WriteString("(* a_many: several threads may execute this site on the same instance of the location at once *)\n")
	b.WriteString("Record access := { a_loc : string; a_fn : string; a_kind : akind; a_many : bool }.\n\n")
	b.WriteString("Definition table : list access := [\n")
	seen := map[string]bool{}
	first := true
	for _, a := range all {
		k := map[string]string{"atomic": "AAtomic", "read": "ARead", "write": "AWrite"}[a.kind]
		key := a.loc + "|" + a.fn + "|" + k
		if seen[key] {
			continue
		}
		seen[key] = true
		if !first {
			b.WriteString(";\n")
		}
		first = false
		m := "false"
		if a.many {
			m = "true"
		}
		fmt.Fprintf(&b, "  {| a_loc := \"%s\"; a_fn := \"%s\"; a_kind := %s; a_many := %s |}", a.loc, a.fn, k, m)
	}
	b.WriteString("\n].\n\n")
	var ro []string
	for l := range readonly {
		ro = append(ro, l)
	}
	sort.Strings(ro)
	b.WriteString("(* module fields assigned in Provision/Validate/Unmarshal* and only read by per-connection code *)\n")
	b.WriteString("Definition readonly_after_provision : list string := [\n")
	for i, l := range ro {
		if i > 0 {
			b.WriteString(";\n")
		}
		fmt.Fprintf(&b, "  \"%s\"", l)
	}
	b.WriteString("\n].\n\n")
	// package-level sync.Pool variables: objects taken from them are handed from one connection to
	// the next, so they are shared mutable state whose objects must not carry per-connection state
	var pools []string
	for _, pn := range names {
		p := pk[pn]
		for _, f := range p.files {
			for _, d := range f.Decls {
				gd, ok := d.(*ast.GenDecl)
				if !ok || gd.Tok != token.VAR {
					continue
				}
				for _, sp := range gd.Specs {
					vs := sp.(*ast.ValueSpec)
					for i, nm := range vs.Names {
						isPool := vs.Type != nil && strings.Contains(p.src(vs.Type), "sync.Pool")
						if i < len(vs.Values) {
							v := strings.Join(strings.Fields(p.src(vs.Values[i])), "")
							if strings.HasPrefix(v, "sync.Pool{") || strings.HasPrefix(v, "&sync.Pool{") || strings.HasPrefix(v, "new(sync.Pool)") {
								isPool = true
							}
						}
						if isPool {
							pools = append(pools, p.name+"."+nm.Name)
						}
					}
				}
			}
		}
	}
	sort.Strings(pools)
	b.WriteString("(* package-level sync.Pool variables of the translated packages *)\n")
	b.WriteString("Definition shared_pools : list string := [\n")
	for i, l := range pools {
		if i > 0 {
			b.WriteString(";\n")
		}
		fmt.Fprintf(&b, "  \"%s\"", l)
	}
	b.WriteString("\n].\n")
	return b.String()
}

func init() {
	// caddy.App life-cycle methods run once, not per connection
	setupFuncs["Start"] = true
	setupFuncs["Stop"] = true
}
