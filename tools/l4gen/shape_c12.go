package main

import (
	"go/ast"
	"strings"
)

// ---------- C12: PROXY protocol handler / sender (b-c12) ----------
//
//	l4proxyprotocol_handle_sets_placeholders  Handler.Handle stores the addresses of the accepted
//	                                          header under l4.conn.remote_addr AND l4.conn.local_addr
//	                                          (replacer Set calls) before it calls next.Handle
//	l4proxyprotocol_handle_wraps_conn         Handler.Handle passes cx.Wrap(conn) to next.Handle
//	l4proxyprotocol_tidy_reassigns_rules      tidyRules assigns to h.rules (today it does not: the
//	                                          compaction happens in the shared backing array only)
//	l4proxy_dial_uses_getconn                 dialPeers takes the addresses for the PROXY header from
//	                                          l4proxyprotocol.GetConn(down)
//	l4proxy_dial_header_before_append         dialPeers writes the header (WriteTo) before the
//	                                          connection is appended to upConns, i.e. before relaying
func shapeC12(pk map[string]*pkgInfo) []fact {
	b2s := func(b bool) string {
		if b {
			return "true"
		}
		return "false"
	}
	var out []fact
	if pp := pk["l4proxyprotocol"]; pp != nil {
		if fd := pp.findFunc("Handler", "Handle"); fd != nil {
			s := pp.src(fd.Body)
			next := strings.LastIndex(s, "next.Handle(")
			rem := strings.Index(s, `Set("l4.conn.remote_addr"`)
			loc := strings.Index(s, `Set("l4.conn.local_addr"`)
			hdr := strings.Index(s, "ProxyHeader()")
			sets := next >= 0 && hdr >= 0 && rem > hdr && loc > hdr && rem < next && loc < next
			out = append(out, fact{"l4proxyprotocol_handle_sets_placeholders", "bool", b2s(sets),
				"Handler.Handle (proxy_protocol) updates l4.conn.remote_addr and l4.conn.local_addr in the replacer after the header was parsed"})
			out = append(out, fact{"l4proxyprotocol_handle_wraps_conn", "bool", b2s(strings.Contains(s, "next.Handle(cx.Wrap(")),
				"Handler.Handle (proxy_protocol) hands cx.Wrap(conn) to the next handler"})
		}
		// a local struct type embedding *proxyprotocol.Conn that overrides RemoteAddr AND LocalAddr and
		// is what Handle hands on: addresses the header does not declare (nil IP after v1 UNKNOWN)
		// fall back to the real connection's
		fallsBack := false
		for _, f := range pp.files {
			for _, d := range f.Decls {
				gd, ok := d.(*ast.GenDecl)
				if !ok {
					continue
				}
				for _, sp := range gd.Specs {
					ts, ok := sp.(*ast.TypeSpec)
					if !ok {
						continue
					}
					st, ok := ts.Type.(*ast.StructType)
					if !ok {
						continue
					}
					embeds := false
					for _, fl := range st.Fields.List {
						if len(fl.Names) == 0 && pp.src(fl.Type) == "*proxyprotocol.Conn" {
							embeds = true
						}
					}
					if !embeds {
						continue
					}
					r, l := pp.findFunc(ts.Name.Name, "RemoteAddr"), pp.findFunc(ts.Name.Name, "LocalAddr")
					hd := pp.findFunc("Handler", "Handle")
					if r != nil && l != nil && hd != nil && strings.Contains(pp.src(hd.Body), ts.Name.Name+"{") &&
						strings.Contains(pp.src(r.Body), "RemoteAddr()") && strings.Contains(pp.src(l.Body), "LocalAddr()") {
						fallsBack = true
					}
				}
			}
		}
		out = append(out, fact{"l4proxyprotocol_undeclared_addr_falls_back", "bool", b2s(fallsBack),
			"Handler.Handle (proxy_protocol) hands on a wrapper of *proxyprotocol.Conn that overrides RemoteAddr/LocalAddr (an address the header does not declare falls back to the real connection's)"})
		if fd := pp.findFunc("Handler", "tidyRules"); fd != nil {
			re := false
			ast.Inspect(fd.Body, func(n ast.Node) bool {
				if as, ok := n.(*ast.AssignStmt); ok {
					for _, l := range as.Lhs {
						if pp.src(l) == "h.rules" {
							re = true
						}
					}
				}
				return true
			})
			out = append(out, fact{"l4proxyprotocol_tidy_reassigns_rules", "bool", b2s(re), "tidyRules assigns the compacted slice back to h.rules"})
		}
	}
	if px := pk["l4proxy"]; px != nil {
		if fd := px.findFunc("Handler", "dialPeers"); fd != nil {
			s := px.src(fd.Body)
			get := strings.Index(s, "l4proxyprotocol.GetConn(down)")
			wr := strings.Index(s, ".WriteTo(up)")
			app := strings.Index(s, "upConns = append(upConns, up)")
			out = append(out, fact{"l4proxy_dial_uses_getconn", "bool", b2s(get >= 0 && strings.Contains(s, "FromConn(downConn, false)")),
				"dialPeers fills the PROXY header from l4proxyprotocol.GetConn(down) with outgoing=false"})
			out = append(out, fact{"l4proxy_dial_header_before_append", "bool", b2s(wr >= 0 && app >= 0 && wr < app),
				"dialPeers writes the PROXY header before the upstream connection joins upConns"})
		}
	}
	return out
}
