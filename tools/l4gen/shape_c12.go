package main

import (
	"go/ast"
	"go/token"
	"strconv"
	"strings"
)

// ---------- C12: PROXY protocol handler / sender (b-c12) ----------
//
//	l4proxyprotocol_handle_sets_placeholders  Handler.Handle stores the addresses of the accepted
//	                                          header under l4.conn.remote_addr AND l4.conn.local_addr
//	                                          (replacer Set calls) before it calls next.Handle
//	l4proxyprotocol_handle_wraps_conn         Handler.Handle passes cx.Wrap(conn) to next.Handle
//	l4proxyprotocol_tidy_reassigns_rules      tidyRules assigns to h.rules (today it does not: the
//	                                          compaction happens in the shared backing array only)
//	l4proxy_dial_uses_getconn                 dialPeers takes the addresses for the PROXY header from
//	                                          l4proxyprotocol.GetConn(down)
//	l4proxy_dial_header_before_append         dialPeers writes the header (WriteTo) before the
//	                                          connection is appended to upConns, i.e. before relaying
func shapeC12(pk map[string]*pkgInfo) []fact {
	b2s := func(b bool) string {
		if b {
			return "true"
		}
		return "false"
	}
	var out []fact
	if pp := pk["l4proxyprotocol"]; pp != nil {
		if fd := pp.findFunc("Handler", "Handle"); fd != nil {
			s := pp.src(fd.Body)
			next := strings.LastIndex(s, "next.Handle(")
			rem := strings.Index(s, `Set("l4.conn.remote_addr"`)
			loc := strings.Index(s, `Set("l4.conn.local_addr"`)
			hdr := strings.Index(s, "ProxyHeader()")
			sets := next >= 0 && hdr >= 0 && rem > hdr && loc > hdr && rem < next && loc < next
			out = append(out, fact{"l4proxyprotocol_handle_sets_placeholders", "bool", b2s(sets),
				"Handler.Handle (proxy_protocol) updates l4.conn.remote_addr and l4.conn.local_addr in the replacer after the header was parsed"})
			out = append(out, fact{"l4proxyprotocol_handle_wraps_conn", "bool", b2s(strings.Contains(s, "next.Handle(cx.Wrap(")),
				"Handler.Handle (proxy_protocol) hands cx.Wrap(conn) to the next handler"})
		}
		// a local struct type embedding *proxyprotocol.Conn that overrides RemoteAddr AND LocalAddr and
		// is what Handle hands on: addresses the header does not declare (nil IP after v1 UNKNOWN)
		// fall back to the real connection's
		fallsBack := false
		for _, f := range pp.files {
			for _, d := range f.Decls {
				gd, ok := d.(*ast.GenDecl)
				if !ok {
					continue
				}
				for _, sp := range gd.Specs {
					ts, ok := sp.(*ast.TypeSpec)
					if !ok {
						continue
					}
					st, ok := ts.Type.(*ast.StructType)
					if !ok {
						continue
					}
					embeds := false
					for _, fl := range st.Fields.List {
						if len(fl.Names) == 0 && pp.src(fl.Type) == "*proxyprotocol.Conn" {
							embeds = true
						}
					}
					if !embeds {
						continue
					}
					r, l := pp.findFunc(ts.Name.Name, "RemoteAddr"), pp.findFunc(ts.Name.Name, "LocalAddr")
					hd := pp.findFunc("Handler", "Handle")
					if r != nil && l != nil && hd != nil && strings.Contains(pp.src(hd.Body), ts.Name.Name+"{") &&
						strings.Contains(pp.src(r.Body), "RemoteAddr()") && strings.Contains(pp.src(l.Body), "LocalAddr()") {
						fallsBack = true
					}
				}
			}
		}
		out = append(out, fact{"l4proxyprotocol_undeclared_addr_falls_back", "bool", b2s(fallsBack),
			"Handler.Handle (proxy_protocol) hands on a wrapper of *proxyprotocol.Conn that overrides RemoteAddr/LocalAddr (an address the header does not declare falls back to the real connection's)"})
		if fd := pp.findFunc("Handler", "tidyRules"); fd != nil {
			re := false
			ast.Inspect(fd.Body, func(n ast.Node) bool {
				if as, ok := n.(*ast.AssignStmt); ok {
					for _, l := range as.Lhs {
						if pp.src(l) == "h.rules" {
							re = true
						}
					}
				}
				return true
			})
			out = append(out, fact{"l4proxyprotocol_tidy_reassigns_rules", "bool", b2s(re), "tidyRules assigns the compacted slice back to h.rules"})
		}
	}
	if px := pk["l4proxy"]; px != nil {
		if fd := px.findFunc("Handler", "dialPeers"); fd != nil {
			a := &c12Flow{p: px}
			a.visit(fd, nil, 0, 0)
			// every FromConn call reachable from dialPeers takes l4proxyprotocol.GetConn(<the *layer4.Connection
			// parameter of dialPeers>) and outgoing=false
			uses := len(a.fromConn) > 0
			for _, f := range a.fromConn {
				if !(strings.HasPrefix(f.src, "getconn(param:") && strings.Contains(f.src, "layer4.Connection") && f.outgoing == "false") {
					uses = false
				}
			}
			// the freshly dialled connection is appended to a slice, and every WriteTo on that
			// connection reachable from dialPeers (through helpers too) happens before that append
			appendPos := token.NoPos
			for _, ap := range a.appends {
				if ap.val == "dial" && (appendPos == token.NoPos || ap.pos < appendPos) {
					appendPos = ap.pos
				}
			}
			before, n := appendPos != token.NoPos, 0
			for _, w := range a.writeTo {
				if w.dst != "dial" {
					continue
				}
				n++
				if !(w.pos < appendPos) {
					before = false
				}
			}
			out = append(out, fact{"l4proxy_dial_uses_getconn", "bool", b2s(uses),
				"dialPeers (helpers of package l4proxy inlined) fills the PROXY header by FromConn(l4proxyprotocol.GetConn(<downstream connection>), false)"})
			out = append(out, fact{"l4proxy_dial_header_before_append", "bool", b2s(before && n > 0),
				"dialPeers (helpers inlined) writes the PROXY header to the freshly dialled connection before that connection joins the returned slice"})
		}
	}
	return out
}

// ---------- a small flow analysis for dialPeers: same-package callees are analysed as if inlined
// (two levels), identifiers are resolved to where their value comes from, local names do not matter

type c12From struct{ src, outgoing string }
type c12Write struct {
	dst string
	pos token.Pos
}
type c12Append struct {
	val string
	pos token.Pos
}
type c12Flow struct {
	p        *pkgInfo
	fromConn []c12From
	writeTo  []c12Write
	appends  []c12Append
}

func c12Params(fd *ast.FuncDecl) (names []string, types []ast.Expr) {
	if fd.Type.Params == nil {
		return
	}
	for _, f := range fd.Type.Params.List {
		for _, n := range f.Names {
			names = append(names, n.Name)
			types = append(types, f.Type)
		}
	}
	return
}

// resolve answers where the value of e comes from: "param:<i>:<type>" (a parameter of the
// outermost function), "dial" (result of a ...Dial call), "getconn(<origin>)", or the source text
func (a *c12Flow) resolve(fd *ast.FuncDecl, env map[string]string, e ast.Expr, fuel int) string {
	if fuel <= 0 {
		return "expr:" + a.p.src(e)
	}
	switch x := e.(type) {
	case *ast.ParenExpr:
		return a.resolve(fd, env, x.X, fuel-1)
	case *ast.CallExpr:
		if se, ok := x.Fun.(*ast.SelectorExpr); ok {
			if se.Sel.Name == "GetConn" && a.p.src(se.X) == "l4proxyprotocol" && len(x.Args) == 1 {
				return "getconn(" + a.resolve(fd, env, x.Args[0], fuel-1) + ")"
			}
			if se.Sel.Name == "Dial" {
				return "dial"
			}
		}
		return "call:" + a.p.src(e)
	case *ast.Ident:
		if env != nil {
			if v, ok := env[x.Name]; ok {
				return v
			}
		} else {
			names, types := c12Params(fd)
			for i, n := range names {
				if n == x.Name {
					return "param:" + strconv.Itoa(i) + ":" + a.p.src(types[i])
				}
			}
		}
		// assignments to the identifier inside fd: all of them must agree
		found := ""
		ast.Inspect(fd.Body, func(n ast.Node) bool {
			as, ok := n.(*ast.AssignStmt)
			if !ok {
				return true
			}
			for i, l := range as.Lhs {
				id, ok := l.(*ast.Ident)
				if !ok || id.Name != x.Name {
					continue
				}
				var rhs ast.Expr
				if len(as.Rhs) == len(as.Lhs) {
					rhs = as.Rhs[i]
				} else if len(as.Rhs) == 1 && i == 0 {
					rhs = as.Rhs[0] // v, err := f(...)
				}
				if rhs == nil {
					continue
				}
				if o := a.resolve(fd, env, rhs, fuel-1); found == "" {
					found = o
				} else if found != o {
					found = "mixed"
				}
			}
			return true
		})
		if found != "" {
			return found
		}
		return "ident:" + x.Name
	}
	return "expr:" + a.p.src(e)
}

func (a *c12Flow) visit(fd *ast.FuncDecl, env map[string]string, site token.Pos, depth int) {
	recvName := ""
	if fd.Recv != nil && len(fd.Recv.List) > 0 && len(fd.Recv.List[0].Names) > 0 {
		recvName = fd.Recv.List[0].Names[0].Name
	}
	at := func(n ast.Node) token.Pos {
		if site != token.NoPos {
			return site
		}
		return n.Pos()
	}
	ast.Inspect(fd.Body, func(n ast.Node) bool {
		ce, ok := n.(*ast.CallExpr)
		if !ok {
			return true
		}
		switch fn := ce.Fun.(type) {
		case *ast.SelectorExpr:
			switch {
			case fn.Sel.Name == "FromConn" && len(ce.Args) == 2:
				a.fromConn = append(a.fromConn, c12From{a.resolve(fd, env, ce.Args[0], 8), a.p.src(ce.Args[1])})
			case fn.Sel.Name == "WriteTo" && len(ce.Args) == 1:
				a.writeTo = append(a.writeTo, c12Write{a.resolve(fd, env, ce.Args[0], 8), at(ce)})
			default:
				// a method of the same receiver: analyse its body as if inlined
				if id, ok := fn.X.(*ast.Ident); ok && recvName != "" && id.Name == recvName && depth < 2 {
					if callee := a.p.findFunc(recvTypeName(fd), fn.Sel.Name); callee != nil && callee.Body != nil {
						a.inline(fd, env, callee, ce, at(ce), depth)
					}
				}
			}
		case *ast.Ident:
			if fn.Name == "append" && len(ce.Args) == 2 && depth == 0 {
				a.appends = append(a.appends, c12Append{a.resolve(fd, env, ce.Args[1], 8), ce.Pos()})
			} else if depth < 2 {
				if callee := a.p.findFunc("", fn.Name); callee != nil && callee.Body != nil {
					a.inline(fd, env, callee, ce, at(ce), depth)
				}
			}
		}
		return true
	})
}

func (a *c12Flow) inline(fd *ast.FuncDecl, env map[string]string, callee *ast.FuncDecl, ce *ast.CallExpr, site token.Pos, depth int) {
	names, _ := c12Params(callee)
	env2 := map[string]string{}
	for i, n := range names {
		if i < len(ce.Args) {
			env2[n] = a.resolve(fd, env, ce.Args[i], 8)
		}
	}
	a.visit(callee, env2, site, depth+1)
}
