// l4gen: translator from /repo's Go source (working tree) to Coq files under coq/gen.
//
// It uses go/parser + go/ast + go/constant only (no type checker, no network, no build) and emits:
//
//	Consts.v  every top-level integer / string constant of the packages the models refer to,
//	          evaluated with Go's constant semantics (iota, shifts, products, time.* units),
//	          plus top-level []byte / string-valued vars (byte-string literals)
//	Shape.v   call-site facts the models depend on ("countConn is called", "bufPool.Put in
//	          listener.handle is unconditional", the order of statements in packetConn.Close ...)
//	Access.v  the table of accesses to state shared between connection goroutines (C08)
//
// Files are only rewritten when their content changes so that make stays incremental.
package main

import (
	"bytes"
	"flag"
	"fmt"
	"go/ast"
	"go/constant"
	"go/parser"
	"go/token"
	"os"
	"path/filepath"
	"sort"
	"strconv"
	"strings"
)

type pkgInfo struct {
	name  string // short coq prefix
	dir   string
	files []*ast.File
	fset  *token.FileSet
	// evaluated constants
	consts map[string]constant.Value
	order  []string
}

var timeUnits = map[string]int64{
	"Nanosecond": 1, "Microsecond": 1000, "Millisecond": 1000000, "Second": 1000000000,
	"Minute": 60 * 1000000000, "Hour": 3600 * 1000000000,
}

func loadPkg(repo, rel, short string) (*pkgInfo, error) {
	dir := filepath.Join(repo, rel)
	fset := token.NewFileSet()
	ents, err := os.ReadDir(dir)
	if err != nil {
		return nil, err
	}
	p := &pkgInfo{name: short, dir: dir, fset: fset, consts: map[string]constant.Value{}}
	var names []string
	for _, e := range ents {
		n := e.Name()
		if e.IsDir() || !strings.HasSuffix(n, ".go") || strings.HasSuffix(n, "_test.go") {
			continue
		}
		names = append(names, n)
	}
	sort.Strings(names)
	for _, n := range names {
		f, err := parser.ParseFile(fset, filepath.Join(dir, n), nil, parser.ParseComments)
		if err != nil {
			return nil, err
		}
		// honour build tags: skip files guarded by the verif tag
		skip := false
		for _, cg := range f.Comments {
			for _, c := range cg.List {
				if strings.HasPrefix(c.Text, "//go:build") && strings.Contains(c.Text, "verif") && c.Pos() < f.Package {
					skip = true
				}
			}
		}
		if skip {
			continue
		}
		p.files = append(p.files, f)
	}
	p.evalConsts()
	return p, nil
}

func (p *pkgInfo) eval(e ast.Expr, iota int64) (constant.Value, bool) {
	switch x := e.(type) {
	case *ast.BasicLit:
		switch x.Kind {
		case token.INT, token.FLOAT, token.CHAR, token.STRING:
			v := constant.MakeFromLiteral(x.Value, x.Kind, 0)
			if v.Kind() == constant.Unknown {
				return nil, false
			}
			return v, true
		}
	case *ast.Ident:
		if x.Name == "iota" {
			return constant.MakeInt64(iota), true
		}
		if x.Name == "true" {
			return constant.MakeBool(true), true
		}
		if x.Name == "false" {
			return constant.MakeBool(false), true
		}
		if v, ok := p.consts[x.Name]; ok {
			return v, true
		}
	case *ast.ParenExpr:
		return p.eval(x.X, iota)
	case *ast.SelectorExpr:
		if id, ok := x.X.(*ast.Ident); ok && id.Name == "time" {
			if u, ok := timeUnits[x.Sel.Name]; ok {
				return constant.MakeInt64(u), true
			}
		}
		if id, ok := x.X.(*ast.Ident); ok && id.Name == "math" {
			switch x.Sel.Name {
			case "MaxUint8":
				return constant.MakeInt64(255), true
			case "MaxUint16":
				return constant.MakeInt64(65535), true
			case "MaxUint32":
				return constant.MakeUint64(4294967295), true
			case "MaxInt32":
				return constant.MakeInt64(2147483647), true
			}
		}
	case *ast.UnaryExpr:
		v, ok := p.eval(x.X, iota)
		if !ok {
			return nil, false
		}
		if v.Kind() == constant.Int && (x.Op == token.SUB || x.Op == token.ADD || x.Op == token.XOR) {
			return constant.UnaryOp(x.Op, v, 0), true
		}
		if v.Kind() == constant.Bool && x.Op == token.NOT {
			return constant.UnaryOp(x.Op, v, 0), true
		}
	case *ast.BinaryExpr:
		a, ok1 := p.eval(x.X, iota)
		b, ok2 := p.eval(x.Y, iota)
		if !ok1 || !ok2 {
			return nil, false
		}
		switch x.Op {
		case token.SHL, token.SHR:
			if a.Kind() == constant.Int && b.Kind() == constant.Int {
				s, ok := constant.Uint64Val(b)
				if !ok || s > 256 {
					return nil, false
				}
				return constant.Shift(a, x.Op, uint(s)), true
			}
		case token.ADD, token.SUB, token.MUL, token.AND, token.OR, token.XOR, token.AND_NOT, token.REM:
			if a.Kind() == b.Kind() && (a.Kind() == constant.Int || (a.Kind() == constant.String && x.Op == token.ADD)) {
				return constant.BinaryOp(a, x.Op, b), true
			}
		case token.QUO:
			if a.Kind() == constant.Int && b.Kind() == constant.Int && constant.Sign(b) != 0 {
				return constant.BinaryOp(a, token.QUO_ASSIGN, b), true // integer division
			}
		}
	case *ast.CallExpr:
		// conversions such as uint8(3), time.Duration(5), byte('x'), len("const")
		if len(x.Args) == 1 {
			if id, ok := x.Fun.(*ast.Ident); ok {
				switch id.Name {
				case "uint8", "uint16", "uint32", "uint64", "int", "int8", "int16", "int32", "int64", "byte", "uint", "rune":
					return p.eval(x.Args[0], iota)
				case "len":
					v, ok := p.eval(x.Args[0], iota)
					if ok && v.Kind() == constant.String {
						return constant.MakeInt64(int64(len(constant.StringVal(v)))), true
					}
				}
			}
			if se, ok := x.Fun.(*ast.SelectorExpr); ok {
				if id, ok := se.X.(*ast.Ident); ok && id.Name == "time" && se.Sel.Name == "Duration" {
					return p.eval(x.Args[0], iota)
				}
			}
		}
	}
	return nil, false
}

func (p *pkgInfo) evalConsts() {
	// several passes so that forward references resolve
	for pass := 0; pass < 4; pass++ {
		for _, f := range p.files {
			for _, d := range f.Decls {
				gd, ok := d.(*ast.GenDecl)
				if !ok || gd.Tok != token.CONST {
					continue
				}
				var lastVals []ast.Expr
				for i, s := range gd.Specs {
					vs := s.(*ast.ValueSpec)
					vals := vs.Values
					if len(vals) == 0 {
						vals = lastVals
					} else {
						lastVals = vals
					}
					for j, n := range vs.Names {
						if n.Name == "_" || j >= len(vals) {
							continue
						}
						if _, done := p.consts[n.Name]; done {
							continue
						}
						v, ok := p.eval(vals[j], int64(i))
						if ok {
							p.consts[n.Name] = v
							p.order = append(p.order, n.Name)
						}
					}
				}
			}
		}
	}
}

func coqString(s string) (string, bool) {
	for _, r := range []byte(s) {
		if r < 32 || r > 126 || r == '"' {
			return "", false
		}
	}
	return "\"" + s + "\"", true
}

func hexOf(b []byte) string {
	const d = "0123456789abcdef"
	var sb strings.Builder
	for _, c := range b {
		sb.WriteByte(d[c>>4])
		sb.WriteByte(d[c&15])
	}
	return sb.String()
}

// byteSliceLit evaluates []byte{...} / []byte("...") / "..." initialisers.
func (p *pkgInfo) byteSliceLit(e ast.Expr) ([]byte, bool) {
	switch x := e.(type) {
	case *ast.CompositeLit:
		at, ok := x.Type.(*ast.ArrayType)
		if !ok {
			return nil, false
		}
		if id, ok := at.Elt.(*ast.Ident); !ok || (id.Name != "byte" && id.Name != "uint8") {
			return nil, false
		}
		var out []byte
		for _, el := range x.Elts {
			v, ok := p.eval(el, 0)
			if !ok || v.Kind() != constant.Int {
				return nil, false
			}
			u, ok := constant.Uint64Val(v)
			if !ok || u > 255 {
				return nil, false
			}
			out = append(out, byte(u))
		}
		return out, true
	case *ast.CallExpr:
		if at, ok := x.Fun.(*ast.ArrayType); ok && len(x.Args) == 1 {
			if id, ok := at.Elt.(*ast.Ident); ok && id.Name == "byte" {
				v, ok := p.eval(x.Args[0], 0)
				if ok && v.Kind() == constant.String {
					return []byte(constant.StringVal(v)), true
				}
			}
		}
	}
	return nil, false
}

func emitConsts(pkgs []*pkgInfo) string {
	var b bytes.Buffer
	b.WriteString("(* GENERATED by tools/l4gen from /repo's working tree. Do not edit. *)\n")
	b.WriteString("From Coq Require Import ZArith String List.\nFrom L4 Require Import Hex.\nImport ListNotations.\nOpen Scope Z_scope.\n\n")
	for _, p := range pkgs {
		fmt.Fprintf(&b, "(* package %s *)\n", p.name)
		names := append([]string(nil), p.order...)
		sort.Strings(names)
		for _, n := range names {
			v := p.consts[n]
			switch v.Kind() {
			case constant.Int:
				s := v.ExactString()
				if strings.HasPrefix(s, "-") {
					s = "(" + s + ")"
				}
				fmt.Fprintf(&b, "Definition %s_%s : Z := %s.\n", p.name, n, s)
			case constant.String:
				fmt.Fprintf(&b, "Definition %s_%s : list Byte.byte := unhex \"%s\".\n", p.name, n, hexOf([]byte(constant.StringVal(v))))
			case constant.Bool:
				fmt.Fprintf(&b, "Definition %s_%s : bool := %v.\n", p.name, n, constant.BoolVal(v))
			}
		}
		// byte-string vars
		type bv struct {
			n string
			v []byte
		}
		var bvs []bv
		for _, f := range p.files {
			for _, d := range f.Decls {
				gd, ok := d.(*ast.GenDecl)
				if !ok || gd.Tok != token.VAR {
					continue
				}
				for _, s := range gd.Specs {
					vs := s.(*ast.ValueSpec)
					for j, n := range vs.Names {
						if j < len(vs.Values) {
							if bs, ok := p.byteSliceLit(vs.Values[j]); ok {
								bvs = append(bvs, bv{n.Name, bs})
							}
						}
					}
				}
			}
		}
		sort.Slice(bvs, func(i, j int) bool { return bvs[i].n < bvs[j].n })
		for _, x := range bvs {
			fmt.Fprintf(&b, "Definition %s_%s : list Byte.byte := unhex \"%s\".\n", p.name, x.n, hexOf(x.v))
		}
		b.WriteString("\n")
	}
	return b.String()
}

func writeIfChanged(path, content string) error {
	old, err := os.ReadFile(path)
	if err == nil && string(old) == content {
		return nil
	}
	return os.WriteFile(path, []byte(content), 0o644)
}

func boolStr(b bool) string { return strconv.FormatBool(b) }

func main() {
	repo := flag.String("repo", "/repo", "repository root")
	out := flag.String("out", "", "output directory (coq/gen)")
	flag.Parse()
	if *out == "" {
		fmt.Fprintln(os.Stderr, "usage: l4gen -repo /repo -out DIR")
		os.Exit(2)
	}
	specs := [][2]string{
		{"layer4", "layer4"},
		{"modules/l4proxy", "l4proxy"},
		{"modules/l4postgres", "l4postgres"},
		{"modules/l4ssh", "l4ssh"},
		{"modules/l4xmpp", "l4xmpp"},
		{"modules/l4socks", "l4socks"},
		{"modules/l4proxyprotocol", "l4proxyprotocol"},
		{"modules/l4tls", "l4tls"},
		{"modules/l4rdp", "l4rdp"},
		{"modules/l4winbox", "l4winbox"},
		{"modules/l4wireguard", "l4wireguard"},
		{"modules/l4openvpn", "l4openvpn"},
		{"modules/l4dns", "l4dns"},
		{"modules/l4throttle", "l4throttle"},
		{"modules/l4regexp", "l4regexp"},
		{"modules/l4clock", "l4clock"},
		{"modules/l4http", "l4http"},
		{"modules/l4quic", "l4quic"},
		{"modules/l4tee", "l4tee"},
		{"modules/l4subroute", "l4subroute"},
		{"modules/l4echo", "l4echo"},
	}
	var pkgs []*pkgInfo
	byName := map[string]*pkgInfo{}
	for _, s := range specs {
		p, err := loadPkg(*repo, s[0], s[1])
		if err != nil {
			fmt.Fprintf(os.Stderr, "l4gen: %s: %v\n", s[0], err)
			os.Exit(1)
		}
		pkgs = append(pkgs, p)
		byName[s[1]] = p
	}
	if err := os.MkdirAll(*out, 0o755); err != nil {
		fmt.Fprintln(os.Stderr, err)
		os.Exit(1)
	}
	must := func(err error) {
		if err != nil {
			fmt.Fprintln(os.Stderr, "l4gen:", err)
			os.Exit(1)
		}
	}
	must(writeIfChanged(filepath.Join(*out, "Consts.v"), emitConsts(pkgs)))
	must(writeIfChanged(filepath.Join(*out, "Shape.v"), emitShape(byName)))
	must(writeIfChanged(filepath.Join(*out, "Access.v"), emitAccess(byName)))
}
