package main

import (
	"fmt"
	"go/ast"
	"go/token"
	"strconv"
)

// ---------- DNS matcher size bounds (C14/C04; appended by b-movpn) ----------
//
//	l4dns_udp_size_limit   the value MatchDNS.Match compares the datagram size with (`if n > <limit>`, UDP branch)
//	l4dns_tcp_size_limit   the value MatchDNS.Match compares the TCP length field with (`msgBytes > <limit>`)
//	l4dns_udp_chunk        the size of the buffer the UDP branch drains the datagram with
//
// The limits are written in the source as constants of github.com/miekg/dns; their values are resolved from the table
// below (the mdns engine's constants case reports the values the Go compiler sees on every run). Anything the translator
// cannot resolve becomes 0, which breaks the proofs that depend on the bound.
func shapeMDns(pk map[string]*pkgInfo) []fact {
	p := pk["l4dns"]
	if p == nil {
		return nil
	}
	miekg := map[string]int64{"MinMsgSize": 512, "MaxMsgSize": 65535, "DefaultMsgSize": 4096}
	value := func(e ast.Expr) (int64, string) {
		switch x := e.(type) {
		case *ast.BasicLit:
			if x.Kind == token.INT {
				if v, err := strconv.ParseInt(x.Value, 0, 64); err == nil {
					return v, x.Value
				}
			}
		case *ast.SelectorExpr:
			if id, ok := x.X.(*ast.Ident); ok && id.Name == "dns" {
				if v, ok := miekg[x.Sel.Name]; ok {
					return v, "dns." + x.Sel.Name
				}
				return 0, "dns." + x.Sel.Name + " (unknown to the translator)"
			}
		case *ast.Ident:
			if cv, ok := p.consts[x.Name]; ok {
				if v, err := strconv.ParseInt(cv.ExactString(), 10, 64); err == nil {
					return v, x.Name
				}
			}
		case *ast.CallExpr: // int(x) and the like
			if len(x.Args) == 1 {
				return valueOf(p, miekg, x.Args[0])
			}
		}
		return 0, "unresolved"
	}
	fd := p.findFunc("MatchDNS", "Match")
	udp, udpSrc, tcp, tcpSrc, chunk, chunkSrc := int64(0), "not found", int64(0), "not found", int64(0), "not found"
	if fd != nil && fd.Body != nil {
		ast.Inspect(fd.Body, func(n ast.Node) bool {
			switch x := n.(type) {
			case *ast.BinaryExpr:
				if x.Op == token.GTR {
					if id, ok := x.X.(*ast.Ident); ok {
						switch id.Name {
						case "n":
							udp, udpSrc = value(x.Y)
						case "msgBytes":
							tcp, tcpSrc = value(x.Y)
						}
					}
				}
			case *ast.AssignStmt:
				if len(x.Lhs) == 1 && len(x.Rhs) == 1 {
					if id, ok := x.Lhs[0].(*ast.Ident); ok && id.Name == "tmpBuf" {
						if call, ok := x.Rhs[0].(*ast.CallExpr); ok && len(call.Args) == 2 {
							chunk, chunkSrc = value(call.Args[1])
						}
					}
				}
			}
			return true
		})
	}
	return []fact{
		{"l4dns_udp_size_limit", "Z", fmt.Sprint(udp), "MatchDNS.Match, UDP branch: `n > " + udpSrc + "` rejects the datagram"},
		{"l4dns_tcp_size_limit", "Z", fmt.Sprint(tcp), "MatchDNS.Match, TCP branch: `msgBytes > " + tcpSrc + "` rejects the frame"},
		{"l4dns_udp_chunk", "Z", fmt.Sprint(chunk), "MatchDNS.Match, UDP branch: tmpBuf := make([]byte, " + chunkSrc + ")"},
	}
}

func valueOf(p *pkgInfo, miekg map[string]int64, e ast.Expr) (int64, string) {
	switch x := e.(type) {
	case *ast.BasicLit:
		if v, err := strconv.ParseInt(x.Value, 0, 64); err == nil {
			return v, x.Value
		}
	case *ast.SelectorExpr:
		if id, ok := x.X.(*ast.Ident); ok && id.Name == "dns" {
			if v, ok := miekg[x.Sel.Name]; ok {
				return v, "dns." + x.Sel.Name
			}
		}
	}
	return 0, "unresolved"
}
