module l4gen

go 1.23
