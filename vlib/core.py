"""Shared machinery for ./check: translator, Coq build, Go engines, in-Coq evaluation of
correspondence cases, known findings, evidence, verdict."""
import concurrent.futures
import fcntl
import hashlib
import json
import os
import re
import shutil
import subprocess
import sys
import threading
import time

VERIF = os.path.dirname(os.path.dirname(os.path.abspath(__file__)))
REPO = os.environ.get("VERIF_REPO", "/repo")
BUILD = os.path.join(VERIF, ".build")
COQ = os.path.join(VERIF, "coq")
if os.path.realpath(REPO) != "/repo":
    # checking another tree (a scratch worktree with a candidate change): work on a private copy
    # of the Coq project and build directory so that concurrent checks of /repo are not disturbed
    BUILD = os.path.join(VERIF, ".build", "alt", hashlib.sha1(os.path.realpath(REPO).encode()).hexdigest()[:10])
    os.makedirs(BUILD, exist_ok=True)
    subprocess.run(["rsync", "-a", "--delete", "--exclude", "gen/", "--exclude", "cases/", os.path.join(VERIF, "coq") + "/", os.path.join(BUILD, "coq") + "/"], check=True)
    COQ = os.path.join(BUILD, "coq")
# evidence/ and replays/ of an alternative tree go to its private build directory
OUTDIR = VERIF if os.path.realpath(REPO) == "/repo" else BUILD
OVERLAY = os.path.join(VERIF, "harness", "overlay")
NPROC = min(16, os.cpu_count() or 4)

FORBIDDEN = re.compile(r"\b(Admitted|admit|Axiom|Axioms|Parameter|Parameters|Conjecture|Admit Obligations|bypass_check)\b|Unset Guard|Unset Positivity|Unset Universe|type-in-type|impredicative-set")


def goenv():
    e = dict(os.environ)
    e.update({"GOPROXY": "off", "GOSUMDB": "off", "GOTOOLCHAIN": "local", "GOFLAGS": "",
              "CGO_ENABLED": e.get("CGO_ENABLED", "1")})
    return e


class Lock:
    def __init__(self, name):
        os.makedirs(BUILD, exist_ok=True)
        self.path = os.path.join(BUILD, name + ".lock")

    def __enter__(self):
        self.f = open(self.path, "w")
        fcntl.flock(self.f, fcntl.LOCK_EX)
        return self

    def __exit__(self, *a):
        fcntl.flock(self.f, fcntl.LOCK_UN)
        self.f.close()


def run(cmd, cwd=None, env=None, timeout=600, input=None):
    t0 = time.time()
    try:
        p = subprocess.run(cmd, cwd=cwd, env=env, timeout=timeout, input=input,
                           stdout=subprocess.PIPE, stderr=subprocess.STDOUT, text=True, errors="replace")
        return p.returncode, p.stdout, time.time() - t0
    except subprocess.TimeoutExpired as ex:
        out = ex.stdout if isinstance(ex.stdout, str) else (ex.stdout or b"").decode("utf8", "replace")
        return 124, out + "\n[timeout after %ss]" % timeout, time.time() - t0


# ----------------------------------------------------------------------------- translator
def build_l4gen():
    src = os.path.join(VERIF, "tools", "l4gen")
    binp = os.path.join(VERIF, ".build", "l4gen")
    newest = max(os.path.getmtime(os.path.join(src, f)) for f in os.listdir(src))
    if os.path.exists(binp) and os.path.getmtime(binp) >= newest:
        return binp
    env = goenv()
    env["GOFLAGS"] = "-mod=mod"
    rc, out, _ = run(["go", "build", "-o", binp + ".new", "."], cwd=src, env=env, timeout=300)
    if rc != 0:
        if os.path.exists(binp):
            # keep working with the last translator that built (another builder may be mid-edit);
            # a fresh restore has no previous binary, so there the failure is fatal
            sys.stderr.write("WARNING: tools/l4gen does not build, using the previous binary:\n" + out[-800:] + "\n")
            return binp
        raise RuntimeError("building l4gen failed:\n" + out)
    os.replace(binp + ".new", binp)
    return binp


def gen():
    """Regenerate coq/gen/*.v from /repo's working tree."""
    with Lock("gen"):
        binp = build_l4gen()
        rc, out, dt = run([binp, "-repo", REPO, "-out", os.path.join(COQ, "gen")], timeout=120)
        if OUTDIR != VERIF:
            # private copy for another tree: compiled files were copied from /verif/coq and may have
            # been built against /repo's generated files; make everything that depends on gen/ rebuild
            for f in os.listdir(os.path.join(COQ, "gen")):
                if f.endswith(".v"):
                    os.utime(os.path.join(COQ, "gen", f), None)
        return rc == 0, out, dt


# ----------------------------------------------------------------------------- Coq build
def coq_project():
    files = []
    for root, dirs, fs in os.walk(COQ):
        dirs[:] = [d for d in dirs if d not in ("cases",)]
        for f in fs:
            if f.endswith(".v"):
                files.append(os.path.relpath(os.path.join(root, f), COQ))
    files.sort()
    content = "-Q . L4\n-arg -w -arg -notation-overridden,-deprecated-hint-without-locality,-deprecated-instance-without-locality\n" + "\n".join(files) + "\n"
    cp = os.path.join(COQ, "_CoqProject")
    old = open(cp).read() if os.path.exists(cp) else ""
    if old != content or not os.path.exists(os.path.join(COQ, "Makefile")):
        open(cp, "w").write(content)
        rc, out, _ = run(["coq_makefile", "-f", "_CoqProject", "-o", "Makefile"], cwd=COQ, timeout=120)
        if rc != 0:
            raise RuntimeError("coq_makefile failed:\n" + out)


def forbidden_scan():
    hits = []
    for root, dirs, fs in os.walk(COQ):
        dirs[:] = [d for d in dirs if d not in ("cases",)]
        for f in fs:
            if f.endswith(".v") or f == "_CoqProject":
                p = os.path.join(root, f)
                for i, line in enumerate(open(p, errors="replace"), 1):
                    if FORBIDDEN.search(line):
                        hits.append("%s:%d: %s" % (os.path.relpath(p, VERIF), i, line.strip()[:120]))
    return hits


def coq_make(targets, timeout=1500):
    """Full .vo build of the given targets (and what they depend on). Returns (ok, log, secs)."""
    with Lock("coq"):
        coq_project()
        rc, out, dt = run(["make", "-j%d" % NPROC] + targets, cwd=COQ, timeout=timeout)
        for attempt in range(2):
            # a failure without a Coq error location is a killed/starved process, not a broken proof:
            # the build is incremental, so it is simply continued
            if rc == 0 or rc == 124 or re.search(r'File "\./[^"]+", line \d+', out):
                break
            time.sleep(5 + 10 * attempt)
            rc, out2, dt2 = run(["make", "-j%d" % max(1, NPROC // 2)] + targets, cwd=COQ, timeout=timeout)
            out, dt = out + "\n[retry]\n" + out2, dt + dt2
        return rc == 0, out, dt


def coq_error_site(log):
    """Extract (file, line, enclosing lemma) of the first Coq error in a make log."""
    m = re.search(r'File "\./([^"]+)", line (\d+)', log)
    if not m:
        return None
    f, ln = m.group(1), int(m.group(2))
    name = None
    try:
        lines = open(os.path.join(COQ, f), errors="replace").read().split("\n")
        for i in range(min(ln, len(lines)) - 1, -1, -1):
            mm = re.match(r"\s*(Lemma|Theorem|Corollary|Example|Definition|Fixpoint)\s+([A-Za-z0-9_']+)", lines[i])
            if mm:
                name = mm.group(2)
                break
    except OSError:
        pass
    return {"file": "coq/" + f, "line": ln, "statement": name}


def check_props(props_rel):
    """Re-run coqc on the property file to read what was actually discharged and the
    Print Assumptions output. Returns dict."""
    src = open(os.path.join(COQ, props_rel)).read()
    theorems = re.findall(r"^\s*(?:Theorem|Example)\s+([A-Za-z0-9_']+)", src, re.M)
    bad_proofs = []
    # property files may only close proofs with `exact` (plus vm_compute witnesses for refutations/examples)
    cmd = ["coqc", "-Q", ".", "L4", "-w", "-notation-overridden,-deprecated-hint-without-locality,-deprecated-instance-without-locality", props_rel]
    rc, out, dt = run(cmd, cwd=COQ, timeout=600)
    for attempt in range(3):
        if not transient_failure(rc, out):
            break
        time.sleep(5 + 10 * attempt)
        rc, out, dt = run(cmd, cwd=COQ, timeout=600)
    closed = len(re.findall(r"Closed under the global context", out))
    axioms = []
    for m in re.finditer(r"Axioms:\n((?:.+\n)+?)(?=\n|Closed|\Z)", out):
        axioms.append(m.group(1).strip())
    discharged = len(theorems) if rc == 0 else 0
    if rc != 0:
        m = re.search(r'line (\d+)', out)
        if m:
            ln = int(m.group(1))
            before = "\n".join(src.split("\n")[:ln - 1])
            discharged = max(0, len(re.findall(r"^\s*(?:Theorem|Example)\s+", before, re.M)) - 1)
    return {"ok": rc == 0, "theorems": theorems, "discharged": discharged, "closed": closed,
            "axioms": axioms, "log": out[-3000:], "secs": dt}


def check_props_many(files):
    """check_props for several property files at once (they write distinct .vo files)."""
    with Lock("coq"):
        with concurrent.futures.ThreadPoolExecutor(max_workers=min(6, max(1, len(files)))) as ex:
            return list(ex.map(check_props, files))


# ----------------------------------------------------------------------------- Go engines
def make_overlay(pkg_rel, files, tag):
    """files: paths relative to harness/overlay. Returns path to overlay json."""
    os.makedirs(os.path.join(BUILD, "overlay"), exist_ok=True)
    pkgdir = os.path.join(REPO, pkg_rel)
    pkgname = None
    gofiles = sorted(os.listdir(pkgdir))
    # prefer a non-test file; a test-only package (e.g. /repo/integration) is named by its tests
    for f in [g for g in gofiles if g.endswith(".go") and not g.endswith("_test.go")] + \
             [g for g in gofiles if g.endswith("_test.go") and not g.startswith("zz_verif_")]:
        for line in open(os.path.join(pkgdir, f), errors="replace"):
            m = re.match(r"package\s+(\w+)", line)
            if m:
                pkgname = m.group(1)
                break
        if pkgname:
            break
    rep = {}
    util_t = open(os.path.join(OVERLAY, "common", "util_test.go.tmpl")).read().replace("PKGNAME", pkgname)
    up = os.path.join(BUILD, "overlay", "util_%s_test.go" % pkgname)
    if not os.path.exists(up) or open(up).read() != util_t:
        open(up, "w").write(util_t)
    rep[os.path.join(pkgdir, "zz_verif_util_test.go")] = up
    for f in files:
        rep[os.path.join(pkgdir, "zz_verif_" + os.path.basename(f))] = os.path.join(OVERLAY, f)
    op = os.path.join(BUILD, "overlay", "overlay_%s_%d.json" % (tag, os.getpid()))
    open(op, "w").write(json.dumps({"Replace": rep}, indent=1))
    return op


def run_engine(prop, eng, seed, tier, extra_env=None):
    """Run one Go engine (a test function injected by overlay into a /repo package).
    Returns dict(ok, log, records, secs)."""
    tag = "%s_%s" % (prop, eng["name"])
    op = make_overlay(eng["pkg"], eng["files"], tag)
    outp = os.path.join(BUILD, "run", "%s_%d.jsonl" % (tag, os.getpid()))
    os.makedirs(os.path.dirname(outp), exist_ok=True)
    if os.path.exists(outp):
        os.remove(outp)
    env = goenv()
    env.update({"VERIF_OUT": outp, "VERIF_SEED": str(seed), "VERIF_TIER": tier,
                "VERIF_N": str(eng.get("n_" + tier, eng.get("n_quick", 0)))})
    if extra_env:
        env.update(extra_env)
    cmd = ["go", "test", "-vet=off", "-count=1", "-overlay", op, "-run", eng["run"],
           "-timeout", "%ds" % eng.get("timeout_" + tier, eng.get("timeout", 600))]
    if eng.get("race") and tier == "thorough":
        cmd.append("-race")
    cmd += eng.get("go_flags", [])
    cmd.append("./" + eng["pkg"])
    tmo = eng.get("timeout_" + tier, eng.get("timeout", 600)) + 120
    rc, out, dt = run(cmd, cwd=REPO, env=env, timeout=tmo)
    for attempt in range(2):
        # the test binary or the go tool killed from outside (OOM killer): says nothing about the code
        if rc == 0 or not re.search(r"signal: killed|fork/exec .*: (cannot allocate memory|resource temporarily unavailable)|runtime: out of memory: cannot allocate", out):
            break
        if re.search(r"^--- FAIL|^panic:", out, re.M) and "signal: killed" not in out:
            break
        time.sleep(10 + 20 * attempt)
        if os.path.exists(outp):
            os.remove(outp)
        rc, out, dt2 = run(cmd, cwd=REPO, env=env, timeout=tmo)
        dt += dt2
    recs = []
    if os.path.exists(outp):
        for line in open(outp, errors="replace"):
            line = line.strip()
            if line:
                try:
                    recs.append(json.loads(line))
                except ValueError:
                    pass
    if os.path.exists(outp):
        os.replace(outp, os.path.join(BUILD, "run", tag + ".last.jsonl"))
    return {"ok": rc == 0, "rc": rc, "log": out[-6000:], "records": recs, "secs": dt, "cmd": " ".join(cmd)}


# ----------------------------------------------------------------------------- in-Coq evaluation
def transient_failure(rc, out):
    """A coqc/make failure that says nothing about the development: the process was killed (signal,
    OOM killer) or died without printing an error. Such a run is repeated, never reported as is."""
    if rc == 0:
        return False
    return rc < 0 or rc in (137, 143) or "Error" not in out or \
        re.search(r"Out of memory|Cannot allocate memory|Killed|Resource temporarily unavailable", out) is not None


_RETRY_SLOTS = threading.Semaphore(2)


def _coqc_shard(args):
    path, = args
    cmd = ["coqc", "-Q", COQ, "L4", "-w", "-notation-overridden", path]
    rc, out, dt = run(cmd, cwd=os.path.dirname(path), timeout=900)
    for attempt in range(3):
        if not transient_failure(rc, out):
            break
        # killed shards are repeated two at a time at most: the usual cause is memory pressure from
        # all the shards (and other checks) running at once
        with _RETRY_SLOTS:
            time.sleep(5 + 10 * attempt)
            rc, out, dt2 = run(cmd, cwd=os.path.dirname(path), timeout=900)
        dt += dt2
    return path, rc, out, dt


def coq_eval_cases(prop, name, corr_module, case_type, check_fn, cases, shard=400, imports=()):
    """cases: list of Coq terms of type case_type. Evaluates `check_fn` on each inside Coq with
    vm_compute and returns (list of mismatching indices, error-or-None, secs)."""
    # private to this process: two checks that share an engine may run at the same time
    d = os.path.join(BUILD, "cases", "%s_%s_%d" % (prop, name, os.getpid()))
    shutil.rmtree(d, ignore_errors=True)
    os.makedirs(d)
    if not cases:
        shutil.rmtree(d, ignore_errors=True)
        return [], None, 0.0
    nshards = max(1, min(4 * NPROC, (len(cases) + shard - 1) // shard))
    per = (len(cases) + nshards - 1) // nshards
    jobs = []
    offsets = {}
    for s in range(nshards):
        chunk = cases[s * per:(s + 1) * per]
        if not chunk:
            continue
        p = os.path.join(d, "shard%03d.v" % s)
        with open(p, "w") as f:
            f.write("From Coq Require Import List ZArith NArith String Bool.\nFrom L4 Require Import Hex.\n")
            f.write("From L4.corr Require Import Common %s.\n" % corr_module)
            for im in imports:
                f.write(im + "\n")
            f.write("Import ListNotations.\nOpen Scope Z_scope.\nOpen Scope string_scope.\n")
            f.write("Definition cases : list %s := [\n" % case_type)
            f.write(";\n".join("  (" + c + ")" for c in chunk))
            f.write("\n].\nDefinition M := Eval vm_compute in mismatches %s cases.\nPrint M.\n" % check_fn)
        offsets[p] = s * per
        jobs.append((p,))
    t0 = time.time()
    bad, err = [], None
    with concurrent.futures.ThreadPoolExecutor(max_workers=NPROC) as ex:
        for path, rc, out, dt in ex.map(_coqc_shard, jobs):
            if rc != 0:
                err = (err or "") + "coqc failed on %s:\n%s\n" % (os.path.basename(path), out[-1500:])
                continue
            m = re.search(r"M\s*=\s*(\[.*?\])\s*:\s*list N", out, re.S)
            if not m:
                err = (err or "") + "unparsable coqc output for %s: %s\n" % (path, out[-500:])
                continue
            for n in re.findall(r"(\d+)%N|\b(\d+)\b", m.group(1)):
                v = n[0] or n[1]
                bad.append(offsets[path] + int(v))
    if not err:
        shutil.rmtree(d, ignore_errors=True)
    return sorted(bad), err, time.time() - t0


# ----------------------------------------------------------------------------- known findings
def load_known():
    p = os.path.join(VERIF, "known_findings.txt")
    known, fixed = {}, {}
    if os.path.exists(p):
        for line in open(p):
            line = line.strip()
            if not line or line.startswith("#"):
                continue
            m = re.match(r"finding:\s+property=(\S+)\s+key=(\S+)\s*(.*)", line)
            if m:
                known[(m.group(1), m.group(2))] = m.group(3)
                continue
            m = re.match(r"fixed:\s+property=(\S+)\s+(\S+)\s*(.*)", line)
            if m:
                fixed[(m.group(1), m.group(2))] = m.group(3)
    return known, fixed


def sha(s):
    return hashlib.sha1(s.encode("utf8", "replace")).hexdigest()[:12]


# ----------------------------------------------------------------------------- coqchk (thorough tier)
def coqchk(props_files, timeout=3000):
    """Independent re-check of the compiled property files and everything they depend on.
    Cached on the content hash of the .vo files of the project. Returns dict."""
    mods = ["L4." + f[:-2].replace("/", ".") for f in props_files]
    h = hashlib.sha1()
    for root, dirs, fs in os.walk(COQ):
        dirs[:] = sorted(d for d in dirs if d != "cases")
        for f in sorted(fs):
            if f.endswith(".vo"):
                h.update(f.encode())
                h.update(open(os.path.join(root, f), "rb").read())
    key = hashlib.sha1((h.hexdigest() + " ".join(mods)).encode()).hexdigest()[:16]
    cdir = os.path.join(BUILD, "coqchk")
    os.makedirs(cdir, exist_ok=True)
    cp = os.path.join(cdir, key + ".json")
    if os.path.exists(cp):
        r = json.load(open(cp))
        r["cached"] = True
        return r
    cmd = ["coqchk", "-silent", "-o", "-Q", ".", "L4"] + mods
    rc, out, dt = run(cmd, cwd=COQ, timeout=timeout)
    summary = out[out.find("CONTEXT SUMMARY"):] if "CONTEXT SUMMARY" in out else out[-1500:]
    m = re.search(r"\* Axioms:\s*(.*?)\n\s*\n", summary, re.S)
    r = {"ok": rc == 0, "cmd": " ".join(cmd), "secs": round(dt, 1), "axioms": (m.group(1).strip() if m else "?"),
         "summary": summary[-1500:], "cached": False}
    if rc == 0:
        json.dump(r, open(cp, "w"))
    return r
