SPEC = {'id': 'C15',
 'manifest': {'technique': 'Coq structural proof of adapt(print cfg) = to_json cfg given leaf lemmas + real Caddyfile adapter on generated '
                           'configurations (adapt twice, validate, JSON round trip)',
              'level_text': 'adapt_structural over configurations of any nesting depth; the real adapter is run on generated configurations and '
                            "compared with the model's JSON.",
              'level_note': "Partial: Caddy's lexer/dispenser and module loader are not modelled; leaf coverage listed in the evidence."}}
