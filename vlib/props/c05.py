SPEC = {'id': 'C05',
 'manifest': {'technique': 'Coq proof over a timed model of the matching loop (deadline armed/cleared, buffer bound, fail-closed) + real-time '
                           'scripted clients over TCP and UDP',
              'level_text': 'matching_ends_by_deadline, buffer_bounded, fails_closed, deadline_cleared_before_handlers, not_early for TCP and for '
                            'the UDP packetConn machine (stored-deadline granularity and timer-tick recheck read from the source), compile totality '
                            'for sufficient fuel; the old whole-second storage and the tick-without-recheck machine are kept as refutation '
                            'witnesses. Real-time scenarios over pipe/TCP/UDP (silent, late, trickle, flood, non-terminal-then-undecided, empty '
                            'route list) compared with the timed model.',
              'level_note': 'Real clocks and scheduler slack are runtime: measured with wide one-sided tolerances and one retry, not proved.'}}
