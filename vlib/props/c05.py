SPEC = {'id': 'C05',
 'manifest': {'technique': 'Coq proof over a timed model of the matching loop (deadline armed/cleared, buffer bound, fail-closed) + real-time '
                           'scripted clients over TCP and UDP',
              'level_text': 'Theorems over all timed arrival schedules about the deadline/buffer state machine of Compile + prefetch; real-time '
                            'engine measures abort times and post-match reads for TCP and UDP connections.',
              'level_note': 'Real clocks and scheduler slack are runtime: measured with tolerances, not proved.'}}
