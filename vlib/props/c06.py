SPEC = {'id': 'C06',
 'manifest': {'technique': 'Coq proof of view/purity lemmas on the Connection model and No-stability of matcher models under extension + verdict '
                           'chains of the real matchers over every prefix',
              'level_text': 'matching_is_a_view (no network read, state restored) on model/Conn.v and, per stream matcher model, No on a prefix '
                            'implies No on every extension; the real matchers are evaluated on every prefix of generated streams (socket reads '
                            'counted, stream re-read afterwards).',
              'level_note': 'Delegated sub-matchers (http/tls inner matchers) are abstract predicates.'}}
