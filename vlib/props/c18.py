SPEC = {'id': 'C18',
 'manifest': {'technique': 'Coq inverse-law proofs for codec models (to_bytes (from_bytes b) = b, from_bytes (to_bytes x) = x, wrong lengths '
                           'rejected) + differential run of the real FromBytes/ToBytes at every length around the bounds',
              'level_text': 'to_from, from_to and rejects_wrong_length for each exported wire-message type model; the real codecs are run on every '
                            'length around each bound and on generated field values.',
              'level_note': 'Crypto primitives (HMAC/AES) are abstract functions.'}}
