SPEC = {'id': 'C16',
 'manifest': {'technique': 'Coq proof over a state-machine model of the SOCKS5 negotiation (no outbound action unless authenticated and command '
                           'enabled) + scripted clients against the real handler with a loopback target',
              'level_text': 'no_outbound_unless_authorised for every configuration and client byte string; scripted clients for every command code, '
                            'address type and credential case.',
              'level_note': 'things-go/go-socks5 is modelled from its behaviour and checked by correspondence.'}}
