SPEC = {'id': 'C14',
 'manifest': {'technique': 'Coq proofs match(encode msg) = Yes <-> wf msg /\\ passes filters for matcher models against independent wire-format '
                           'references + generator/corruption differential run',
              'level_text': 'Per protocol an abstract message type, encoder and filter predicate written from the wire definition; match_iff_ref '
                            'proved for the modelled matchers; the real matchers are compared with the reference predicate on generated messages and '
                            'single-field corruptions.',
              'level_note': 'Delegated parsers by correspondence only.'}}
