SPEC = {'id': 'C04',
 'manifest': {'technique': 'Coq proof that Go-shaped parser models (explicit Panic/alloc) of the matchers never panic and allocate boundedly for '
                           'every byte string + per-matcher differential run under recover()',
              'level_text': "For each modelled matcher: forall configuration and byte string, verdict <> Panic and allocation <= bound, with Go's "
                            'slice/index partiality written out in the model; the real matchers are run in matching mode under recover() on '
                            'structured, corrupted and truncated inputs and compared with the model evaluated in Coq.',
              'level_note': 'Delegated third-party parsers (regexp, net/http, x/net/http2, miekg/dns, quic-go, proxyprotocol, go-socks5) are not '
                            'modelled: exercised by the differential run only.'}}
