SPEC = {'id': 'C12',
 'manifest': {'technique': 'Coq round-trip proofs for PROXY v1/v2 header codec models and the allow-list + three-way differential run (model, '
                           'mastercactapus/proxyprotocol, end-to-end handler)',
              'level_text': 'parse_encode_v1/v2, allow_iff_contained, sender_receiver_roundtrip; end-to-end handler run with headers split at every '
                            'position.',
              'level_note': "Header parsing/emission is the library's; modelled from its accepted language and checked by correspondence."}}
