SPEC = {'id': 'C11',
 'manifest': {'technique': 'Coq proof over time-stamped event histories (failure window counts, retry schedule, limits) + loopback harness with '
                           'switchable upstreams and white-box counter reads',
              'level_text': 'fails = window count, never negative; out-of-rotation iff; retry schedule; active marks; max_connections respected '
                            '(refuted today: countConn has no call site, read from gen/Shape.v).',
              'level_note': 'Goroutine wake-up latency is runtime (tolerances).'}}
