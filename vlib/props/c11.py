SPEC = {'id': 'C11',
 'manifest': {'technique': 'Coq proof over time-stamped event histories (failure window counts, retry schedule, limits) + loopback harness with '
                           'switchable upstreams and white-box counter reads',
              'level_text': 'fails = window count (never negative), out-of-rotation iff, back-in-rotation, retry schedule and last error, active '
                            'marks, effective limit (max_connections else unhealthy_connection_count, independent of fail_duration), '
                            'max_conns_respected under one-at-a-time admission; Shape obligations tie forgetter sleep, tryAgain comparison and '
                            'connection counting to the source. Loopback upstreams switchable refuse/accept, combined active/passive histories, '
                            'staggered failures, limits grid through the real Provision, white-box counter reads at quiescent instants.',
              'level_note': 'Goroutine wake-up latency is runtime (tolerances, counters sampled >= 45 ms from any boundary); the availability test '
                            'and the increment are not atomic in the code, so the limit theorem assumes sequential admission.'}}
