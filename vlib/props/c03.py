SPEC = {'id': 'C03',
 'manifest': {'technique': "Coq invariant proof over a small-step model of Handler.proxy's goroutines (safety: per-direction prefix invariants; "
                           'final-state confluence) + loopback relay harness comparing final states',
              'level_text': 'Safety (prefix invariants in every reachable state, faults included), finality, termination and progress theorems over '
                            'all chunkings and interleavings of the modelled steps of proxy(); half-close is proved offered for every chain of this '
                            "repository's wrappers (method sets read from the source by l4gen). The real handler is run over loopback TCP, "
                            'unix-socket and TLS upstreams, scripted downstreams (data+error in one Read), client/peer resets, late writes, all '
                            'half-close orders, behind throttle/proxy_protocol/tee, and compared with the final state the model predicts.',
              'level_note': 'Partial: goroutine scheduling, TCP back-pressure and socket semantics are modelled as arbitrary interleavings of atomic '
                            'steps; UDP and TLS record layers are not modelled.'}}
