SPEC = {'id': 'C03',
 'manifest': {'technique': "Coq invariant proof over a small-step model of Handler.proxy's goroutines (safety: per-direction prefix invariants; "
                           'final-state confluence) + loopback relay harness comparing final states',
              'level_text': 'Safety and final-state theorems over all chunkings and interleavings of the modelled steps of proxy(); the real handler '
                            'is run over loopback sockets with all half-close orders and compared with the predicted final state.',
              'level_note': 'Partial: goroutine scheduling, TCP back-pressure and socket semantics are modelled as arbitrary interleavings of atomic '
                            'steps.'}}
