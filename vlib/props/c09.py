SPEC = {'id': 'C09',
 'manifest': {'technique': 'Coq invariant proof over the channel-level state machine of servePacket/packetConn + trace validation of the real UDP '
                           'server loop',
              'level_text': 'per_client_in_order and fresh_after_end over all interleavings of the modelled steps; loop_never_panics is refuted for '
                            "today's Close order (recorded finding) and proved for the notify-before-close order; real servePacket traces are "
                            'validated against the model.',
              'level_note': "Go's scheduler = arbitrary interleaving of the modelled atomic steps."}}
