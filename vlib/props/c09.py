SPEC = {'id': 'C09',
 'manifest': {'technique': 'Coq invariant proof over the channel-level state machine of servePacket/packetConn + trace validation of the real UDP '
                           'server loop',
              'level_text': 'per_client_in_order, reads/replies own address, fresh_after_end, one_live_association and loop_never_panics proved over '
                            'all interleavings for the configuration l4gen reads from the source (Close never closes readCh, notifications carry '
                            'identity); the pre-repair order is kept as legacy_cfg with its refutation witnesses. Every scenario of the real '
                            "servePacket runs in a child process (crash observed), logs are accepted by the model's checker, sequential ones are "
                            'replayed step by step.',
              'level_note': "Go's scheduler = arbitrary interleaving of the modelled atomic steps; liveness is not claimed; client addresses are "
                            'opaque keys (equality of addr.String()).'}}
