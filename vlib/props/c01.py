SPEC = {'id': 'C01',
 'manifest': {'technique': 'Coq invariant proof over a layered-reader model of layer4.Connection (stream_of preserved by '
                           'read/prefetch/freeze/unfreeze/Wrap and by the shipped wrapping handlers) + lock-step and end-to-end differential runs',
              'level_text': 'Theorems over all streams, segmentations and operation sequences about model/Conn.v (line-by-line transcription of '
                            'connection.go) and the handler-chain constructions (tee, proxy_protocol, throttle, subroute, tls as an abstract '
                            'transformer): every consuming handler reads exactly the unconsumed suffix. The model is tied to the code by lock-step '
                            'op sequences on the real Connection and by end-to-end route lists with recording handlers.',
              'level_note': 'Modelled, not verified: bufio.Reader, io.Pipe/TeeReader, the TLS record layer (abstract injective transformer), kernel '
                            'sockets (arbitrary segmentation oracle).'}}
