SPEC = {'id': 'C08',
 'manifest': {'technique': 'Coq proof of buffer-pool non-interference over all interleavings of a heap/alias model + data-race discipline check over '
                           'the regenerated access table + tagged-stream stress run (with -race in thorough)',
              'level_text': 'pool_noninterference for the server.handle lifecycle over all interleavings; discipline_holds over gen/Access.v '
                            '(regenerated from the source each run); stress engine with self-identifying streams.',
              'level_note': 'The access-table extraction (l4gen) is trusted; the Go memory model is abstracted to atomic/plain accesses.'}}
