SPEC = {'id': 'C08',
 'manifest': {'technique': 'Coq proof of buffer-pool non-interference over all interleavings of a heap/alias model + data-race discipline check over '
                           'the regenerated access table + tagged-stream stress run (with -race in thorough)',
              'level_text': 'pool_noninterference for every lifecycle discipline that never returns a live buffer (server.handle, listener.handle, '
                            'tee branch as l4gen reads them from the source), the same for the UDP datagram pool and the packet hand-over '
                            '(udp_pool_noninterference), discipline_sound/complete and discipline_holds over gen/Access.v minus exactly the recorded '
                            'race findings; lock-step pool engine (pool choices observed by base pointer, replayed on the model), stress with '
                            'self-identifying streams, tee, UDP; -race run in the thorough tier.',
              'level_note': 'The access-table extraction (l4gen) is trusted and validated dynamically by the race detector; the Go memory model is '
                            'abstracted to atomic/plain accesses; two recorded race findings are exempted by name.'}}
