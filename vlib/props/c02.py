SPEC = {'id': 'C02',
 'manifest': {'technique': 'Coq refinement proof of the RouteList.Compile loop to a trace specification + exhaustive small-scope and random '
                           'differential run of the real Compile',
              'level_text': 'Theorems for arbitrary route lists, verdict functions and arrival schedules about model/Router.v (transcription of '
                            "Compile's loop with its four state variables): run-only-if-matched, in-order/no-repeat, first-match-when-decided, "
                            'terminal stops, fallback exactly once. Tied to the code by differential traces of the real Compile with scripted '
                            'matchers and handlers.',
              'level_note': 'Matchers/handlers are abstract functions in the model; caddy module loading is not modelled.'}}
