SPEC = {'id': 'C17',
 'manifest': {'technique': 'Coq proof of the token-bucket accounting bound over all read schedules + exact differential run against '
                           'rate.Limiter.ReserveN and a real-time one-sided bound check',
              'level_text': 'throttle_bound (bytes by time T <= burst + rate*T, per connection and in total) and stream identity through the '
                            'throttle layer; model reserve vs x/time/rate on dyadic inputs.',
              'level_note': 'x/time/rate is modelled from its documentation; wall-clock runs are supporting evidence.'}}
