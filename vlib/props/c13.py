SPEC = {'id': 'C13',
 'manifest': {'technique': 'Coq invariant proof over the listener-wrapper channel model (exactly-once delivery, drain liveness) + real '
                           'ListenerWrapper harness',
              'level_text': 'delivered_exactly_once, accept_after_close, no_goroutine_stuck over all interleavings of the modelled steps; '
                            'handover_stream_intact with the pool lifecycle read from gen/Shape.v.',
              'level_note': 'Scheduler = arbitrary interleaving of modelled steps.'}}
