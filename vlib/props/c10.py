SPEC = {
    "id": "C10",
    "coq_targets": ["props/C10.vo", "corr/C10Corr.vo", "corr/Common.vo"],
    "props_file": "props/C10.v",
    "engines": [{
        "name": "select", "pkg": "modules/l4proxy", "files": ["l4proxy/c10_test.go"], "run": "^TestVerifC10$",
        "corr": "C10Corr", "case_type": "c10case", "check": "check", "imports": ["From L4.model Require Import Select."],
        "n_quick": 300, "n_thorough": 6000, "timeout": 900,
    }],
    "rule": "pools: a corpus of past failures, every pool of size 0..3 (quick) / 0..4 (thorough) over 8 upstream-state kinds "
            "(idle, busy below limit, busy unlimited, unhealthy, passively failed, full, two healthy peers, two peers one full), "
            "plus random pools of size 1..8 with 1..3 peers each; every policy is run on every pool with the math/rand results it "
            "consumed recorded as oracle values; a case is non-trivial when the pool holds at least one available and one "
            "unavailable upstream; distinct = distinct (policy, pool state, oracle values, answer) terms",
    "trusted_base": [
        "math/rand (seeded global source) is replayed by the harness to obtain the values Select consumed; net.SplitHostPort is used by the harness to extract the client IP",
    ],
    "modelled": [
        "modules/l4proxy/loadbalancing.go: all six Select methods, leastConns, hostByHashing, hash (FNV-1a written out)",
        "modules/l4proxy/upstream.go: available, healthy, full, totalConns, peer counters as integers",
        "not modelled: atomicity of the counters (C08), Provision/Validate, Caddyfile parsing (C15)",
    ],
    "assumptions": [
        "random_choose: choose >= 1 (Validate enforces >= 2); math/rand results are non-negative and Intn(m) < m",
        "round_robin completeness is proved for counters that do not wrap inside one scan; the wrap case is the recorded finding C10:round_robin:wrap-*",
        "least_conn minimality assumes connection counts are non-negative (C11 accounts for them)",
    ],
    "manifest": {
        "technique": "Coq proof over an executable model of the six selection policies (soundness, completeness, no panic, earliest/minimal) + exhaustive/random differential run of the real Select methods against the model evaluated in Coq",
        "level_text": "Theorems for pools of any size and any peer state (props/C10.v, 22 statements, no axioms) about model/Select.v, a line-by-line transcription of loadbalancing.go/upstream.go with math/rand as an explicit oracle; the model is tied to the code by evaluating it inside Coq on every pool of size <=3 (quick) / <=4 (thorough) over 8 upstream-state kinds plus random pools up to 8, with the exact random draws the implementation consumed, and a direct oracle of the property text is evaluated on every implementation answer.",
        "level_note": "Trusted: Coq kernel, the Go harness (pool construction through unexported fields, replay of math/rand), model written by hand. Counters are sequential integers here (atomicity is C08). round_robin completeness/cycle is proved only without uint32 wrap; the wrap case is a recorded finding.",
    },
}
