SPEC = {'id': 'C10',
 'manifest': {'technique': 'Coq proof over an executable model of the six selection policies (soundness, completeness, no panic, earliest/minimal) + '
                           'exhaustive/random differential run of the real Select methods against the model evaluated in Coq',
              'level_text': 'Theorems for pools of any size and any peer state (props/C10.v, 22 statements, no axioms) about model/Select.v, a '
                            'line-by-line transcription of loadbalancing.go/upstream.go with math/rand as an explicit oracle; the model is tied to '
                            'the code by evaluating it inside Coq on every pool of size <=3 (quick) / <=4 (thorough) over 8 upstream-state kinds '
                            'plus random pools up to 8, with the exact random draws the implementation consumed, and a direct oracle of the property '
                            'text is evaluated on every implementation answer.',
              'level_note': 'Trusted: Coq kernel, the Go harness (pool construction through unexported fields, replay of math/rand), model written '
                            'by hand. Counters are sequential integers here (atomicity is C08). round_robin completeness/cycle is proved only '
                            'without uint32 wrap; the wrap case is a recorded finding.'}}
