SPEC = {'id': 'C07',
 'manifest': {'technique': 'Coq proof parse(encode h) = fields h for a model of parseRawClientHello against an RFC 8446 encoder + three-way '
                           'differential run (crypto/tls server, real matcher, model)',
              'level_text': 'parse_encode theorem for every well-formed abstract ClientHello (any list lengths), gate lemmas for '
                            'non-handshake/incomplete records; hellos emitted by crypto/tls clients are fed to a crypto/tls server, the real matcher '
                            'and the Coq model.',
              'level_note': 'crypto/tls itself is not modelled; agreement with it is differential.'}}
