ENGINE = {'name': 'conn',
 'pkg': 'layer4',
 'files': ['layer4/c01_conn_test.go', 'layer4/c01_listener_test.go'],
 'run': '^TestVerifC01(Conn|Listener)$',
 'corr': 'C01Corr',
 'case_type': 'c01case',
 'check': 'check',
 'imports': ['From L4.model Require Import Conn.'],
 'n_quick': 300,
 'n_thorough': 6000,
 'shard': 25,
 'timeout': 900,
 'serves': ['C01', 'C06'],
 'rule': 'lock-step operation sequences (10..60 operations: Read n, prefetch, freeze, unfreeze (nested as MatchNot does, sometimes '
         'unbracketed), MatchingBytes, real layer4.MatcherSet.Match on generated sets of scripted matchers and real MatchNot values (one set in three is {not{no}; reading matcher; ...}; the executed part of the tree and every observation are replayed on run_set of Conn.v; oracle keys <prop>:matcherset:network-read / matcher-ran-unfrozen / stream-changed), Wrap(identity), Wrap(bufio.Reader of size 16..4096 that has already read a header), in-place throttle '
         'wrapper, Wrap(io.TeeReader)) on a real *layer4.Connection over a scripted socket; position-coded streams of 0..4*MaxMatchingBytes '
         'bytes biased to 2048/4096/8192 +-1, optionally a preloaded prefix; segmentations {1 byte, random, 2048, all at once, mixed} with '
         'occasional deadline errors; after every operation result bytes, error enum, len(buf), cap(buf), offset, frozenOffset, matching and '
         'bytes pulled from the socket are compared with the model, and at the end the connection is drained and compared; a case is '
         'non-trivial when the buffer was non-empty and at least one read happened in matching mode; distinct = distinct case terms; plus (TestVerifC01Listener, oracle only) 100 connections through 7 wrapped listeners (ListenerWrapper.WrapListener, routes whose matcher needs 0..5000 bytes and answers no, or matches and consumes 7/100 bytes), sequential and overlapping, all sharing bufPool: the bytes read from the connection returned by Accept must be the unconsumed stream (keys C01:listener:*)',
 'trusted_base': ['bufio.Reader, io.TeeReader (Go standard library) are run for real in the lock-step sequences and are modelled in Conn.v',
                  'the scripted socket of the harness implements the segmentation oracle (net_read)'],
 'modelled': ['layer4/connection.go: Read, prefetch (in-place and pooled-tmp branches, capacity chosen by append as an oracle value), freeze, '
              'unfreeze, Wrap, WrapConnection, MatchingBytes (panic as None)',
              'bufio.Reader.Read, io.TeeReader.Read, throttledConn.Read (byte movement only)',
              'not modelled: Write path, context/vars, logging, bytesRead/bytesWritten counters, bufPool reuse (C08)'],
 'assumptions': ['every reader below a Connection returns either data or an error, never both (true of TCP sockets, pipes and every layer modelled; '
                 'lemma read_data_xor_err)',
                 'the capacity append chooses on reallocation is arbitrary but at least the new length (oracle argument of prefetch)']}
