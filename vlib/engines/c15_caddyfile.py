ENGINE = {'name': 'caddyfile',
 'pkg': '.',
 'files': ['caddyl4/c15_test.go'],
 'run': '^TestVerifC15$',
 'corr': 'C15Corr',
 'case_type': 'c15case',
 'check': 'check',
 'imports': ['From L4.model Require Import Caddyfile CaddyfileLeaves.'],
 'shard': 40,
 'n_quick': 300,
 'n_thorough': 4000,
 'timeout': 900,
 'serves': ['C15'],
 'rule': 'corpus: the 27 golden files of integration/caddyfile_adapt; generated: abstract configurations drawn from the grammar documented on '
         'every UnmarshalCaddyfile (18 matcher modules, 6 handler modules + tee/subroute/not, option values from each module\'s accepted domain, '
         '1-2 global layer4 blocks with 0-3 (rarely 11) servers, every 4th case in listener-wrapper form, nesting depth 1-3, 30% of route blocks with '
         'shuffled directive order, every 2nd configuration with the option lines inside every module block (also nested upstream / '
         'connection_policy blocks) in random order and well-populated proxy blocks mixing health_checks.active/passive, load_balancing and '
         'upstream tls_* options, 2 of 5 with every appending option (commands networks ports auth_methods allow cookie_ip cookie_port dial tls_curves tls_except_ports credentials alpn ciphers curves) written with long lists spread over 2-3 lines; cert_selection options always as 0-2 lines of 1-3 values); each is printed as Caddyfile text and as the JSON it states, adapted twice by the real adapter, compared as '
         'parsed JSON, loaded with caddy.Validate, decoded into layer4.App and into every module struct and re-encoded; plus a fixed stream of '
         'syntactically valid / semantically invalid values that the adapter must accept; a case is non-trivial when the configuration has at '
         'least one named matcher set and one nested handler (tee/subroute); distinct = distinct Coq terms',
 'trusted_base': ['Caddy\'s module loader (getModuleNameInline) and caddyconfig.JSONModuleObject decode through float64: integers above 2^53 are generated in global form only and never at MaxInt64', 'caddyfile.Tokenize (Caddy lexer) provides the token stream handed to the model; a change of line number is rendered as NL',
                  'httpcaddyfile (global options, servers/listener_wrappers) and caddy.Validate / module loader are Caddy\'s',
                  'caddyhttp.PrivateRangesCIDR() is copied into the model as a constant'],
 'modelled': ['layer4/caddyfile.go: ParseCaddyfileNestedRoutes, ParseCaddyfileNestedHandlers, ParseCaddyfileNestedMatcherSet, SetModuleNameInline, '
              'parseLayer4 (several global blocks); Server / ListenerWrapper / subroute / tee / not UnmarshalCaddyfile; block structure of the token '
              'stream (what Next/NextArg/NextBlock/NextSegment walk)',
              'leaf UnmarshalCaddyfile + JSON encoding modelled AND leaf equation proved (parse (print x) = json x): matchers ssh xmpp postgres proxy_protocol socks4 socks5 regexp clock wireguard winbox remote_ip local_ip dns rdp openvpn, tls and quic (sets of sni / alpn / remote_ip incl. "!" and private_ranges / local_ip), http (a set of host / path / method and not over them); handlers echo proxy_protocol throttle (integral and canonical decimal rates) socks5 proxy (upstream incl. tls_* options and tls_trust_pool inline, health checks, load balancing, six selection policies) tls (connection_policy: alpn ciphers curves default_sni drop fallback_sni protocols match, cert_selection with all_tags / any_tag / serial_number / subject_organization each on any number of lines)',
              'abstract / oracle only: request matchers other than host path method not inside http (Caddy parsers; repeated request matchers are merged by Caddy, the model covers distinct names), client_auth / insecure_secrets_log of a connection policy, cert_selection public_key_algorithm (its JSON number does not decode back in caddytls PublicKeyAlgorithm.UnmarshalJSON), CA pool modules other than inline, deprecated tls_trusted_ca_*, exponent-form rates; Caddy lexer, Dispenser cursor, error texts, module loader'],
 'assumptions': ['adapt_structural is proved for configurations satisfying config_ok (distinct set names, references defined, non-empty named sets, '
                 'distinct matcher names per set, durations within int64, leaf domains); the checker recomputes config_ok on every case',
                 'durations are single-component <integer><unit>; float options are unsigned integer literals or canonical decimals <int>.<frac> (at most 9+6 digits) whose strconv.ParseFloat / encoding/json round trip is assumed to be the literal itself']}
