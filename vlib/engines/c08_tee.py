ENGINE = {'name': 'tee_race',
 'pkg': 'modules/l4tee',
 'files': ['l4tee/c08_tee_test.go', 'l4tee/c08_race_test.go', 'l4tee/c08_raceon_test.go', 'l4tee/c08_raceoff_test.go'],
 'run': '^TestVerifC08(Tee|Race)$',
 'corr': 'C08Corr',
 'case_type': 'c08case',
 'check': 'C08Corr.check',
 'imports': [],
 'n_quick': 1,
 'n_thorough': 1,
 'timeout': 900,
 'race': True,
 'serves': ['C08'],
 'rule': 'tee: a real layer4 App on a unix socket, route  match(tag) -> tee{branch: sink} -> reader ; per (GOMAXPROCS, connections) in '
         '{(1,24),(4,64),(16,128)} (+{(1,128),(4,256),(16,512)} thorough) every client sends a self-identifying stream, the branch sleeps 4..10 ms '
         'before it reads its share, once with a main chain that reads its copy and once (a quarter of the connections) with a main chain that returns at '
         'once, so that Server.handle has put the buffer back and later connections are being matched while the branch still reads; race (thorough tier, built with '
         '-race, re-executed with GORACE=log_path): 48 concurrent clients through  match openvpn{auth} -> proxy to an upstream with two dial '
         'addresses ; every report with a /repo frame is attributed to the receiver field accessed on the reported line; non-trivial = at least two '
         'branches checked / any race report',
 'trusted_base': ['the Go race detector (dynamic, supporting evidence only) and the attribution of its reports to struct fields by go/parser on the reported source line'],
 'modelled': ['modules/l4tee/tee.go Handle: how the branch Connection is made (PFork in model/Pool.v); the pipe/TeeReader lock-step is C01/C03'],
 'assumptions': []}
