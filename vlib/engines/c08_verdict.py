ENGINE = {'name': 'verdict',
 'pkg': 'modules/l4http',
 'files': ['l4http/c08_verdict_test.go'],
 'run': '^TestVerifC08Verdict$',
 'corr': 'C08Corr',
 'case_type': 'c08case',
 'check': 'C08Corr.check',
 'imports': [],
 'n_quick': 1,
 'n_thorough': 1,
 'timeout': 600,
 'serves': ['C08'],
 'rule': 'verdict independence with the real http and openvpn matchers: one JSON-provisioned route list (http host a / http host b / openvpn auth '
         'with a group key / fallback) compiled once; 11 connection kinds (HTTP/2 prior knowledge whose HPACK block adds a dynamic-table entry, refers '
         'to dynamic entry 62 it never made, sets the table size to 0, refers back to an entry it has just made; HTTP/1.1; OpenVPN hard-reset packets '
         'authenticated with three different digests or with a wrong HMAC); all 121 ordered pairs run one after the other, then 40/80/120 (thorough '
         '+200/400/400) random connections interleaved on GOMAXPROCS 1/4/16; every verdict must be the one the connection\'s own bytes select',
 'trusted_base': ['HPACK blocks are written by hand (RFC 7541 literal/indexed representations without Huffman coding)'],
 'modelled': ['the statement is C08_verdicts_independent (a verdict is a function of the bytes the connection sees); matcher state shared '
              'between connections is outside model/Pool.v and is covered by the access table (module fields, package-level sync.Pool variables) and by this engine'],
 'assumptions': []}
