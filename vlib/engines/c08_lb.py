ENGINE = {'name': 'lb',
 'pkg': 'modules/l4proxy',
 'files': ['l4proxy/c08_lb_test.go'],
 'run': '^TestVerifC08LB$',
 'corr': 'C08Corr',
 'case_type': 'c08case',
 'check': 'C08Corr.check',
 'imports': [],
 'n_quick': 1,
 'n_thorough': 1,
 'timeout': 600,
 'race': True,
 'serves': ['C08'],
 'rule': 'the real l4proxy handler, provisioned from JSON with 2..3 upstreams on unix sockets, passive health checks (fail_duration 150ms) and '
         'try_duration 400ms; per (GOMAXPROCS, upstreams, policy) in {(1,2,first),(4,2,first),(4,3,round_robin)} (+{(16,3,first),(16,2,random),'
         '(1,3,least_conn)} thorough) 12..64 concurrent connections while the first upstream is down, then as many after it came back and its '
         'failure window passed; oracle: the upstream pool is the provisioned one (same values, same order) afterwards, every connection is served '
         'by an upstream the policy can select among those available at that time, and a recovered upstream is reached again',
 'trusted_base': ['unix-socket upstreams that answer with their name byte identify which upstream served a connection'],
 'modelled': ['the statement is routing-verdict independence (C08_verdicts_independent) for the load balancer: the pool is configuration '
              '(read-only after provisioning in gen/Access.v: l4proxy.Handler.Upstreams), availability is per-upstream atomic state (C10/C11)'],
 'assumptions': []}
