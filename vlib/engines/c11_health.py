ENGINE = {'name': 'health',
 'pkg': 'modules/l4proxy',
 'files': ['l4proxy/c11_health_test.go'],
 'run': '^TestVerifC11$',
 'corr': 'C11Corr',
 'case_type': 'c11case',
 'check': 'check',
 'imports': ['From L4.model Require Import Select Health.'],
 'n_quick': 16,
 'shard': 50,
 'n_thorough': 160,
 'timeout': 600,
 'serves': ['C11'],
 'rule': 'loopback upstream listeners switchable between refusing and accepting; scripted histories (connect with retries, close, switch, active '
         'probe, wait for expiry) for fail_duration 150/250/400 ms x max_fails 0..3, passive checks off, fail_duration 0, two-peer upstreams, '
         'fail-over under every shipped selection policy (first, random, random_choose, least_conn, round_robin, ip_hash; random histories draw the policy too): the upstream listed first is out of rotation - remembered failure, failed active check, or at its connection limit through a connection held on the shared peer - and has the fewest open connections while the available ones carry load; every attempt for which the policy returned no upstream is checked against the availability the model and the property text compute (key C11:retry:no-upstream-although-available, case HNoUp), every proxied connection against rotation; max_connections and unhealthy_connection_count limits, the grid max_connections set/unset x unhealthy_connection_count set/unset x fail_duration set/unset through Handler.Provision with four connections against the configured limit, dial failures injected with countFailure while the upstream is already out of rotation (staggered by 60..120 ms; the window must run from the latest one), active and passive checks combined (outage with remembered dial failures, active check marks the peer down and up again while they are remembered, expiry, second outage; fail_duration 600..900 ms), plus VERIF_N random histories of 5..10 steps (5..20 events) over 2..3 upstreams, '
         'fail_duration 120..400 ms, try_duration 0/100/200 ms, try_interval 30 ms, first and round_robin; after every step the counters '
         '(fails, unhealthy, numConns) of every peer and available() of every upstream are read at an instant at least 45 ms away from every '
         'event and every expiry; retry scenarios with all upstreams refusing (try_duration 0/100/160/250 ms), upstreams dropping out one by one, '
         'an upstream recovering during the retries. A history case is non-trivial when it holds a failure and a later expiry, or an open and a '
         'close; distinct = event-sequence shape',
 'trusted_base': ['event time stamps are taken by the harness (time of the Select call of each attempt, time Handle returned, time the probe ended), in ms',
                  'a refused loopback dial fails within the margin; wake-up latency of the forgetter goroutine and of time.After is below the 45 ms margin '
                  '(a scenario whose oracle fails is re-run once before it is reported)'],
 'modelled': ['modules/l4proxy/proxy.go: Handle retry loop, countFailure (increment now / decrement after fail_duration), where connections are counted (gen/Shape.v)',
              'modules/l4proxy/loadbalancing.go: tryAgain', 'modules/l4proxy/healthchecks.go: doActiveHealthCheck -> setHealthy',
              'modules/l4proxy/upstream.go: effective MaxConnections (max_connections, else unhealthy_connection_count, independent of fail_duration), peer counters, available/healthy/full via model/Select.v, Provision defaults for max_fails and unhealthy_connection_count',
              'not modelled: the ticker of the active checker, context cancellation in tryAgain, placeholders in dial addresses'],
 'assumptions': ['fail_duration >= 0 (a negative duration makes the forgetter fire at once)',
                 'max_connections: connections are admitted one at a time (the availability test and the increment are not one atomic step in the code) '
                 'and every peer belongs to exactly one upstream',
                 'times are exact in the model; the engine samples at least 45 ms away from every boundary']}
