ENGINE = {'name': 'subroute',
 'pkg': 'modules/l4subroute',
 'files': ['l4subroute/c02_subroute_test.go'],
 'run': '^TestVerifC02Subroute$',
 'corr': 'C02Corr',
 'case_type': 'c02case',
 'check': 'check',
 'imports': ['From L4.model Require Import GoBase Router.'],
 'n_quick': 60,
 'n_thorough': 600,
 'timeout': 600,
 'shard': 125,
 'serves': ['C02'],
 'rule': 'the REAL subroute module: route lists written as JSON (outer route with subroute{inner routes}, later outer routes, nested to depth 2, '
         '`not`, empty subroute), unmarshalled, provisioned and compiled ONCE with scripted matcher/handler caddy modules; then 3-5 connections '
         '(scripted net.Conn, 1-3 chunks) are pushed through the same compiled handler one after the other and the same ones again concurrently, '
         'each with its own trace in the connection\'s variable table. A hand-written corpus (subroute falls through to a following route / to the '
         'rest of its route and the outer fallback / nested twice / empty subroute) plus random instances whose matchers are decidable on the '
         'stream (so nothing but a terminal handler or the outer fallback may end a connection: oracle key C02:subroute:connection-silently-dropped) '
         'plus instances with undecidable/failing matchers (model comparison only). Every connection\'s trace is compared in Coq with model/Router.v '
         '(case RS; nested fallbacks/drops are projected away). Non-trivial = not the first connection of its instance and a route inside a '
         'subroute ran or >= 2 routes ran; distinct = distinct (routes, script, trace) terms',
 'trusted_base': ['scripted caddy modules layer4.matchers.verif_thr/verif_at and layer4.handlers.verif_rec/verif_term/verif_cons/verif_fail, the '
                  'scripted net.Conn and the zap core of the harness; caddy module loading (json.Unmarshal + RouteList.Provision) is used, not modelled'],
 'modelled': ['modules/l4subroute/handler.go: Handle = Compile with the rest of the outer chain as next, per connection (model: HSub)'],
 'assumptions': []}
