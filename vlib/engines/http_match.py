ENGINE = {
    'name': 'http',
    'pkg': 'modules/l4http',
    'files': ['l4http/http_test.go'],
    'run': '^TestVerifHTTP$',
    'n_quick': 60, 'n_thorough': 1200, 'timeout': 900,
    'serves': ['C06', 'C04', 'C14'],
    'rule': 'generated HTTP/1.x (CRLF and LF-only) and HTTP/2 prior-knowledge requests over methods x hosts x paths x 0..3 headers, '
            'optional trailing body, with no / host / method / path filter; every prefix is evaluated in matching mode on a fresh connection '
            '(verdict chain, socket reads, bytes readable afterwards, repeatability) and every request that matches whole is delivered in two '
            'fragments at 11 split points through the real RouteList.Compile; plus random and request-line-prefixed garbage; '
            'a request is one evaluation unit (non-trivial: every generated request reaches past the request-line gate)',
    'trusted_base': ['net/http.ReadRequest, x/net/http2 and hpack are the real libraries (not modelled): for the HTTP matcher the claim is the oracle run, the Coq part covers only the request-line gate (MatchSmall)'],
    'modelled': ['modules/l4http/httpmatcher.go: isHttp gate only (in coq/model/MatchSmall*.v); request parsing is delegated to net/http and exercised by this engine only'],
    'assumptions': [],
}
