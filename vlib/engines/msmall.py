ENGINE = {'name': 'msmall',
 'pkg': '.',
 'files': ['caddyl4/msmall_test.go'],
 'run': '^TestVerifMSmall$',
 'corr': 'MatchSmallCorr',
 'case_type': 'mscase',
 'check': 'check',
 'imports': ['From L4.model Require Import GoBase MatchSmall.'],
 'n_quick': 240,
 'n_thorough': 1200,
 'timeout': 900,
 'serves': ['C04', 'C06', 'C14'],
 'rule': 'per matcher (ssh, xmpp, postgres, proxy_protocol, socks4 x8 configurations, socks5 x5, regexp x5, tls record gate, http '
         'request-line gate, not x5 compositions built directly + x2 provisioned from JSON through module loading with 2-3 negated sets, '
         'MatcherSets.AnyMatch x7 ORs of 0-3 sets of real matchers in both orders; not over 2-3 remote_ip sets from JSON) streams come from a per-protocol generator of abstract first messages over the full field '
         'ranges: well-formed messages with trailing data, one-field corruptions that keep the length fields consistent, truncated and '
         'length-inconsistent messages, random bytes; every prefix of every stream is evaluated in matching mode (twice on one connection, once '
         'on a fresh one, socket reads counted, connection drained and compared, allocation measured); clock: 13 windows x 7 fixed-offset zones x boundary '
         'and random instants, plus 7 daylight-saving zones (northern, southern, Local set to a DST zone) x instants in both halves of 2026 and within '
         'the hour around every switch x windows whose edges lie half an hour around the local time, the reference and the model taking the offset '
         'in force at the instant; remote_ip/local_ip/not{remote_ip}: 26 range lists of 1-8 entries (disjoint, nested narrow-then-wide and wide-then-narrow, same base with '
         'different prefix lengths, single addresses inside later CIDRs, duplicates, private ranges mixed with literals, IPv4 / IPv6 / IPv4-mapped, '
         '6 random nestings per run; socks4 networks likewise) x first, last, both neighbours of both boundaries and a random inner address of EVERY range, reference = membership in the union; random, mapped, '
         'zoned and unparsable hosts as text addresses, and *net.TCPAddr / *net.UDPAddr values holding IPv4 in 16-byte and 4-byte form, IPv6 and '
         'zoned addresses. Sequence pass: 2n scenarios of 2-5 matchers evaluated one after the other on ONE connection (clock matchers of different zones/windows in '
         'every order, a clock inside not next to other clocks, remote_ip/local_ip with different range sets, one stream matcher under '
         'different filters, mixed sequences); every verdict must equal the one on a fresh connection with the same bytes, addresses and wrap '
         'time, and is also a correspondence case. Correspondence cases are the whole stream, the neighbourhood of the first gate and both sides of every verdict '
         'change. A case is non-trivial when the input reaches past the first magic/length gate of the matcher (clock: a proper window; ip: a '
         'parsable address); distinct = distinct (matcher, configuration, bytes, verdict) terms',
 'trusted_base': ['runtime.MemStats.TotalAlloc deltas are the measure of allocation; the scripted net.Conn counts Read calls',
                  'package net (ParseCIDR/IPNet.Contains) and package regexp are used by the harness as independent references for CIDR '
                  'containment and for the value the compiled pattern gives on the gated bytes',
                  'netip.ParseAddr / netip.ParsePrefix are used by the harness to print addresses and prefixes as integers'],
 'modelled': ['modules/l4ssh, l4xmpp, l4postgres (Match, ReadUint32, ReadString), l4proxyprotocol/matcher.go, l4socks/socks4_matcher.go and '
              'socks5_matcher.go (Match and the defaults of Provision), l4regexp (count gate and default count), l4clock (normalisation in '
              'Provision, Match on a fixed-offset zone), layer4/matchers.go (MatchRemoteIP/MatchLocalIP after address parsing, MatcherSet.Match, '
              'MatcherSets.AnyMatch, MatchNot.Match; MatchNot.Provision is exercised from JSON and compared with the model over the configured sets), l4http isHttp and the need-more branch, l4tls record header and exact read',
              'not modelled: the regexp engine, net/http request parsing, the ClientHello parser and TLS sub-matchers (other check), IANA zone '
              'lookup in l4clock, netip text parsing, Caddyfile unmarshalling (C15)'],
 'assumptions': ['regexp: the compiled pattern is a total function of the gated bytes (Section variable)',
                 'tls gate: the inner ClientHello matchers are a total function of the record body (Section variable)',
                 'remote_ip/local_ip: netip.ParseAddr is trusted to produce (family, 128/32-bit value, zone) of the textual address',
                 'clock: the zone enters the model as the UTC offset in force at the instant of the connection (computed by the harness with '
                 'time.Time.In on the embedded tzdata); the connection time is the value stored under l4.conn.wrap_time',
                 'http: verdicts after the request-line gate belong to net/http (the correspondence accepts Yes/More/error there)',
                 'xmpp: RFC 6120 stream headers whose namespace declaration starts after byte 44 are not recognised (recorded finding '
                 'C14:xmpp:rejects-valid-late-namespace)']}
