ENGINE = {'name': 'select',
 'pkg': 'modules/l4proxy',
 'files': ['l4proxy/c10_test.go'],
 'run': '^TestVerifC10$',
 'corr': 'C10Corr',
 'case_type': 'c10case',
 'check': 'check',
 'imports': ['From L4.model Require Import Select.'],
 'n_quick': 300,
 'n_thorough': 6000,
 'timeout': 900,
 'serves': ['C10'],
 'rule': 'pools: a corpus of past failures, every pool of size 0..3 (quick) / 0..4 (thorough) over 10 upstream-state kinds (idle, busy below limit, '
         'busy unlimited, unhealthy, passively failed, full, two healthy peers, two peers with the second full / unhealthy / failed at exactly max_fails), plus random pools of size 1..8 with 1..3 peers '
         'each; every policy is run on every pool with the math/rand results it consumed recorded as oracle values; a case is non-trivial when the '
         'pool holds at least one available and one unavailable upstream; distinct = distinct (policy, pool state, oracle values, answer) terms',
 'trusted_base': ['math/rand (seeded global source) is replayed by the harness to obtain the values Select consumed; net.SplitHostPort is used by '
                  'the harness to extract the client IP'],
 'modelled': ['modules/l4proxy/loadbalancing.go: all six Select methods, leastConns, hostByHashing, hash (FNV-1a written out)',
              'modules/l4proxy/upstream.go: available, healthy, full, totalConns, peer counters as integers',
              'not modelled: atomicity of the counters (C08), Provision/Validate, Caddyfile parsing (C15)'],
 'assumptions': ['random_choose: choose >= 1 (Validate enforces >= 2); math/rand results are non-negative and Intn(m) < m',
                 'round_robin completeness is proved for counters that do not wrap inside one scan; the wrap case is the recorded finding '
                 'C10:round_robin:wrap-*',
                 'least_conn minimality assumes connection counts are non-negative (C11 accounts for them)']}
