ENGINE = {'name': 'e2e',
 'pkg': 'integration',
 'files': ['integration/c01_e2e_test.go', 'integration/c01_e2e_more_test.go'],
 'run': '^TestVerifC01(E2E|Timed|UDP|Layered)$',
 'n_quick': 300,
 'n_thorough': 4000,
 'timeout': 900,
 'serves': ['C01'],
 'rule': 'end-to-end scenarios on real layer4 servers started by caddy.Run over an in-memory network (net.Pipe: the client write sizes are '
         'the server read segmentation): route lists generated from the shipped handlers proxy_protocol (header in the stream, one of: v1 TCP4, v2 PROXY TCP4, v1 UNKNOWN with and without the rest of the line, v2 LOCAL with and without an address block, v2 PROXY/UNSPEC), tee '
         '(recording branch), throttle (unlimited rate), subroute (nested route lists), echo, with scripted matchers (need k bytes by '
         'Read or MatchingBytes, k in 0..MaxMatchingBytes biased to 2048/4096/8192 +-1, answer yes/no) and recording handlers (consume c bytes '
         'then continue / read to EOF, reader buffers 1..32768); position-coded client streams of 0..4*MaxMatchingBytes bytes; client '
         'segmentations {1 byte, random, 2048-aligned, all at once}; every 8th scenarios force a matcher needing > 4096 bytes in front of '
         'proxy_protocol / tee; one matcher set in three is {not{need k1: no}; need k} (real `not` matcher next to a reading matcher, order by map iteration); every 5th scenario runs the whole chain behind the real tls matcher + tls handler (self-signed certificate loaded into the caddy tls app, crypto/tls client, TLS 1.2 or 1.3, plaintext written in the scenario segmentation); plus (TestVerifC01Timed) 6 (thorough 16) scenarios in which the client pauses 1 s -- longer than the 400 ms matching_timeout of a subroute -- after a non-terminal match and an undecided-then-no route, run in parallel, each retried up to 3 times before it is reported (keys C01:fallback-after-timeout:*); plus (TestVerifC01UDP) 60 (thorough 600) UDP scenarios on the real servePacket/packetConn over an in-memory net.PacketConn: datagram sizes around prefetchChunkSize (2047/2048/2049), equal to the read buffer of the recorder, or arbitrary, matcher k in {0,1,100,2048,2049,4096} (keys C01:udp:*); plus (TestVerifC01Layered) a two-route config [prefix matcher on the PROXY header -> proxy_protocol] [prefix matcher on the inner stream -> recorder] per header form with the stream split after every position of the header (keys <prop>:layered:*); every provisioned config of the main test serves three connections (one alone, then two overlapping; recorders are kept per connection), chains may contain a fall-through subroute followed by further routes, and one UDP scenario in five is a burst of 6..20 datagrams sent before the handler (delayed by throttle latency 150ms) reads for the first time; oracle: bytes read by every recorder (and echoed bytes) == the expected part of the client stream; a scenario '
         'is non-trivial when its chain has at least one wrapping element and the stream is non-empty; distinct = distinct (shape, segmentation) classes',
 'trusted_base': ['net.Pipe as the transport (synchronous, in order); caddy.Load / module loading of Caddy v2 to build the servers',
                  'the harness modules layer4.matchers.verif_need, layer4.handlers.verif_rec and the verifpipe network'],
 'modelled': ['end-to-end oracle only (no model evaluation): layer4 App/Server/handle, RouteList.Compile, MatcherSet.Match, Connection, '
              'l4proxyprotocol, l4tee, l4throttle, l4subroute, l4echo run as shipped',
              'l4tls matcher and handler run as shipped behind a crypto/tls client (keys C01:tls:*, C01:tls-tee-branch:*); UDP: Server.servePacket and packetConn.Read run as shipped over an in-memory PacketConn (no kernel socket, no datagram loss or reordering)'],
 'assumptions': ['Layers.v: io.Pipe delivers exactly what the TeeReader wrote, in order (the tee branch reads the sink log); concurrency of the two chains is not modelled',
                 'Layers.v: the TLS record layer is an arbitrary causal stream transformer (bytes released after consuming a byte depend only on the bytes consumed so far) and the handshake delivers no application data; crypto/tls itself is not modelled',
                 'Layers.v: the PROXY header parser is an arbitrary sequence of bufio fill/Read operations on a 4096-byte bufio.Reader; which bytes form the header is C12',
                 'matcher grammar: plain matchers read/peek only; `not` only delegates to matcher sets (no shipped matcher reads between an inner unfreeze and its return)',
                 'e2e scenarios keep every matcher satisfiable within MaxMatchingBytes of the bytes consumed from the current Connection (buffer-full aborts are C05) and order matcher needs so that a later route cannot match before an earlier one (C02)']}
