import os
from vlib import core

# the engine evaluates the access discipline on the regenerated table: tell it where the Coq tree of this run is
os.environ["VERIF_COQ_DIR"] = core.COQ

ENGINE = {'name': 'stress',
 'pkg': 'layer4',
 'files': ['layer4/c13_test.go', 'layer4/c08_test.go', 'layer4/c08_udp_test.go'],
 'run': '^TestVerifC08(Udp)?$',
 'corr': 'C08Corr',
 'case_type': 'c08case',
 'check': 'C08Corr.check',
 'imports': [],
 'n_quick': 150,
 'n_thorough': 600,
 'shard': 5,
 'timeout': 900,
 'race': True,
 'serves': ['C08'],
 'rule': '(a) lock-step: VERIF_N random single-goroutine schedules of 2..5 connections (Get, prefetches of 1..2648 bytes incl. exactly one chunk and '
         'more than one chunk, peeks, partial reads, return with/without hand-over, late reads) on the real bufPool/prefetch/Read with the pool '
         'choices and append capacities observed, every fourth one under the old always-Put life cycle; (b) stress: per (GOMAXPROCS, connections) in '
         '{(1,64),(4,96),(16,128)} (+{(1,256),(4,512),(16,512),(2,128)} thorough) one run through Server.handle and one through the ListenerWrapper '
         'with delayed Accept and late reads, streams of 64..1463 self-identifying bytes in two segments; (c) one case per location of coq/gen/Access.v; (d) UDP lock-step: VERIF_N/3 schedules on the real servePacket/packetConn/udpBufPool over a scripted '
         'PacketConn: datagrams of 16..9500 bytes from 2..4 clients fed one at a time, Reads with buffers of 1..4096 or 9000 bytes, associations ended '
         'and restarted, arrays identified by base pointer; (e) UDP stress: 3..4 clients x 12..60 self-describing datagrams sent concurrently, handlers '
         'with 600..3600-byte buffers ending their association every 2..4 datagrams, GOMAXPROCS 1/4/16; '
         'a lock-step case is non-trivial when a pooled array was reused by a later Get, a stress case when at least two '
         'connections got the same array, a location case when it has more than one access site; distinct = distinct terms',
 'trusted_base': ['array identity in the lock-step engine is the base pointer of the slice (unsafe.SliceData); net.Pipe stands for sockets',
                  'the engine re-evaluates the discipline on coq/gen/Access.v with a 10-line Go function; CLoc cases compare it with the Coq definition'],
 'modelled': ['layer4/server.go: udpBufPool, servePacket (reader goroutine, dispatch loop, packet struct per datagram), packetConn.Read (lastPacket/lastBuf), packetConn.Close',
              'layer4/connection.go: bufPool, WrapConnection, prefetch (both branches, append growth), Read outside matching, MatchingBytes',
              'layer4/server.go handle, layer4/listener.go handle: Get at entry, Put at return (conditional on errHijacked in the listener)',
              'modules/l4tee/tee.go: the branch Connection (fresh buffer since cc605f6)',
              'not modelled: sync.Pool internals (any free array or a new one), the garbage collector dropping pooled arrays (equivalent to never choosing them)'],
 'assumptions': ['data-race freedom is stated for the abstract thread model of model/Discipline.v over the access table extracted by tools/l4gen '
                 '(trusted); accesses of different threads are never assumed ordered, except that the handler goroutine is ordered with the proxy '
                 'goroutines it starts and joins (those accesses are not listed)',
                 'recorded findings are exempted by location: C08:race:l4openvpn.MatchOpenVPN.lastDigest, C08:race:layer4.Connection.bytesWritten']}
