ENGINE = {'name': 'socks5-handler',
 'pkg': 'modules/l4socks',
 'files': ['l4socks/c16_test.go'],
 'run': '^TestVerifC16$',
 'n_quick': 300,
 'n_thorough': 3000,
 'timeout': 900,
 'serves': ['C04'],
 'rule': 'the C16 engine (scripted SOCKS5 clients against the real provisioned handler: every configuration, command code, address form, '
         'truncation at every byte, bit flips, and the address the client connection reports: TCPAddr variants and net.Addr values that are '
         'not a TCPAddr, as UDP / unix listeners and proxy_protocol produce) run for the no-panic property: Handle and the handler\'s address '
         'rewriter are called under recover(); a panic is reported as C04:socks5-handler:panic (the same run reports it as C16:handler:panic '
         'for C16). No Coq term here: the correspondence of these cases is evaluated by ./check C16.',
 'trusted_base': ['see the C16 engine (vlib/engines/c16_socks5.py)'],
 'modelled': ['the socks5 handler is a parsing handler built on things-go/go-socks5: exercised under recover() only (no panic model)'],
 'assumptions': []}
