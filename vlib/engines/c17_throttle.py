ENGINE = {'name': 'throttle',
 'pkg': 'modules/l4throttle',
 'files': ['l4throttle/c17_test.go'],
 'run': '^TestVerifC17$',
 'corr': 'C17Corr',
 'case_type': 'c17case',
 'check': 'check',
 'imports': ['From L4.model Require Import TokenBucket.'],
 'n_quick': 2000,
 'n_thorough': 20000,
 'timeout': 900,
 'serves': ['C17'],
 'rule': '(a) n limiters rate.NewLimiter(r, b): r a power of two in 2^-3..2^20 tokens/s (or 0, or Inf), b in 0..65536, each driven by 1..12 '
         'ReserveN(t, k) calls at instants that are multiples of 1/512 s (same instant, earlier instant, short and long gaps), k in 0..b+2 with a '
         'bias to b-1, b; observed DelayFrom(t) and TokensAt(t); sequences whose float64 state is not an exact multiple of the model unit are '
         'skipped (counted in stat reserve_inexact_skipped); non-trivial = at least two reservations on a finite-rate limiter with burst > 0; '
         'plus n/4 limiters with arbitrary rates p/q (q in 1,2,3,7,10) and arbitrary instants whose delays must agree with the model within '
         '2 ns (float64 rounding). '
         '(b) n/5 configurations through the real Provision (negative/zero/small/large rates and bursts) and n/5 runs of the real '
         'Handle + throttledConn.Read over a scripted inner connection (bursts 1..40 at 20-30 MB/s so that waits are microseconds; Read lengths '
         '0, 1..80, 4096; inner connection hands over at most chunk bytes): observed the length of the slice given to every inner Read and the '
         'count returned (half the inner connections end their stream with an error delivered together with the last bytes or alone: io.EOF or a '
         'reset), what every Read(p) itself returned, and - in half the runs - a layer4 connection that already holds 1..60 prefetched bytes '
         '(after a real matcher round, partly consumed by an earlier read) which must come first; - with refill rates of 2^-20 B/s - the tokens taken from each limiter; non-trivial = some batch was clipped by a '
         'burst or the ledger was observed. (c) 16 (quick) / 48 (thorough) real-time runs in parallel goroutines: '
         'rates 1-200 kB/s, bursts 1-64 KiB or default, latency 0-200 ms, 1-8 connections sharing a total limit, reader buffers 1 B-64 KiB; these '
         '(every third inner connection, here and in a third of the read-size runs, also implements net.PacketConn, as layer4\'s UDP connections '
         'do); they are oracle-only (no Coq term); before them six latency configurations (latency alone, with a total rate, with a total burst '
         'only, with a burst only, with a rate, with every limit: first read not before the latency), and, on one P with the collector off, three rounds of: a connection cancelled during its '
         'latency wait, a pause longer than the latency, four new connections that must each wait the whole latency. distinct = distinct Coq terms',
 'trusted_base': ['math/big is used by the harness to convert TokensAt (float64) into integer model units exactly',
                  'time.Timer never fires early and time.Now is monotonic (the real-time check is one-sided: the observer reads its clock before '
                  'calling Read for t0 and at entry of the inner Read for each sample)'],
 'modelled': ['golang.org/x/time/rate v0.7.0: NewLimiter, advance, reserveN, ReserveN/DelayFrom, TokensAt, WaitN (no deadline, not cancelled), '
              'durationFromTokens truncation, limit 0 and limit Inf, instants that go backwards',
              'modules/l4throttle/throttle.go: Provision (defaults, validation, when each limiter exists), Handle (wrap, latency wait, cancellation '
              'during the wait, then next.Handle), throttledConn.Read (batch size, total limiter then local limiter, inner Read of at most batch; '
              'the result is the inner result: bytes and error together), layer4.Connection.Read in front of it (buffered bytes first: cx_plan)',
              'not modelled: Reservation.Cancel / context cancellation while waiting inside WaitN, SetLimit/SetBurst, float64 rounding on '
              'non-dyadic rates, Caddyfile parsing (C15), writes (not throttled)'],
 'assumptions': ['throttle_bound holds with one nanosecond of slack: bytes <= burst + rate*(T - t0 + 1ns), because durationFromTokens truncates the '
                 'wait to whole nanoseconds (C17_slack_is_needed shows the slack is necessary in the model of rate.go)',
                 'C17_throttle_bound(_total) assume clock_ordered: reservations reach each limiter in the order of their time.Now() readings; '
                 'C17_throttle_bound(_total)_every_schedule drop the assumption and bound the excess by rate x (sum of the backward jumps of the '
                 'reservation instants), which is what rate.go re-credits when a goroutine that read the clock earlier takes the mutex later '
                 '(C17_back_jump_excess: the term is necessary); the real-time check allows 20 ms for this',
                 'the total limiter is one shared object whose reservation (reserveN under its mutex) is atomic: the model interleaves whole reservations of '
                 'different connections, never parts of one; the engine checks this on the real code with 300 rounds of 12 connections released together '
                 'against a bucket that holds exactly one batch',
                 'Reads on one connection are sequential (the per-connection limiter sees them in order); connections interleave arbitrarily',
                 'the limit is finite (limit == rate.Inf, i.e. math.MaxFloat64 bytes per second, disables the bucket by design)',
                 'a Read whose wait is InfDuration (rate 0 with an exhausted burst) is treated as never returning']}
