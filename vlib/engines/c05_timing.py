ENGINE = {'name': 'timing',
 'pkg': 'layer4',
 'files': ['layer4/c05_timing_test.go'],
 'run': '^TestVerifC05Timing$',
 'corr': 'C05Corr',
 'case_type': 'c05case',
 'check': 'check',
 'imports': ['From L4.model Require Import GoBase Router Timing.'],
 'n_quick': 0,
 'n_thorough': 0,
 'timeout': 300,
 'serves': ['C05'],
 'rule': 'real-time scenarios run concurrently against the real Server.handle: transports net.Pipe, loopback TCP, the UDP virtual connection '
         '(layer4.packetConn built white-box and fed through readCh as Server.servePacket does; two scenarios through the real servePacket on a '
         'loopback socket); matching timeouts 80 ms / 300 ms / 1.2 s; connection start aligned to wall-clock second fractions .05 / .5 / .95; '
         'clients: silent, one message at timeout/2, one byte every timeout/6, 24 kB flood; route lists: one always-undecided route, a route that '
         'matches at once and whose handler blocks in a read until after the timeout, an empty route list whose fallback blocks in a read until '
         'after the timeout, a route without matchers whose non-terminal handler sleeps 0/20/60 ms or blocks in a read until the client\'s next message (+20/+60 ms) followed by a never-deciding route, matching phases that START late (0.5 and 1.5 matching timeouts after WrapConnection: a subroute entered after the outer handler blocked in a read that long; a connection that waited that long before its compiled route was entered) and must still last their own timeout (thorough: all floods and phases, 40 random timeout/phase/gap combinations). A scenario failing the oracle is re-run '
         'once before it is reported. Every finished scenario is emitted with its actual start instant and actual send instants for the in-Coq '
         'run of model/Timing.v (outcome class equal, return instant within [-5 ms, +400 ms] of the model\'s, plus one gap for trickling clients; the oracle itself uses timeout-5 ms <= t <= timeout+250 ms); '
         'scenarios with an instant within 10-30 ms of a whole wall-clock second or of the deadline are run through the oracle only. '
         'Non-trivial = the client sends after the connection has started; distinct = distinct scenario terms',
 'trusted_base': ['time.Now / timers / goroutine scheduling of the Go runtime; the scripted clients and the zap core that classifies how matching ended (harness)',
                  'the white-box packetConn is constructed by the harness with the fields Server.servePacket sets (readCh, addr, closeCh)'],
 'modelled': ['layer4/routes.go: the deadline computed once per Compile invocation, armed at the loop label, cleared on match and before the fallback',
              'layer4/server.go: packetConn.SetReadDeadline / Read (stored granularity from the source, entry test, deadline timer whose channel may hold a stale tick, recheck of the stored deadline on a tick as found in the source, idle timer, rest of the last datagram)',
              'net.TCPConn / net.Pipe read-deadline semantics (fail at once when passed; data wins before the deadline)',
              'not modelled: scheduler slack, CPU time of matchers and handlers (measured with tolerances)'],
 'assumptions': ['time.Timer channel semantics of Go before 1.23 (Reset does not drain a tick), which /repo\'s go.mod selects; when a stale tick and a datagram are both ready the model lets the tick be received first',
                 'matchers and handlers take no model time; time passes only inside blocked reads',
                 'TCP read-deadline semantics as documented for net.Conn (model/Timing.v tcp_read)']}
