ENGINE = {'name': 'listener',
 'pkg': 'layer4',
 'files': ['layer4/c13_test.go'],
 'run': '^TestVerifC13$',
 'corr': 'C13Corr',
 'case_type': 'c13case',
 'check': 'check',
 'imports': ['From L4.model Require Import Listener.'],
 'n_quick': 60,
 'n_thorough': 1500,
 'timeout': 900,
 'serves': ['C13'],
 'rule': 'scenarios: 27 fixed pending-at-close scenarios (capacity 1/2/4 x capacity, capacity+1, capacity+3 fall-through connections all queued in connChan or blocked in the send before the first Accept x Close before any Accept / after one / concurrently with the first), a fixed scenario with one connection per multi-matcher route plus streams that a non-terminal route hands on to a terminal one (whole and split so that the terminal route sees the raw bytes first) and a client still sending long after matching ended (read by a consumer that sets no deadline), two fixed overlap scenarios (4 fall-through connections on one P, accepted at once, read late; once with a first prefetch that fills the pooled chunk exactly) plus VERIF_N random '
         'scenarios of 2..10 connections over 11 connection kinds (fall through; fall through after a non-terminal handler consumed 5 bytes; '
         'fall through with a TLS state attached; fall through after matcher sets of 2-3 matchers whose first matcher reads the stream (set not matching / matching with a non-terminal handler that consumes nothing / a prefix); fall through with 3000+ bytes prefetched; fall through after a matcher stayed undecided until the matching buffer was nearly full (streams beyond MaxMatchingBytes in segments not aligned with the prefetch chunk); matched by a non-terminal route and then silent while later routes need more bytes; consumed by a terminal route; consumed and still being served when the listener is closed; rejected by a handler; '
         'matcher error; matching timeout; client hang-up while matching), streams of 1..4500 bytes in 1..40 segments, GOMAXPROCS (= connChan '
         'capacity) in {1,2,4,16}, Accept delayed 0..8 ms (slow consumer), accepted connections read at once or only after every other connection '
         'went through the wrapper, 0..3 temporary accept errors, Close after k Accept results / at a random instant / at the end; the consumer stops calling Accept at the first ErrClosed (which has to come within 2 s of Close although consumed connections are still active) and the wrapper then has to shut down by itself; a case is '
         'non-trivial when it has at least one hijacked and one non-hijacked connection, or a Close with connections still pending; distinct = '
         'distinct observed histories',
 'trusted_base': ['net.Pipe and an in-memory net.Listener stand for the wrapped network listener; the history is linearised by the harness '
                  '(a mutex around the inner Accept/Close and an event log)'],
 'modelled': ['layer4/listener.go: loop, handle (wg, errHijacked, conn.Close), Accept, Close, pipeConnection, the waiter and drain goroutines; '
              'layer4/handlers.go: listenerHandler',
              'not modelled: the contents of compiledRoute (C02/C05): its effect on a connection enters as the outcome Consumed/Rejected/Hijack'],
 'assumptions': ['the scheduler is an arbitrary interleaving of the modelled steps (goroutine steps are atomic at the granularity of model/Listener.v)',
                 'after Close the wrapped listener\'s Accept fails (no arrival after the closed flag is set); connChan capacity >= 1 (GOMAXPROCS)']}
