ENGINE = {'name': 'mcodec',
 'pkg': 'modules/l4rdp',
 'files': ['l4rdp/mcodec_test.go', 'l4rdp/mcodec_gen_test.go'],
 'run': '^TestVerifMCodec$',
 'corr': 'CodecCorr',
 'case_type': 'ccase',
 'check': 'check',
 'imports': ['From L4.model Require Import GoBase CodecBase CodecWireGuard CodecWinbox CodecRdp.'],
 'n_quick': 120,
 'n_thorough': 900,
 'timeout': 900,
 'shard': 250,
 'serves': ['C04', 'C06', 'C14', 'C18'],
 'rule': 'VERIF_PROP selects the family. C18: for each of the 8 exported wire-message types (WireGuard initiation/transport, Winbox auth incl. '
         'FromChunks/ToChunks, RDP TPKT/X.224/NegReq/CorrInfo/Token) byte strings of EVERY length 0..bound+4 (random, and a valid message cut or '
         'extended to that length), generated well-formed values over the full field ranges (edge values 0,1,max-1,max), single-byte corruptions, and for every variable-length part (RDPToken.Optional, MessageTransport.Content, the Winbox payload / user name) each terminator/delimiter pattern (CR LF, CR, LF, NUL, =, +r, ., CR LF CR LF, FF, 06) inserted and overwritten at every position followed by 0..3 more bytes, through both FromBytes and ToBytes, and every chunk header byte (length, type) of 1-, 2- and 3-chunk Winbox messages set to 00/01/06/FE/FF and to the neighbours of the right value; valid Winbox payloads RE-CHUNKED at every boundary into two and at sampled pairs of boundaries into three self-consistent chunks (only the canonical chunking may parse); for every exact length check lengths congruent to the accepted one modulo 2^8 (valid message + random bytes) and modulo 2^16 (size + k*65536 zero bytes, k = 1..3, carried in the case term as a length: CFromZeros); sequences of k = 2..6 consecutive ToBytes calls (same and different types, directly and through FromBytes, and a request composed from TPKT+X.224+token+negreq+corrinfo) whose results are ALL compared after the last call, under GOMAXPROCS(1) and from 8 concurrent callers (key tobytes-result-aliased; oracle only - to_bytes of the model is a pure function, so a result that changes after a later call has no counterpart in it); '
         'non-trivial = length within a size bound +-2 or a generated value. C04: whole streams, prefixes, self-consistent length headers at every '
         'payload length, CR/LF placements, random bytes, every optional RDP payload element (routing element none/cookie/token/custom, negotiation request with the correlation flag set and unset, correlation info) complete, truncated at every length 0..full-1, over-long and doubled with self-consistent TPKT/X.224 lengths, every inner RDP length/indicator field (token Length with and without its LengthIndicator, the indicator alone, negreq and corrinfo length, TPKT length, X.224 indicator, both outer fields together) swept over real-20..real+20, 0, 1, 255, 65535 with the outer framing kept at the real size, default and filtered configurations, TCP- and UDP-like addresses; allocation measured '
         'with runtime.MemStats around Match. C06: every prefix of valid rdp/winbox streams (with trailing data, mutations, two-chunk winbox '
         'messages), each evaluated twice on fresh connections that count socket reads and are re-read afterwards. C14: per-protocol abstract '
         'messages encoded from the wire definition x every filter configuration x every single-field corruption, verdict compared with the '
         'reference predicate, RDP cookie hash / custom info / token cookie with each delimiter pattern at every position (correspondence only), plus a sweep of every value 0..255 of each fixed/flag/enum byte of an RDP request (TPKT version/reserved, X.224 code/references/class, negotiation-request type/flags/length/each protocols byte, correlation-info type/flags/length/first identity byte/reserved); non-trivial = input reaches past the first length/magic gate. distinct = distinct case terms.',
 'trusted_base': ['layer4.WrapConnection + MatcherSet.Match give the matcher the preloaded prefix in matching mode (C01 covers the connection)',
                  'runtime.MemStats.TotalAlloc deltas as the allocation measure',
                  'regexp: the engine only configures anchored/unanchored literal patterns (regexp.QuoteMeta), modelled as prefix/suffix/equal/contains'],
 'modelled': ['modules/l4wireguard/matcher.go: MessageInitiation/MessageTransport FromBytes+ToBytes, Match',
              'modules/l4winbox/matcher.go: MessageAuth FromBytes/FromChunks/ToChunks/ToBytes, GetRoMON/GetUsername, MessageAuthUsernameRegexp (as a byte-class function), Match with modes/username/username_regexp',
              'modules/l4rdp/matcher.go: TPKTHeader/X224Crq/RDPNegReq/RDPCorrInfo/RDPToken FromBytes+ToBytes, Match with cookie/token/custom-info blocks, strconv.ParseUint, strings.Split, netip.Prefix.Contains (IPv4)',
              'not modelled: placeholders in filter strings, replacer side effects (l4.rdp.*, l4.winbox.username), Caddyfile parsing (C15), Provision errors'],
 'assumptions': ['ToBytes/FromBytes are modelled as pure functions of their argument: that the returned slice is not shared with later calls (no pooled or '
                 'static backing buffer) is checked on the implementation by the sequence and concurrent-caller oracle C18:<type>:tobytes-result-aliased',
                 'rdp C14: Match = Yes is characterised for every byte string (framing + split of the payload at the first CR LF + tail reference); '
                 'the routing element is characterised per kind (none, cookie, custom info, routing token) for elements whose text has no CR byte, '
                 'custom infos that do not start with the cookie prefix or the byte 03, and token cookies with 4..17 decimal digits in total; '
                 'other routing elements are covered by correspondence only',
                 'user-supplied regular expressions enter the matcher models as arbitrary functions list byte -> bool (theorems hold for every expression)',
                 'filter strings contain no placeholders and are shorter than 65536 bytes',
                 'WireGuard transport Content and RDP token Optional: nil and empty slices are identified']}
