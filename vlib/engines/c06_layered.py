ENGINE = {'name': 'layered',
 'pkg': 'integration',
 # same file set as the C01 e2e engine (one test binary), only the two-layer routing test is run
 'files': ['integration/c01_e2e_test.go', 'integration/c01_e2e_more_test.go'],
 'run': '^TestVerifC01Layered$',
 'n_quick': 1,
 'n_thorough': 1,
 'timeout': 600,
 'serves': ['C06'],
 'rule': 'routing-level fragmentation (oracle only): for each of the 7 PROXY header forms a real layer4 server with two routes, '
         '[prefix matcher on the whole header -> proxy_protocol (non-terminal, replaces the stream by cx.Wrap)] and [prefix matcher on the first 4 '
         'inner bytes -> recording handler]; the client stream header+payload is delivered whole and split after every position 1..len(header)+4, '
         'all connections of a header form through one provisioned config; oracle: whenever the whole delivery reaches the inner route every '
         'fragmentation reaches it too and its handler reads exactly the inner stream (keys C06:layered:rejected-in-fragments, C06:layered:*); '
         'plus 3 TLS-in-TLS connections: route [tls sni outer.test -> tls handler], then [tls sni inner.test -> recorder] and [tls sni outer.test -> recorder]; the inner stream starts with a ClientHello for inner.test, which must take the inner.test route and be read intact (keys C06:layered:inner-tls-hello-misjudged, C06:layered:inner-stream-corrupted); '
         'every split is a non-trivial case',
 'trusted_base': ['net.Pipe transport and caddy.Load as in the C01 e2e engine; harness modules verif_prefix / verif_rec'],
 'modelled': ['end-to-end oracle only: RouteList.Compile verdict caching across a stream replacement, MatcherSets.AnyMatch, l4proxyprotocol handler, Connection.Wrap run as shipped'],
 'assumptions': []}
