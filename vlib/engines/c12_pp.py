ENGINE = {'name': 'pp',
 'pkg': 'modules/l4proxyprotocol',
 'files': ['l4proxyprotocol/c12_test.go'],
 'run': '^TestVerifC12$',
 'corr': 'C12Corr',
 'case_type': 'c12case',
 'check': 'check',
 'imports': ['From L4.model Require Import GoBase ProxyProto.'],
 'n_quick': 120,
 'n_thorough': 900,
 'timeout': 900,
 'shard': 150,
 'serves': ['C12'],
 'rule': 'codec: 18 base headers (v1 TCP4/TCP6/UNKNOWN, v2 PROXY/LOCAL x INET/INET6/UNIX/UNSPEC x STREAM/DGRAM/UNSPEC, TLVs, LOCAL with an '
         'address block) + N random headers (addresses with every zero-run shape, boundary ports, unix names up to 108 bytes), each written '
         'three ways (this engine\'s encoder from the specification, HeaderV1/V2.WriteTo, the Coq encoders) and parsed by proxyprotocol.Parse '
         'whole, at every prefix of the base headers, and after 1-2 byte mutations (v1: replace/insert/delete from a set of blanks, signs, '
         'digits, separators; v2: signature bit, version/command, family/transport, length +-k, truncation); a hand-written corpus of 85 lines '
         'probing Sscanf and net.ParseIP (signs, leading zeros, tabs, missing blanks, 107/108/109-byte lines, IPv4-mapped and compressed IPv6 '
         'forms, zones); library writers on arbitrary field values (nil IPs, mixed families, ports above 65535, unix names above 108 bytes, '
         'foreign net.Addr types). allow list: 17 fixed + N/8 random lists over 19 CIDRs (IPv4, IPv6, IPv4-mapped, /0, duplicates, overlaps, '
         'non-canonical bases) and 8 BARE addresses (IPv4, IPv6, IPv4-mapped; reference reading: single-host range /32 or /128) x 29 peers (incl. the '
         'bare hosts and their neighbours) (TCP, UDP, unix) through Provision/tidyRules/newConn. end to end: Handler.Handle over net.Pipe with '
         'chosen peer addresses; every base header with no list / a list containing the peer / a list not containing it, N random (header, '
         'list, peer, payload 0..3000 bytes; thorough tier: also 4096/5000/9000) combinations, 1/8 of them with a damaged header; every stream is run whole, header|payload, '
         'split at 3 random positions or (base headers, every 16th random one) at EVERY header position, byte by byte, and with 1/12/13/16/'
         'len-1/len/len+1/len+7/all bytes prefetched into the layer4 buffer; one correspondence case per distinct (config, stream); '
         'peers include ZONED link-local addresses (*net.TCPAddr/*net.UDPAddr with Zone) inside and outside fe80::/10 and ::1/128 - containment is about the IP, '
         'the zone is ignored by the reference predicate, the projection and the model; ROUTE LIST: every base header that declares IP addresses x 3 allow lists through a real '
         'provisioned + compiled RouteList [match proxy_protocol -> handle proxy_protocol] [remote_ip|local_ip on the DECLARED address -> recorder] [tls byte matcher -> recorder] '
         '(two variants in three) + fallback recorder, header cut at every position (1..4 bytes first included) and with two cuts after 1-4 bytes: the route taken, the bytes, the '
         'addresses and the placeholders behind the router are checked; '
         'non-trivial = accepted parse, or non-empty allow list with a well-formed header; distinct = distinct Coq terms',
 'trusted_base': ['net.Pipe delivers each Write as one Read (segmentation is what the engine says it is)',
                  'the engine\'s own specification encoder and allow-list oracle (net/netip prefix containment with IPv4-mapped values unmapped)',
                  'error text of io.EOF / io.ErrUnexpectedEOF is used to classify a library parse error as "input ended" vs "rejected"'],
 'modelled': ['github.com/mastercactapus/proxyprotocol v0.0.4: Parse/parseV1/parseV2 (accepted language), HeaderV1/HeaderV2 WriteTo + FromConn, Conn.RemoteAddr/LocalAddr fallback',
              'fmt.Sscanf("PROXY %s %s %s %d %d\\r\\n") on ASCII input; net.ParseIP (netip.parseIPv4Fields, parseIPv6); net.IP.String / netip RFC 5952 text',
              'modules/l4proxyprotocol/handler.go: Provision (rules; an allow entry is CIDR notation or a bare address = single-host range, the model takes the networks of that reference reading and CTidy compares them with h.rules), tidyRules (sort + in-place compaction), newConn, Handle, GetConn',
              'layer4/connection.go: WrapConnection (replacer keys), net.IPNet.Contains',
              'layer4/routes.go RouteList.Compile is exercised (route taken after the handler) but not modelled here (C02)',
              'not modelled here: bufio/Connection.Wrap byte-stream layering (C01), header timeout deadlines, Caddyfile parsing (C15)'],
 'assumptions': ['v1 lines are ASCII: multi-byte Unicode blanks (U+0085, U+00A0, ...) that Sscanf also treats as spaces are not generated',
                 'sort.Slice returns a permutation of its input (order of equal keys unspecified): theorems hold for every such sort',
                 'unix socket names in v2 headers carry no trailing NUL byte (the receiver trims them) and are at most 108 bytes',
                 'ports handed to the sender are below 65536 (real sockets); HeaderV2 truncates larger ones to 16 bits, HeaderV1 falls back to UNKNOWN (both modelled and checked by CWriteV1/CWriteV2)']}
