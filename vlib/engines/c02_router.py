ENGINE = {'name': 'router',
 'pkg': 'layer4',
 'files': ['layer4/c02_router_test.go'],
 'run': '^TestVerifC02Router$',
 'corr': 'C02Corr',
 'case_type': 'c02case',
 'check': 'check',
 'imports': ['From L4.model Require Import GoBase Router.'],
 'n_quick': 2000,
 'n_thorough': 24000,
 'timeout': 900,
 'shard': 125,
 'serves': ['C02', 'C05'],
 'rule': 'route lists built white-box from scripted matchers (threshold need-k-bytes then Yes/No/error/panic, content test on byte k, '
         'the real MatchNot around them, one or two sets per route, empty = match all) and scripted handlers (terminal, consume-k-then-next, '
         'failing, Wrap-then-next, subroute = Compile with the rest of the chain as next, nested to depth 2), run by the real Server.handle over '
         'a scripted net.Conn (one script item per Read: chunk / timeout / error, EOF at the end). A corpus of hand-written scenarios (one per known way of getting the state machine wrong). Exhaustive over <=3 routes x 12 matcher '
         'shapes x 8 handler chains x 8 arrival schedules of <=3 chunks: every 1- and 2-route configuration, and the 3-route space completely in '
         'thorough / a seed-shifted stride of it in quick, all through the oracle; an evenly spaced slice of them plus random instances '
         '(1..6 routes, nested not, subroutes, scripts with interleaved timeouts/errors) plus configurations around MaxMatchingBytes are emitted '
         'for the in-Coq comparison of the full event trace. The corpus, the 0/1-route and random configurations and every fifth other one whose script has chunks only are ALSO run in listener-wrapper form (real listener.handle, real listenerHandler as fallback, wrapping handlers optionally recording a TLS connection state): the wrapped listener must be handed the connection exactly when the fallback is due and must read exactly the unconsumed stream of the client from it (keys C02:listener:*; oracle only). Non-trivial = at least one prefetch pass happened and a route ran or the list has '
         '>= 2 routes; distinct = distinct (routes, script, trace) terms',
 'trusted_base': ['the scripted net.Conn, matchers, handlers and the zap core that classifies Compile\'s log lines into drop reasons (harness)',
                  'in the router engine the subroute handler is re-stated as `routes.Compile(logger, timeout, next).Handle(cx)` because package layer4 '
                  'cannot import modules/l4subroute; the real module is run by the second C02 engine (c02_subroute)'],
 'modelled': ['layer4/routes.go: RouteList.Compile (lastMatchedRouteIdx, lastNeedsMoreIdx, routesStatus, matcherNeedMore, arm/clear of the deadline, all exits)',
              'layer4/matchers.go: MatcherSet.Match, MatcherSets.AnyMatch, MatchNot.Match evaluation order',
              'layer4/handlers.go: middleware chain, forwardNextHandler/lastHandler terminal detection',
              'layer4/connection.go Wrap at the routing level: the new Connection starts with an empty matching buffer and reads through the old one',
              'layer4/connection.go: prefetch size test and chunking; Read outside matching as far as io.ReadFull of k bytes needs (buffer first, reset when drained)',
              'modules/l4subroute/handler.go: Handle',
              'not modelled: Provision / module loading, SetReadDeadline returning an error, reads that return data together with an error, work done by a handler after next returns'],
 'assumptions': ['the model is run with fuel need_rs rs; compile_total / model_run_total (props/C02.v) prove that this never returns Exhausted on scripts without empty chunks (the engine generates none)',
                 'ESkip and ENext are ghost events of the model (cached verdict used; handler chain handed the connection on) and are projected away before the comparison',
                 'matchers are functions of the bytes available for matching and of the constant connection environment; they take no model time',
                 'cache_sound / decided_match_not_skipped assume the routes\' matcher sets are No-stable (property C06)']}
