ENGINE = {'name': 'httpfull',
 'pkg': 'modules/l4http',
 'files': ['l4http/c05_httpfull_test.go'],
 'run': '^TestVerifC05HTTPFull$',
 'n_quick': 0,
 'n_thorough': 0,
 'timeout': 300,
 'serves': ['C05'],
 'rule': 'buffer exhaustion with the REAL http matcher (the only real matcher that returns ErrMatchingBufferFull itself, at two places: request '
         'line never ends / header block never ends): route lists [route gated by http (terminal or passing on)] (+ a later route gated by http with a host filter) '
         '+ fallback recorder, provisioned from JSON, run over a scripted net.Conn; clients flood a valid request line + headers that '
         'never end (12 kB, 24 kB), a request line that never ends, a header block that ends 150 bytes beyond the buffer bound / before MaxMatchingBytes, a small '
         'complete request, non-HTTP bytes; each delivered whole and in chunks of 4096 / 2048 / 1000 / 333 bytes. Oracle only (no model '
         'comparison: the http matcher is modelled by C04/C06/C14). Non-trivial = the buffer is exhausted; distinct = distinct scenario names',
 'trusted_base': ['scripted net.Conn, recorder handler module layer4.handlers.verif_c05_rec and zap core of the harness'],
 'modelled': [],
 'assumptions': []}
