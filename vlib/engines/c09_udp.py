ENGINE = {'name': 'udp',
 'pkg': 'layer4',
 'files': ['layer4/c09_udp_test.go'],
 'run': '^TestVerifC09$',
 'corr': 'C09Corr',
 'case_type': 'c09case',
 'check': 'check',
 'imports': ['From L4.model Require Import Udp.'],
 'n_quick': 72,
 'n_thorough': 900,
 'timeout': 900,
 'timeout_thorough': 1500,
 'shard': 12,
 'serves': ['C09'],
 'rule': 'scenarios: a corpus (handler that never reads then returns while the loop is blocked in its send; 40-datagram burst to a handler that '
         'returns at once; datagrams of buf-1, buf, buf+1 bytes for reader buffers of 9000 / 2048 / 100 / 1 bytes, with and without a matcher in front (2048-byte prefetch read); a jumbo datagram read in part, Close, other clients\' datagrams, then Read again on the closed association; idle expiry followed by a late Close; idle expiry at the moment closeCh is full (loop blocked on a full readCh, ten associations finishing) followed by a datagram before the old handler returns; read-once handlers followed by later datagrams; four interleaved clients with '
         'jumbo datagrams read through small buffers, scripted and over real loopback sockets; backpressure count) plus random scenarios: 1-4 '
         'client addresses from one of six address sets (differing only in port / IP / IPv6 zone / family / non-UDP type), 2-80 datagrams of 16..9000 bytes (a third sized buf-1 / buf / buf+1 for the reading handler\'s buffer; buffers 9000, 4096, 2048, 1024, 512, 100, 1; a quarter of the scenarios put a data-needing matcher in front so that the first Read is the 2048-byte prefetch) in a random interleaving, per-client handler kinds echo / read n '
         'and return / return immediately / stall until released / idle out, optional waits for an association to end; every third random '
         'scenario is sequential (each action waits for the visible effect of the previous one) and its log is additionally replayed step by '
         'step through the model\'s exec function; every scenario runs in a child process; a case is the complete event log of one scenario; '
         'non-trivial = some client had two associations, or one association read at least two datagrams and ended; distinct = distinct event logs',
 'trusted_base': ['the scripted net.PacketConn / loopback sockets and the recording handler of harness/overlay/layer4/c09_udp_test.go; the log order is '
                  'the order in which goroutines took the log mutex',
                  'idle expiry is provoked by resetting the association\'s own idle timer to 1 ms from the test (the 30 s constant is not configurable)',
                  'tools/l4gen shapeUDP: recognises the statements of packetConn.Close, the channel capacities, the select around the loop\'s send, the '
                  'isClosed test and the identity-checked delete by syntax; a statement it does not recognise becomes COther and breaks C09_src_shape_ok'],
 'modelled': ['layer4/server.go: Server.servePacket (reader goroutine, select loop, udpConns, closeCh), packetConn.Read / Write / Close, channel capacities and the '
              'statement order of Close taken from the source by tools/l4gen',
              'acceptance conditions evaluated on the recorded logs: own_ok, order_ok, fresh_ok (when notifications identify the association) are proved to hold for every execution of the model '
              '(C09_accept_*), as is causal_ok; nodup_ok, grouped_ok, chunks_ok are evaluated but not proved to be necessary',
              'not modelled: SetReadDeadline arithmetic (C05), udpBufPool buffer identity (C08), what handlers do with the bytes, zero-length datagrams '
              '(Read returns io.EOF for them without notifying the loop)'],
 'assumptions': ['Go scheduler = arbitrary interleaving of the model\'s atomic steps (channel operations, one Close statement at a time)',
                 'a handler calls Close once in the model (a second Close, e.g. Server.handle\'s deferred one after a handler closed the connection itself, only notifies again), Read and Close may overlap and Read may follow Close',
                 'datagram identities in an execution are distinct (the engine numbers them)',
                 'a client address is an opaque key in the model: two net.Addr values are the same client iff their String() is equal (the engine uses address sets whose members differ only in port, only in IP, only in IPv6 zone, in family, or that are not *net.UDPAddr at all, and gives one client both byte forms of an IPv4 address)',
                 'liveness is not claimed: a handler that stops reading blocks the loop after cap(readCh)+1+cap(packets)+1 datagrams (measured by the backpressure case)']}
