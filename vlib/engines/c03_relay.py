ENGINE = {'name': 'relay',
 'pkg': 'modules/l4proxy',
 'files': ['l4proxy/c03_relay_test.go'],
 'run': '^TestVerifC03$',
 'corr': 'C03Corr',
 'case_type': 'c03case',
 'check': 'check',
 'imports': ['From L4.model Require Import Relay.'],
 'n_quick': 40,
 'shard': 8,
 'n_thorough': 400,
 'timeout': 600,
 'serves': ['C03'],
 'rule': 'the proxy reached by falling through a real compiled subroute (route without matcher + non-terminal throttle, then a tls matcher that needs data and says no; matching_timeout 300 ms) with the client pausing 900 ms between two segments; late writes first (a segment, 4 s pause - thorough also 12 s -, another segment; with and without proxy_protocol v1 on the proxy handler, the PROXY header the upstream receives is checked and stripped); TLS upstreams (upstream tls option, self-signed loopback listener, 1..2 peers, empty and non-empty streams both ways, every half-close order, in particular the empty request with the client half-closing first); scripted downstream connections whose last chunk is returned together with io.EOF or with another error (1..2 peers, 1..4 chunks, with prefetched bytes); loopback relay scenarios: every wrapper (none, throttle with a huge rate, proxy_protocol, tee with a discarding branch) x 1..3 peers x '
         'the four half-close orders (both free; client first with upstreams waiting for EOF; upstreams first with the client waiting for EOF; '
         'free with mixed chunkings), boundary payload sizes 0, 1, 4096, 8192, 8193, 32768, 32769, 65536, 1 MiB in both directions, abrupt closes '
         'upstreams that answer at once but start consuming the client stream (50 KB..3 MiB) 300 ms late, so that Handle returns while bytes are still queued towards them, (RST) of the client and of an upstream mid-stream, one peer of 2..3 reset before/while/after the other peers send their two halves 120 ms apart (their bytes must all reach the client, which sees end-of-stream at the end), also while the other upstreams idle waiting for end-of-stream (the client->upstream direction then ends with an error, not a FIN; the client keeps sending after an upstream was reset so that a write to it fails), 2..3 upstream peers over unix sockets (no WriteTo/ReadFrom fast path in io.Copy) streaming 0.3..1 MiB each at the same time, plus VERIF_N random scenarios (payload 0..2 KiB, one in six up to 300 KB; write chunk '
         'sizes 1..64 KiB with random pauses); dialPeers with refusing peers at every position of 1..3 peers. A case is non-trivial when both '
         'directions carry data and one side half-closes only after the other; distinct = (peers, wrapper, close order, size buckets)',
 'trusted_base': ['Linux loopback TCP and /proc/net/tcp (a socket whose inode is non-zero is still owned by a file descriptor) are used to observe '
                  'EOF and closed upstream connections',
                  'scenario time-outs: 1.8 s without progress counts as "Handle does not return"; a failing scenario is re-run once before it is reported'],
 'modelled': ['modules/l4proxy/proxy.go: Handler.proxy (tee chain pump, per-upstream copy goroutines, CloseWrite/Close propagation, wg/channel handshake), '
              "Handle's deferred closes, dialPeers' cleanup loop",
              'method sets of *layer4.Connection, l4throttle.throttledConn, l4tee.nextConn, *proxyprotocol.Conn (gen/Shape.v) -> whether CloseWrite on down.Conn reaches the transport',
              'not modelled: TCP back-pressure and segment boundaries, goroutine scheduling (arbitrary interleaving of the modelled atomic steps instead), UDP upstreams, TLS'],
 'assumptions': ['scheduler = arbitrary interleaving of the atomic steps of model/Relay.v; chunk sizes are oracles',
                 'relay_final / relay_completes are claimed for executions without abrupt close, with upstream transports that offer CloseWrite, and applications that do not wait for each other circularly (compatible); relay_safety and relay_terminates hold for all executions including abrupt closes',
                 'half-close towards the client is proved for every chain built from the wrapper types of the shipped handlers (layer4.Connection, throttledConn, nextConn, proxy_protocol proxyConn); each must declare CloseWrite (gen/Shape.v)',
                 'dialPeers: a connection whose PROXY header write fails after a successful dial is not closed by dialPeers (DialOkHeaderErr in the model; excluded from cleanup_on_dial_failure, not reproduced against the real code)',
                 'a full Close of a connection that still has unread incoming data is modelled as graceful']}
