ENGINE = {'name': 'send',
 'pkg': 'modules/l4proxy',
 'files': ['l4proxy/c12_send_test.go'],
 'run': '^TestVerifC12Send$',
 'corr': 'C12Corr',
 'case_type': 'c12case',
 'check': 'check',
 'imports': ['From L4.model Require Import GoBase ProxyProto.'],
 'n_quick': 40,
 'n_thorough': 300,
 'timeout': 600,
 'shard': 60,
 'serves': ['C12'],
 'rule': 'the real proxy handler (Provision, Handle -> dialPeers + proxy) with proxy_protocol "", v1, v2 relays a scripted net.Pipe client with '
         'chosen addresses to an upstream with 1, 2 or 3 dial addresses (fan-out; rotating), each a loopback TCP backend that records every byte, and EVERY '
         'peer is checked (one header + the client\'s stream each); 11 address pairs (TCP4, TCP4 edge values, IPv4-mapped, TCP6 with '
         'zero runs, mixed families, UDP4/6, unix, TCP/UDP) x {no received header, one of 8 received headers (v1 TCP4/TCP6/UNKNOWN, v2 '
         'TCP4/UDP4/TCP6/LOCAL/UNSPEC) parsed by the real proxy_protocol handler in front} x payload 0/1/17/300/3000 bytes x {whole, split at a '
         'random position, header|payload}, + N random TCP4/TCP6 address pairs; + one slow client per version whose second segment follows 3.3 s after the first (runs beside the other cases); non-trivial = a header is sent; distinct = distinct Coq terms',
 'trusted_base': ['loopback TCP delivers the upstream bytes in order; the strict header parser written in the engine from the specification'],
 'modelled': ['modules/l4proxy/proxy.go: dialPeers (GetConn, HeaderV1/V2.FromConn(outgoing=false), WriteTo before relaying), proxy (downstream bytes relayed in order)',
              'not modelled: load balancing/retries (C10/C11), TLS upstreams, half-close ordering (C03)'],
 'assumptions': ['one upstream (1-3 peers); every dial succeeds']}
