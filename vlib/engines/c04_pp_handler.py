ENGINE = {'name': 'pp-handler',
 'pkg': 'modules/l4proxyprotocol',
 'files': ['l4proxyprotocol/c12_test.go'],
 'run': '^TestVerifC12$',
 'n_quick': 250,
 'n_thorough': 3000,
 'timeout': 600,
 'serves': ['C04'],
 'rule': 'the handler-input part of the C12 engine (selected by VERIF_PROP=C04) run for the no-panic property: the real provisioned '
         'proxy_protocol handler, without and with an allow list, from TCP / zoned UDP / outside / unix / IP-less peers, is fed every v2 '
         'command x family x transport form with the block length that belongs to it (incl. the address-less LOCAL, UNSPEC family and UNSPEC '
         'transport forms), the 18 base headers whole and at EVERY prefix, a hand-written corpus probing Sscanf / net.ParseIP, N random '
         'headers each with three 1-2 byte mutations, and random garbage; Handler.Handle (newConn, the library\'s Parse, the wrapper, the '
         'logging) runs under recover(); a panic is reported as C04:proxy_protocol-handler:panic (the same guard reports it as '
         'C12:handler:panic in ./check C12, which also guards proxyprotocol.Parse, newConn and the routed runs). No Coq term here: the '
         'correspondence of these inputs is evaluated by ./check C12. non-trivial = non-empty input; distinct = distinct inputs',
 'trusted_base': ['see the C12 engine (vlib/engines/c12_pp.py)'],
 'modelled': ['the proxy_protocol handler is a parsing handler built on mastercactapus/proxyprotocol: exercised under recover() only here (its parser model never panics: see C12)'],
 'assumptions': []}
