ENGINE = {'name': 'mquic',
 'pkg': 'modules/l4quic',
 'files': ['l4quic/mquic_test.go'],
 'run': '^TestVerifMquic$',
 'corr': 'OvpnDnsCorr',
 'case_type': 'ocase',
 'check': 'check',
 'imports': [],
 'n_quick': 40,
 'n_thorough': 400,
 'timeout': 600,
 'shard': 40,
 'serves': ['C04', 'C14'],
 'rule': 'the three captured QUIC v1 client Initial datagrams of the package (quicreach h3, quicreach custom ALPN, curl --http3-only) over a UDP-like and a '
         'TCP-like local address; the same with every combination of the fixed/long-header bits cleared, cut to 0..1199 bytes, zero-padded to 1453..3000 bytes; '
         'behind the gate (each costs the 100 ms accept timeout, 5 per quick run rotated by seed, all in the thorough tier): payload bit flip, unsupported version, '
         'retyped as Handshake, random 1200/1452-byte long-header datagrams, all zeros, cut to exactly 1200, padded to 1452; random datagrams of sizes around '
         '1200/1452 with gate bits cleared; plus, for C04, a child process (the test binary re-executed) in which ONE provisioned matcher is entered by 2-4 goroutines at overlapping times (released together and 10/30/50 ms apart, 8 rounds) on distinct connections carrying the captured Initials: a crash of the child is C04:quic:panic, every Initial must match; non-trivial = passes the gate of the wire definition (UDP, 1200..1452 bytes, first byte & 0xc0 == 0xc0)',
 'trusted_base': ['quic-go (Transport.ListenEarly / EarlyListener.Accept with a 100 ms deadline) decides everything behind the gate; the model only says Yes-or-No there',
                  'the captured packets are trusted to be well-formed Initials (they are accepted by quic-go in the package\'s own tests)'],
 'modelled': ['modules/l4quic/matcher.go Match up to the hand-over to quic-go: UDP check, ReadAtLeast semantics in matching mode, fixed-bit and long-header tests, size gate '
              '(n < QUICPacketBytesMin-1 or n == QUICPacketBytesMax), the bytes handed over; not modelled: quic-go, TLS sub-matchers, ALPN workaround, replacer values'],
 'assumptions': ['quic-go does not panic and terminates within its accept deadline (probed, not proved)']}
