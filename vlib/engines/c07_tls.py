ENGINE = {'name': 'tls',
 'pkg': 'modules/l4tls',
 'files': ['l4tls/c07_test.go'],
 'run': '^TestVerifC07$',
 'corr': 'C07Corr',
 'case_type': 'c07case',
 'check': 'check',
 'imports': ['From Coq.Strings Require Import Byte.', 'From L4.model Require Import GoBase TlsHello.'],
 'n_quick': 1200,
 'n_thorough': 8000,
 'shard': 100,
 'timeout': 900,
 'serves': ['C07'],
 'rule': 'ClientHello records written by crypto/tls clients (captured from the first write on a scripted connection) over generated '
         'configurations: server names (none, DNS names, IPv4/IPv6 literals, zone, brackets, trailing dots, mixed case, non-ASCII, random labels), '
         'ALPN lists (none, common, 255-byte, up to 40 entries, random bytes), min/max versions TLS1.0-1.3 (also inverted), cipher-suite subsets, '
         'curve preferences, session tickets on/off, TLS1.2 and TLS1.3 resumption from a real prior handshake; entropy-derived fields are replaced by '
         'PRNG bytes of the same length; one third is kept as written, the rest gets 1-3 byte-level mutations crypto/tls accepts (extension reorder, '
         'GREASE, unknown extensions, padding, arbitrary SNI/ALPN/versions/suites/groups/sigalgs contents, extra name types, no/empty extension block, '
         'legacy versions, record versions, cookie/early_data/ticket/key_share/pre_shared_key/psk modes/status_request/renegotiation_info contents, '
         'browser-like layout: GREASE extension first, permuted extensions with compress_certificate/ALPS/ECH-GREASE/record_size_limit, GREASE + '
         'padding last, GREASE in suites/groups/versions/key shares; unknown extensions directly around server_name/ALPN/supported_versions) or a mutation it rejects (truncation, duplicates, trailing dot, empty names/protocols, odd vectors, '
         'pre_shared_key not last, trailing bytes, short vectors, malformed PSK/key_share/status_request/renegotiation_info, non-empty SCT/early_data); every hello is given to a crypto/tls server (GetConfigForClient), to '
         'parseRawClientHello and MatchTLS.Match, and to the Coq parser; every proper prefix of 25 records (sampled prefixes of 35 more) and all '
         '255 other record types go through MatchTLS.Match; every sixth hello is additionally split into two handshake records at a generated '
         'point (handshake header, after the session id, near the end, anywhere) and given to the server and the matcher; every fourth hello is '
         'matched a second time on a connection lineage (shared variable table and replacer, as Connection.Wrap gives it) whose outer stream '
         'carried another hello, and followed by a non-TLS inner stream; 6 (thorough 24) TLS-in-TLS / plaintext-in-TLS sessions run through a '
         'compiled RouteList [tls sni outer -> terminate (tls.Server over cx, cx.Wrap)] + alpn/sni/bare tls routes with a crypto/tls client over net.Pipe; sub-matcher configurations include near misses of the values the hello carries (case variants, prefixes/suffixes, trailing dot/space/NUL, empty string, '
         'Cyrillic look-alikes, wildcards one label off), client ALPN lists include case/space/dot variants of the common ids, a fixed table of 32 '
         'alpn (configured, offered) pairs, remote_ip/local_ip ranges that contain or narrowly miss the peer; a case is non-trivial when the hello carries server_name, ALPN or supported_versions; '
         'distinct = distinct (bytes, answer) terms',
 'trusted_base': ['the harness reference semantics of the handshake sub-matchers: alpn = byte-exact membership (RFC 7301, what crypto/tls negotiates on); sni = '
                  'certmagic.MatchWildcard as documented (case-insensitive, k left-most labels replaced by *); remote_ip/local_ip = prefix containment',
                  'crypto/tls (Go 1.23 standard library) as the reference server and as the client that produces the hellos',
                  'the harness re-serialiser for mutated hellos (checked to reproduce every captured record byte for byte before mutation)',
                  'caddytls.MatchServerName / certmagic.MatchWildcard are run, not modelled'],
 'modelled': ['modules/l4tls/parsehello.go: parseRawClientHello with every extension case and its return-what-was-parsed failure mode, '
              'supportedVersionsFromMax; x/crypto/cryptobyte String.read/Skip/ReadUintN/ReadUintNLengthPrefixed/Empty',
              'modules/l4tls/matcher.go: MatchTLS.Match framing (record type, 16-bit length, exact reads), placeholders l4.tls.server_name and '
              'l4.tls.version, conjunction of handshake sub-matchers; successive evaluations on one connection lineage (tls_rematch: no memo, '
              'placeholders overwritten by a later parsed hello)',
              'modules/l4tls/alpn_matcher.go: MatchALPN.Match for configured values without placeholders',
              'not modelled: crypto/tls itself (agreement is differential), caddytls sub-matchers other than alpn, Caddyfile parsing (C15); '
              'FillTLSClientConfig and the replacer rendering of {l4.tls.server_name}|{l4.tls.version} are compared by the oracle only'],
 'assumptions': ['the parse_encode theorem is about hellos that are well-formed per RFC 8446/6066/7301 (wf_hello: lengths fit their fields, '
                 'no duplicate extension types, pre_shared_key last, host_name without trailing dot); what crypto/tls does with other hellos is '
                 'only compared when its server accepts them',
                 'MatchALPN: configured values contain no placeholders (repl.ReplaceAll is the identity on them)',
                 'C07_match_record_partial / C07_alpn_routing / C07_parse_encode are about a ClientHello carried in ONE TLS record (what crypto/tls clients write); for a '
                 'hello fragmented across records the property is refuted (C07_fragmented_hello_refuted, recorded finding '
                 'C07:fragmented-hello:*)']}
