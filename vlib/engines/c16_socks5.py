ENGINE = {'name': 'socks5',
 'pkg': 'modules/l4socks',
 'files': ['l4socks/c16_test.go'],
 'run': '^TestVerifC16$',
 'corr': 'C16Corr',
 'case_type': 'c16case',
 'check': 'check',
 'imports': ['From L4.model Require Import Socks5.'],
 'n_quick': 900,
 'n_thorough': 6000,
 'timeout': 900,
 'shard': 100,
 'serves': ['C16'],
 'rule': 'configurations = 12 command sets (default, each single command, two pairs, all three, lower/mixed case, via {env.*} placeholders, '
         'three that Provision must reject) x 11 credential maps (none; one user; three users; only an empty user name; empty name + a user; empty password; '
         'placeholders with values; a placeholder key that expands to nothing; unknown placeholders inside names; braces that are not placeholders '
         'and escaped braces; empty-expanding key and value). Scripted clients: (1) for every configuration CONNECT/BIND/UDP ASSOCIATE by a valid '
         'client, seven kinds of wrong sub-negotiation (wrong password, unknown user, empty user, empty password, the raw placeholder text, wrong '
         'sub-negotiation version, 255-byte names), clients offering only/also the other method; (2) for four configurations every command code '
         '(sampled in quick, all 256 in thorough), every address form (IPv4, IPv6, domain, empty domain, IP literal as domain, unresolvable '
         'domain, three unassigned types, the unspecified address as 0.0.0.0, ::, ::ffff:0.0.0.0 and as the names "0.0.0.0" / "::", the IPv4-mapped '
         'loopback, "localhost" with port 0), a closed port, ten method lists, request version 4; (3) random scripts truncated at every '
         'byte position or with one bit flipped before the address type. The script is served in one piece, byte by byte or in random pieces, '
         'then EOF. Every configuration also gets UDP ASSOCIATE announcing 0.0.0.0:0, [::]:0 and the name "0.0.0.0". After a successful UDP ASSOCIATE that announced a loopback or unspecified address (literal of either family, IPv4-mapped, or through a name), three datagrams are sent to the '
         'relay port (from another address of this machine standing for a third party, from the client address with an arbitrary port, and '
         'last a sentinel from exactly the announced address) and a loopback UDP recorder tells which were forwarded. The client connection reports 127.0.0.1:40000 (*net.TCPAddr) except in a block of sessions (three configurations x UDP ASSOCIATE announcing 0.0.0.0 / :: / the name "0.0.0.0" / an explicit address, plus one CONNECT) run for eight other reported addresses: link-local IPv6 with and without zone, IPv4-mapped loopback, global IPv6, a TCPAddr without IP, an unspecified TCPAddr, and two net.Addr values that are not TCPAddr ("127.0.0.1:40000", "[fe80::1%eth0]:40000"); when the source a correct relay accepts is not an address of this machine the probe waits 150 ms and expects nothing to be forwarded. For every credential map, the bytes of each configured user name + password are re-split at every other boundary (incl. empty user / empty password) and names / passwords of two pairs are glued or swapped, each followed by CONNECT. Three configurations get UDP ASSOCIATE with every class of announced endpoint (0.0.0.0:0, 0.0.0.0:p, [::]:0, [::]:p, [::ffff:0.0.0.0]:p, empty name with port 0 / p, the names "0.0.0.0" and "::" with p, 127.0.0.1:0, 127.0.0.1:p, localhost:p, [::1]:p, foreign 10.1.2.3 with port 0 / p), each followed by datagrams from another interface address, from 127.0.0.2 (arbitrary port and the announced port), from the client address with an arbitrary port, and the sentinel: a datagram from an address that never authenticated must not be relayed unless the client announced exactly that address. and near misses of each configured name and password are presented (trailing / leading NULs, trailing space or newline, one byte shorter / longer, case flipped, last bit or high bit changed, empty, all-NUL of the same length / 1 / 255, padded to 255 bytes with NUL / space / 0xff, doubled): authenticated iff the pair is byte for byte a configured one. White-box: associateSourceRewriter.Rewrite is called for every reported address x command 1..4 x ten announced IPs x announced port 0 / 4242 (CPin cases; oracle C16:auth:udp-relay-not-pinned-to-client). Scripts whose request would make the library contact anything but the loopback targets are not run. non-trivial = the client '
         'got past method negotiation (server wrote more than a bare refusal); distinct = distinct (configuration, script, observation) terms',
 'trusted_base': ['the in-memory client connection of the harness (serves the script, then EOF after the handler went idle) and its loopback '
                  'TCP targets on 127.0.0.1/[::1] (connections are read to EOF one after the other; a fence connection after each session '
                  'orders the observation)',
                  'environment answers given to the model are measured by the harness on the same machine: net.ResolveIPAddr for the name, a '
                  'trial dial of the destination (connected with IPv4/IPv6 local end, or refused), the address family of net.ListenUDP("udp", nil)',
                  'the RemoteAddr the harness\'s client connection reports is part of each case (Tcp ip zone / Other string); the model takes the client IP '
                  'from a TCPAddr only, as the handler does (for any other net.Addr the association is not pinned: recorded as modelled behaviour); the '
                  'third-party datagram is sent from the first non-loopback IPv4 address of the machine, if there is one',
                  'target ports are derived from VERIF_SEED; if taken, the next free pair is used (the port bytes in the scripts then differ)'],
 'modelled': ['modules/l4socks/socks5_handler.go: Provision (Commands -> PermitCommand incl. default and ToUpper(ReplaceAll()); Credentials -> '
              'StaticCredentials with replaced keys/values and dropped empty names; `len(h.Credentials) > 0` on the unfiltered map selects '
              'UserPass vs NoAuth), Handle = ServeConn',
              'caddy v2.8.4 Replacer.replace as used by ReplaceAll(s, "") (escapes, unclosed braces, unknown keys), provider = env table',
              'things-go/go-socks5 v0.0.5: ServeConn, authenticate, NoAuth/UserPass authenticators, statute.ParseMethodRequest / '
              'ParseUserPassRequest / ParseRequest, the command check, handleRequest (resolve before rules), PermitCommand.Allow, '
              'handleConnect/handleBind/handleAssociate up to the reply, SendReply; the source check of the UDP relay loop (relay_accepts) and the '
              "handler's associateSourceRewriter (pin_source)",
              'not modelled: the relay phase itself (Proxy, the UDP datagram loop beyond its source check), write errors towards the client, '
              'strings.ToUpper outside ASCII, BindIP (unused by the library for CONNECT/ASSOCIATE), Caddyfile parsing (C15)'],
 'assumptions': ['the theorems hold for every replacer and every upper-casing function; "configured username/password" and "enabled command" are '
                 'stated after replacement / upper-casing, as Provision does',
                 'writes to the client succeed',
                 'two Credentials keys that become equal after placeholder replacement: the theorem covers every iteration order of the map (any '
                 'of the colliding passwords is a configured one); the engine does not generate such maps']}
