"""Generic per-property check: translator -> proofs -> engines -> in-Coq correspondence ->
direct property oracle -> known findings -> evidence -> verdict."""
import collections
import concurrent.futures
import glob
import importlib
import json
import os
import pkgutil
import re
import sys
import time

from . import core

GLOBAL_TRUSTED = [
    "Coq 8.16.1 kernel (coqc); vm_compute is used for refutation witnesses, finite checks and for evaluating the model on correspondence cases; native_compute is not used",
    "no axioms declared by this development; Print Assumptions output of every property theorem is recorded under coverage.print_assumptions",
    "translator tools/l4gen (go/ast): constants, byte-string literals, call-site facts and the shared-state access table are read from /repo's working tree on every run",
    "correspondence harness (Go test files injected with -overlay, vlib/*.py): generators, scripted peers, projection of observables, printing of Coq terms",
    "no extraction: the model is evaluated inside Coq on the very cases the implementation ran",
]


def _replay_path(prop, seed, n):
    d = os.path.join(core.OUTDIR, "replays")
    os.makedirs(d, exist_ok=True)
    return os.path.join(d, "%s-%s-%d.json" % (prop, seed, n))


def collect(spec):
    """Assemble a property's obligations from what is on disk: every coq/props/<id>*.v file and
    every engine module under vlib/engines whose `serves` lists the property."""
    prop = spec["id"]
    spec = dict(spec)
    from . import engines as engpkg
    engs = []
    for m in sorted(pkgutil.iter_modules(engpkg.__path__), key=lambda x: x.name):
        try:
            mod = importlib.import_module("vlib.engines." + m.name)
        except Exception as ex:  # a broken registration file of an engine that serves OTHER properties must not take this check down
            src = ""
            try:
                src = open(os.path.join(os.path.dirname(engpkg.__file__), m.name + ".py"), errors="replace").read()
            except OSError:
                pass
            mm = re.search(r"['\"]serves['\"]\s*:\s*\[([^\]]*)\]", src)
            if mm is None or prop in re.findall(r"C\d\d", mm.group(1)):
                raise
            sys.stderr.write("WARNING: engine registration vlib/engines/%s.py does not load (%s); it does not serve %s, skipped\n" % (m.name, ex, prop))
            continue
        e = getattr(mod, "ENGINE", None)
        if e and prop in e.get("serves", []):
            engs.append(e)
    spec["engines"] = engs
    pfs = sorted(os.path.relpath(f, core.COQ) for f in glob.glob(os.path.join(core.COQ, "props", prop + "*.v")))
    spec["props_files"] = pfs
    targets = [f[:-2] + ".vo" for f in pfs] + ["corr/Common.vo"]
    for e in engs:
        if e.get("corr"):
            targets.append("corr/%s.vo" % e["corr"])
        targets += e.get("coq_targets", [])
    spec["coq_targets"] = sorted(set(targets))
    for k in ("trusted_base", "modelled", "assumptions"):
        acc = list(spec.get(k, []))
        for e in engs:
            for x in e.get(k, []):
                if x not in acc:
                    acc.append(x)
        spec[k] = acc
    rules = [spec["rule"]] if spec.get("rule") else []
    rules += ["[%s] %s" % (e["name"], e["rule"]) for e in engs if e.get("rule")]
    spec["rule"] = " || ".join(rules)
    return spec


def run_property(spec, tier, seed):
    t0 = time.time()
    prop = spec["id"]
    spec = collect(spec)
    lines = []          # stdout lines (VIOLATION / KNOWN-FINDING)
    violations = []     # dicts
    notes = []
    known, fixed = core.load_known()

    # 1. translator
    ok, out, dt = core.gen()
    if not ok:
        violations.append({"kind": "translator", "key": prop + ":translator-failed", "detail": out[-2000:], "found_input": False})

    # 2. proofs
    hits = core.forbidden_scan()
    targets = spec["coq_targets"]
    t_mk0 = time.time()
    mk_ok, mk_log, mk_dt = core.coq_make(targets)
    proof_info = {"make_ok": mk_ok, "make_secs": round(mk_dt, 1), "forbidden_hits": hits}
    props = {"ok": False, "theorems": [], "discharged": 0, "closed": 0, "axioms": [], "log": "", "file": None}
    if mk_ok:
        props = {"ok": True, "theorems": [], "discharged": 0, "closed": 0, "axioms": [], "log": "", "file": None}
        for pf, r in zip(spec["props_files"], core.check_props_many(spec["props_files"])):
            props["theorems"] += r["theorems"]
            props["discharged"] += r["discharged"]
            props["closed"] += r["closed"]
            props["axioms"] += r["axioms"]
            if not r["ok"]:
                props["ok"] = False
                props["log"] += r["log"]
                props["file"] = props["file"] or pf
        if not spec["props_files"]:
            props["ok"] = False
            props["log"] = "no property file coq/props/%s*.v" % prop
    if hits:
        props["ok"] = False
        props["discharged"] = 0
    chk = None
    if tier == "thorough" and mk_ok and props["ok"] and spec["props_files"]:
        chk = core.coqchk(spec["props_files"])
        if not chk["ok"]:
            props["ok"] = False
            props["log"] += "\ncoqchk failed:\n" + chk["summary"]
            props["file"] = props["file"] or spec["props_files"][0]
    proof_broken = None
    if not mk_ok:
        site = core.coq_error_site(mk_log) or {"file": "?", "line": 0, "statement": None}
        proof_broken = {"site": site, "log": mk_log[-2500:]}
    elif not props["ok"]:
        proof_broken = {"site": {"file": "coq/" + str(props.get("file")), "line": 0, "statement": None}, "log": props["log"]}
    if hits:
        proof_broken = proof_broken or {"site": {"file": hits[0], "line": 0, "statement": "forbidden vernacular"}, "log": "\n".join(hits)}

    t_props = time.time()
    # 3. engines + correspondence
    total_cases, nontrivial_keys, all_keys = 0, set(), set()
    distribution = collections.Counter()
    samples, stats = [], {}
    fails = []
    corr_info = []
    engine_cmds = []
    def process_engine(eng):
        """run one engine and evaluate its cases inside Coq; engines are independent, so several
        run at the same time (go builds and coqc shards overlap)"""
        res = core.run_engine(prop, eng, seed, tier, {"VERIF_PROP": prop})
        cases = [r for r in res["records"] if r.get("t") == "case"]
        out = {"eng": eng, "res": res, "cases": cases, "coq": None}
        if eng.get("corr") and mk_ok:
            coqcases = [c for c in cases if c.get("coq") and not c.get("nocorr")]
            bad, err, cdt = core.coq_eval_cases(prop, eng["name"], eng["corr"], eng["case_type"], eng.get("check", "check"),
                                                [c["coq"] for c in coqcases], shard=eng.get("shard", 400), imports=eng.get("imports", ()))
            out["coq"] = (coqcases, bad, err, cdt)
        return out

    engs = spec.get("engines", [])
    serial = [e for e in engs if e.get("exclusive")]          # timing-sensitive engines may ask to run alone
    parallel = [e for e in engs if not e.get("exclusive")]
    results = []
    if parallel:
        with concurrent.futures.ThreadPoolExecutor(max_workers=min(4, len(parallel))) as ex:
            results += list(ex.map(process_engine, parallel))
    for e in serial:
        results.append(process_engine(e))
    order = {id(e): i for i, e in enumerate(engs)}
    results.sort(key=lambda r: order[id(r["eng"])])

    for r0 in results:
        eng, res, cases = r0["eng"], r0["res"], r0["cases"]
        engine_cmds.append(res["cmd"])
        recs = res["records"]
        efails = [r for r in recs if r.get("t") == "fail" and str(r.get("key", "")).startswith(prop + ":")]
        for r in recs:
            if r.get("t") == "stat":
                stats[eng["name"] + "." + r["name"]] = r["value"]
        fails.extend(efails)
        if not res["ok"] and not efails:
            violations.append({"kind": "engine", "key": "%s:engine-%s-failed" % (prop, eng["name"]),
                               "detail": "the correspondence engine did not complete (build failure, crash or timeout), so the tie between model and code is not established\n" + res["log"][-3000:],
                               "found_input": False})
        elif not res["ok"]:
            notes.append("engine %s exited with rc=%s after reporting oracle failures" % (eng["name"], res["rc"]))
        for c in cases:
            total_cases += 1
            k = core.sha(c.get("coq") or json.dumps([c.get("cls"), c.get("sample")], sort_keys=True, default=str))
            all_keys.add(k)
            if c.get("nt"):
                nontrivial_keys.add(k)
            distribution[c.get("cls", "?")] += 1
        for c in cases[:: max(1, len(cases) // 6)][:6]:
            samples.append({"engine": eng["name"], "class": c.get("cls"), "case": c["coq"][:600], "detail": c.get("sample")})
        if r0["coq"] is not None:
            coqcases, bad, err, cdt = r0["coq"]
            corr_info.append({"engine": eng["name"], "cases": len(coqcases), "mismatches": len(bad), "secs": round(cdt, 1), "error": (err or "")[:600] or None})
            if err:
                violations.append({"kind": "correspondence", "key": "%s:corr-%s-eval-failed" % (prop, eng["name"]), "detail": err[-2000:], "found_input": False})
            if bad:
                ex = [coqcases[i] for i in bad[:5]]
                violations.append({"kind": "correspondence", "key": "%s:corr-%s-mismatch" % (prop, eng["name"]),
                                   "detail": "%d of %d cases: model (coq/corr/%s.v) and implementation disagree" % (len(bad), len(coqcases), eng["corr"]),
                                   "cases": [{"coq": c["coq"][:2000], "class": c.get("cls"), "sample": c.get("sample")} for c in ex],
                                   "found_input": False})

    t_eng = time.time()
    # 4. direct oracle failures -> known findings or violations
    seen_known = {}
    oracle_violation_inputs = []
    byk = collections.OrderedDict()
    for f in fails:
        byk.setdefault(f["key"], []).append(f)
    for key, fl in byk.items():
        if (prop, key) in known:
            seen_known[key] = (len(fl), known[(prop, key)])
        else:
            violations.append({"kind": "oracle", "key": key, "detail": fl[0].get("detail", ""), "input": fl[0].get("input"),
                               "count": len(fl), "found_input": True})
            oracle_violation_inputs.append(fl[0])

    # a broken proof is a violation even when no failing input is found
    if proof_broken:
        violations.append({"kind": "proof", "key": "%s:proof-broken" % prop,
                           "detail": "proof obligation no longer checks: %s" % json.dumps(proof_broken["site"]),
                           "log": proof_broken["log"], "found_input": False})

    # 5. evidence
    obligations = len(props["theorems"]) if props["theorems"] else len(spec.get("expected_theorems", [])) or 1
    cov = {
        "obligations": obligations,
        "discharged": props["discharged"],
        "checker_cmd": "cd coq && make -j%d %s && for f in %s; do coqc -Q . L4 $f; done" % (core.NPROC, " ".join(targets), " ".join(spec["props_files"])),
        "trusted_base": GLOBAL_TRUSTED + spec.get("trusted_base", []),
        "theorems": props["theorems"],
        "print_assumptions": {"closed_under_global_context": props["closed"], "axioms": props["axioms"]},
        "forbidden_vernacular_hits": hits,
        "coqchk": chk,
        "phase_secs": {"translator_and_make": round(t_props - t0, 1) if False else round(mk_dt, 1), "proofs": round(t_props - t_mk0 - mk_dt, 1), "engines_and_correspondence": round(t_eng - t_props, 1)},
        "evaluations": total_cases,
        "distinct_nontrivial": len(nontrivial_keys),
        "distinct": len(all_keys),
        "rule": spec.get("rule", ""),
        "samples": samples if samples else [{"theorems": props["theorems"][:5]}],
        "distribution": dict(sorted(distribution.items())),
        "correspondence": corr_info,
        "engine_cmds": engine_cmds,
        "engine_stats": stats,
        "oracle_failures": {k: len(v) for k, v in byk.items()},
        "known_findings_seen": {k: v[0] for k, v in seen_known.items()},
        "modelled_not_verified": spec.get("modelled", []),
        "notes": notes,
    }
    ev = {
        "property_id": prop, "tier": tier, "seed": seed, "level": spec.get("level", "proof"),
        "coverage": cov, "assumptions": spec.get("assumptions", []),
        "wall_s": round(time.time() - t0, 2), "violations": len(violations),
    }
    os.makedirs(os.path.join(core.OUTDIR, "evidence"), exist_ok=True)
    with open(os.path.join(core.OUTDIR, "evidence", prop + ".json"), "w") as f:
        json.dump(ev, f, indent=1, sort_keys=True)
        f.write("\n")

    # 6. verdict
    for key, (n, what) in seen_known.items():
        print("KNOWN-FINDING: property=%s key=%s %s (%d occurrences this run)" % (prop, key, what, n))
    if not violations:
        print("OK property=%s tier=%s seed=%s theorems=%d/%d cases=%d nontrivial=%d wall=%.1fs" % (
            prop, tier, seed, props["discharged"], obligations, total_cases, len(nontrivial_keys), time.time() - t0))
        return 0
    found = [v for v in violations if v.get("found_input")]
    for n, v in enumerate(violations):
        rp = _replay_path(prop, seed, n)
        body = {"property": prop, "seed": seed, "tier": tier, "kind": v["kind"], "key": v["key"], "detail": v.get("detail"),
                "input": v.get("input"), "cases": v.get("cases"), "log": v.get("log"),
                "rerun": "VERIF_SEED=%s ./check %s --tier %s" % (seed, prop, tier)}
        if not v.get("found_input") and found:
            body["failing_input_found_by_oracle"] = {"key": found[0]["key"], "input": found[0].get("input")}
        with open(rp, "w") as f:
            json.dump(body, f, indent=1)
            f.write("\n")
        suffix = ""
        if not v.get("found_input") and not found:
            suffix = " no-failing-input-found"
        print("DETAIL property=%s key=%s kind=%s %s" % (prop, v["key"], v["kind"], (v.get("detail") or "").split("\n")[0][:300]))
        print("VIOLATION property=%s replay=%s%s" % (prop, rp, suffix))
    return 1
