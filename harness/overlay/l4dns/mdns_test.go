package l4dns

// Engine "mdns": DNS matcher (C04, C06, C14). Messages are built with miekg/dns (Pack) or by hand;
// the reference predicate of C14 is written from the field documentation of MatchDNS.

import (
	"bytes"
	"context"
	"encoding/binary"
	"encoding/hex"
	"errors"
	"fmt"
	"io"
	"net"
	"os"
	"regexp"
	"runtime"
	"strings"
	"testing"
	"time"

	"github.com/caddyserver/caddy/v2"
	"github.com/miekg/dns"
	"go.uber.org/zap"

	"github.com/mholt/caddy-l4/layer4"
)

type vConn struct {
	tcp   bool
	reads int
}

func (c *vConn) Read(p []byte) (int, error)       { c.reads++; return 0, io.EOF }
func (c *vConn) Write(b []byte) (int, error)      { return len(b), nil }
func (c *vConn) Close() error                     { return nil }
func (c *vConn) RemoteAddr() net.Addr             { return &net.TCPAddr{IP: net.IPv4(192, 0, 2, 1), Port: 40000} }
func (c *vConn) SetDeadline(time.Time) error      { return nil }
func (c *vConn) SetReadDeadline(time.Time) error  { return nil }
func (c *vConn) SetWriteDeadline(time.Time) error { return nil }
func (c *vConn) LocalAddr() net.Addr {
	if c.tcp {
		return &net.TCPAddr{IP: net.IPv4(127, 0, 0, 1), Port: 53}
	}
	return &net.UDPAddr{IP: net.IPv4(127, 0, 0, 1), Port: 53}
}

const (
	vYes = iota
	vNo
	vMore
	vFail
	vPanic
)

var vVerdictNames = []string{"Yes", "No", "More", "Fail", "Panic"}

type vRes struct {
	code   int
	pmsg   string
	reads  int
	intact bool
	alloc  uint64
}

var vMeasureAlloc bool

func vEval(m layer4.ConnMatcher, tcp bool, prefix []byte) (r vRes) {
	conn := &vConn{tcp: tcp}
	buf := append(make([]byte, 0, len(prefix)+8), prefix...)
	cx := layer4.WrapConnection(conn, buf, zap.NewNop())
	var ms0, ms1 runtime.MemStats
	func() {
		defer func() {
			if e := recover(); e != nil {
				r.code, r.pmsg = vPanic, fmt.Sprint(e)
			}
		}()
		if vMeasureAlloc {
			runtime.ReadMemStats(&ms0)
		}
		ok, err := layer4.MatcherSet{m}.Match(cx)
		if vMeasureAlloc {
			runtime.ReadMemStats(&ms1)
			r.alloc = ms1.TotalAlloc - ms0.TotalAlloc
		}
		switch {
		case err == nil && ok:
			r.code = vYes
		case err == nil:
			r.code = vNo
		case errors.Is(err, layer4.ErrConsumedAllPrefetchedBytes):
			r.code = vMore
		default:
			r.code, r.pmsg = vFail, err.Error()
		}
	}()
	r.reads = conn.reads
	if r.code != vPanic {
		rb := make([]byte, len(prefix))
		n, _ := io.ReadFull(cx, rb)
		r.intact = n == len(prefix) && bytes.Equal(rb, prefix) && conn.reads == r.reads
	} else {
		r.intact = true
	}
	return
}

type vDCfg struct {
	name string
	m    *MatchDNS
}

func vRuleCoq(r *MatchDNSRule) string {
	return fmt.Sprintf("(%s,%s,%s,%s,%s,%s)", cHex([]byte(r.Class)), cHex([]byte(r.ClassRegexp)), cHex([]byte(r.Name)), cHex([]byte(r.NameRegexp)),
		cHex([]byte(r.Type)), cHex([]byte(r.TypeRegexp)))
}
func vRulesCoq(rs MatchDNSRules) string {
	ss := make([]string, len(rs))
	for i, r := range rs {
		ss[i] = vRuleCoq(r)
	}
	return "[" + strings.Join(ss, ";") + "]"
}

// ---- reference (from the documentation of MatchDNS / MatchDNSRule) ----
type vQ struct{ name, class, typ string; classKnown, typeKnown bool }

func vRuleRef(r *MatchDNSRule, q vQ) bool {
	f := func(lit, re, v string) bool {
		if lit != "" && v != lit {
			return false
		}
		if re != "" && !regexp.MustCompile(re).MatchString(v) {
			return false
		}
		return true
	}
	// domain names compare case-insensitively (RFC 1035 2.3.3, RFC 4343); the option documentation says the
	// name is presented to the rules in lower case
	return f(r.Class, r.ClassRegexp, q.class) && f(r.Type, r.TypeRegexp, q.typ) && f(r.Name, r.NameRegexp, strings.ToLower(q.name))
}
func vAny(rs MatchDNSRules, q vQ) bool {
	for _, r := range rs {
		if vRuleRef(r, q) {
			return true
		}
	}
	return false
}

// does a well-formed query with these questions pass the configured rules?
func vFilterRef(m *MatchDNS, qs []vQ) bool {
	if len(m.Allow) == 0 && len(m.Deny) == 0 {
		return true
	}
	for _, q := range qs {
		if !q.classKnown || !q.typeKnown {
			return false
		}
		a, d := vAny(m.Allow, q), vAny(m.Deny, q)
		switch {
		case d && a:
			if !m.PreferAllow {
				return false
			}
		case d:
			return false
		case a:
		default:
			if len(m.Allow) > 0 && len(m.Deny) == 0 {
				return false
			}
			if m.DefaultDeny {
				return false
			}
		}
	}
	return true
}

type vDns struct {
	out    *vOut
	rng    *vRng
	prop   string
	seen   map[string]bool
	nMatch int
	thin   uint64
	force  bool // emit the correspondence case regardless of the sampling
}

func (e *vDns) want(p string) bool { return e.prop == "" || e.prop == p }

func vQOf(q dns.Question) vQ {
	c, ck := dns.ClassToString[q.Qclass]
	t, tk := dns.TypeToString[q.Qtype]
	return vQ{q.Name, c, t, ck, tk}
}

func (e *vDns) match(c *vDCfg, tcp bool, in []byte, cls string, nt bool) vRes {
	r := vEval(c.m, tcp, in)
	e.nMatch++
	key := fmt.Sprintf("%s|%v|%x", c.name, tcp, in)
	mod := uint64(14 + len(in)/4)
	if vThorough() {
		mod = uint64(1 + len(in)/400)
	}
	if r.code == vYes || r.code == vPanic {
		mod = (mod + 1) / 2
	}
	if e.thin > 1 && !vThorough() {
		mod *= e.thin
	}
	hsh := uint64(14695981039346656037)
	for i := 0; i < len(key); i++ {
		hsh = (hsh ^ uint64(key[i])) * 1099511628211
	}
	if !e.seen[key] && ((hsh>>17)%mod == 0 || e.force) && len(in) < 3000 {
		e.seen[key] = true
		// the buffer Unpack sees according to the framing of RFC 1035 4.2 and what the library says about it
		var mb []byte
		if tcp {
			if len(in) >= 2 {
				if l := int(binary.BigEndian.Uint16(in)); len(in) >= 2+l {
					mb = in[2 : 2+l]
				}
			}
		} else {
			mb = in
		}
		u := "UErr"
		var res []string
		func() {
			defer func() { _ = recover() }()
			msg := new(dns.Msg)
			if msg.Unpack(mb) != nil {
				return
			}
			qs := make([]string, len(msg.Question))
			for i, q := range msg.Question {
				vq := vQOf(q)
				cs, ts := "None", "None"
				if vq.classKnown {
					cs = "(Some " + cHex([]byte(vq.class)) + ")"
				}
				if vq.typeKnown {
					ts = "(Some " + cHex([]byte(vq.typ)) + ")"
				}
				qs[i] = fmt.Sprintf("(%s,%s,%s)", cHex([]byte(q.Name)), cs, ts)
				for _, rs := range []MatchDNSRules{c.m.Allow, c.m.Deny} {
					for _, r := range rs {
						for _, pv := range [][2]string{{r.ClassRegexp, vq.class}, {r.TypeRegexp, vq.typ}, {r.NameRegexp, strings.ToLower(q.Name)}} {
							if pv[0] != "" {
								res = append(res, fmt.Sprintf("(%s,%s,%s)", cHex([]byte(pv[0])), cHex([]byte(pv[1])), cBool(regexp.MustCompile(pv[0]).MatchString(pv[1]))))
							}
						}
					}
				}
			}
			u = fmt.Sprintf("(UOk %d [%s] %s %d %s)", msg.Len(), strings.Join(qs, ";"), cBool(msg.Response), msg.Rcode, cBool(msg.Zero))
		}()
		e.out.Case(fmt.Sprintf("KDns %s %s %s %s %s %s %s %s [%s] %d", vRulesCoq(c.m.Allow), vRulesCoq(c.m.Deny), cBool(c.m.DefaultDeny), cBool(c.m.PreferAllow),
			cBool(tcp), cHex(in), cHex(mb), u, strings.Join(res, ";"), r.code), "dns/"+cls+"/"+vVerdictNames[r.code], nt, nil)
	}
	inp := map[string]any{"config": c.name, "tcp": tcp, "input": hex.EncodeToString(in)}
	if len(in) > 600 {
		inp["input"] = hex.EncodeToString(in[:600]) + "..."
		inp["input_len"] = len(in)
	}
	if r.code == vPanic {
		e.out.Fail("C04:dns:panic", "Match panicked: "+r.pmsg, inp)
	}
	if r.code == vFail {
		e.out.Fail("C04:dns:error", "Match returned an unexpected error: "+r.pmsg, inp)
	}
	if vMeasureAlloc && r.alloc > 16*layer4.MaxMatchingBytes+4*uint64(len(in)) {
		if r2 := vEval(c.m, tcp, in); r2.alloc > 16*layer4.MaxMatchingBytes+4*uint64(len(in)) {
			e.out.Fail("C04:dns:alloc", fmt.Sprintf("Match allocated %d bytes on %d input bytes", r2.alloc, len(in)), inp)
		}
	}
	if r.reads != 0 {
		e.out.Fail("C06:dns:network-read", fmt.Sprintf("Match read from the socket %d time(s) while matching", r.reads), inp)
	}
	if !r.intact {
		e.out.Fail("C06:dns:stream-changed", "bytes readable after Match differ from the prefetched prefix", inp)
	}
	return r
}

func (e *vDns) chain(c *vDCfg, stream []byte, full int) {
	sawNo, noAt := false, 0
	var nos []int
	whole := -1
	for n := 0; n <= len(stream); n++ {
		if len(stream) > 200 && !(n <= 40 || n%29 == 0 || (n >= full-3 && n <= full+3) || n >= len(stream)-2) {
			continue
		}
		r1 := e.match(c, true, stream[:n], "c06", n >= 3)
		r2 := vEval(c.m, true, stream[:n])
		inp := map[string]any{"config": c.name, "stream": hex.EncodeToString(stream), "prefix_len": n}
		if r1.code != r2.code {
			e.out.Fail("C06:dns:nondeterministic", "two evaluations of the same prefix gave different verdicts", inp)
		}
		if sawNo && r1.code != vNo {
			inp["no_at"] = noAt
			e.out.Fail("C06:dns:no-then-not-no", fmt.Sprintf("No on prefix %d but %s on longer prefix %d", noAt, vVerdictNames[r1.code], n), inp)
		}
		if r1.code == vNo {
			if !sawNo {
				sawNo, noAt = true, n
			}
			nos = append(nos, n)
		}
		if n == full {
			whole = r1.code
		}
	}
	if whole == vYes {
		for _, n := range nos {
			if n < full {
				e.out.Fail("C06:dns:fragment-rejected", fmt.Sprintf("message matches whole (%d bytes) but prefix %d is answered No", full, n),
					map[string]any{"config": c.name, "stream": hex.EncodeToString(stream[:full]), "prefix_len": n})
			}
		}
	}
}

type vDMsg struct {
	note    string
	wire    []byte
	qs      []vQ
	valid   bool   // a well-formed standard query per RFC 1035 (QR=0, RCODE=0, Z=0, at least one question, nothing after the message)
	special string // known deviation class
}

func vPack(m *dns.Msg) []byte {
	b, err := m.Pack()
	if err != nil {
		panic(err)
	}
	return b
}

func TestVerifMdns(t *testing.T) {
	out := vOpen()
	defer out.Close()
	e := &vDns{out: out, rng: vNewRng(vSeed()), prop: os.Getenv("VERIF_PROP"), seen: map[string]bool{}}
	if !(e.want("C04") || e.want("C06") || e.want("C14")) {
		return
	}
	vMeasureAlloc = e.want("C04")
	out.Case(fmt.Sprintf("KConsts [] [] [] %s", cZList([]int64{int64(dnsHeaderBytes), dns.MaxMsgSize, dns.MinMsgSize, 1200, 1452})), "consts", true, nil)

	ctx, cancel := caddy.NewContext(caddy.Context{Context: context.Background()})
	defer cancel()
	R := func(name, typ, class string) *MatchDNSRule { return &MatchDNSRule{Name: name, Type: typ, Class: class} }
	RE := func(name, typ, class string) *MatchDNSRule {
		return &MatchDNSRule{NameRegexp: name, TypeRegexp: typ, ClassRegexp: class}
	}
	base := []struct {
		name        string
		allow, deny MatchDNSRules
	}{
		{"none", nil, nil},
		{"allow-name", MatchDNSRules{R("example.com.", "", "")}, nil},
		{"allow-type-class", MatchDNSRules{R("", "A", "IN"), R("", "AAAA", "")}, nil},
		{"deny-name", nil, MatchDNSRules{R("blocked.example.", "", "")}},
		{"deny-any-type", nil, MatchDNSRules{R("", "ANY", ""), R("", "", "CH")}},
		{"allow+deny", MatchDNSRules{R("", "A", ""), R("example.com.", "", "")}, MatchDNSRules{R("example.com.", "MX", ""), R("blocked.example.", "", "")}},
		{"allow-re", MatchDNSRules{RE(`^(|[-0-9a-z]+\.)example\.com\.$`, "^(A|AAAA|MX)$", "")}, nil},
		{"allow-re+deny-re", MatchDNSRules{RE(`example`, "", "^IN$")}, MatchDNSRules{RE(`^blocked\.`, "", ""), RE("", "^(ANY|AXFR)$", "")}},
		{"empty-rule-allow", MatchDNSRules{&MatchDNSRule{}}, MatchDNSRules{R("blocked.example.", "", "")}},
	}
	var cfgs []*vDCfg
	for _, b := range base {
		for flags := 0; flags < 4; flags++ {
			if b.allow == nil && b.deny == nil && flags != 0 && flags != 3 {
				continue
			}
			cp := func(rs MatchDNSRules) MatchDNSRules {
				var o MatchDNSRules
				for _, r := range rs {
					c := *r
					o = append(o, &c)
				}
				return o
			}
			m := &MatchDNS{Allow: cp(b.allow), Deny: cp(b.deny), DefaultDeny: flags&1 != 0, PreferAllow: flags&2 != 0}
			if err := m.Provision(ctx); err != nil {
				out.Fail(e.prop+":dns:provision", err.Error(), nil)
				return
			}
			cfgs = append(cfgs, &vDCfg{fmt.Sprintf("%s/dd=%v/pa=%v", b.name, m.DefaultDeny, m.PreferAllow), m})
		}
	}

	// ---- messages
	var msgs []vDMsg
	q := func(name string, typ, class uint16) dns.Question { return dns.Question{Name: name, Qtype: typ, Qclass: class} }
	mk := func(note string, valid bool, f func(m *dns.Msg), qs ...dns.Question) *vDMsg {
		m := new(dns.Msg)
		m.Id = uint16(e.rng.U64())
		m.RecursionDesired = true
		m.Question = qs
		if f != nil {
			f(m)
		}
		d := vDMsg{note: note, wire: vPack(m), valid: valid}
		for _, x := range qs {
			d.qs = append(d.qs, vQOf(x))
		}
		msgs = append(msgs, d)
		return &msgs[len(msgs)-1]
	}
	names := []string{"example.com.", "www.example.com.", "blocked.example.", "other.test.", ".", "a-1.example.com.", "xexample.comx."}
	types := []uint16{dns.TypeA, dns.TypeAAAA, dns.TypeMX, dns.TypeANY, dns.TypeAXFR, dns.TypeTXT, 65280}
	classes := []uint16{dns.ClassINET, dns.ClassCHAOS, dns.ClassANY, 5}
	for _, n := range names {
		for _, ty := range types {
			mk(fmt.Sprintf("query %s type %d IN", n, ty), true, nil, q(n, ty, dns.ClassINET))
		}
	}
	for _, cl := range classes {
		mk(fmt.Sprintf("query example.com. A class %d", cl), true, nil, q("example.com.", dns.TypeA, cl))
		mk(fmt.Sprintf("query blocked.example. MX class %d", cl), true, nil, q("blocked.example.", dns.TypeMX, cl))
	}
	mk("two questions, both fine", true, nil, q("example.com.", dns.TypeA, dns.ClassINET), q("www.example.com.", dns.TypeAAAA, dns.ClassINET))
	mk("two questions, second blocked", true, nil, q("example.com.", dns.TypeA, dns.ClassINET), q("blocked.example.", dns.TypeA, dns.ClassINET))
	mk("two questions, first blocked", true, nil, q("blocked.example.", dns.TypeMX, dns.ClassINET), q("example.com.", dns.TypeA, dns.ClassINET))
	mk("query with EDNS0 OPT", true, func(m *dns.Msg) { m.SetEdns0(1232, true) }, q("example.com.", dns.TypeA, dns.ClassINET))
	mk("query with AD and CD bits", true, func(m *dns.Msg) { m.AuthenticatedData, m.CheckingDisabled = true, true }, q("example.com.", dns.TypeAAAA, dns.ClassINET))
	mk("response", false, func(m *dns.Msg) { m.Response = true }, q("example.com.", dns.TypeA, dns.ClassINET))
	mk("response with answer", false, func(m *dns.Msg) {
		m.Response = true
		rr, _ := dns.NewRR("example.com. 60 IN A 192.0.2.1")
		m.Answer = []dns.RR{rr}
	}, q("example.com.", dns.TypeA, dns.ClassINET))
	mk("query with rcode 3", false, func(m *dns.Msg) { m.Rcode = dns.RcodeNameError }, q("example.com.", dns.TypeA, dns.ClassINET))
	mk("query with Z bit", false, func(m *dns.Msg) { m.Zero = true }, q("example.com.", dns.TypeA, dns.ClassINET))
	mk("no question", false, nil)
	mk("opcode NOTIFY query", true, func(m *dns.Msg) { m.Opcode = dns.OpcodeNotify }, q("example.com.", dns.TypeSOA, dns.ClassINET))
	mk("long name", true, nil, q(strings.Repeat("abcdefghijklmnopqrstuvwxyz0123456789.", 6)+"example.com.", dns.TypeA, dns.ClassINET))
	mk("query with mixed-case name (DNS 0x20)", true, nil, q("eXaMpLe.CoM.", dns.TypeA, dns.ClassINET))
	mk("query for a denied name in mixed case (DNS 0x20)", true, nil, q("BLOCKED.Example.", dns.TypeMX, dns.ClassINET))
	mk("query for an allowed subdomain in upper case, regexp rules (DNS 0x20)", true, nil, q("WWW.EXAMPLE.COM.", dns.TypeAAAA, dns.ClassINET))
	mk("query with a known-answer record sharing the name (compressed)", true, func(m *dns.Msg) {
		rr, _ := dns.NewRR("example.com. 60 IN A 192.0.2.1")
		m.Answer = []dns.RR{rr}
		m.Compress = true
	}, q("example.com.", dns.TypeA, dns.ClassINET)).special = "compressed"
	// hand-made
	valid0 := append([]byte{}, msgs[0].wire...)
	msgs = append(msgs, vDMsg{note: "query followed by one garbage byte inside the frame", wire: append(append([]byte{}, valid0...), 0), qs: msgs[0].qs})
	msgs = append(msgs, vDMsg{note: "header only, qdcount 1", wire: []byte{0, 1, 1, 0, 0, 1, 0, 0, 0, 0, 0, 0}})
	msgs = append(msgs, vDMsg{note: "truncated question", wire: valid0[:len(valid0)-3]})
	msgs = append(msgs, vDMsg{note: "compression pointer loop", wire: []byte{0, 1, 1, 0, 0, 1, 0, 0, 0, 0, 0, 0, 0xc0, 12, 0, 1, 0, 1}})
	msgs = append(msgs, vDMsg{note: "qdcount 65535 with one question", wire: func() []byte { b := append([]byte{}, valid0...); b[4], b[5] = 0xff, 0xff; return b }()})
	out.Stat("messages", len(msgs))

	frame := func(tcp bool, w []byte) []byte {
		if !tcp {
			return w
		}
		return append(binary.BigEndian.AppendUint16(nil, uint16(len(w))), w...)
	}

	if e.want("C14") || e.want("C04") {
		for _, c := range cfgs {
			for i := range msgs {
				d := &msgs[i]
				for _, tcp := range []bool{true, false} {
					r := e.match(c, tcp, frame(tcp, d.wire), "c14", true)
					want := d.valid && vFilterRef(c.m, d.qs)
					got := r.code == vYes
					if got == want || r.code == vPanic || !e.want("C14") {
						continue
					}
					comp := "dns"
					if d.special != "" {
						// the deviation only shows where the rule set looks at the affected field
						comp = "dns-" + d.special
					}
					inp := map[string]any{"config": c.name, "tcp": tcp, "input": hex.EncodeToString(frame(tcp, d.wire)), "note": d.note, "verdict": vVerdictNames[r.code]}
					if want {
						e.out.Fail("C14:"+comp+":rejects-valid", "a well-formed query that passes the configured rules was not matched ("+d.note+")", inp)
					} else {
						e.out.Fail("C14:"+comp+":accepts-invalid", "a message that is not a well-formed query, or that the rules reject, was matched ("+d.note+")", inp)
					}
				}
			}
		}
	}

	// ---- well-formed queries across the size range, both transports (EDNS0 lifts the 512-byte UDP limit of RFC 1035;
	// the matcher sees at most MaxMatchingBytes): padded to exact sizes with the EDNS0 padding option, many questions,
	// maximal names. Reference: the library unpacks them and the rules decide.
	if e.want("C14") || e.want("C04") {
		type sized struct {
			note string
			wire []byte
			qs   []vQ
		}
		var sz []sized
		padded := func(target int) {
			build := func(k int) []byte {
				m := new(dns.Msg)
				m.Id = uint16(e.rng.U64())
				m.RecursionDesired = true
				m.Question = []dns.Question{q("example.com.", dns.TypeA, dns.ClassINET)}
				opt := &dns.OPT{Hdr: dns.RR_Header{Name: ".", Rrtype: dns.TypeOPT}}
				opt.SetUDPSize(4096)
				opt.Option = append(opt.Option, &dns.EDNS0_PADDING{Padding: make([]byte, k)})
				m.Extra = []dns.RR{opt}
				return vPack(m)
			}
			base := len(build(0))
			if target < base {
				return
			}
			w := build(target - base)
			sz = append(sz, sized{fmt.Sprintf("EDNS0-padded query of %d bytes", len(w)), w, []vQ{vQOf(q("example.com.", dns.TypeA, dns.ClassINET))}})
		}
		for _, t := range []int{44, 64, 128, 300, 510, 511, 512, 513, 514, 600, 1000, 1232, 1452, 2048, 4096, 8000} {
			padded(t)
		}
		for _, nq := range []int{4, 8, 9, 20, 60} {
			m := new(dns.Msg)
			m.Id = uint16(e.rng.U64())
			var qs []dns.Question
			var vqs []vQ
			for i := 0; i < nq; i++ {
				name := fmt.Sprintf("host-%02d-%s.example.com.", i, strings.Repeat("x", 40))
				qs = append(qs, q(name, dns.TypeA, dns.ClassINET))
				vqs = append(vqs, vQOf(qs[i]))
			}
			m.Question = qs
			w := vPack(m)
			sz = append(sz, sized{fmt.Sprintf("%d questions with long names (%d bytes)", nq, len(w)), w, vqs})
		}
		{
			lab := strings.Repeat("a", 63) + "."
			name := lab + lab + lab + strings.Repeat("b", 49) + ".example.com."
			m := new(dns.Msg)
			m.Question = []dns.Question{q(name, dns.TypeAAAA, dns.ClassINET), q(name, dns.TypeA, dns.ClassINET), q("example.com.", dns.TypeA, dns.ClassINET)}
			w := vPack(m)
			sz = append(sz, sized{fmt.Sprintf("three questions with names of maximal length (%d bytes)", len(w)), w,
				[]vQ{vQOf(m.Question[0]), vQOf(m.Question[1]), vQOf(m.Question[2])}})
		}
		for ci, c := range cfgs {
			if ci%5 != 0 {
				continue
			}
			for _, d := range sz {
				for _, tcp := range []bool{true, false} {
					e.force = ci == 0 && (len(d.wire) == 512 || len(d.wire) == 513 || len(d.wire) == 1232)
					r := e.match(c, tcp, frame(tcp, d.wire), "c14-sizes", true)
					e.force = false
					want := vFilterRef(c.m, d.qs)
					if (r.code == vYes) == want || r.code == vPanic || !e.want("C14") {
						continue
					}
					inp := map[string]any{"config": c.name, "tcp": tcp, "note": d.note, "len": len(d.wire), "verdict": vVerdictNames[r.code],
						"input_head": hex.EncodeToString(frame(tcp, d.wire)[:40])}
					if want {
						e.out.Fail("C14:dns:rejects-valid", "a well-formed query that passes the configured rules was not matched ("+d.note+")", inp)
					} else {
						e.out.Fail("C14:dns:accepts-invalid", "a query that the rules reject was matched ("+d.note+")", inp)
					}
				}
			}
		}
		out.Stat("sized_messages", len(sz))
	}

	if e.want("C06") {
		e.thin = 6
		streams := 0
		for ci, c := range cfgs {
			for i := range msgs {
				if (i+ci)%5 != int(vSeed())%5 && ci != 0 {
					continue
				}
				stream := frame(true, msgs[i].wire)
				full := len(stream)
				switch e.rng.Intn(3) {
				case 0:
					stream = append(stream, e.rng.Bytes(1+e.rng.Intn(4))...)
				case 1:
					stream = append(stream, frame(true, msgs[e.rng.Intn(len(msgs))].wire)...)
				}
				e.chain(c, stream, full)
				streams++
			}
		}
		e.thin = 1
		out.Stat("c06_streams", streams)
	}

	if e.want("C04") {
		n := vN(400)
		for i := 0; i < n; i++ {
			c := cfgs[e.rng.Intn(len(cfgs))]
			var in []byte
			switch e.rng.Intn(6) {
			case 0:
				in = e.rng.Bytes(e.rng.Intn(64))
			case 1: // valid message with random bytes overwritten (header counts, label lengths, pointers)
				in = append([]byte{}, msgs[e.rng.Intn(len(msgs))].wire...)
				for k := 0; k < 1+e.rng.Intn(3); k++ {
					in[e.rng.Intn(len(in))] = byte(e.rng.U64())
				}
			case 2: // header with large counts and random body
				in = append([]byte{byte(e.rng.U64()), byte(e.rng.U64()), 1, 0, 0xff, 0xff, 0xff, 0xff, 0xff, 0xff, 0xff, 0xff}, e.rng.Bytes(e.rng.Intn(300))...)
			case 3: // truncated
				in = append([]byte{}, msgs[e.rng.Intn(len(msgs))].wire...)
				in = in[:e.rng.Intn(len(in)+1)]
			case 4: // many compression pointers
				in = []byte{0, 1, 1, 0, 0, 1, 0, 0, 0, 0, 0, 0}
				for k := 0; k < 40; k++ {
					in = append(in, 0xc0, byte(12+2*e.rng.Intn(k+1)))
				}
				in = append(in, 0, 1, 0, 1)
			default: // large
				in = e.rng.Bytes(2000 + e.rng.Intn(6000))
				in[2], in[3] = 1, 0
			}
			tcp := e.rng.Bool()
			if tcp {
				if e.rng.Intn(4) == 0 {
					in = append(binary.BigEndian.AppendUint16(nil, uint16(e.rng.Intn(65536))), in...)
				} else {
					in = frame(true, in)
				}
			}
			e.match(c, tcp, in, "c04", len(in) > 14)
		}
		// the TCP length field around its gates
		for _, l := range []int{0, 1, 11, 12, 13, 17, 512, 8190, 8192, 65535} {
			for _, have := range []int{0, 1, l - 1, l, l + 1} {
				if have < 0 || have > 8190 {
					continue
				}
				in := append(binary.BigEndian.AppendUint16(nil, uint16(l)), e.rng.Bytes(have)...)
				e.match(cfgs[0], true, in, "c04-lengths", true)
			}
		}
	}
	// ---- the dns matcher behind a matcher that evaluates a nested matcher set (what `not` does), datagram transport, a
	// client that keeps sending: the read-until-error loop of the UDP branch must still see only the prefetched bytes
	if e.want("C04") || e.want("C06") {
		for _, d := range []int{0, 5, 40} {
			if d >= len(msgs) {
				continue
			}
			conn := &vFlood{left: 8192}
			in := msgs[d].wire
			cx := layer4.WrapConnection(conn, append(make([]byte, 0, len(in)+8), in...), zap.NewNop())
			var ms0, ms1 runtime.MemStats
			code, pmsg := -1, ""
			func() {
				defer func() {
					if r := recover(); r != nil {
						code, pmsg = vPanic, fmt.Sprint(r)
					}
				}()
				runtime.ReadMemStats(&ms0)
				ok, err := layer4.MatcherSet{vNested{}, cfgs[0].m}.Match(cx)
				runtime.ReadMemStats(&ms1)
				switch {
				case err == nil && ok:
					code = vYes
				case err == nil:
					code = vNo
				case errors.Is(err, layer4.ErrConsumedAllPrefetchedBytes):
					code = vMore
				default:
					code = vFail
				}
			}()
			inp := map[string]any{"scenario": "MatcherSet{nested-set matcher, dns} on a datagram connection whose peer keeps sending", "input": hex.EncodeToString(in),
				"socket_reads": conn.reads, "verdict": code}
			if code == vPanic {
				e.out.Fail("C04:dns:panic", "Match panicked: "+pmsg, inp)
			}
			if conn.reads != 0 {
				e.out.Fail("C06:dns:network-read", fmt.Sprintf("the dns matcher read from the socket %d time(s) while matching (after a matcher with a nested set)", conn.reads), inp)
			}
			if alloc := ms1.TotalAlloc - ms0.TotalAlloc; alloc > 16*layer4.MaxMatchingBytes+4*uint64(len(in)) {
				e.out.Fail("C04:dns:alloc", fmt.Sprintf("Match allocated %d bytes on a %d-byte datagram (after a matcher with a nested set; the peer kept sending)", alloc, len(in)), inp)
			}
			want := vYes
			if !msgs[d].valid {
				want = vNo
			}
			if code != want && code != vPanic && e.want("C06") {
				e.out.Fail("C06:dns:verdict-depends-on-set-position", fmt.Sprintf("verdict %d behind a nested-set matcher, %d when evaluated alone", code, want), inp)
			}
		}
	}
	out.Stat("match_evaluations", e.nMatch)
}

// a datagram peer that keeps sending: 512 bytes per Read, for a bounded number of reads
type vFlood struct {
	vConn
	left int
}

func (c *vFlood) Read(p []byte) (int, error) {
	c.reads++
	if c.left <= 0 {
		return 0, io.EOF
	}
	c.left--
	for i := range p {
		p[i] = 0xab
	}
	return len(p), nil
}

// a matcher that, like `not`, evaluates a nested matcher set and matches
type vNested struct{}
type vAlways struct{}

func (vAlways) Match(*layer4.Connection) (bool, error) { return true, nil }
func (vNested) Match(cx *layer4.Connection) (bool, error) {
	_, err := layer4.MatcherSet{vAlways{}}.Match(cx)
	return true, err
}
