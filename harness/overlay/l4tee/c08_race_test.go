package l4tee

// C08 engine (race part): a real layer4 App whose route is  match openvpn (auth mode) ->
// proxy to one upstream with TWO dial addresses (two peers per connection), hit by concurrent
// clients.  In the thorough tier the driver builds this test with -race; the test then re-executes
// itself as a child with GORACE=log_path=... so that the detector's reports can be read back,
// attributes each report to the struct field accessed in /repo code (go/parser on the reported
// source line) and emits it as oracle failure C08:race:<pkg>.<Type>.<field> plus a CRace case
// (the Coq side demands that the access table knows the location and flags it).
// Without -race (quick tier) the workload only runs as a smoke test.

import (
	"bytes"
	"context"
	"encoding/json"
	"fmt"
	"go/ast"
	"go/parser"
	"go/token"
	"io"
	"net"
	"os"
	"os/exec"
	"path/filepath"
	"regexp"
	"sort"
	"strconv"
	"strings"
	"sync"
	"testing"
	"time"

	"github.com/caddyserver/caddy/v2"

	"github.com/mholt/caddy-l4/layer4"
	"github.com/mholt/caddy-l4/modules/l4openvpn"
	_ "github.com/mholt/caddy-l4/modules/l4proxy"
)

func vRaceUpstream(t *testing.T, path string, stop chan struct{}) net.Listener {
	ln, err := net.Listen("unix", path)
	if err != nil {
		t.Fatal(err)
	}
	go func() {
		for {
			c, err := ln.Accept()
			if err != nil {
				return
			}
			go func(c net.Conn) {
				defer c.Close()
				go func() { _, _ = io.Copy(io.Discard, c) }()
				chunk := make([]byte, 512)
				for i := 0; i < 32; i++ {
					if _, err := c.Write(chunk); err != nil {
						return
					}
				}
				select {
				case <-stop:
				case <-time.After(300 * time.Millisecond):
				}
			}(c)
		}
	}()
	return ln
}

func vRaceWorkload(t *testing.T, nclients int) (served int) {
	dir, err := os.MkdirTemp("", "verif-c08-race")
	if err != nil {
		t.Fatal(err)
	}
	defer os.RemoveAll(dir)
	stop := make(chan struct{})
	defer close(stop)
	u1, u2, s := filepath.Join(dir, "u1.sock"), filepath.Join(dir, "u2.sock"), filepath.Join(dir, "s.sock")
	l1, l2 := vRaceUpstream(t, u1, stop), vRaceUpstream(t, u2, stop)
	defer l1.Close()
	defer l2.Close()

	route := map[string]any{
		"match":  []any{map[string]any{"openvpn": map[string]any{"modes": []string{"auth"}, "ignore_timestamp": true}}},
		"handle": []any{map[string]any{"handler": "proxy", "upstreams": []any{map[string]any{"dial": []string{"unix/" + u1, "unix/" + u2}}}}},
	}
	rj, _ := json.Marshal(route)
	var r layer4.Route
	if err := json.Unmarshal(rj, &r); err != nil {
		t.Fatal(err)
	}
	app := &layer4.App{Servers: map[string]*layer4.Server{"s": {Listen: []string{"unix/" + s}, Routes: layer4.RouteList{&r}}}}
	ctx, cancel := caddy.NewContext(caddy.Context{Context: context.Background()})
	defer cancel()
	if err := app.Provision(ctx); err != nil {
		t.Fatal(err)
	}
	if err := app.Start(); err != nil {
		t.Fatal(err)
	}
	defer app.Stop()

	var wg sync.WaitGroup
	var mu sync.Mutex
	for i := 0; i < nclients; i++ {
		wg.Add(1)
		go func(i int) {
			defer wg.Done()
			c, err := net.Dial("unix", s)
			if err != nil {
				return
			}
			defer c.Close()
			ma := &l4openvpn.MessageAuth{}
			ma.Opcode = l4openvpn.OpcodeControlHardResetClientV2
			ma.LocalSessionID = uint64(i + 1)
			ma.HMAC = make([]byte, 20)
			ma.ReplayPacketID = 1
			ma.ReplayTimestamp = uint32(time.Now().Unix())
			if _, err := c.Write(ma.ToBytes()); err != nil {
				return
			}
			_ = c.SetReadDeadline(time.Now().Add(3 * time.Second))
			got := 0
			buf := make([]byte, 4096)
			for got < 2*32*512 {
				n, err := c.Read(buf)
				got += n
				if err != nil {
					break
				}
			}
			if got > 0 {
				mu.Lock()
				served++
				mu.Unlock()
			}
		}(i)
	}
	wg.Wait()
	return served
}

// second workload: the real ListenerWrapper (no routes: every connection falls through) over a
// unix listener; the consumer reads from a connection as soon as Accept returns it, i.e. while the
// wrapper's handle goroutine may still be finishing
func vRaceHandover(t *testing.T, nclients int) (handed int) {
	dir, err := os.MkdirTemp("", "verif-c08-handover")
	if err != nil {
		t.Fatal(err)
	}
	defer os.RemoveAll(dir)
	sock := filepath.Join(dir, "l.sock")
	inner, err := net.Listen("unix", sock)
	if err != nil {
		t.Fatal(err)
	}
	ctx, cancel := caddy.NewContext(caddy.Context{Context: context.Background()})
	defer cancel()
	lw := &layer4.ListenerWrapper{}
	if err := lw.Provision(ctx); err != nil {
		t.Fatal(err)
	}
	ln := lw.WrapListener(inner)
	var cw sync.WaitGroup
	for i := 0; i < nclients; i++ {
		cw.Add(1)
		go func(i int) {
			defer cw.Done()
			c, err := net.Dial("unix", sock)
			if err != nil {
				return
			}
			defer c.Close()
			msg := bytes.Repeat([]byte{byte('a' + i%26)}, 3000)
			_, _ = c.Write(msg)
			_ = c.SetReadDeadline(time.Now().Add(2 * time.Second))
			_, _ = io.Copy(io.Discard, c)
		}(i)
	}
	var rw sync.WaitGroup
	for i := 0; i < nclients; i++ {
		c, err := ln.Accept()
		if err != nil {
			break
		}
		handed++
		rw.Add(1)
		go func(c net.Conn) {
			defer rw.Done()
			buf := make([]byte, 3000)
			_ = c.SetReadDeadline(time.Now().Add(2 * time.Second))
			_, _ = io.ReadFull(c, buf)
			_, _ = c.Write([]byte("ok"))
			_ = c.Close()
		}(c)
	}
	rw.Wait()
	_ = ln.Close()
	cw.Wait()
	return handed
}

func TestVerifC08RaceChild(t *testing.T) {
	if os.Getenv("VERIF_C08_CHILD") != "1" {
		t.Skip("child of TestVerifC08Race")
	}
	n, _ := strconv.Atoi(os.Getenv("VERIF_C08_CLIENTS"))
	if n <= 0 {
		n = 16
	}
	served := vRaceWorkload(t, n)
	fmt.Printf("VERIF-C08-SERVED %d\n", served)
	fmt.Printf("VERIF-C08-HANDED %d\n", vRaceHandover(t, n))
}

// ---- race report attribution --------------------------------------------------------------------

type vFrame struct {
	fn, file string
	line     int
}

var vFrameFile = regexp.MustCompile(`^\s+(\S+\.go):(\d+)`)

// parses the stacks of one report: a list of stacks, each a list of frames
func vParseReport(rep string) (stacks [][]vFrame) {
	var cur []vFrame
	var pendingFn string
	flush := func() {
		if len(cur) > 0 {
			stacks = append(stacks, cur)
		}
		cur = nil
	}
	for _, ln := range strings.Split(rep, "\n") {
		switch {
		case strings.HasPrefix(ln, "Write at ") || strings.HasPrefix(ln, "Read at ") || strings.HasPrefix(ln, "Previous write at ") ||
			strings.HasPrefix(ln, "Previous read at ") || strings.HasPrefix(ln, "Goroutine ") || strings.HasPrefix(ln, "Previous atomic") ||
			strings.HasPrefix(ln, "Atomic "):
			flush()
			pendingFn = ""
			if strings.HasPrefix(ln, "Goroutine ") {
				// creation stacks are not access stacks: stop collecting
				cur = nil
				pendingFn = "-"
			}
		case pendingFn == "-":
			// skipping goroutine creation stacks
		case strings.HasPrefix(ln, "  ") && !strings.HasPrefix(ln, "      ") && strings.Contains(ln, "("):
			pendingFn = strings.TrimSpace(ln)
		default:
			if m := vFrameFile.FindStringSubmatch(ln); m != nil && pendingFn != "" {
				l, _ := strconv.Atoi(m[2])
				cur = append(cur, vFrame{pendingFn, m[1], l})
				pendingFn = ""
			}
		}
	}
	flush()
	return
}

func vRepoFrame(st []vFrame) (vFrame, bool) {
	for _, f := range st {
		if strings.Contains(f.fn, "github.com/mholt/caddy-l4/") && !strings.Contains(f.file, "zz_verif") && !strings.HasSuffix(f.file, "_test.go") {
			return f, true
		}
	}
	return vFrame{}, false
}

// fields of the receiver accessed on the given source line: (pkg, Type, [fields])
func vFieldsAt(file string, line int) (pkg, typ string, fields []string) {
	fset := token.NewFileSet()
	f, err := parser.ParseFile(fset, file, nil, 0)
	if err != nil {
		return "", "", nil
	}
	pkg = f.Name.Name
	for _, d := range f.Decls {
		fd, ok := d.(*ast.FuncDecl)
		if !ok || fd.Body == nil || fset.Position(fd.Pos()).Line > line || fset.Position(fd.End()).Line < line {
			continue
		}
		recv := ""
		if fd.Recv != nil && len(fd.Recv.List) > 0 {
			tt := fd.Recv.List[0].Type
			if st, ok := tt.(*ast.StarExpr); ok {
				tt = st.X
			}
			if id, ok := tt.(*ast.Ident); ok {
				typ = id.Name
			}
			if len(fd.Recv.List[0].Names) > 0 {
				recv = fd.Recv.List[0].Names[0].Name
			}
		}
		seen := map[string]bool{}
		ast.Inspect(fd.Body, func(n ast.Node) bool {
			se, ok := n.(*ast.SelectorExpr)
			if !ok || fset.Position(se.Pos()).Line != line {
				return true
			}
			if id, ok := se.X.(*ast.Ident); ok && id.Name == recv && !seen[se.Sel.Name] {
				seen[se.Sel.Name] = true
				fields = append(fields, se.Sel.Name)
			}
			return true
		})
	}
	return
}

func vLocateRace(rep string) (loc string, detail string) {
	stacks := vParseReport(rep)
	var sets [][]string
	pkg, typ := "", ""
	var where []string
	for _, st := range stacks {
		fr, ok := vRepoFrame(st)
		if !ok {
			continue
		}
		p, t, fs := vFieldsAt(fr.file, fr.line)
		where = append(where, fmt.Sprintf("%s (%s:%d)", fr.fn, filepath.Base(fr.file), fr.line))
		if len(fs) > 0 {
			pkg, typ = p, t
			sets = append(sets, fs)
		}
	}
	detail = strings.Join(where, " <-> ")
	if len(sets) == 0 {
		if len(where) == 0 {
			return "", detail
		}
		return "unattributed:" + where[0], detail
	}
	// the field common to all access sites; otherwise the first field of the first site
	count := map[string]int{}
	for _, s := range sets {
		for _, f := range s {
			count[f]++
		}
	}
	best := sets[0][0]
	for _, f := range sets[0] {
		if count[f] > count[best] {
			best = f
		}
	}
	return pkg + "." + typ + "." + best, detail
}

func TestVerifC08Race(t *testing.T) {
	out := vOpen()
	defer out.Close()
	if !vRaceEnabled {
		out.Stat("race.handed_over", vRaceHandover(t, 16))
		served := vRaceWorkload(t, 16)
		out.Stat("race.mode", "off (quick tier): workload only")
		out.Stat("race.served", served)
		if served == 0 {
			out.Fail("C08:race:workload-served-nobody", "the openvpn->proxy(2 peers) workload served no client, so it exercises nothing", nil)
		}
		return
	}
	dir, err := os.MkdirTemp("", "verif-c08-racelog")
	if err != nil {
		t.Fatal(err)
	}
	defer os.RemoveAll(dir)
	cmd := exec.Command(os.Args[0], "-test.run=^TestVerifC08RaceChild$", "-test.count=1", "-test.timeout=240s")
	cmd.Env = append(os.Environ(), "VERIF_C08_CHILD=1", "VERIF_C08_CLIENTS=48", "VERIF_OUT=/dev/null",
		"GORACE=log_path="+filepath.Join(dir, "race")+" halt_on_error=0 history_size=3")
	outb, _ := cmd.CombinedOutput()
	served := 0
	if m := regexp.MustCompile(`VERIF-C08-SERVED (\d+)`).FindSubmatch(outb); m != nil {
		served, _ = strconv.Atoi(string(m[1]))
	}
	if m := regexp.MustCompile(`VERIF-C08-HANDED (\d+)`).FindSubmatch(outb); m != nil {
		h, _ := strconv.Atoi(string(m[1]))
		out.Stat("race.handed_over", h)
		if h == 0 {
			out.Fail("C08:race:workload-handed-over-nobody", "the ListenerWrapper hand-over workload delivered no connection under the race detector", nil)
		}
	}
	out.Stat("race.mode", "on")
	out.Stat("race.served", served)
	if served == 0 {
		tail := string(outb)
		if len(tail) > 1500 {
			tail = tail[len(tail)-1500:]
		}
		out.Fail("C08:race:workload-served-nobody", "the openvpn->proxy(2 peers) workload served no client under the race detector", map[string]any{"child_output": tail})
	}
	files, _ := filepath.Glob(filepath.Join(dir, "race*"))
	found := map[string][]string{}
	reports := 0
	for _, f := range files {
		b, _ := os.ReadFile(f)
		for _, rep := range strings.Split(string(b), "==================") {
			if !strings.Contains(rep, "DATA RACE") {
				continue
			}
			reports++
			loc, detail := vLocateRace(rep)
			if loc == "" {
				continue // no frame of /repo code involved (third-party / harness)
			}
			found[loc] = append(found[loc], detail)
		}
	}
	out.Stat("race.reports", reports)
	var locs []string
	for l := range found {
		locs = append(locs, l)
	}
	sort.Strings(locs)
	for _, l := range locs {
		out.Case(fmt.Sprintf("CRace %q", l), "race/"+l, true, map[string]any{"sites": found[l][0]})
		out.Fail("C08:race:"+l, "the Go race detector reported a data race on "+l+": "+found[l][0],
			map[string]any{"location": l, "reports": len(found[l]), "sites": found[l][0], "workload": "48 concurrent clients through (a) match openvpn{modes:[auth]} -> proxy to one upstream with two dial addresses, (b) a ListenerWrapper without routes whose consumer reads right after Accept", "source": "go test -race"})
	}
}
