//go:build !race

package l4tee

const vRaceEnabled = false
