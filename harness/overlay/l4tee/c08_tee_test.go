package l4tee

// C08 engine (tee part): the real tee handler inside a real layer4 App/Server listening on a unix
// socket. Every client sends a self-identifying stream; the tee branch reads its share of the
// stream after a delay while the main chain has already returned (so Server.handle has returned
// the matching buffer to bufPool) and other connections are being matched. Every byte a branch
// reads must carry the id of its own connection.
//
// Oracle key: C08:pool:cross-talk-tee

import (
	"context"
	"encoding/json"
	"fmt"
	"io"
	"net"
	"os"
	"path/filepath"
	"runtime"
	"sync"
	"testing"
	"time"

	"github.com/caddyserver/caddy/v2"

	"github.com/mholt/caddy-l4/layer4"
)

// ---- scripted modules -------------------------------------------------------------------------

// vTagMatcher matches streams starting with 'T' once vTagNeed bytes are available.
type vTagMatcher struct{}

const vTagNeed = 8

func (*vTagMatcher) CaddyModule() caddy.ModuleInfo {
	return caddy.ModuleInfo{ID: "layer4.matchers.verif_c08_tag", New: func() caddy.Module { return new(vTagMatcher) }}
}

func (*vTagMatcher) Match(cx *layer4.Connection) (bool, error) {
	b := make([]byte, vTagNeed)
	if _, err := io.ReadFull(cx, b); err != nil {
		return false, err
	}
	if b[0] == 'T' {
		// remember who this connection is while the matching buffer is certainly intact
		cx.SetVar("verif_c08_id", int(b[1])<<8|int(b[2]))
	}
	return b[0] == 'T', nil
}

// vSink is the branch handler: waits, then reads as many bytes as the stream announces and
// records them.
type vSink struct{}

func (*vSink) CaddyModule() caddy.ModuleInfo {
	return caddy.ModuleInfo{ID: "layer4.handlers.verif_c08_sink", New: func() caddy.Module { return new(vSink) }}
}

type vTeeRec struct {
	mu   sync.Mutex
	got  [][]byte
	ids  []int
	wg   sync.WaitGroup
	wait time.Duration
	n    int
	// mainReads: the main chain reads its copy of the stream before it returns (then a tee that
	// feeds the branch through the pipe runs in lock-step); otherwise it returns at once, which is
	// what exposes a branch that still looks at the pooled buffer
	mainReads bool
}

var vTee = &vTeeRec{}

// stream layout: 'T' idHi idLo lenHi lenLo then (idHi idLo) repeated; total length = len field
func vTeeStream(id, n int) []byte {
	b := make([]byte, n)
	b[0] = 'T'
	b[1], b[2] = byte(id>>8), byte(id)
	b[3], b[4] = byte(n>>8), byte(n)
	for i := 5; i < n; i++ {
		if i%2 == 1 {
			b[i] = byte(id >> 8)
		} else {
			b[i] = byte(id)
		}
	}
	return b
}

// index of the first byte of b that is not the byte connection id sent at that position (-1: all fine)
func vTeeCheck(id int, b []byte) int {
	w := vTeeStream(id, vTee.n)
	for i := range b {
		if i >= len(w) || b[i] != w[i] {
			return i
		}
	}
	return -1
}

func (*vSink) Handle(cx *layer4.Connection, _ layer4.Handler) error {
	defer vTee.wg.Done()
	own, _ := cx.GetVar("verif_c08_id").(int)
	time.Sleep(vTee.wait)
	// every stream of a round has the same length, so the number of bytes to expect is known
	// without trusting the (possibly foreign) bytes just read
	n := vTee.n
	type rr struct{ b []byte }
	ch := make(chan rr, 1)
	go func() {
		buf := make([]byte, n)
		k, _ := io.ReadFull(cx, buf)
		ch <- rr{buf[:k]}
	}()
	var got []byte
	select {
	case r := <-ch:
		got = r.b
	case <-time.After(400 * time.Millisecond):
		// nothing (more) arrives: with a main chain that does not read, a tee that feeds the
		// branch through its pipe delivers nothing, which is fine for this property
		got = nil
	}
	vTee.mu.Lock()
	vTee.got = append(vTee.got, got)
	vTee.ids = append(vTee.ids, own)
	vTee.mu.Unlock()
	return nil
}

// vQuick is the main chain's terminal handler: reads its copy of the stream and returns. With the
// prefetched bytes buffered in the Connection it gets them without touching the tee's pipe, so it
// returns long before the branch wakes up; if tee fed everything through the pipe instead, the
// two would simply proceed in lock-step (and the engine would still terminate).
type vQuick struct{}

func (*vQuick) CaddyModule() caddy.ModuleInfo {
	return caddy.ModuleInfo{ID: "layer4.handlers.verif_c08_quick", New: func() caddy.Module { return new(vQuick) }}
}
func (*vQuick) Handle(cx *layer4.Connection, _ layer4.Handler) error {
	if vTee.mainReads {
		_, _ = io.ReadFull(cx, make([]byte, vTee.n))
	}
	return nil
}

func init() {
	caddy.RegisterModule(&vTagMatcher{})
	caddy.RegisterModule(&vSink{})
	caddy.RegisterModule(&vQuick{})
}

// ---- the run ----------------------------------------------------------------------------------

func vTeeRound(t *testing.T, out *vOut, procs, nconn int, wait time.Duration, seed int64, round int, mainReads bool) (checked, bad int) {
	old := runtime.GOMAXPROCS(procs)
	defer runtime.GOMAXPROCS(old)

	dir, err := os.MkdirTemp("", "verif-c08-tee")
	if err != nil {
		t.Fatal(err)
	}
	defer os.RemoveAll(dir)
	sock := filepath.Join(dir, "s.sock")

	route := map[string]any{
		"match": []any{map[string]any{"verif_c08_tag": map[string]any{}}},
		"handle": []any{
			map[string]any{"handler": "tee", "branch": []any{map[string]any{"handler": "verif_c08_sink"}}},
			map[string]any{"handler": "verif_c08_quick"},
		},
	}
	rj, _ := json.Marshal(route)
	var r layer4.Route
	if err := json.Unmarshal(rj, &r); err != nil {
		t.Fatal(err)
	}
	app := &layer4.App{Servers: map[string]*layer4.Server{
		"s": {Listen: []string{"unix/" + sock}, Routes: layer4.RouteList{&r}},
	}}
	ctx, cancel := caddy.NewContext(caddy.Context{Context: context.Background()})
	defer cancel()
	if err := app.Provision(ctx); err != nil {
		t.Fatal(err)
	}
	if err := app.Start(); err != nil {
		t.Fatal(err)
	}
	defer app.Stop()

	vTee.mu.Lock()
	vTee.got = nil
	vTee.ids = nil
	vTee.wait = wait
	vTee.mainReads = mainReads
	rng := vNewRng(seed*1000003 + int64(round))
	vTee.n = 16 + rng.Intn(400)
	vTee.mu.Unlock()
	vTee.wg.Add(nconn)

	var cw sync.WaitGroup
	for i := 0; i < nconn; i++ {
		id := round*1000 + i + 1
		n := vTee.n
		cw.Add(1)
		go func(id, n int) {
			defer cw.Done()
			c, err := net.Dial("unix", sock)
			if err != nil {
				vTee.wg.Done()
				return
			}
			defer c.Close()
			_, _ = c.Write(vTeeStream(id, n))
			// keep the client open until the server closes it
			_ = c.SetReadDeadline(time.Now().Add(5 * time.Second))
			_, _ = io.Copy(io.Discard, c)
		}(id, n)
		if procs == 1 {
			// stagger a little so that connections overlap with earlier branches that still sleep
			time.Sleep(wait / 4)
		}
	}
	cw.Wait()
	done := make(chan struct{})
	go func() { vTee.wg.Wait(); close(done) }()
	select {
	case <-done:
	case <-time.After(20 * time.Second):
		out.Stat("tee.timeout", 1)
	}

	vTee.mu.Lock()
	defer vTee.mu.Unlock()
	for gi, g := range vTee.got {
		if len(g) == 0 {
			continue
		}
		checked++
		id := vTee.ids[gi]
		at := vTeeCheck(id, g)
		if at >= 0 {
			bad++
			if bad <= 3 {
				hi := at + 16
				if hi > len(g) {
					hi = len(g)
				}
				out.Fail("C08:pool:cross-talk-tee",
					fmt.Sprintf("tee branch of connection %d read a byte that is not its own at offset %d (the main chain had returned, Server.handle had put the matching buffer back and another connection reused it)", id, at),
					map[string]any{"gomaxprocs": procs, "connections": nconn, "branch_delay_ms": wait.Milliseconds(), "connection": id, "offset": at,
						"bytes_at_offset": fmt.Sprintf("%x", g[at:hi]), "expected": fmt.Sprintf("%x", vTeeStream(id, len(g))[at:hi])})
			}
		}
	}
	return
}

func TestVerifC08Tee(t *testing.T) {
	out := vOpen()
	defer out.Close()
	seed := vSeed()
	type cfg struct {
		procs, nconn int
		wait         time.Duration
	}
	cfgs := []cfg{{1, 24, 8 * time.Millisecond}, {4, 64, 10 * time.Millisecond}, {16, 128, 10 * time.Millisecond}}
	if vThorough() {
		cfgs = append(cfgs, cfg{1, 128, 4 * time.Millisecond}, cfg{4, 256, 10 * time.Millisecond}, cfg{16, 512, 10 * time.Millisecond})
	}
	total, totalBad := 0, 0
	for i, c := range cfgs {
		n, b := vTeeRound(t, out, c.procs, c.nconn, c.wait, seed, 2*i, true)
		total += n
		totalBad += b
		out.Case(fmt.Sprintf("CStress \"tee\" %d %d %d %d", c.procs, c.nconn, n, b), fmt.Sprintf("tee/main-reads/procs=%d", c.procs), n >= 2, nil)
		// main chain returns without reading (fewer connections: each branch may wait for its timeout)
		nc := c.nconn / 4
		n, b = vTeeRound(t, out, c.procs, nc, c.wait, seed, 2*i+1, false)
		total += n
		totalBad += b
		out.Case(fmt.Sprintf("CStress \"tee\" %d %d %d %d", c.procs, nc, n, b), fmt.Sprintf("tee/main-returns/procs=%d", c.procs), true, nil)
	}
	out.Stat("tee.branches_checked", total)
	out.Stat("tee.branches_with_foreign_bytes", totalBad)
}
