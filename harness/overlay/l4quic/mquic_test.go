package l4quic

// Engine "mquic": the gate of MatchQUIC.Match (before quic-go is invoked) against model/MatchDns.v quic_gate, and
// the end-to-end verdict on captured QUIC v1 Initial packets (the package's own test vectors packet1..3, taken
// with quicreach and curl) and on mutations of them. Behind the gate quic-go decides (delegated).

import (
	"context"
	"encoding/hex"
	"errors"
	"fmt"
	"io"
	"net"
	"os"
	"os/exec"
	"sync"
	"runtime"
	"strings"
	"testing"
	"time"

	"github.com/caddyserver/caddy/v2"
	"go.uber.org/zap"

	"github.com/mholt/caddy-l4/layer4"
)

type vQConn struct {
	udp   bool
	reads int
}

func (c *vQConn) Read(p []byte) (int, error)       { c.reads++; return 0, io.EOF }
func (c *vQConn) Write(b []byte) (int, error)      { return len(b), nil }
func (c *vQConn) Close() error                     { return nil }
func (c *vQConn) RemoteAddr() net.Addr             { return &net.UDPAddr{IP: net.IPv4(192, 0, 2, 1), Port: 40000} }
func (c *vQConn) SetDeadline(time.Time) error      { return nil }
func (c *vQConn) SetReadDeadline(time.Time) error  { return nil }
func (c *vQConn) SetWriteDeadline(time.Time) error { return nil }
func (c *vQConn) LocalAddr() net.Addr {
	if c.udp {
		return &net.UDPAddr{IP: net.IPv4(127, 0, 0, 1), Port: 443}
	}
	return &net.TCPAddr{IP: net.IPv4(127, 0, 0, 1), Port: 443}
}

var vQNames = []string{"Yes", "No", "More", "Fail", "Panic"}

type vQRes struct {
	code  int
	pmsg  string
	reads int
	alloc uint64
}

func vQEval(m *MatchQUIC, udp bool, in []byte) (r vQRes) {
	conn := &vQConn{udp: udp}
	cx := layer4.WrapConnection(conn, append(make([]byte, 0, len(in)+8), in...), zap.NewNop())
	var ms0, ms1 runtime.MemStats
	func() {
		defer func() {
			if e := recover(); e != nil {
				r.code, r.pmsg = 4, fmt.Sprint(e)
			}
		}()
		runtime.ReadMemStats(&ms0)
		ok, err := layer4.MatcherSet{m}.Match(cx)
		runtime.ReadMemStats(&ms1)
		r.alloc = ms1.TotalAlloc - ms0.TotalAlloc
		switch {
		case err == nil && ok:
			r.code = 0
		case err == nil:
			r.code = 1
		case errors.Is(err, layer4.ErrConsumedAllPrefetchedBytes):
			r.code = 2
		default:
			r.code, r.pmsg = 3, err.Error()
		}
	}()
	r.reads = conn.reads
	return
}

// the gate of the wire definition: a datagram that can carry a client Initial is a long-header packet with the
// fixed bit set (RFC 9000 17.2) of at least 1200 bytes (14.1) and at most the largest packet quic-go buffers
func vQGateRef(udp bool, in []byte) bool {
	return udp && len(in) >= 1200 && len(in) <= 1452 && in[0]&0xc0 == 0xc0
}

func TestVerifMquic(t *testing.T) {
	out := vOpen()
	defer out.Close()
	prop := os.Getenv("VERIF_PROP")
	if !(prop == "" || prop == "C04" || prop == "C14") {
		return
	}
	rng := vNewRng(vSeed())
	out.Case(fmt.Sprintf("KConsts [] [] [] %s", cZList([]int64{12, 65535, 512, QUICPacketBytesMin, QUICPacketBytesMax})), "consts", true, nil)

	ctx, cancel := caddy.NewContext(caddy.Context{Context: context.Background()})
	defer cancel()
	m := &MatchQUIC{}
	if err := m.Provision(ctx); err != nil {
		out.Fail(prop+":quic:provision", err.Error(), nil)
		return
	}

	type tc struct {
		note  string
		udp   bool
		in    []byte
		valid bool // a captured, unmodified QUIC v1 client Initial datagram
		slow  bool // passes the gate but is not a valid Initial: costs the accept timeout
	}
	var cases []tc
	caps := [][]byte{packet1, packet2, packet3}
	for i, p := range caps {
		cases = append(cases, tc{fmt.Sprintf("captured Initial %d (%d bytes)", i+1, len(p)), true, p, true, false})
		cases = append(cases, tc{fmt.Sprintf("captured Initial %d on a TCP-like connection", i+1), false, p, false, false})
	}
	p1 := caps[0]
	with0 := func(b byte, p []byte) []byte { o := append([]byte{}, p...); o[0] = b; return o }
	// first byte: every combination of the two gate bits, packet type and low bits
	for _, b := range []byte{0x00, 0x3f, 0x40, 0x7f, 0x80, 0xbf} {
		cases = append(cases, tc{fmt.Sprintf("captured Initial with first byte %#02x (gate bits cleared)", b), true, with0(b, p1), false, false})
	}
	// sizes around the two bounds (gate-rejected ones are cheap)
	for _, n := range []int{0, 1, 2, 600, 1198, 1199} {
		in := append([]byte{}, p1[:min(n, len(p1))]...)
		cases = append(cases, tc{fmt.Sprintf("captured Initial cut to %d bytes", n), true, in, false, false})
	}
	for _, n := range []int{1453, 1454, 1500, 3000} {
		in := append(append([]byte{}, p1...), make([]byte, n-len(p1))...)
		cases = append(cases, tc{fmt.Sprintf("captured Initial padded with zeros to %d bytes", n), true, in, false, false})
	}
	// behind the gate: quic-go decides; each invalid one waits for QUICAcceptTimeout
	slow := []tc{
		{"captured Initial with one payload bit flipped (AEAD must fail)", true, func() []byte { o := append([]byte{}, p1...); o[700] ^= 0x20; return o }(), false, true},
		{"captured Initial with version 0x0a0a0a0a (unsupported)", true, func() []byte { o := append([]byte{}, p1...); o[1], o[2], o[3], o[4] = 10, 10, 10, 10; return o }(), false, true},
		{"captured Initial retyped as Handshake (0xe4)", true, with0(0xe4, p1), false, true},
		{"random 1200 bytes with long-header first byte", true, with0(0xc3, rng.Bytes(1200)), false, true},
		{"random 1452 bytes with long-header first byte", true, with0(0xcf, rng.Bytes(1452)), false, true},
		{"zeros, 1200 bytes, first byte 0xc0", true, with0(0xc0, make([]byte, 1200)), false, true},
	}
	if len(p1) > 1200 {
		slow = append(slow, tc{"captured Initial cut to exactly 1200 bytes", true, append([]byte{}, p1[:1200]...), false, true})
	}
	if len(p1) < 1452 {
		slow = append(slow, tc{"captured Initial padded with zeros to 1452 bytes", true, append(append([]byte{}, p1...), make([]byte, 1452-len(p1))...), false, true})
	}
	nslow := len(slow)
	if !vThorough() && nslow > 5 {
		// rotate by seed so that different seeds cover different slow inputs
		k := int(vSeed()) % nslow
		slow = append(slow[k:], slow[:k]...)[:5]
	}
	cases = append(cases, slow...)
	// random gate-rejected inputs
	for i := 0; i < vN(40); i++ {
		n := []int{1, 7, 64, 1199, 1200, 1300, 1452, 1453}[rng.Intn(8)]
		in := rng.Bytes(n)
		in[0] &^= []byte{0x40, 0x80, 0xc0}[rng.Intn(3)]
		cases = append(cases, tc{fmt.Sprintf("random %d bytes, first byte %#02x", n, in[0]), rng.Intn(4) != 0, in, false, false})
	}

	var maxAlloc uint64
	for _, c := range cases {
		r := vQEval(m, c.udp, c.in)
		if r.alloc > maxAlloc {
			maxAlloc = r.alloc
		}
		gate := vQGateRef(c.udp, c.in)
		out.Case(fmt.Sprintf("KQuic %s %s %d", cBool(c.udp), cHex(c.in), r.code), "quic/"+vQNames[r.code], gate, c.note)
		inp := map[string]any{"note": c.note, "udp": c.udp, "len": len(c.in), "verdict": vQNames[r.code]}
		if len(c.in) <= 80 {
			inp["input"] = hex.EncodeToString(c.in)
		} else {
			inp["input_head"] = hex.EncodeToString(c.in[:48])
		}
		if r.code == 4 {
			out.Fail("C04:quic:panic", "Match panicked: "+r.pmsg, inp)
			continue
		}
		if r.code == 3 {
			out.Fail("C04:quic:error", "Match returned an unexpected error: "+r.pmsg, inp)
		}
		if r.reads != 0 {
			out.Fail("C06:quic:network-read", "Match read from the socket while matching", inp)
		}
		// the gate itself allocates 1454 bytes; a rejected datagram must not cost more than a small multiple of the limit
		if !gate && r.alloc > 16*layer4.MaxMatchingBytes {
			if r2 := vQEval(m, c.udp, c.in); r2.alloc > 16*layer4.MaxMatchingBytes {
				out.Fail("C04:quic:alloc", fmt.Sprintf("Match allocated %d bytes on a datagram the gate rejects", r2.alloc), inp)
			}
		}
		if c.valid && r.code != 0 {
			// a loaded machine may miss the 100 ms accept window: retry before reporting
			ok := false
			for k := 0; k < 3 && !ok; k++ {
				ok = vQEval(m, c.udp, c.in).code == 0
			}
			if !ok {
				out.Fail("C14:quic:rejects-valid", "a well-formed QUIC v1 Initial of at least 1200 bytes was not matched (no sub-matcher configured)", inp)
			}
		}
		// trailing bytes after a valid Initial may be ignored by quic-go (RFC 9000 12.2): no verdict expected for the padded one
		if !c.valid && !strings.Contains(c.note, "padded with zeros to 1452") && r.code == 0 && (!gate || c.slow) {
			out.Fail("C14:quic:accepts-invalid", "a datagram that is not a well-formed QUIC Initial was matched ("+c.note+")", inp)
		}
		if !gate && r.code == 2 && len(c.in) >= 2 {
			out.Fail("C14:quic:undecided-on-datagram", "a non-empty datagram that cannot be a QUIC Initial was answered 'need more'", inp)
		}
	}
	if prop == "" || prop == "C04" {
		vQOverlap(out)
	}
	out.Stat("quic_cases", len(cases))
	out.Stat("quic_max_alloc_bytes", maxAlloc)
}

// ---------------------------------------------------------------- overlapping Match calls on ONE matcher instance
//
// UDP associations are matched concurrently by the server, all through the same provisioned matcher. A panic in a
// goroutine quic-go starts cannot be recovered by the caller and kills the process, so the scenario runs in a child
// process (this test binary re-executed) and the parent reports a crash as C04:quic:panic.

const vQChildEnv = "VERIF_MQUIC_CHILD"

func TestVerifMquicChild(t *testing.T) {
	if os.Getenv(vQChildEnv) == "" {
		return
	}
	ctx, cancel := caddy.NewContext(caddy.Context{Context: context.Background()})
	defer cancel()
	m := &MatchQUIC{}
	if err := m.Provision(ctx); err != nil {
		fmt.Printf("VQ provision-error %v\n", err)
		return
	}
	caps := [][]byte{packet1, packet2, packet3}
	// (number of goroutines, start offset between consecutive goroutines in ms); 0 = released together by a barrier
	rounds := [][2]int{{2, 0}, {2, 10}, {2, 30}, {2, 50}, {3, 0}, {4, 10}, {3, 30}, {4, 0}}
	for ri, rd := range rounds {
		n, off := rd[0], rd[1]
		res := make([]int, n)
		start := make(chan struct{})
		var wg sync.WaitGroup
		for k := 0; k < n; k++ {
			wg.Add(1)
			go func(k int) {
				defer wg.Done()
				<-start
				time.Sleep(time.Duration(k*off) * time.Millisecond)
				// no recover here on purpose: a panic must take the child down like it would take the server down
				res[k] = vQEvalNoRecover(m, caps[(ri+k)%len(caps)])
			}(k)
		}
		fmt.Printf("VQ round-start %d n=%d off=%dms\n", ri, n, off)
		close(start)
		wg.Wait()
		for k := 0; k < n; k++ {
			// a loaded machine may miss the 100 ms accept window: retry alone before reporting
			for a := 0; a < 3 && res[k] != 0; a++ {
				res[k] = vQEvalNoRecover(m, caps[(ri+k)%len(caps)])
			}
			fmt.Printf("VQ verdict %d %d %d\n", ri, k, res[k])
		}
	}
	fmt.Println("VQ done")
}

func vQEvalNoRecover(m *MatchQUIC, in []byte) int {
	cx := layer4.WrapConnection(&vQConn{udp: true}, append(make([]byte, 0, len(in)+8), in...), zap.NewNop())
	ok, err := layer4.MatcherSet{m}.Match(cx)
	switch {
	case err == nil && ok:
		return 0
	case err == nil:
		return 1
	case errors.Is(err, layer4.ErrConsumedAllPrefetchedBytes):
		return 2
	default:
		return 3
	}
}

func vQOverlap(out *vOut) {
	cmd := exec.Command(os.Args[0], "-test.run=^TestVerifMquicChild$", "-test.count=1", "-test.timeout=60s")
	cmd.Env = append(os.Environ(), vQChildEnv+"=1", "VERIF_OUT=")
	t0 := time.Now()
	b, err := cmd.CombinedOutput()
	text := string(b)
	lastRound, verdicts, bad := "", 0, 0
	for _, line := range strings.Split(text, "\n") {
		var ri, k, v, n, off int
		if c, _ := fmt.Sscanf(line, "VQ round-start %d n=%d off=%dms", &ri, &n, &off); c == 3 {
			lastRound = fmt.Sprintf("round %d: %d goroutines, %d ms apart", ri, n, off)
		}
		if c, _ := fmt.Sscanf(line, "VQ verdict %d %d %d", &ri, &k, &v); c == 3 {
			verdicts++
			if v != 0 {
				bad++
				out.Fail("C14:quic:rejects-valid", "a captured QUIC v1 Initial was not matched while other associations were inside Match of the same matcher (and not on three retries alone)",
					map[string]any{"round": ri, "goroutine": k, "verdict": vQNames[v]})
			}
		}
	}
	done := strings.Contains(text, "VQ done")
	if err != nil || !done {
		// keep the part of the crash report that names the panic
		msg := text
		if i := strings.Index(text, "panic:"); i >= 0 {
			msg = text[i:]
		}
		if len(msg) > 900 {
			msg = msg[:900]
		}
		out.Fail("C04:quic:panic", "the process running overlapping Match calls on one provisioned matcher crashed or did not finish ("+lastRound+"): "+msg,
			map[string]any{"scenario": lastRound, "exit": fmt.Sprint(err), "verdicts_before_crash": verdicts})
	}
	out.Stat("quic_overlap_verdicts", verdicts)
	out.Stat("quic_overlap_not_matched", bad)
	out.Stat("quic_overlap_ms", time.Since(t0).Milliseconds())
}
