package l4proxyprotocol

// C12 engine (receiving side): three-way comparison for the PROXY protocol.
//
//   1. codec: model parser vs proxyprotocol.Parse (CParse); specification encoders of the model vs
//      HeaderV1/HeaderV2.WriteTo and vs this file's own encoder written from the specification
//      (CSpecV1/CSpecV2); the library writers on arbitrary field values (CWriteV1/CWriteV2).
//   2. allow list: Provision+tidyRules (CTidy: rule set), newConn (CNewConn).
//   3. end to end: Handler.Handle on a connection with chosen peer addresses; a recording next
//      handler sees RemoteAddr()/LocalAddr(), the replacer values of {l4.conn.remote_addr} and
//      {l4.conn.local_addr}, the remote_ip/local_ip matchers, and the bytes after the header, for
//      headers split at every position, coalesced with the payload, written byte by byte, and
//      partly prefetched into the layer4 buffer (CHandle).
//
// The property text is evaluated directly on what the recording handler saw (oracle keys below).

import (
	"bufio"
	"bytes"
	"context"
	"encoding/binary"
	"encoding/json"
	"fmt"
	"io"
	"math/big"
	"net"
	"net/netip"
	"os"
	"strings"
	"sync"
	"testing"
	"time"

	"github.com/caddyserver/caddy/v2"
	"github.com/caddyserver/caddy/v2/modules/caddyhttp"
	"github.com/mastercactapus/proxyprotocol"
	"go.uber.org/zap"

	"github.com/mholt/caddy-l4/layer4"
	_ "github.com/mholt/caddy-l4/modules/l4tls"
)

// ---------------------------------------------------------------- projection to Coq terms

func vcN(v int) string { return fmt.Sprintf("%d%%N", v) }
func vcBigN(b []byte) string {
	return new(big.Int).SetBytes(b).String() + "%N"
}
func vcIP(ip net.IP) string {
	if len(ip) == 0 {
		return "IPnil"
	}
	if p4 := ip.To4(); p4 != nil {
		return "(IP4 " + vcBigN(p4) + ")"
	}
	if len(ip) == 16 {
		return "(IP6 " + vcBigN(ip) + ")"
	}
	return "IPnil"
}
func vcAddr(a net.Addr) string {
	switch x := a.(type) {
	case *net.TCPAddr:
		if x == nil {
			return "AOther"
		}
		return fmt.Sprintf("(ATcp %s %s)", vcIP(x.IP), vcN(x.Port))
	case *net.UDPAddr:
		if x == nil {
			return "AOther"
		}
		return fmt.Sprintf("(AUdp %s %s)", vcIP(x.IP), vcN(x.Port))
	case *net.UnixAddr:
		if x == nil {
			return "AOther"
		}
		return fmt.Sprintf("(AUnix %s (unhex %s))", cBool(x.Net == "unixgram"), cHex([]byte(x.Name)))
	}
	return "AOther"
}
func vcOAddr(a net.Addr) string {
	if a == nil {
		return "None"
	}
	return "(Some " + vcAddr(a) + ")"
}
func vcNet(n *net.IPNet) string {
	ones, bits := n.Mask.Size()
	base := n.IP
	if bits == 32 {
		base = n.IP.To4()
	} else {
		base = n.IP.To16()
	}
	return fmt.Sprintf("(mkNet %s %s %s)", vcN(bits), vcBigN(base), vcN(ones))
}

// the reference reading of one allow entry, written here independently of Provision: CIDR
// notation, or a bare address standing for the single-host range (/32 for IPv4 - also when it
// is written IPv4-mapped -, /128 for IPv6)
func vC12AllowNet(entry string) *net.IPNet {
	if _, n, err := net.ParseCIDR(entry); err == nil {
		return n
	}
	a, err := netip.ParseAddr(entry)
	if err != nil {
		panic("bad allow entry " + entry)
	}
	a = a.Unmap()
	if a.Is4() {
		b := a.As4()
		return &net.IPNet{IP: net.IP(b[:]), Mask: net.CIDRMask(32, 32)}
	}
	b := a.As16()
	return &net.IPNet{IP: net.IP(b[:]), Mask: net.CIDRMask(128, 128)}
}
func vcNets(cidrs []string) string {
	ss := make([]string, len(cidrs))
	for i, c := range cidrs {
		ss[i] = vcNet(vC12AllowNet(c))
	}
	return "[" + strings.Join(ss, "; ") + "]"
}

// ---------------------------------------------------------------- headers written from the specification

type vHdr struct {
	ver      int
	local    bool   // v2 command LOCAL
	fam      string // "unknown" (v1 UNKNOWN / v2 UNSPEC), "inet", "inet6", "unix"
	proto    int    // v2 transport: 0 UNSPEC 1 STREAM 2 DGRAM (v1: always 1)
	src, dst net.IP
	sp, dp   int
	usrc     string
	udst     string
	tlvs     [][2][]byte // type (1 byte), value
}

func (h vHdr) name() string {
	s := fmt.Sprintf("v%d/%s", h.ver, h.fam)
	if h.ver == 2 {
		s += fmt.Sprintf("/p%d", h.proto)
		if h.local {
			s += "/local"
		}
		if len(h.tlvs) > 0 {
			s += "/tlv"
		}
	}
	return s
}

// the bytes the HAProxy specification prescribes for h
func (h vHdr) encode() []byte {
	if h.ver == 1 {
		switch h.fam {
		case "inet":
			return []byte(fmt.Sprintf("PROXY TCP4 %s %s %d %d\r\n", netip.AddrFrom4([4]byte(h.src.To4())), netip.AddrFrom4([4]byte(h.dst.To4())), h.sp, h.dp))
		case "inet6":
			return []byte(fmt.Sprintf("PROXY TCP6 %s %s %d %d\r\n", v6text(h.src), v6text(h.dst), h.sp, h.dp))
		}
		return []byte("PROXY UNKNOWN\r\n")
	}
	var body []byte
	famb := byte(0)
	switch h.fam {
	case "inet":
		famb = 1
		body = append(body, h.src.To4()...)
		body = append(body, h.dst.To4()...)
		body = binary.BigEndian.AppendUint16(body, uint16(h.sp))
		body = binary.BigEndian.AppendUint16(body, uint16(h.dp))
	case "inet6":
		famb = 2
		body = append(body, h.src.To16()...)
		body = append(body, h.dst.To16()...)
		body = binary.BigEndian.AppendUint16(body, uint16(h.sp))
		body = binary.BigEndian.AppendUint16(body, uint16(h.dp))
	case "unix":
		famb = 3
		a := make([]byte, 108)
		copy(a, h.usrc)
		b := make([]byte, 108)
		copy(b, h.udst)
		body = append(append(body, a...), b...)
	}
	for _, t := range h.tlvs {
		body = append(body, t[0][0])
		body = binary.BigEndian.AppendUint16(body, uint16(len(t[1])))
		body = append(body, t[1]...)
	}
	out := []byte{0x0D, 0x0A, 0x0D, 0x0A, 0x00, 0x0D, 0x0A, 0x51, 0x55, 0x49, 0x54, 0x0A}
	cmd := byte(0x21)
	if h.local {
		cmd = 0x20
	}
	proto := byte(h.proto)
	if h.fam == "unknown" {
		proto = 0
	}
	out = append(out, cmd, famb<<4|proto)
	out = binary.BigEndian.AppendUint16(out, uint16(len(body)))
	return append(out, body...)
}

// RFC 5952 text with pure hexadecimal groups (also for IPv4-mapped values)
func v6text(ip net.IP) string {
	a := netip.AddrFrom16([16]byte(ip.To16()))
	if a.Is4In6() {
		b := a.As16()
		return fmt.Sprintf("::ffff:%x:%x", uint16(b[12])<<8|uint16(b[13]), uint16(b[14])<<8|uint16(b[15]))
	}
	return a.String()
}

// the addresses h declares (nil: none - the real peer's stay in force)
func (h vHdr) declared() (src, dst net.Addr) {
	if h.local || h.fam == "unknown" {
		return nil, nil
	}
	switch h.fam {
	case "inet", "inet6":
		switch h.proto {
		case 1:
			return &net.TCPAddr{IP: h.src, Port: h.sp}, &net.TCPAddr{IP: h.dst, Port: h.dp}
		case 2:
			return &net.UDPAddr{IP: h.src, Port: h.sp}, &net.UDPAddr{IP: h.dst, Port: h.dp}
		}
	case "unix":
		switch h.proto {
		case 1:
			return &net.UnixAddr{Net: "unix", Name: h.usrc}, &net.UnixAddr{Net: "unix", Name: h.udst}
		case 2:
			return &net.UnixAddr{Net: "unixgram", Name: h.usrc}, &net.UnixAddr{Net: "unixgram", Name: h.udst}
		}
	}
	return nil, nil
}

func (h vHdr) coqSpec() string {
	if h.ver == 1 {
		switch h.fam {
		case "inet":
			return fmt.Sprintf("CSpecV1 (V1Tcp4 %s %s %s %s)", vcBigN(h.src.To4()), vcBigN(h.dst.To4()), vcN(h.sp), vcN(h.dp))
		case "inet6":
			return fmt.Sprintf("CSpecV1 (V1Tcp6 %s %s %s %s)", vcBigN(h.src.To16()), vcBigN(h.dst.To16()), vcN(h.sp), vcN(h.dp))
		}
		return "CSpecV1 V1Unknown"
	}
	blk := "V2Unspec"
	switch h.fam {
	case "inet":
		blk = fmt.Sprintf("(V2Inet %s %s %s %s)", vcBigN(h.src.To4()), vcBigN(h.dst.To4()), vcN(h.sp), vcN(h.dp))
	case "inet6":
		blk = fmt.Sprintf("(V2Inet6 %s %s %s %s)", vcBigN(h.src.To16()), vcBigN(h.dst.To16()), vcN(h.sp), vcN(h.dp))
	case "unix":
		blk = fmt.Sprintf("(V2Unix (unhex %s) (unhex %s))", cHex([]byte(h.usrc)), cHex([]byte(h.udst)))
	}
	ts := make([]string, len(h.tlvs))
	for i, t := range h.tlvs {
		ts[i] = fmt.Sprintf("(%s, unhex %s)", vcN(int(t[0][0])), cHex(t[1]))
	}
	return fmt.Sprintf("CSpecV2 (mkV2 %s %s %s [%s])", cBool(h.local), vcN(h.proto), blk, strings.Join(ts, "; "))
}

// the same header written by the library (nil when it has no way to say it)
func (h vHdr) libWrite() []byte {
	var b bytes.Buffer
	if h.ver == 1 {
		lh := proxyprotocol.HeaderV1{SrcIP: h.src, DestIP: h.dst, SrcPort: h.sp, DestPort: h.dp}
		if h.fam == "unknown" {
			lh = proxyprotocol.HeaderV1{}
		}
		if h.fam == "inet6" && (h.src.To4() != nil || h.dst.To4() != nil) {
			return nil // the library writes IPv4-mapped addresses as TCP4 or UNKNOWN
		}
		lh.WriteTo(&b)
		return b.Bytes()
	}
	if len(h.tlvs) > 0 {
		return nil
	}
	lh := proxyprotocol.HeaderV2{Command: proxyprotocol.CmdProxy}
	if h.local {
		if h.fam != "unknown" {
			return nil // LOCAL is always written without an address block
		}
		lh.Command = proxyprotocol.CmdLocal
	}
	if h.proto == 0 && h.fam != "unknown" {
		return nil
	}
	if h.fam == "inet6" && (h.src.To4() != nil || h.dst.To4() != nil) {
		return nil
	}
	lh.Src, lh.Dest = h.declared()
	lh.WriteTo(&b)
	return b.Bytes()
}

// ---------------------------------------------------------------- generators

var vC12V4 = []string{"1.2.3.4", "5.6.7.8", "0.0.0.0", "255.255.255.255", "10.1.2.3", "127.0.0.1", "192.168.0.11", "100.200.30.0", "9.99.199.255"}
var vC12V6 = []string{"2001:db8::1", "::1", "::", "fe80::1:0:0:2", "ffff:ffff:ffff:ffff:ffff:ffff:ffff:ffff", "1:0:0:2:0:0:0:3", "1:2:3:4:5:6:7:8",
	"0:0:1::", "2001:db8:0:1:0:0:0:0", "a:b:c:d:e:f:0:0", "0:a:0:0:b:0:0:c", "1::", "::2:0:0:0:1", "abcd:ef01:2345:6789:abcd:ef01:2345:6789"}
var vC12Ports = []int{0, 1, 9, 10, 80, 443, 999, 1000, 9999, 10000, 47111, 56324, 65535}

func vC12RandIP4(r *vRng) net.IP {
	if r.Intn(3) == 0 {
		return net.ParseIP(vC12V4[r.Intn(len(vC12V4))]).To4()
	}
	b := r.Bytes(4)
	if r.Intn(4) == 0 {
		b[r.Intn(4)] = 0
	}
	return net.IP(b)
}
func vC12RandIP6(r *vRng) net.IP {
	if r.Intn(3) == 0 {
		return net.ParseIP(vC12V6[r.Intn(len(vC12V6))])
	}
	b := r.Bytes(16)
	// zero runs of every shape
	for k := r.Intn(4); k > 0; k-- {
		s := r.Intn(8)
		l := 1 + r.Intn(8-s)
		for i := 2 * s; i < 2*(s+l); i++ {
			b[i] = 0
		}
	}
	if r.Intn(3) == 0 { // short groups
		for g := 0; g < 8; g++ {
			if r.Bool() {
				b[2*g] = 0
				if r.Bool() {
					b[2*g+1] &= 0x0f
				}
			}
		}
	}
	ip := net.IP(b)
	if ip.To4() != nil {
		b[0] = 0x20
	}
	return ip
}
func vC12RandPort(r *vRng) int {
	if r.Bool() {
		return vC12Ports[r.Intn(len(vC12Ports))]
	}
	return r.Intn(65536)
}
func vC12RandName(r *vRng) string {
	n := []int{0, 1, 5, 20, 107, 108}[r.Intn(6)]
	b := make([]byte, n)
	for i := range b {
		b[i] = byte(0x21 + r.Intn(0x5e))
	}
	if n > 2 && r.Bool() {
		b[r.Intn(n-1)] = 0 // an inner NUL stays
	}
	return string(b)
}

func vC12RandHdr(r *vRng) vHdr {
	h := vHdr{ver: 1 + r.Intn(2), proto: 1}
	h.sp, h.dp = vC12RandPort(r), vC12RandPort(r)
	switch r.Intn(7) {
	case 0:
		h.fam = "unknown"
	case 1, 2, 3:
		h.fam = "inet"
		h.src, h.dst = vC12RandIP4(r), vC12RandIP4(r)
	default:
		h.fam = "inet6"
		h.src, h.dst = vC12RandIP6(r), vC12RandIP6(r)
	}
	if h.ver == 2 {
		if r.Intn(6) == 0 {
			h.fam = "unix"
			h.usrc, h.udst = vC12RandName(r), vC12RandName(r)
		}
		h.proto = 1 + r.Intn(2)
		if r.Intn(8) == 0 {
			h.proto = 0
		}
		if r.Intn(6) == 0 {
			h.local = true
			if r.Bool() {
				h.fam = "unknown"
			}
		}
		if r.Intn(5) == 0 {
			for k := 1 + r.Intn(3); k > 0; k-- {
				h.tlvs = append(h.tlvs, [2][]byte{{byte([]int{1, 2, 3, 4, 5, 0x20, 0x30, 0xEA}[r.Intn(8)])}, r.Bytes([]int{0, 1, 4, 16, 60}[r.Intn(5)])})
			}
		}
	}
	return h
}

func vC12BaseHdrs() []vHdr {
	ip := func(s string) net.IP {
		p := net.ParseIP(s)
		if p4 := p.To4(); p4 != nil {
			return p4
		}
		return p
	}
	return []vHdr{
		{ver: 1, fam: "inet", proto: 1, src: ip("1.2.3.4"), dst: ip("5.6.7.8"), sp: 1000, dp: 2000},
		{ver: 1, fam: "inet", proto: 1, src: ip("192.168.0.1"), dst: ip("192.168.0.11"), sp: 56324, dp: 443},
		{ver: 1, fam: "inet", proto: 1, src: ip("255.255.255.255"), dst: ip("255.255.255.255"), sp: 65535, dp: 65535},
		{ver: 1, fam: "inet", proto: 1, src: ip("0.0.0.0"), dst: ip("0.0.0.0"), sp: 0, dp: 0},
		{ver: 1, fam: "inet6", proto: 1, src: ip("2001:db8::1"), dst: ip("::1"), sp: 40000, dp: 8443},
		{ver: 1, fam: "inet6", proto: 1, src: ip("ffff:ffff:ffff:ffff:ffff:ffff:ffff:ffff"), dst: ip("ffff:ffff:ffff:ffff:ffff:ffff:ffff:ffff"), sp: 65535, dp: 65535},
		{ver: 1, fam: "unknown", proto: 1},
		{ver: 2, fam: "inet", proto: 1, src: ip("127.0.0.1"), dst: ip("127.0.0.1"), sp: 47111, dp: 443},
		{ver: 2, fam: "inet", proto: 2, src: ip("10.1.2.3"), dst: ip("10.9.9.9"), sp: 53, dp: 5353},
		{ver: 2, fam: "inet6", proto: 1, src: ip("2001:db8::1"), dst: ip("fe80::1:0:0:2"), sp: 1, dp: 65535},
		{ver: 2, fam: "inet6", proto: 2, src: ip("::1"), dst: ip("::"), sp: 0, dp: 9},
		{ver: 2, fam: "unix", proto: 1, usrc: "/run/a.sock", udst: "/run/b.sock"},
		{ver: 2, fam: "unknown", proto: 0},
		{ver: 2, fam: "unknown", proto: 0, local: true},
		{ver: 2, fam: "inet", proto: 1, local: true, src: ip("1.2.3.4"), dst: ip("5.6.7.8"), sp: 1, dp: 2},
		{ver: 2, fam: "inet", proto: 0, src: ip("1.2.3.4"), dst: ip("5.6.7.8"), sp: 1, dp: 2},
		{ver: 2, fam: "inet", proto: 1, src: ip("1.2.3.4"), dst: ip("5.6.7.8"), sp: 1000, dp: 2000, tlvs: [][2][]byte{{{0x04}, {0, 0, 0, 0}}}},
		{ver: 2, fam: "unknown", proto: 0, local: true, tlvs: [][2][]byte{{{0x03}, {1, 2, 3, 4}}}},
	}
}

// hand-written inputs that probe the accepted language of the library (v1: Sscanf, net.ParseIP)
var vC12Corpus = []string{
	"PROXY TCP4 1.2.3.4 5.6.7.8 1000 2000\r\nrest",
	"PROXY TCP4 1.2.3.4 5.6.7.8 +1000 02000\r\n",
	"PROXY TCP4 1.2.3.4 5.6.7.8 -0 0\r\n",
	"PROXY TCP4 1.2.3.4 5.6.7.8 -1 0\r\n",
	"PROXY TCP4 1.2.3.4 5.6.7.8 1_0 0\r\n",
	"PROXY TCP4 1.2.3.4 5.6.7.8 65535 65536\r\n",
	"PROXY TCP4 1.2.3.4 5.6.7.8 99999999999999999999999 1\r\n",
	"PROXY TCP4 1.2.3.4 5.6.7.8 0000000000000000000000080 1\r\n",
	"PROXY  TCP4   1.2.3.4  5.6.7.8  1  2\r\n",
	"PROXY\tTCP4\t1.2.3.4\t5.6.7.8\t1\t2\r\n",
	"PROXYTCP4 1.2.3.4 5.6.7.8 1 2\r\n",
	"PROXY TCP4 1.2.3.4 5.6.7.8 1 2 \r\n",
	"PROXY TCP4 1.2.3.4 5.6.7.8 1 2 x\r\n",
	"PROXY TCP4 1.2.3.4 5.6.7.8 1 2x\r\n",
	"PROXY TCP4 1.2.3.4 5.6.7.8 1 2\n\r\nrest",
	"PROXY TCP4 1.2.3.4 5.6.7.8 1 2\r\r\nrest",
	"PROXY TCP4 1.2.3.4 5.6.7.8 1\r\n",
	"PROXY TCP4 1.2.3.4 5.6.7.8\r\n",
	"PROXY TCP4\r\n",
	"PROXY\r\n",
	"PROXY \r\n",
	"PROXY TCP4 1.2.3.4 5.6.7.8 1 2",
	"PROXY TCP4 1.2.3.4 5.6.7.8 1 2\r",
	"PROXY TCP4 1.2.3.4 5.6.7.8 1 2\n",
	"PROXY TCP5 1.2.3.4 5.6.7.8 1 2\r\n",
	"PROXY tcp4 1.2.3.4 5.6.7.8 1 2\r\n",
	"proxy TCP4 1.2.3.4 5.6.7.8 1 2\r\n",
	"PROXY TCP4 01.2.3.4 5.6.7.8 1 2\r\n",
	"PROXY TCP4 1.2.3.256 5.6.7.8 1 2\r\n",
	"PROXY TCP4 1.2.3 5.6.7.8 1 2\r\n",
	"PROXY TCP4 1.2.3.4.5 5.6.7.8 1 2\r\n",
	"PROXY TCP4 1.2.3. 5.6.7.8 1 2\r\n",
	"PROXY TCP4 1..3.4 5.6.7.8 1 2\r\n",
	"PROXY TCP4 1.2.3.4 5.6.7.0008 1 2\r\n",
	"PROXY TCP4 ::ffff:1.2.3.4 ::ffff:5.6.7.8 1 2\r\n",
	"PROXY TCP4 ::ffff:1.2.3.4 2001:db8::1 1 2\r\n",
	"PROXY TCP4 2001:db8::1 2001:db8::2 1 2\r\n",
	"PROXY TCP6 1.2.3.4 5.6.7.8 1 2\r\n",
	"PROXY TCP6 1.2.3.4 2001:db8::2 1 2\r\n",
	"PROXY TCP6 2001:db8::1 2001:db8::2 1 2\r\nrest",
	"PROXY TCP6 2001:DB8::1 2001:0db8:0000:0000:0000:0000:0000:0002 1 2\r\n",
	"PROXY TCP6 1:2:3:4:5:6:7:8 1:2:3:4:5:6:7:: 1 2\r\n",
	"PROXY TCP6 ::2:3:4:5:6:7:8 1::3:4:5:6:7:8 1 2\r\n",
	"PROXY TCP6 1:2:3:4:5:6:7:8:: ::1 1 2\r\n",
	"PROXY TCP6 1:2:3:4:5:6:7:8:9 ::1 1 2\r\n",
	"PROXY TCP6 1:2:3:4:5:6:7 ::1 1 2\r\n",
	"PROXY TCP6 1:::2 ::1 1 2\r\n",
	"PROXY TCP6 1::2::3 ::1 1 2\r\n",
	"PROXY TCP6 12345::1 ::1 1 2\r\n",
	"PROXY TCP6 fe80::1%eth0 ::1 1 2\r\n",
	"PROXY TCP6 ::1.2.3.4 1:2:3:4:5:6:1.2.3.4 1 2\r\n",
	"PROXY TCP6 1:2:3:4:5:1.2.3.4 ::1 1 2\r\n",
	"PROXY TCP6 1:2:3:4:5:6:7:1.2.3.4 ::1 1 2\r\n",
	"PROXY TCP6 ::ffff:1.2.3.04 ::1 1 2\r\n",
	"PROXY TCP6 : ::1 1 2\r\n",
	"PROXY TCP6 :: ::1 1 2\r\n",
	"PROXY TCP6 ::: ::1 1 2\r\n",
	"PROXY TCP6 1: ::1 1 2\r\n",
	"PROXY TCP6 :1 ::1 1 2\r\n",
	"PROXY TCP6 g::1 ::1 1 2\r\n",
	"PROXY TCP6 ::1. ::1 1 2\r\n",
	"PROXY UNKNOWN\r\nrest",
	"PROXY UNKNOWN 1.2.3.4 whatever it is\r\nrest",
	"PROXY UNKNOWNx\r\n",
	"PROXY UNKNOW\r\n",
	"PROXY UNKNOWN\n\r\n",
	"PROXY UNKNOWN" + strings.Repeat("a", 93) + "\r\nrest",
	"PROXY UNKNOWN" + strings.Repeat("a", 94) + "\r\nrest",
	"PROXY UNKNOWN" + strings.Repeat("a", 200) + "\r\nrest",
	"PROXY TCP4 1.2.3.4 5.6.7.8 1 2" + strings.Repeat(" ", 76) + "\r\nrest",
	"PROXY TCP4 1.2.3.4 5.6.7.8 1 2" + strings.Repeat(" ", 77) + "\r\nrest",
	"P", "PR", "", "X", "\r", "\r\n", "\r\n\r\n\x00\r\nQUIT\n", "QROXY TCP4 1.2.3.4 5.6.7.8 1 2\r\n",
}

// ---------------------------------------------------------------- the engine

type vC12 struct {
	out  *vOut
	rng  *vRng
	seen map[string]bool
}

func (e *vC12) emit(coq, cls string, nt bool, sample any) {
	if e.seen[coq] {
		return
	}
	e.seen[coq] = true
	e.out.Case(coq, cls, nt, sample)
}

// --- 1. codec

func vC12IsShort(err error) bool {
	if err == nil {
		return false
	}
	s := err.Error()
	return s == io.EOF.Error() || s == io.ErrUnexpectedEOF.Error()
}

func (e *vC12) parseCase(in []byte, cls string) {
	r := bufio.NewReader(bytes.NewReader(in))
	var h proxyprotocol.Header
	err := vC12Guard("proxyprotocol.Parse", map[string]any{"input": fmt.Sprintf("%q", in)}, func() (perr error) {
		h, perr = proxyprotocol.Parse(r)
		return perr
	})
	obs := "OBad"
	if err != nil {
		if vC12IsShort(err) {
			obs = "OShort"
		}
	} else {
		rest, _ := io.ReadAll(r)
		cmd := 1
		if h2, ok := h.(*proxyprotocol.HeaderV2); ok {
			cmd = int(h2.Command)
		}
		obs = fmt.Sprintf("(OOk %s %s %s %s %s)", vcN(h.Version()), vcN(cmd), vcOAddr(h.SrcAddr()), vcOAddr(h.DestAddr()), cHex(rest))
	}
	e.emit(fmt.Sprintf("CParse %s %s", cHex(in), obs), cls, err == nil, nil)
}

func (e *vC12) specCases(h vHdr) {
	enc := h.encode()
	e.emit(fmt.Sprintf("%s %s", h.coqSpec(), cHex(enc)), "spec/"+h.name(), true, nil)
	if lw := h.libWrite(); lw != nil {
		e.emit(fmt.Sprintf("%s %s", h.coqSpec(), cHex(lw)), "spec-lib/"+h.name(), true, nil)
		if !bytes.Equal(lw, enc) {
			e.out.Fail("C12:send:header-malformed", "HeaderV1/V2.WriteTo does not write the bytes the specification prescribes for this header",
				map[string]any{"header": h.name(), "library": fmt.Sprintf("%q", lw), "specification": fmt.Sprintf("%q", enc)})
		}
	}
}

func (e *vC12) writeCases() {
	r := e.rng
	ips := func() net.IP {
		switch r.Intn(6) {
		case 0:
			return nil
		case 1, 2:
			return vC12RandIP4(r)
		case 3:
			return vC12RandIP4(r).To16()
		default:
			return vC12RandIP6(r)
		}
	}
	port := func() int {
		if r.Intn(8) == 0 {
			return 65536 + r.Intn(70000)
		}
		return vC12RandPort(r)
	}
	for i := 0; i < 60; i++ {
		h := proxyprotocol.HeaderV1{SrcIP: ips(), DestIP: ips(), SrcPort: port(), DestPort: port()}
		if r.Intn(3) == 0 { // same family
			h.DestIP = vC12RandIP4(r)
			h.SrcIP = vC12RandIP4(r).To16()
		}
		var b bytes.Buffer
		h.WriteTo(&b)
		e.emit(fmt.Sprintf("CWriteV1 %s %s %s %s %s", vcIP(h.SrcIP), vcN(h.SrcPort), vcIP(h.DestIP), vcN(h.DestPort), cHex(b.Bytes())), "write/v1", true, nil)
	}
	mk := func(kind int) net.Addr {
		switch kind {
		case 0:
			return nil
		case 1:
			return &net.TCPAddr{IP: ips(), Port: port()}
		case 2:
			return &net.UDPAddr{IP: ips(), Port: port()}
		case 3:
			return &net.UnixAddr{Net: []string{"unix", "unixgram"}[r.Intn(2)], Name: vC12RandName(r) + []string{"", "xx"}[r.Intn(2)]}
		}
		return vC12OtherAddr{}
	}
	for i := 0; i < 90; i++ {
		k := r.Intn(5)
		k2 := k
		if r.Intn(4) == 0 {
			k2 = r.Intn(5)
		}
		h := proxyprotocol.HeaderV2{Command: proxyprotocol.Cmd([]int{1, 1, 1, 0, 2}[r.Intn(5)]), Src: mk(k), Dest: mk(k2)}
		if k == 1 && k2 == 1 && r.Bool() { // same family
			h.Src = &net.TCPAddr{IP: vC12RandIP6(r), Port: port()}
			h.Dest = &net.TCPAddr{IP: vC12RandIP6(r), Port: port()}
		}
		var b bytes.Buffer
		_, err := h.WriteTo(&b)
		obs := "None"
		if err == nil {
			obs = "(Some " + cHex(b.Bytes()) + ")"
		}
		e.emit(fmt.Sprintf("CWriteV2 %s %s %s %s", vcN(int(h.Command)), vcOAddr(h.Src), vcOAddr(h.Dest), obs), "write/v2", true, nil)
	}
}

type vC12OtherAddr struct{}

func (vC12OtherAddr) Network() string { return "other" }
func (vC12OtherAddr) String() string  { return "other" }

var vC12Mut = []byte{' ', '\t', '\r', '\n', '0', '9', '1', 'a', 'F', ':', '.', '_', '+', '-', 'x', '%', 0x00, 0x0b, 0x0c, 'P', 'U', '6'}

func (e *vC12) mutate(in []byte) []byte {
	r := e.rng
	b := append([]byte(nil), in...)
	if len(b) == 0 {
		return b
	}
	for k := 1 + r.Intn(2); k > 0; k-- {
		p := r.Intn(len(b))
		switch r.Intn(3) {
		case 0:
			b[p] = vC12Mut[r.Intn(len(vC12Mut))]
		case 1:
			b = append(b[:p], append([]byte{vC12Mut[r.Intn(len(vC12Mut))]}, b[p:]...)...)
		default:
			b = append(b[:p], b[p+1:]...)
			if len(b) == 0 {
				return b
			}
		}
	}
	return b
}

func (e *vC12) mutateV2(in []byte) []byte {
	r := e.rng
	b := append([]byte(nil), in...)
	switch r.Intn(6) {
	case 0: // signature
		b[r.Intn(12)] ^= byte(1 << r.Intn(8))
	case 1: // version / command
		b[12] = byte(r.Intn(256))
	case 2: // family / transport
		b[13] = byte(r.Intn(4))<<4 | byte(r.Intn(4))
		if r.Intn(4) == 0 {
			b[13] = byte(r.Intn(256))
		}
	case 3: // length
		l := int(binary.BigEndian.Uint16(b[14:])) + []int{-1, 1, 4, 12, 24, -12, 180}[r.Intn(7)]
		if l < 0 {
			l = 0
		}
		binary.BigEndian.PutUint16(b[14:], uint16(l))
	case 4: // family with the length that belongs to it, and enough bytes
		f := r.Intn(4)
		b[13] = byte(f)<<4 | byte(r.Intn(3))
		b[12] = 0x20 | byte(r.Intn(2))
		l := []int{0, 12, 36, 216}[f]
		binary.BigEndian.PutUint16(b[14:], uint16(l))
		b = append(b[:16], r.Bytes(l+r.Intn(4))...)
	default:
		b = b[:r.Intn(len(b)+1)]
	}
	return b
}

// --- 2. allow list

var vC12Cidrs = []string{"10.0.0.0/8", "10.1.0.0/16", "10.1.2.0/24", "10.1.2.3/32", "0.0.0.0/0", "192.168.0.0/16", "127.0.0.0/8", "172.16.0.0/12",
	"::1/128", "2001:db8::/32", "2001:db8:1::/48", "::/0", "::ffff:10.0.0.0/104", "fe80::/10", "10.1.2.77/24", "2001:db8:1:2::9/64", "::ffff:0:0/96", "0.0.0.0/1", "128.0.0.0/1",
	// bare addresses: single-host ranges
	"10.0.0.5", "10.1.2.3", "192.168.5.5", "::1", "2001:db8:1::5", "::ffff:10.9.9.9", "10.0.0.5", "fe80::1"}
var vC12Peers = []string{"10.1.2.3", "10.1.2.4", "10.1.3.4", "10.2.0.1", "11.0.0.1", "127.0.0.1", "192.168.5.5", "172.31.255.255", "172.32.0.0", "::1", "::2",
	"2001:db8:1::5", "2001:db8:2::5", "2001:db9::", "fe80::1", "febf::1", "fec0::1", "::ffff:10.9.9.9", "::ffff:11.9.9.9", "8.8.8.8", "200.1.1.1", "0.0.0.0", "::",
	"10.0.0.5", "10.0.0.4", "10.0.0.6", "10.9.9.9", "2001:db8:1::4", "172.16.3.4",
	// zoned link-local (and other) peers
	"fe80::1%eth0", "fe80::abcd:1%lo", "febf::1%eth1", "fec0::1%eth0", "::1%lo", "2001:db8:1::5%eth0"}

func vC12RandAllow(r *vRng) []string {
	n := []int{0, 1, 1, 2, 3, 4, 6}[r.Intn(7)]
	var a []string
	for i := 0; i < n; i++ {
		a = append(a, vC12Cidrs[r.Intn(len(vC12Cidrs))])
		if r.Intn(4) == 0 { // duplicates
			a = append(a, a[r.Intn(len(a))])
		}
	}
	return a
}

// s may carry an IPv6 zone ("fe80::1%eth0"): it ends up in the Zone field of the TCP/UDP
// address, as the kernel reports link-local peers. Allow-list containment is a statement about
// the IP: the zone is ignored by the reference predicate, by the projection to the model (vcIP)
// and by the model (contains).
func vC12PeerAddr(r *vRng, s string, kind int) net.Addr {
	zone := ""
	if i := strings.IndexByte(s, '%'); i >= 0 {
		s, zone = s[:i], s[i+1:]
	}
	ip := net.ParseIP(s)
	if p4 := ip.To4(); p4 != nil && !strings.Contains(s, ":") {
		ip = p4
	}
	switch kind {
	case 1:
		return &net.UDPAddr{IP: ip, Port: 1 + r.Intn(65535), Zone: zone}
	case 2:
		return &net.UnixAddr{Net: "unix", Name: "/peer"}
	}
	return &net.TCPAddr{IP: ip, Port: 1 + r.Intn(65535), Zone: zone}
}

// the property text's notion: some configured CIDR contains the peer (an IPv4-mapped IPv6
// value and the IPv4 address it maps are the same address); no list: everybody
func vC12Allowed(allow []string, remote net.Addr) bool {
	if len(allow) == 0 {
		return true
	}
	var ip net.IP
	switch x := remote.(type) {
	case *net.TCPAddr:
		ip = x.IP
	case *net.UDPAddr:
		ip = x.IP
	default:
		return false
	}
	a, ok := netip.AddrFromSlice(ip)
	if !ok {
		return false
	}
	a = a.Unmap()
	for _, c := range allow {
		rn := vC12AllowNet(c)
		ones, _ := rn.Mask.Size()
		ra, _ := netip.AddrFromSlice(rn.IP)
		p := netip.PrefixFrom(ra, ones)
		pa := p.Addr()
		bits := p.Bits()
		if pa.Is4In6() && bits >= 96 {
			pa, bits = pa.Unmap(), bits-96
		}
		if netip.PrefixFrom(pa, bits).Contains(a) {
			return true
		}
	}
	return false
}

func vC12Provision(allow []string, timeout time.Duration) (*Handler, func()) {
	ctx, cancel := caddy.NewContext(caddy.Context{Context: context.Background()})
	h := &Handler{Allow: append([]string(nil), allow...), Timeout: caddy.Duration(timeout)}
	if err := h.Provision(ctx); err != nil {
		panic(err)
	}
	return h, cancel
}

func (e *vC12) allowCases(allow []string, timeout time.Duration) {
	h, cancel := vC12Provision(allow, timeout)
	defer cancel()
	rs := make([]string, len(h.rules))
	for i, r := range h.rules {
		rs[i] = vcNet(r.Subnet)
	}
	e.emit(fmt.Sprintf("CTidy %s %s [%s]", cZ(int64(timeout)), vcNets(allow), strings.Join(rs, "; ")), fmt.Sprintf("tidy/n%d", len(allow)), len(allow) > 1, nil)
	// the rule set must be exactly the configured set
	want := map[string]bool{}
	for _, c := range allow {
		want[vC12AllowNet(c).String()] = true
	}
	got := map[string]bool{}
	for _, r := range h.rules {
		got[r.Subnet.String()] = true
	}
	for k := range want {
		if !got[k] {
			e.out.Fail("C12:allow:rule-lost", "tidyRules dropped a configured subnet", map[string]any{"allow": allow, "lost": k})
		}
	}
	for k := range got {
		if !want[k] {
			e.out.Fail("C12:allow:rule-invented", "tidyRules produced a subnet that was not configured", map[string]any{"allow": allow, "extra": k})
		}
	}
	for _, ps := range vC12Peers {
		for kind := 0; kind < 3; kind++ {
			if kind > 0 && e.rng.Intn(4) != 0 {
				continue
			}
			remote := vC12PeerAddr(e.rng, ps, kind)
			in, out := net.Pipe()
			cx := layer4.WrapConnection(&vC12Conn{Conn: in, remote: remote, local: &net.TCPAddr{IP: net.IPv4(127, 0, 0, 1), Port: 443}}, []byte{}, zap.NewNop())
			var c *proxyprotocol.Conn
			_ = vC12Guard("Handler.newConn", map[string]any{"allow": allow, "peer": fmt.Sprint(remote)}, func() error { c = h.newConn(cx); return nil })
			in.Close()
			out.Close()
			parsed := c != nil
			obs := "false"
			if parsed {
				obs = "true"
			}
			e.emit(fmt.Sprintf("CNewConn %s %s %s %s", cZ(int64(timeout)), vcNets(allow), vcAddr(remote), obs), "newconn", len(allow) > 0, nil)
			want := vC12Allowed(allow, remote)
			in2 := map[string]any{"allow": allow, "peer": remote.String(), "network": remote.Network()}
			if parsed && !want {
				e.out.Fail("C12:allow:parsed-outside-allow-list", "newConn wraps a peer that no configured CIDR contains", in2)
			}
			if !parsed && want {
				e.out.Fail("C12:allow:not-parsed-inside-allow-list", "newConn returns nil for a peer inside a configured CIDR", in2)
			}
		}
	}
}

// --- 3. end to end

type vC12Conn struct {
	net.Conn
	remote, local net.Addr
}

func (c *vC12Conn) RemoteAddr() net.Addr { return c.remote }
func (c *vC12Conn) LocalAddr() net.Addr  { return c.local }

type vC12Obs struct {
	kind                  string // "pass", "next", "error", "nonext"
	remote, local         net.Addr
	replRemote, replLocal net.Addr
	replOK                bool
	data                  []byte
	mRemote, mLocal       string // verdict of remote_ip / local_ip matchers on the declared address: "yes" "no" "err"
	err                   string
}

func (o vC12Obs) coq() string {
	switch o.kind {
	case "error", "nonext":
		return "HOError"
	}
	k := "HONext"
	if o.kind == "pass" {
		k = "HOPass"
	}
	return fmt.Sprintf("(%s %s %s %s %s %s)", k, vcAddr(o.remote), vcAddr(o.local), vcAddr(o.replRemote), vcAddr(o.replLocal), cHex(o.data))
}

func (o vC12Obs) key() string {
	s := func(a net.Addr) string {
		if a == nil {
			return "<nil>"
		}
		return a.Network() + "/" + a.String()
	}
	return o.kind + "|" + s(o.remote) + "|" + s(o.local) + "|" + s(o.replRemote) + "|" + s(o.replLocal) + "|" + string(o.data) + "|" + o.mRemote + "|" + o.mLocal
}

func vC12IPMatch(m interface {
	Provision(caddy.Context) error
	Match(*layer4.Connection) (bool, error)
}, c *layer4.Connection) string {
	if err := m.Provision(caddy.Context{}); err != nil {
		return "provision-err"
	}
	ok, err := m.Match(c)
	if err != nil {
		return "err"
	}
	if ok {
		return "yes"
	}
	return "no"
}

func vC12HostOf(a net.Addr) string {
	switch x := a.(type) {
	case *net.TCPAddr:
		if len(x.IP) > 0 && x.Zone == "" { // netip prefixes never contain a zoned address: matcher not consulted
			return x.IP.String()
		}
	case *net.UDPAddr:
		if len(x.IP) > 0 && x.Zone == "" {
			return x.IP.String()
		}
	}
	return ""
}

// run Handler.Handle once: the stream is stream = prefetched ++ segs...
func vC12Run(h *Handler, remote, local net.Addr, prefetched []byte, segs [][]byte, wantRemote, wantLocal net.Addr) vC12Obs {
	in, out := net.Pipe()
	cx := layer4.WrapConnection(&vC12Conn{Conn: in, remote: remote, local: local}, append([]byte{}, prefetched...), zap.NewNop())
	done := make(chan struct{})
	go func() {
		defer close(done)
		for _, s := range segs {
			if len(s) == 0 {
				continue
			}
			if _, err := out.Write(s); err != nil {
				break
			}
		}
		out.Close()
	}()
	o := vC12Obs{kind: "nonext"}
	err := vC12Guard("Handler.Handle", map[string]any{"peer": fmt.Sprint(remote), "prefetched": fmt.Sprintf("%q", prefetched), "segments": fmt.Sprintf("%q", segs)}, func() error {
		return h.Handle(cx, layer4.HandlerFunc(func(c *layer4.Connection) error {
			o.kind = "next"
			if c.GetVar("l4.proxy_protocol.conn") == nil {
				o.kind = "pass"
			}
			o.remote, o.local = c.RemoteAddr(), c.LocalAddr()
			if repl, ok := c.Context.Value(layer4.ReplacerCtxKey).(*caddy.Replacer); ok {
				rv, ok1 := repl.Get("l4.conn.remote_addr")
				lv, ok2 := repl.Get("l4.conn.local_addr")
				o.replRemote, _ = rv.(net.Addr)
				o.replLocal, _ = lv.(net.Addr)
				o.replOK = ok1 && ok2 && o.replRemote != nil && o.replLocal != nil
			}
			if hst := vC12HostOf(wantRemote); hst != "" {
				o.mRemote = vC12IPMatch(&layer4.MatchRemoteIP{Ranges: []string{hst}}, c)
			}
			if hst := vC12HostOf(wantLocal); hst != "" {
				o.mLocal = vC12IPMatch(&layer4.MatchLocalIP{Ranges: []string{hst}}, c)
			}
			b, _ := io.ReadAll(c)
			o.data = b
			return nil
		}))
	})
	in.Close()
	<-done
	if err != nil {
		o.kind = "error"
		o.err = err.Error()
	}
	return o
}

// vC12Guard runs f under recover(): no remote input may make the handler, its allow-list lookup
// or the library's header parser panic. A panic is reported for C12 and, under its own key, for
// the no-panic property C04 (./check C04 runs this engine through vlib/engines/c04_pp_handler.py).
var vC12PanicOut *vOut

func vC12Guard(where string, input map[string]any, f func() error) (err error) {
	defer func() {
		if r := recover(); r != nil {
			err = fmt.Errorf("panic in %s: %v", where, r)
			if vC12PanicOut != nil {
				input["where"], input["panic"] = where, fmt.Sprint(r)
				vC12PanicOut.Fail("C12:handler:panic", "the proxy_protocol handler panicked on remote input: "+fmt.Sprint(r), input)
				vC12PanicOut.Fail("C04:proxy_protocol-handler:panic", "the proxy_protocol handler ("+where+") panicked on remote input: "+fmt.Sprint(r), input)
			}
		}
	}()
	return f()
}

func vC12SameAddr(a, b net.Addr) bool {
	if a == nil || b == nil {
		return a == nil && b == nil
	}
	return a.Network() == b.Network() && a.String() == b.String()
}

type vC12Case struct {
	allow    []string
	timeout  time.Duration
	remote   net.Addr
	local    net.Addr
	hdr      *vHdr  // nil: raw bytes that are not a well-formed header
	hbytes   []byte // header bytes on the wire
	payload  []byte
	splitAll bool
}

func (e *vC12) e2e(c vC12Case) {
	h, cancel := vC12Provision(c.allow, c.timeout)
	defer cancel()
	stream := append(append([]byte{}, c.hbytes...), c.payload...)
	allowed := vC12Allowed(c.allow, c.remote)

	// what the property text prescribes
	wantRemote, wantLocal := c.remote, c.local
	wantData := stream
	valid := c.hdr != nil
	if allowed && valid {
		if s, d := c.hdr.declared(); s != nil {
			wantRemote, wantLocal = s, d
		}
		wantData = c.payload
	}

	// segmentations
	type seg struct {
		name string
		pre  []byte
		segs [][]byte
	}
	segs := []seg{{"whole", nil, [][]byte{stream}}, {"hdr|payload", nil, [][]byte{c.hbytes, c.payload}}}
	hl := len(c.hbytes)
	if c.splitAll {
		for k := 1; k < hl; k++ {
			segs = append(segs, seg{fmt.Sprintf("split@%d", k), nil, [][]byte{stream[:k], stream[k:]}})
		}
		bb := make([][]byte, 0, len(stream))
		for i := 0; i < hl && i < len(stream); i++ {
			bb = append(bb, stream[i:i+1])
		}
		bb = append(bb, stream[hl:])
		segs = append(segs, seg{"bytewise-header", nil, bb})
		for _, k := range []int{1, 12, 13, 16, hl - 1, hl, hl + 1, hl + 7, len(stream)} {
			if k >= 0 && k <= len(stream) {
				segs = append(segs, seg{fmt.Sprintf("prefetched%d", k), stream[:k], [][]byte{stream[k:]}})
				if k+3 < len(stream) {
					segs = append(segs, seg{fmt.Sprintf("prefetched%d+split", k), stream[:k], [][]byte{stream[k : k+3], stream[k+3:]}})
				}
			}
		}
	} else {
		r := e.rng
		for j := 0; j < 3 && len(stream) > 1; j++ {
			k := 1 + r.Intn(len(stream)-1)
			segs = append(segs, seg{fmt.Sprintf("split@%d", k), nil, [][]byte{stream[:k], stream[k:]}})
			k2 := r.Intn(len(stream) + 1)
			segs = append(segs, seg{fmt.Sprintf("prefetched%d", k2), stream[:k2], [][]byte{stream[k2:]}})
		}
	}

	var first vC12Obs
	for i, sg := range segs {
		o := vC12Run(h, c.remote, c.local, sg.pre, sg.segs, wantRemote, wantLocal)
		in := map[string]any{"allow": c.allow, "peer": c.remote.String(), "local": c.local.String(), "header": fmt.Sprintf("%q", c.hbytes),
			"payload_len": len(c.payload), "segmentation": sg.name, "handler_error": o.err}
		if c.hdr != nil {
			in["header_kind"] = c.hdr.name()
		}
		if i == 0 {
			first = o
			cls := "e2e/raw"
			if c.hdr != nil {
				cls = "e2e/" + c.hdr.name()
			}
			if !allowed {
				cls += "/outside"
			}
			e.emit(fmt.Sprintf("CHandle %s %s %s %s %s %s", cZ(int64(c.timeout)), vcNets(c.allow), vcAddr(c.remote), vcAddr(c.local), cHex(stream), o.coq()),
				cls, valid && len(c.allow) > 0, nil)
		} else if o.key() != first.key() {
			e.out.Fail("C12:strip:segmentation-dependent", "the handler's outcome depends on how the same byte stream was segmented",
				map[string]any{"input": in, "first": first.kind, "this": o.kind, "first_len": len(first.data), "this_len": len(o.data)})
		}
		e.oracle(c, o, allowed, valid, wantRemote, wantLocal, wantData, stream, in)
	}
	e.out.Stat("e2e_runs", len(segs))
}

func (e *vC12) oracle(c vC12Case, o vC12Obs, allowed, valid bool, wantRemote, wantLocal net.Addr, wantData, stream []byte, in map[string]any) {
	if !allowed {
		// peers outside the allow list are passed through untouched
		switch {
		case o.kind == "next":
			e.out.Fail("C12:allow:parsed-outside-allow-list", "a peer outside the allow list had its stream PROXY-parsed", in)
		case o.kind != "pass":
			e.out.Fail("C12:allow:passthrough-modified", "a peer outside the allow list was not handed to the next handler", in)
		default:
			if !bytes.Equal(o.data, stream) || !vC12SameAddr(o.remote, c.remote) || !vC12SameAddr(o.local, c.local) ||
				!vC12SameAddr(o.replRemote, c.remote) || !vC12SameAddr(o.replLocal, c.local) {
				e.out.Fail("C12:allow:passthrough-modified", "a peer outside the allow list saw its stream, addresses or placeholders changed", in)
			}
		}
		return
	}
	if o.kind == "pass" {
		e.out.Fail("C12:allow:not-parsed-inside-allow-list", "a peer inside the allow list was passed through without PROXY parsing", in)
		return
	}
	if !valid {
		return // premise of the property (an accepted well-formed header) does not hold: correspondence only
	}
	if o.kind != "next" {
		if len(c.hdr.tlvs) > 0 || (c.hdr.local && false) {
			return // the library rejects TLVs (lemma v2_tlv_rejected): the header is not accepted, nothing is passed on
		}
		e.out.Fail("C12:strip:header-rejected", "a well-formed header without TLVs from an allowed peer was not accepted", in)
		return
	}
	if !bytes.Equal(o.data, wantData) {
		in["got_len"] = len(o.data)
		e.out.Fail("C12:strip:payload-differs", "the bytes after the header differ from the payload the client sent", in)
	}
	declared, _ := c.hdr.declared()
	unknownV1 := c.hdr.ver == 1 && c.hdr.fam == "unknown"
	if !vC12SameAddr(o.remote, wantRemote) {
		in["got_remote"], in["want_remote"] = o.remote.String(), wantRemote.String()
		if unknownV1 && declared == nil {
			e.out.Fail("C12:addr:v1-unknown-remote-not-real-peer", "after PROXY UNKNOWN RemoteAddr() is neither declared by the header nor the real peer", in)
		} else {
			e.out.Fail("C12:addr:remote-mismatch", "RemoteAddr() after the handler differs from the source address the header declares", in)
		}
	}
	if !vC12SameAddr(o.local, wantLocal) {
		in["got_local"], in["want_local"] = o.local.String(), wantLocal.String()
		if unknownV1 && declared == nil {
			e.out.Fail("C12:addr:v1-unknown-local-not-real-peer", "after PROXY UNKNOWN LocalAddr() is neither declared by the header nor the real local address", in)
		} else {
			e.out.Fail("C12:addr:local-mismatch", "LocalAddr() after the handler differs from the destination address the header declares", in)
		}
	}
	// placeholders follow the addresses the connection now reports
	if !o.replOK || !vC12SameAddr(o.replRemote, o.remote) {
		in["placeholder"], in["remote_addr"] = fmt.Sprint(o.replRemote), o.remote.String()
		e.out.Fail("C12:placeholder:remote_addr-stale", "{l4.conn.remote_addr} does not hold the address the connection reports after the PROXY header", in)
	}
	if !o.replOK || !vC12SameAddr(o.replLocal, o.local) {
		in["placeholder"], in["local_addr"] = fmt.Sprint(o.replLocal), o.local.String()
		e.out.Fail("C12:placeholder:local_addr-stale", "{l4.conn.local_addr} does not hold the address the connection reports after the PROXY header", in)
	}
	if o.mRemote != "" && o.mRemote != "yes" && vC12SameAddr(o.remote, wantRemote) {
		in["matcher"] = o.mRemote
		e.out.Fail("C12:matcher:remote_ip-mismatch", "the remote_ip matcher does not match the declared source address", in)
	}
	if o.mLocal != "" && o.mLocal != "yes" && vC12SameAddr(o.local, wantLocal) {
		in["matcher"] = o.mLocal
		e.out.Fail("C12:matcher:local_ip-mismatch", "the local_ip matcher does not match the declared destination address", in)
	}
}

// ---------------------------------------------------------------- through a compiled route list
//
//	route 0: match proxy_protocol                  -> handle proxy_protocol (allow ...)   not terminal
//	route 1: match remote_ip|local_ip <declared>   -> recorder "by-address"               terminal
//	route 2: match tls (a byte matcher, 5+ bytes)  -> recorder "tls"                      terminal (optional)
//	fallback                                       -> recorder "fallback"
//
// The address matcher of route 1 is placed AFTER the handler: it must see the address the header
// declares, whatever the segmentation (in particular when the first segment is shorter than the
// byte matchers need, so that route 1 was already evaluated once against the real peer address).
// Only headers that declare addresses different from the real ones are used, and no route matches
// the real addresses: the router would rightly take such a route before the header is complete.

type vC12Rec struct {
	Tag string `json:"tag,omitempty"`
}

type vC12RouteObs struct {
	tag            string
	obs            vC12Obs
	n              int
	want, wantPass int // bytes the recorder reads after an accepted header / on an untouched stream
}

var (
	vC12RecMu   sync.Mutex
	vC12RecCur  *vC12RouteObs
	vC12RecOnce sync.Once
)

func (vC12Rec) CaddyModule() caddy.ModuleInfo {
	return caddy.ModuleInfo{ID: "layer4.handlers.verif_c12_record", New: func() caddy.Module { return new(vC12Rec) }}
}

func vC12Record(tag string, c *layer4.Connection) {
	o := vC12Obs{kind: "next"}
	if c.GetVar("l4.proxy_protocol.conn") == nil {
		o.kind = "pass"
	}
	o.remote, o.local = c.RemoteAddr(), c.LocalAddr()
	if repl, ok := c.Context.Value(layer4.ReplacerCtxKey).(*caddy.Replacer); ok {
		rv, ok1 := repl.Get("l4.conn.remote_addr")
		lv, ok2 := repl.Get("l4.conn.local_addr")
		o.replRemote, _ = rv.(net.Addr)
		o.replLocal, _ = lv.(net.Addr)
		o.replOK = ok1 && ok2 && o.replRemote != nil && o.replLocal != nil
	}
	// the client keeps its side open until the route list returns (net.Pipe refuses deadlines once
	// the peer has closed, which the router sets while matching): read what is expected, bounded in time
	vC12RecMu.Lock()
	want := 0
	if vC12RecCur != nil {
		want = vC12RecCur.want
		if o.kind == "pass" {
			want = vC12RecCur.wantPass
		}
	}
	vC12RecMu.Unlock()
	_ = c.SetReadDeadline(time.Now().Add(2 * time.Second))
	buf := make([]byte, want)
	n, _ := io.ReadFull(c, buf)
	o.data = buf[:n]
	vC12RecMu.Lock()
	if vC12RecCur != nil {
		vC12RecCur.n++
		if vC12RecCur.n == 1 {
			vC12RecCur.tag, vC12RecCur.obs = tag, o
		}
	}
	vC12RecMu.Unlock()
}

func (r *vC12Rec) Handle(c *layer4.Connection, _ layer4.Handler) error {
	vC12Record(r.Tag, c)
	return nil
}

func (e *vC12) routeCases(base []vHdr) {
	vC12RecOnce.Do(func() { caddy.RegisterModule(vC12Rec{}) })
	ctx, cancel := caddy.NewContext(caddy.Context{Context: context.Background()})
	defer cancel()
	js := func(v any) json.RawMessage {
		b, err := json.Marshal(v)
		if err != nil {
			panic(err)
		}
		return b
	}
	real := &net.TCPAddr{IP: net.IPv4(10, 1, 1, 1).To4(), Port: 40000}
	loc := &net.TCPAddr{IP: net.IPv4(10, 1, 1, 2).To4(), Port: 9000}
	payload := []byte("hello after the header")
	runs, variant := 0, 0
	for _, h := range base {
		src, dst := h.declared()
		if src == nil || vC12HostOf(src) == "" || len(h.tlvs) > 0 {
			continue // headers that declare nothing (or no IP addresses), and TLV headers the library rejects
		}
		hbytes := h.encode()
		stream := append(append([]byte{}, hbytes...), payload...)
		for _, allow := range [][]string{nil, {"10.0.0.0/8"}, {"192.0.2.0/24"}} {
			variant++
			byLocal := variant%2 == 0
			withTLS := variant%3 != 0
			allowed := vC12Allowed(allow, real)
			matcher, rng := "remote_ip", vC12HostOf(src)
			if byLocal {
				matcher, rng = "local_ip", vC12HostOf(dst)
			}
			hj := map[string]any{"handler": "proxy_protocol"}
			if allow != nil {
				hj["allow"] = allow
			}
			routes := layer4.RouteList{
				&layer4.Route{MatcherSetsRaw: caddyhttp.RawMatcherSets{caddy.ModuleMap{"proxy_protocol": js(map[string]any{})}}, HandlersRaw: []json.RawMessage{js(hj)}},
				&layer4.Route{MatcherSetsRaw: caddyhttp.RawMatcherSets{caddy.ModuleMap{matcher: js(map[string]any{"ranges": []string{rng}})}},
					HandlersRaw: []json.RawMessage{js(map[string]any{"handler": "verif_c12_record", "tag": "by-address"})}},
			}
			if withTLS {
				routes = append(routes, &layer4.Route{MatcherSetsRaw: caddyhttp.RawMatcherSets{caddy.ModuleMap{"tls": js(map[string]any{})}},
					HandlersRaw: []json.RawMessage{js(map[string]any{"handler": "verif_c12_record", "tag": "tls"})}})
			}
			if err := routes.Provision(ctx); err != nil {
				panic(err)
			}
			compiled := routes.Compile(zap.NewNop(), 20*time.Second, layer4.HandlerFunc(func(c *layer4.Connection) error {
				vC12Record("fallback", c)
				return nil
			}))
			// segmentations: whole, header|payload, the header cut at every position (1..4 bytes first
			// included), two cuts with a very short first segment
			var segss [][][]byte
			segss = append(segss, [][]byte{stream}, [][]byte{hbytes, payload})
			for k := 1; k < len(hbytes); k++ {
				segss = append(segss, [][]byte{stream[:k], stream[k:]})
			}
			for _, k := range []int{1, 2, 3, 4} {
				if len(hbytes) > 20 {
					segss = append(segss, [][]byte{stream[:k], stream[k:20], stream[20:]}, [][]byte{stream[:k], stream[k:len(hbytes)], stream[len(hbytes):]})
				}
			}
			emitted := false
			for _, segs := range segss {
				cur := &vC12RouteObs{want: len(payload), wantPass: len(stream)}
				vC12RecMu.Lock()
				vC12RecCur = cur
				vC12RecMu.Unlock()
				in, out := net.Pipe()
				cx := layer4.WrapConnection(&vC12Conn{Conn: in, remote: real, local: loc}, []byte{}, zap.NewNop())
				done := make(chan struct{})
				go func() {
					defer close(done)
					for _, sg := range segs {
						if len(sg) == 0 {
							continue
						}
						if _, err := out.Write(sg); err != nil {
							break
						}
					}
				}()
				herr := vC12Guard("RouteList[proxy_protocol ...].Handle", map[string]any{"header": fmt.Sprintf("%q", hbytes), "segments": fmt.Sprintf("%q", segs)}, func() error { return compiled.Handle(cx) })
				in.Close()
				<-done
				out.Close()
				vC12RecMu.Lock()
				vC12RecCur = nil
				vC12RecMu.Unlock()
				runs++
				lens := make([]int, len(segs))
				for i, sg := range segs {
					lens[i] = len(sg)
				}
				inp := map[string]any{"routes": fmt.Sprintf("[proxy_protocol -> proxy_protocol allow=%v] [%s %s -> by-address] tls-route=%v fallback", allow, matcher, rng, withTLS),
					"peer": real.String(), "local": loc.String(), "header": fmt.Sprintf("%q", hbytes), "header_kind": h.name(), "segment_lengths": lens,
					"route_taken": cur.tag, "handlers_reached": cur.n, "error": fmt.Sprint(herr)}
				if cur.n != 1 || herr != nil {
					e.out.Fail("C12:route:no-handler-reached", "the route list did not hand the connection to exactly one terminal handler", inp)
					continue
				}
				o := cur.obs
				if !emitted {
					emitted = true
					e.emit(fmt.Sprintf("CHandle 0 %s %s %s %s %s", vcNets(allow), vcAddr(real), vcAddr(loc), cHex(stream), o.coq()), "route/"+h.name(), true, nil)
				}
				if !allowed {
					if cur.tag != "fallback" || o.kind != "pass" || !bytes.Equal(o.data, stream) || !vC12SameAddr(o.remote, real) || !vC12SameAddr(o.local, loc) {
						key := "C12:allow:passthrough-modified"
						if o.kind == "next" {
							key = "C12:allow:parsed-outside-allow-list"
						}
						e.out.Fail(key, "a peer outside the allow list must reach the fallback with its stream and addresses untouched", inp)
					}
					continue
				}
				if cur.tag != "by-address" {
					e.out.Fail("C12:matcher:"+matcher+"-mismatch", "the "+matcher+" matcher placed after the proxy_protocol handler did not see the address the header declares (route taken: "+cur.tag+")", inp)
					continue
				}
				if !bytes.Equal(o.data, payload) {
					e.out.Fail("C12:strip:payload-differs", "behind the route list the bytes after the header differ from the payload", inp)
				}
				if !vC12SameAddr(o.remote, src) {
					e.out.Fail("C12:addr:remote-mismatch", "behind the route list RemoteAddr() differs from the declared source address", inp)
				}
				if !vC12SameAddr(o.local, dst) {
					e.out.Fail("C12:addr:local-mismatch", "behind the route list LocalAddr() differs from the declared destination address", inp)
				}
				if !o.replOK || !vC12SameAddr(o.replRemote, o.remote) {
					e.out.Fail("C12:placeholder:remote_addr-stale", "behind the route list {l4.conn.remote_addr} is not the address the connection reports", inp)
				}
				if !o.replOK || !vC12SameAddr(o.replLocal, o.local) {
					e.out.Fail("C12:placeholder:local_addr-stale", "behind the route list {l4.conn.local_addr} is not the address the connection reports", inp)
				}
			}
		}
	}
	e.out.Stat("route_runs", runs)
}

func vC12Payload(r *vRng, n int) []byte {
	b := r.Bytes(n)
	if n > 0 && r.Intn(3) == 0 {
		copy(b, "PROXY TCP4 9.9.9.9 8.8.8.8 7 6\r\n") // a payload that itself looks like a header
	}
	return b
}

// panicProbe is what ./check C04 runs: every kind of input a remote peer can send to the handler
// (all header kinds incl. the address-less v2 forms LOCAL / UNSPEC family / UNSPEC transport,
// every prefix, 1-2 byte mutations, the hand-written corpus, garbage) through Handler.Handle with
// and without an allow list and from TCP, UDP, zoned and unix peers, all under recover().
func (e *vC12) panicProbe(n int) {
	r := e.rng
	hNone, c1 := vC12Provision(nil, 0)
	defer c1()
	hAllow, c2 := vC12Provision([]string{"10.0.0.0/8", "fe80::/10", "::1"}, 0)
	defer c2()
	loc := &net.TCPAddr{IP: net.IPv4(127, 0, 0, 1).To4(), Port: 4433}
	peers := []net.Addr{
		&net.TCPAddr{IP: net.IPv4(10, 1, 2, 3).To4(), Port: 51000},
		&net.UDPAddr{IP: net.ParseIP("fe80::1"), Port: 5353, Zone: "eth0"},
		&net.TCPAddr{IP: net.IPv4(192, 0, 2, 1).To4(), Port: 1},
		&net.UnixAddr{Net: "unix", Name: "/peer"},
		&net.TCPAddr{Port: 7},
	}
	runs := 0
	probe := func(in []byte, cls string, all bool) {
		e.emit("CProbe "+cHex(in), "c04/"+cls, len(in) > 0, nil)
		for i, p := range peers {
			if !all && i != runs%len(peers) {
				continue
			}
			for _, h := range []*Handler{hNone, hAllow} {
				vC12Run(h, p, loc, nil, [][]byte{in}, nil, nil)
				runs++
			}
		}
		if all && len(in) > 3 {
			vC12Run(hNone, peers[0], loc, in[:2], [][]byte{in[2:3], in[3:]}, nil, nil)
			runs++
		}
	}
	base := vC12BaseHdrs()
	// the address-less and odd v2 forms, explicitly
	v2 := func(b12, b13 byte, blk []byte) []byte {
		b := []byte{0x0D, 0x0A, 0x0D, 0x0A, 0x00, 0x0D, 0x0A, 0x51, 0x55, 0x49, 0x54, 0x0A, b12, b13}
		b = binary.BigEndian.AppendUint16(b, uint16(len(blk)))
		return append(b, blk...)
	}
	for _, cmd := range []byte{0x20, 0x21} {
		for fam := 0; fam < 4; fam++ {
			for proto := 0; proto < 3; proto++ {
				blk := make([]byte, []int{0, 12, 36, 216}[fam])
				copy(blk, r.Bytes(len(blk)))
				probe(append(v2(cmd, byte(fam<<4|proto), blk), "payload"...), fmt.Sprintf("v2-forms/cmd%x", cmd), true)
			}
		}
	}
	for _, h := range base {
		enc := h.encode()
		probe(append(append([]byte{}, enc...), "payload"...), h.name(), true)
		for k := 0; k <= len(enc); k++ {
			probe(enc[:k], "prefix/"+h.name(), false)
		}
	}
	for _, s := range vC12Corpus {
		probe([]byte(s), "corpus", false)
	}
	for i := 0; i < n; i++ {
		h := vC12RandHdr(r)
		enc := append(h.encode(), vC12Payload(r, r.Intn(20))...)
		probe(enc, h.name(), false)
		for k := 0; k < 3; k++ {
			if h.ver == 1 {
				probe(e.mutate(enc), "mut/v1", false)
			} else {
				probe(e.mutateV2(enc), "mut/v2", false)
			}
		}
		probe(r.Bytes(r.Intn(40)), "garbage", false)
	}
	e.out.Stat("c04_handler_runs", runs)
}

func TestVerifC12(t *testing.T) {
	out := vOpen()
	defer out.Close()
	e := &vC12{out: out, rng: vNewRng(vSeed()), seen: map[string]bool{}}
	vC12PanicOut = out
	r := e.rng
	n := vN(200)
	if os.Getenv("VERIF_PROP") == "C04" {
		e.panicProbe(n)
		return
	}

	// ---- 1. codec
	base := vC12BaseHdrs()
	for _, h := range base {
		e.specCases(h)
		enc := h.encode()
		e.parseCase(append(append([]byte{}, enc...), "payload"...), "parse/"+h.name())
		for k := 0; k <= len(enc); k++ { // every prefix
			e.parseCase(enc[:k], "parse-prefix/"+h.name())
		}
	}
	for _, s := range vC12Corpus {
		e.parseCase([]byte(s), "parse/corpus")
	}
	for i := 0; i < n; i++ {
		h := vC12RandHdr(r)
		e.specCases(h)
		enc := append(h.encode(), vC12Payload(r, r.Intn(20))...)
		e.parseCase(enc, "parse/"+h.name())
		for k := 0; k < 3; k++ {
			if h.ver == 1 {
				e.parseCase(e.mutate(enc), "parse-mut/v1")
			} else {
				e.parseCase(e.mutateV2(enc), "parse-mut/v2")
			}
		}
	}
	for _, s := range vC12Corpus[:60] {
		for k := 0; k < 2; k++ {
			e.parseCase(e.mutate([]byte(s)), "parse-mut/corpus")
		}
	}
	e.writeCases()

	// ---- 2. allow list
	fixed := [][]string{nil, {"10.0.0.0/8"}, {"10.1.2.0/24", "10.0.0.0/8", "10.1.2.0/24"}, {"::1/128", "127.0.0.0/8"}, {"::ffff:10.0.0.0/104"},
		{"2001:db8::/32", "10.0.0.0/8", "2001:db8::/32", "10.0.0.0/8", "fe80::/10"}, {"0.0.0.0/0"}, {"::/0"}, {"0.0.0.0/1", "128.0.0.0/1"},
		{"10.0.0.0/8", "11.0.0.0/8", "10.0.0.0/8"}, {"10.1.2.77/24", "10.1.2.0/24"},
		{"10.0.0.5"}, {"::1"}, {"10.0.0.5", "2001:db8:1::5"}, {"::ffff:10.9.9.9"}, {"10.0.0.5", "10.0.0.5/32", "192.168.0.0/16"}, {"fe80::1", "10.1.2.3"},
		{"fe80::/10"}, {"fe80::/10", "10.0.0.0/8"}, {"::1/128"}}
	for _, a := range fixed {
		e.allowCases(a, 0)
	}
	for i := 0; i < n/8+4; i++ {
		e.allowCases(vC12RandAllow(r), []time.Duration{0, 0, 30 * time.Second}[r.Intn(3)])
	}

	// ---- 3. end to end
	loc := &net.TCPAddr{IP: net.IPv4(127, 0, 0, 1).To4(), Port: 4433}
	peerIn := &net.TCPAddr{IP: net.IPv4(10, 1, 2, 3).To4(), Port: 51000}
	sizes := []int{0, 1, 31, 32, 33, 500, 3000}
	for i, h := range base {
		hh := h
		e.e2e(vC12Case{allow: nil, remote: peerIn, local: loc, hdr: &hh, hbytes: h.encode(), payload: vC12Payload(r, 40), splitAll: true})
		e.e2e(vC12Case{allow: []string{"10.0.0.0/8", "::1/128"}, remote: peerIn, local: loc, hdr: &hh, hbytes: h.encode(), payload: vC12Payload(r, sizes[i%len(sizes)]), splitAll: i%4 == 0})
		e.e2e(vC12Case{allow: []string{"192.168.0.0/16", "2001:db8::/32"}, remote: peerIn, local: loc, hdr: &hh, hbytes: h.encode(), payload: vC12Payload(r, 10)})
		// bare addresses in the allow list are single-host ranges: a neighbour stays outside, the host itself is inside
		e.e2e(vC12Case{allow: []string{"10.0.0.5", "2001:db8:1::5"}, remote: peerIn, local: loc, hdr: &hh, hbytes: h.encode(), payload: vC12Payload(r, 10)})
		if i%3 == 0 {
			e.e2e(vC12Case{allow: []string{"10.0.0.5", "2001:db8:1::5"}, remote: &net.TCPAddr{IP: net.IPv4(10, 0, 0, 5).To4(), Port: 40000}, local: loc, hdr: &hh, hbytes: h.encode(), payload: vC12Payload(r, 10)})
			e.e2e(vC12Case{allow: []string{"::1", "10.0.0.5"}, remote: &net.TCPAddr{IP: net.ParseIP("::2"), Port: 40000}, local: loc, hdr: &hh, hbytes: h.encode(), payload: vC12Payload(r, 10)})
		}
	}
	// zoned link-local peers (Zone set on the TCP/UDP address) inside and outside the allow list
	loc6 := &net.TCPAddr{IP: net.ParseIP("fe80::ffff"), Port: 443, Zone: "eth0"}
	for i, h := range base {
		hh := h
		if i%3 != 1 {
			continue
		}
		e.e2e(vC12Case{allow: []string{"fe80::/10"}, remote: &net.TCPAddr{IP: net.ParseIP("fe80::1"), Port: 40001, Zone: "eth0"}, local: loc6, hdr: &hh, hbytes: h.encode(), payload: vC12Payload(r, 10)})
		e.e2e(vC12Case{allow: []string{"10.0.0.0/8", "fe80::/10"}, remote: &net.UDPAddr{IP: net.ParseIP("fe80::abcd:1"), Port: 40002, Zone: "lo"}, local: loc6, hdr: &hh, hbytes: h.encode(), payload: vC12Payload(r, 10)})
		e.e2e(vC12Case{allow: []string{"fe80::/10"}, remote: &net.TCPAddr{IP: net.ParseIP("fec0::1"), Port: 40003, Zone: "eth0"}, local: loc6, hdr: &hh, hbytes: h.encode(), payload: vC12Payload(r, 10)})
	}
	// through a real compiled route list, with address matchers AFTER the handler
	e.routeCases(base)
	// header-less peers outside the list: arbitrary first bytes pass untouched
	for _, s := range []string{"GET / HTTP/1.1\r\n\r\n", "\x16\x03\x01\x00\x05hello", "", "PROXY garbage"} {
		e.e2e(vC12Case{allow: []string{"192.168.0.0/16"}, remote: peerIn, local: loc, hbytes: []byte(s), payload: vC12Payload(r, 5)})
		e.e2e(vC12Case{allow: nil, remote: peerIn, local: loc, hbytes: []byte(s), payload: vC12Payload(r, 5)})
	}
	for i := 0; i < n; i++ {
		h := vC12RandHdr(r)
		allow := vC12RandAllow(r)
		ps := vC12Peers[r.Intn(len(vC12Peers))]
		kind := 0
		if r.Intn(10) == 0 {
			kind = 1 + r.Intn(2)
		}
		remote := vC12PeerAddr(r, ps, kind)
		var local net.Addr = loc
		if strings.Contains(ps, ":") {
			local = &net.TCPAddr{IP: net.ParseIP("2001:db8::ffff"), Port: 443}
		}
		size := []int{0, 1, 2, 15, 16, 17, 100, 255}[r.Intn(8)]
		if r.Intn(5) == 0 { // the large ones are expensive to evaluate inside Coq: one case in five
			size = []int{1000, 2047, 2048, 3000, r.Intn(3001)}[r.Intn(5)]
		}
		if vThorough() && r.Intn(25) == 0 {
			// beyond the bufio size of proxyprotocol.Conn (4096): exercises Connection.Wrap with a
			// partly consumed prefetch buffer (defect 5 of C01, repaired by 8e3ce5b)
			size = []int{4096, 5000, 9000}[r.Intn(3)]
		}
		c := vC12Case{allow: allow, remote: remote, local: local, hdr: &h, hbytes: h.encode(), payload: vC12Payload(r, size), splitAll: i%16 == 0}
		if r.Intn(8) == 0 { // damaged header
			c.hdr = nil
			if h.ver == 1 {
				c.hbytes = e.mutate(c.hbytes)
			} else {
				c.hbytes = e.mutateV2(c.hbytes)
			}
			// a damaged header that happens to stay well-formed would need its declared addresses: keep only rejected ones
			if _, err := proxyprotocol.Parse(bufio.NewReader(bytes.NewReader(append(append([]byte{}, c.hbytes...), c.payload...)))); err == nil {
				continue
			}
		}
		e.e2e(c)
	}
	out.Stat("headers", n)
}
