package l4socks

// C16 engine: SOCKS5 handler. Scripted clients against the real, provisioned handler
// (Provision through a caddy context, Handle on a layer4.Connection) with loopback TCP targets
// on 127.0.0.1 and [::1]. For every (configuration, script) it records a correspondence case
// (everything the server wrote, whether the target saw a connection and which bytes, whether a
// UDP listener was announced) and evaluates the property text directly (v16Oracle).
//
// The client connection is an in-memory net.Conn that serves the script in chunks and then
// reports EOF, so that truncated scripts terminate; the handler's outbound side is real.

import (
	"bytes"
	"context"
	"encoding/hex"
	"fmt"
	"io"
	"net"
	"os"
	"strings"
	"sync"
	"syscall"
	"testing"
	"time"

	"github.com/caddyserver/caddy/v2"
	"github.com/things-go/go-socks5"
	"github.com/things-go/go-socks5/statute"
	"go.uber.org/zap"

	"github.com/mholt/caddy-l4/layer4"
)

// ---------------------------------------------------------------- scripted client connection

type v16Conn struct {
	mu      sync.Mutex
	chunks  [][]byte
	out     []byte
	idle    chan struct{}
	once    sync.Once
	release chan struct{}
	remote  net.Addr
}

func v16NewConn(chunks [][]byte, remote net.Addr) *v16Conn {
	return &v16Conn{remote: remote, chunks: chunks, idle: make(chan struct{}), release: make(chan struct{})}
}

func (c *v16Conn) Read(p []byte) (int, error) {
	if len(p) == 0 {
		return 0, nil
	}
	c.mu.Lock()
	if len(c.chunks) > 0 {
		n := copy(p, c.chunks[0])
		if n == len(c.chunks[0]) {
			c.chunks = c.chunks[1:]
		} else {
			c.chunks[0] = c.chunks[0][n:]
		}
		c.mu.Unlock()
		return n, nil
	}
	c.mu.Unlock()
	c.once.Do(func() { close(c.idle) })
	<-c.release
	return 0, io.EOF
}
func (c *v16Conn) Write(b []byte) (int, error) {
	c.mu.Lock()
	c.out = append(c.out, b...)
	c.mu.Unlock()
	return len(b), nil
}
func (c *v16Conn) Close() error                     { return nil }
func (c *v16Conn) LocalAddr() net.Addr              { return &net.TCPAddr{IP: net.IPv4(127, 0, 0, 1), Port: 1080} }
func (c *v16Conn) RemoteAddr() net.Addr             { return c.remote }
func (c *v16Conn) SetDeadline(time.Time) error      { return nil }
func (c *v16Conn) SetReadDeadline(time.Time) error  { return nil }
func (c *v16Conn) SetWriteDeadline(time.Time) error { return nil }

// ---------------------------------------------------------------- the address the client connection reports

type v16StrAddr string // a net.Addr that is not a *net.TCPAddr: only String() is known

func (a v16StrAddr) Network() string { return "tcp" }
func (a v16StrAddr) String() string  { return string(a) }

type v16Client struct {
	name string
	addr net.Addr
}

func (c v16Client) ip() net.IP { // the client's IP as far as the connection's address type tells it
	if t, ok := c.addr.(*net.TCPAddr); ok && t != nil {
		return t.IP
	}
	return nil
}

func (c v16Client) coq() string {
	if t, ok := c.addr.(*net.TCPAddr); ok && t != nil {
		return fmt.Sprintf("(Tcp %s %s)", cHex(t.IP), cHex([]byte(t.Zone)))
	}
	return fmt.Sprintf("(Other %s)", cHex([]byte(c.addr.String())))
}

func v16Clients() []v16Client {
	return []v16Client{
		{"loopback", &net.TCPAddr{IP: net.IPv4(127, 0, 0, 1).To4(), Port: 40000}},
		{"link-local with zone", &net.TCPAddr{IP: net.ParseIP("fe80::1"), Port: 40000, Zone: "eth0"}},
		{"IPv4-mapped loopback", &net.TCPAddr{IP: net.IPv4(127, 0, 0, 1).To16(), Port: 40000}},
		{"not a TCPAddr", v16StrAddr("127.0.0.1:40000")},
		{"global IPv6", &net.TCPAddr{IP: net.ParseIP("2001:db8::1"), Port: 40000}},
		{"link-local without zone", &net.TCPAddr{IP: net.ParseIP("fe80::2"), Port: 40000}},
		{"TCPAddr without IP", &net.TCPAddr{Port: 40000}},
		{"unspecified TCPAddr", &net.TCPAddr{IP: net.IPv6unspecified, Port: 40000}},
		{"not a TCPAddr, zoned", v16StrAddr("[fe80::1%eth0]:40000")},
	}
}

// ---------------------------------------------------------------- loopback target

const v16Fence = "VERIF-FENCE:"

type v16Rec struct {
	data []byte
	v6   bool
}

type v16Target struct {
	port    int
	l4, l6  net.Listener
	mu      sync.Mutex
	recs    []v16Rec
	fenceCh chan string
	nfence  int
}

func v16Listen(base int) (*v16Target, error) {
	for p := base; p < base+2000; p++ {
		l4, err := net.Listen("tcp4", fmt.Sprintf("127.0.0.1:%d", p))
		if err != nil {
			continue
		}
		l6, err := net.Listen("tcp6", fmt.Sprintf("[::1]:%d", p))
		if err != nil {
			l4.Close()
			continue
		}
		t := &v16Target{port: p, l4: l4, l6: l6, fenceCh: make(chan string, 16)}
		go t.loop(l4, false)
		go t.loop(l6, true)
		return t, nil
	}
	return nil, fmt.Errorf("no free loopback port pair from %d", base)
}

// connections are served one after the other, so a fence that has been seen implies that every
// connection accepted before it has been read to EOF
func (t *v16Target) loop(l net.Listener, v6 bool) {
	for {
		c, err := l.Accept()
		if err != nil {
			return
		}
		c.SetReadDeadline(time.Now().Add(5 * time.Second))
		data, _ := io.ReadAll(c)
		c.Close()
		if bytes.HasPrefix(data, []byte(v16Fence)) {
			if !bytes.HasSuffix(data, []byte("probe")) {
				t.fenceCh <- string(data)
			}
			continue
		}
		t.mu.Lock()
		t.recs = append(t.recs, v16Rec{data, v6})
		t.mu.Unlock()
	}
}

func (t *v16Target) fence() error {
	for _, addr := range []string{fmt.Sprintf("127.0.0.1:%d", t.port), fmt.Sprintf("[::1]:%d", t.port)} {
		t.nfence++
		tag := fmt.Sprintf("%s%d", v16Fence, t.nfence)
		c, err := net.Dial("tcp", addr)
		if err != nil {
			return err
		}
		c.Write([]byte(tag))
		c.Close()
		select {
		case got := <-t.fenceCh:
			if got != tag {
				return fmt.Errorf("fence %q, got %q", tag, got)
			}
		case <-time.After(10 * time.Second):
			return fmt.Errorf("fence %q not seen", tag)
		}
	}
	return nil
}

func (t *v16Target) count() int {
	t.mu.Lock()
	defer t.mu.Unlock()
	return len(t.recs)
}

// bind (without listening) a TCP socket to 127.0.0.1:p and [::1]:p: connections are refused and
// nobody else can bind the port
func v16ReservePort(p int) (release func(), err error) {
	fd4, err := syscall.Socket(syscall.AF_INET, syscall.SOCK_STREAM, 0)
	if err != nil {
		return nil, err
	}
	if err = syscall.Bind(fd4, &syscall.SockaddrInet4{Port: p, Addr: [4]byte{127, 0, 0, 1}}); err != nil {
		syscall.Close(fd4)
		return nil, err
	}
	fd6, err := syscall.Socket(syscall.AF_INET6, syscall.SOCK_STREAM, 0)
	if err != nil {
		syscall.Close(fd4)
		return nil, err
	}
	sa6 := &syscall.SockaddrInet6{Port: p}
	sa6.Addr[15] = 1
	if err = syscall.Bind(fd6, sa6); err != nil {
		syscall.Close(fd4)
		syscall.Close(fd6)
		return nil, err
	}
	return func() { syscall.Close(fd4); syscall.Close(fd6) }, nil
}

// what dialling addr does right now: 0 ok (IPv4 local end), 1 ok (IPv6 local end), 2 refused, -1 something else
func v16ProbeDial(addr string) int {
	c, err := net.DialTimeout("tcp", addr, 2*time.Second)
	if err != nil {
		if strings.Contains(err.Error(), "refused") {
			return 2
		}
		return -1
	}
	v6 := c.LocalAddr().(*net.TCPAddr).IP.To4() == nil
	c.Write([]byte(v16Fence + "probe"))
	c.Close()
	if v6 {
		return 1
	}
	return 0
}

// ---------------------------------------------------------------- configurations

type v16Cred struct{ rawK, rawV, expK, expV string }

type v16Cfg struct {
	name                 string
	cmds                 []string
	connect, bind, assoc bool // what the property text calls "enabled"
	provFails            bool
	creds                []v16Cred
}

var v16Env = map[string]string{"VERIF_C16_U": "alice", "VERIF_C16_P": "s3cret", "VERIF_C16_CMD": "bind", "VERIF_C16_EMPTY": ""}

func v16CmdSets() []v16Cfg {
	return []v16Cfg{
		{name: "default", cmds: nil, connect: true, assoc: true},
		{name: "connect", cmds: []string{"CONNECT"}, connect: true},
		{name: "bind", cmds: []string{"BIND"}, bind: true},
		{name: "associate", cmds: []string{"ASSOCIATE"}, assoc: true},
		{name: "all", cmds: []string{"CONNECT", "ASSOCIATE", "BIND"}, connect: true, bind: true, assoc: true},
		{name: "lower", cmds: []string{"connect", "Associate"}, connect: true, assoc: true},
		{name: "placeholder", cmds: []string{"{env.VERIF_C16_CMD}", "con{env.VERIF_C16_EMPTY}nect"}, connect: true, bind: true},
		{name: "unknown", cmds: []string{"CONNECT", "LISTEN"}, provFails: true},
		{name: "emptyname", cmds: []string{""}, provFails: true},
		{name: "unknown-placeholder", cmds: []string{"{env.VERIF_C16_NOPE}"}, provFails: true},
		{name: "connect+bind", cmds: []string{"CONNECT", "BIND"}, connect: true, bind: true},
		{name: "bind+associate", cmds: []string{"BIND", "ASSOCIATE"}, bind: true, assoc: true},
	}
}

func v16CredSets() [][]v16Cred {
	id := func(k, v string) v16Cred { return v16Cred{k, v, k, v} }
	return [][]v16Cred{
		nil,
		{id("alice", "s3cret")},
		{id("alice", "s3cret"), id("bob", "hunter2"), id("carol", "x")},
		{id("", "nopass")},                   // only an empty user name: nobody can log in
		{id("", "nopass"), id("dave", "pw")}, // empty name dropped, dave stays
		{id("erin", "")},                     // empty password
		{{"{env.VERIF_C16_U}", "{env.VERIF_C16_P}", "alice", "s3cret"}}, // placeholders with values
		{{"{env.VERIF_C16_NOPE}", "pw", "", "pw"}},                      // placeholder that expands to nothing: dropped
		{{"{nosuch.key}frank", "p{nosuch}w", "frank", "pw"}},
		{id("us{er", "p}w"), {"a\\{b\\}", "\\{x\\}", "a{b}", "{x}"}}, // braces that are not placeholders, escapes
		{{"{env.VERIF_C16_EMPTY}", "{env.VERIF_C16_EMPTY}", "", ""}, id("gina", "{")},
	}
}

// ---------------------------------------------------------------- scripts

type v16Script struct {
	name   string
	b      []byte
	reqOff int // offset of the request message
}

type v16Gen struct {
	r      *vRng
	port   int // target (open)
	closed int // closed port
}

func (g *v16Gen) methods(kind int) []byte {
	switch kind {
	case 0:
		return []byte{5, 1, 0}
	case 1:
		return []byte{5, 1, 2}
	case 2:
		return []byte{5, 2, 0, 2}
	case 3:
		return []byte{5, 2, 2, 0}
	case 4:
		return []byte{5, 0}
	case 5:
		return []byte{5, 1, 1}
	case 6:
		return []byte{4, 1, 0}
	case 7:
		return []byte{5, 3, 1, 3, 0x80}
	case 8:
		return []byte{5, 4, 0xff, 2, 2, 2}
	default:
		return []byte{5, 255, 0, 2}
	}
}

func v16Auth(ver byte, user, pass string) []byte {
	b := []byte{ver, byte(len(user))}
	b = append(b, user...)
	b = append(b, byte(len(pass)))
	return append(b, pass...)
}

// request with the given command and address form; returns bytes, fqdn, dial destination
func (g *v16Gen) request(ver, cmd, rsv byte, form int, port int) ([]byte, string, string) {
	b := []byte{ver, cmd, rsv}
	pb := []byte{byte(port >> 8), byte(port)}
	dom := func(name string) ([]byte, string, string) {
		b = append(b, 3, byte(len(name)))
		b = append(b, name...)
		b = append(b, pb...)
		return b, name, ""
	}
	switch form {
	case 0: // IPv4 loopback
		b = append(b, 1, 127, 0, 0, 1)
		return append(b, pb...), "", fmt.Sprintf("127.0.0.1:%d", port)
	case 1: // IPv6 loopback
		b = append(b, 4)
		b = append(b, net.IPv6loopback...)
		return append(b, pb...), "", fmt.Sprintf("[::1]:%d", port)
	case 2:
		return dom("localhost")
	case 3: // empty domain: the library dials ":port"
		b = append(b, 3, 0)
		return append(b, pb...), "", fmt.Sprintf(":%d", port)
	case 4:
		return dom("127.0.0.1")
	case 5:
		return dom("verif-no-such-host.invalid")
	case 6: // unassigned address type
		b = append(b, 2, 127, 0, 0, 1)
		return append(b, pb...), "", ""
	case 7:
		b = append(b, 0, 127, 0, 0, 1)
		return append(b, pb...), "", ""
	case 8: // the all-zero address (what UDP ASSOCIATE clients send)
		b = append(b, 1, 0, 0, 0, 0)
		return append(b, 0, 0), "", "0.0.0.0:0"
	case 10: // :: port 0 (IPv6 unspecified)
		b = append(b, 4)
		b = append(b, net.IPv6unspecified...)
		return append(b, 0, 0), "", ""
	case 11: // ::ffff:0.0.0.0 port 0 (IPv4-mapped unspecified)
		b = append(b, 4)
		b = append(b, net.IPv4zero.To16()...)
		return append(b, 0, 0), "", ""
	case 12: // ::ffff:127.0.0.1 (IPv4-mapped loopback)
		b = append(b, 4)
		b = append(b, net.IPv4(127, 0, 0, 1).To16()...)
		return append(b, pb...), "", ""
	case 13: // the unspecified address written as a domain name
		b = append(b, 3, 7)
		b = append(b, "0.0.0.0"...)
		return append(b, 0, 0), "0.0.0.0", ""
	case 14:
		b = append(b, 3, 2)
		b = append(b, "::"...)
		return append(b, 0, 0), "::", ""
	case 15: // a name for the client's own address, any port
		b = append(b, 3, 9)
		b = append(b, "localhost"...)
		return append(b, 0, 0), "localhost", ""
	default:
		b = append(b, 0xff, 1, 2, 3, 4)
		return append(b, pb...), "", ""
	}
}

const v16Forms = 16

// ---------------------------------------------------------------- the property text, on the script

type v16Spec struct {
	methodsOK    bool // version 5 greeting, complete
	offers       map[byte]bool
	auth         *[2]string // complete RFC 1929 message (version 1) right after the greeting
	authBytes    int
	reqComplete  bool // complete, version 5, known address type
	reqMalformed bool // complete header with version 5 but an unassigned address type
	cmd          int
}

// the request a script carries, parsed leniently (any version byte): where would the library connect?
type v16Req struct {
	present bool
	cmd     int
	atyp    byte
	host    string // IP literal, "" for an empty domain
	fqdn    string
	port    int
}

func v16ParseReq(s []byte, withAuth bool) (q v16Req) {
	if len(s) < 2 || len(s) < 2+int(s[1]) {
		return
	}
	rest := s[2+int(s[1]):]
	if withAuth {
		if len(rest) < 2 || len(rest) < 2+int(rest[1])+1 {
			return
		}
		ul := int(rest[1])
		pl := int(rest[2+ul])
		if len(rest) < 3+ul+pl {
			return
		}
		rest = rest[3+ul+pl:]
	}
	if len(rest) < 4 {
		return
	}
	q.cmd, q.atyp = int(rest[1]), rest[3]
	switch q.atyp {
	case 1:
		if len(rest) < 10 {
			return
		}
		q.host, q.port, q.present = net.IP(rest[4:8]).String(), int(rest[8])<<8|int(rest[9]), true
	case 4:
		if len(rest) < 22 {
			return
		}
		q.host, q.port, q.present = net.IP(rest[4:20]).String(), int(rest[20])<<8|int(rest[21]), true
	case 3:
		if len(rest) < 5 || len(rest) < 5+int(rest[4])+2 {
			return
		}
		n := int(rest[4])
		q.fqdn, q.port, q.present = string(rest[5:5+n]), int(rest[5+n])<<8|int(rest[6+n]), true
	}
	return
}

func v16ParseSpec(s []byte, withAuth bool) v16Spec {
	sp := v16Spec{offers: map[byte]bool{}, cmd: -1}
	if len(s) < 2 || len(s) < 2+int(s[1]) {
		return sp
	}
	if s[0] != 5 {
		return sp
	}
	sp.methodsOK = true
	for _, m := range s[2 : 2+int(s[1])] {
		sp.offers[m] = true
	}
	rest := s[2+int(s[1]):]
	if withAuth {
		if len(rest) < 2 || rest[0] != 1 || len(rest) < 2+int(rest[1])+1 {
			return sp
		}
		ul := int(rest[1])
		pl := int(rest[2+ul])
		if len(rest) < 3+ul+pl {
			return sp
		}
		sp.auth = &[2]string{string(rest[2 : 2+ul]), string(rest[3+ul : 3+ul+pl])}
		rest = rest[3+ul+pl:]
	}
	if len(rest) < 4 || rest[0] != 5 {
		return sp
	}
	need := 0
	switch rest[3] {
	case 1:
		need = 4 + 4 + 2
	case 4:
		need = 4 + 16 + 2
	case 3:
		if len(rest) < 5 {
			return sp
		}
		need = 4 + 1 + int(rest[4]) + 2
	default:
		sp.reqMalformed = true
		sp.cmd = int(rest[1])
		return sp
	}
	if len(rest) < need {
		return sp
	}
	sp.reqComplete = true
	sp.cmd = int(rest[1])
	return sp
}

// ---------------------------------------------------------------- one session

type v16Obs struct {
	provErr   error
	out       []byte // masked
	raw       []byte
	dialled   bool
	tbytes    []byte
	listened  bool
	udpRelay  bool
	udpThird  bool // a datagram from a source address other than the client's was relayed
	probes    []v16Probe
	panicMsg  string
	hang      bool
	handleErr error
}

func v16Chunks(r *vRng, b []byte) [][]byte {
	var cs [][]byte
	switch r.Intn(3) {
	case 0:
		if len(b) > 0 {
			cs = append(cs, append([]byte(nil), b...))
		}
	case 1:
		for i := range b {
			cs = append(cs, []byte{b[i]})
		}
	default:
		for len(b) > 0 {
			n := 1 + r.Intn(7)
			if n > len(b) {
				n = len(b)
			}
			cs = append(cs, append([]byte(nil), b[:n]...))
			b = b[n:]
		}
	}
	return cs
}

// zero BND.ADDR / BND.PORT of a successful reply; returns the masked output, the reply code (-1 none) and the announced port
func v16Mask(raw []byte) ([]byte, int, int) {
	out := append([]byte(nil), raw...)
	pos := 0
	if len(out) >= 2 {
		pos = 2
		if out[1] == 2 && len(out) >= 4 {
			pos = 4
		}
	}
	rest := out[pos:]
	if len(rest) >= 4 && rest[0] == 5 {
		rep := int(rest[1])
		port := 0
		if rep == 0 && len(rest) >= 6 {
			port = int(rest[len(rest)-2])<<8 | int(rest[len(rest)-1])
			for i := 4; i < len(rest); i++ {
				rest[i] = 0
			}
		}
		return out, rep, port
	}
	return out, -1, 0
}

func v16Provision(cfg v16Cfg) (*Socks5Handler, error, context.CancelFunc) {
	h := &Socks5Handler{Commands: cfg.cmds}
	if cfg.creds != nil {
		h.Credentials = map[string]string{}
		for _, c := range cfg.creds {
			h.Credentials[c.rawK] = c.rawV
		}
	}
	ctx, cancel := caddy.NewContext(caddy.Context{Context: context.Background()})
	err := h.Provision(ctx)
	return h, err, cancel
}

func v16Run(h *Socks5Handler, tgt *v16Target, chunks [][]byte, client v16Client, udpProbe bool, udpHost net.IP, udpPort int) (o v16Obs) {
	before := tgt.count()
	conn := v16NewConn(chunks, client.addr)
	cx := layer4.WrapConnection(conn, nil, zap.NewNop())
	done := make(chan struct{})
	go func() {
		defer close(done)
		defer func() {
			if r := recover(); r != nil {
				o.panicMsg = fmt.Sprint(r)
			}
		}()
		o.handleErr = h.Handle(cx, nil)
	}()
	select {
	case <-conn.idle:
		if udpProbe {
			conn.mu.Lock()
			_, rep, port := v16Mask(conn.out)
			conn.mu.Unlock()
			if rep == 0 && port != 0 {
				o.probes = v16UDPProbes(port, udpHost, udpPort, client.ip())
				for _, p := range o.probes {
					o.udpRelay = o.udpRelay || p.relayed
					o.udpThird = o.udpThird || (p.third && p.relayed)
				}
			}
		}
	case <-done:
	case <-time.After(10 * time.Second):
		o.hang = true
	}
	close(conn.release)
	select {
	case <-done:
	case <-time.After(10 * time.Second):
		o.hang = true
		return
	}
	if err := tgt.fence(); err != nil {
		o.hang = true
		return
	}
	conn.mu.Lock()
	o.raw = append([]byte(nil), conn.out...)
	conn.mu.Unlock()
	tgt.mu.Lock()
	recs := append([]v16Rec(nil), tgt.recs[before:]...)
	tgt.mu.Unlock()
	if len(recs) > 0 {
		o.dialled = true
		o.tbytes = recs[0].data
	}
	return
}

// UDP datagrams sent to the announced relay port from several source addresses, each asking to be
// forwarded to one loopback UDP recorder: (1) another address of this machine standing for a third
// party, (2) the client's address with an arbitrary port, (3) last, a sentinel from exactly the
// address the client announced in its request (any loopback address if it announced 0.0.0.0:0),
// which the library's check lets through. The relay handles datagrams one after the other, so
// when the sentinel has arrived the fate of the earlier ones is known without waiting for a timeout.
type v16Probe struct {
	src     net.IP
	port    int
	third   bool
	relayed bool
}

func v16UDPProbes(relayPort int, dst net.IP, dstPort int, clientIP net.IP) []v16Probe {
	if len(dst) == 0 { // an empty domain name: nothing announced
		dst = net.IPv4zero
	}
	// the one source a correct relay accepts: the announced address, or the client's own if none
	// was announced (nil: the client's IP is unknown to the handler, every source is accepted)
	expect := dst
	if dst.IsUnspecified() {
		expect = clientIP
		if len(expect) == 0 || expect.IsUnspecified() {
			expect = nil
		}
	}
	isThird := func(src net.IP) bool {
		return len(clientIP) != 0 && !clientIP.IsUnspecified() && !src.Equal(clientIP) && (dst.IsUnspecified() || !src.Equal(dst))
	}
	recv, err := net.ListenUDP("udp4", &net.UDPAddr{IP: net.IPv4(127, 0, 0, 1)})
	if err != nil {
		return nil
	}
	defer recv.Close()
	rp := recv.LocalAddr().(*net.UDPAddr).Port
	type plan struct {
		from net.IP
		port int
	}
	var plans []plan
	if other := v16OtherAddr(); other != nil {
		plans = append(plans, plan{other, 0})
	}
	plans = append(plans, plan{net.IPv4(127, 0, 0, 2), 0}) // another loopback address: a different host as far as the relay can tell
	plans = append(plans, plan{net.IPv4(127, 0, 0, 1), 0})
	if dstPort != 0 {
		plans = append(plans, plan{net.IPv4(127, 0, 0, 2), dstPort}) // the announced port from the wrong address
	}
	// a sentinel is possible when the accepted source is an address of this machine
	haveSentinel := true
	switch {
	case expect == nil:
		plans = append(plans, plan{net.IPv4(127, 0, 0, 1), dstPort})
	case expect.IsLoopback():
		from := expect
		if ip4 := from.To4(); ip4 != nil {
			from = ip4
		}
		plans = append(plans, plan{from, dstPort})
	default:
		haveSentinel = false
	}
	var probes []v16Probe
	for i, pl := range plans {
		network := "udp4"
		if pl.from.To4() == nil {
			network = "udp6"
		}
		c, err := net.DialUDP(network, &net.UDPAddr{IP: pl.from, Port: pl.port}, &net.UDPAddr{IP: pl.from, Port: relayPort})
		if err != nil {
			return nil
		}
		pkt := []byte{0, 0, 0, 1, 127, 0, 0, 1, byte(rp >> 8), byte(rp)}
		pkt = append(pkt, fmt.Sprintf("verif-udp-%d", i)...)
		c.Write(pkt)
		la := c.LocalAddr().(*net.UDPAddr)
		ip := la.IP
		if ip4 := ip.To4(); ip4 != nil {
			ip = ip4
		}
		probes = append(probes, v16Probe{src: ip, port: la.Port, third: isThird(ip)})
		c.Close()
	}
	wait := 2 * time.Second
	if !haveSentinel {
		// the accepted source is not an address of this machine: a correct relay forwards nothing,
		// which only the passing of time can show
		wait = 150 * time.Millisecond
	}
	recv.SetReadDeadline(time.Now().Add(wait))
	buf := make([]byte, 64)
	sentinelSeen := false
	for {
		n, _, err := recv.ReadFromUDP(buf)
		if err != nil {
			if sentinelSeen || !haveSentinel {
				return probes
			}
			return nil // the sentinel did not arrive: nothing can be concluded
		}
		var i int
		if _, err := fmt.Sscanf(string(buf[:n]), "verif-udp-%d", &i); err == nil && i >= 0 && i < len(probes) {
			probes[i].relayed = true
			if haveSentinel && i == len(probes)-1 {
				// a short grace period in case the kernel delivered the datagrams out of order
				sentinelSeen = true
				recv.SetReadDeadline(time.Now().Add(40 * time.Millisecond))
			}
		}
	}
}

func v16ThirdSources(ps []v16Probe) []string {
	var r []string
	for _, p := range ps {
		if p.third && p.relayed {
			r = append(r, p.src.String())
		}
	}
	return r
}

// an IPv4 address of this machine that is not loopback (nil if there is none)
func v16OtherAddr() net.IP {
	addrs, _ := net.InterfaceAddrs()
	for _, a := range addrs {
		if n, ok := a.(*net.IPNet); ok {
			if ip4 := n.IP.To4(); ip4 != nil && !ip4.IsLoopback() && !ip4.IsLinkLocalUnicast() {
				return ip4
			}
		}
	}
	return nil
}

// ---------------------------------------------------------------- engine

type v16Engine struct {
	client  v16Client
	out     *vOut
	r       *vRng
	tgt     *v16Target
	gen     *v16Gen
	listenr int
	dialMem map[string]int
	resMem  map[string]string
	slowDNS bool
	relays  int
}

func (e *v16Engine) resolve(name string) string {
	if v, ok := e.resMem[name]; ok {
		return v
	}
	t0 := time.Now()
	a, err := net.ResolveIPAddr("ip", name)
	if time.Since(t0) > 300*time.Millisecond {
		e.slowDNS = true
	}
	v := ""
	if err == nil {
		ip := a.IP
		if ip4 := ip.To4(); ip4 != nil {
			ip = ip4
		}
		v = hex.EncodeToString(ip)
	}
	e.resMem[name] = v
	return v
}

func (e *v16Engine) probe(addr string) int {
	if v, ok := e.dialMem[addr]; ok {
		return v
	}
	v := v16ProbeDial(addr)
	e.dialMem[addr] = v
	return v
}

func v16HexList(ss []string) string {
	q := make([]string, len(ss))
	for i, s := range ss {
		q[i] = cHex([]byte(s))
	}
	return "[" + strings.Join(q, "; ") + "]"
}

func (e *v16Engine) session(cfg v16Cfg, h *Socks5Handler, sc v16Script) {
	credsConfigured := len(cfg.creds) > 0
	// environment oracles for the model, from the request the script carries (if any); scripts
	// whose request would make the library contact anything but the loopback targets are not run
	resolved := ""
	dest := ""
	var annIP net.IP // the address the request announces (after name resolution)
	rq := v16ParseReq(sc.b, credsConfigured)
	if rq.present {
		if rq.port != e.tgt.port && rq.port != e.gen.closed && rq.port != 0 {
			e.out.Stat("skipped_foreign_destination", sc.name)
			return
		}
		if rq.atyp == 3 && rq.fqdn != "" {
			switch rq.fqdn {
			case "localhost", "127.0.0.1", "0.0.0.0", "::":
			case "verif-no-such-host.invalid":
				if e.slowDNS {
					e.out.Stat("skipped_foreign_destination", sc.name)
					return
				}
			default:
				e.out.Stat("skipped_foreign_destination", sc.name)
				return
			}
			resolved = e.resolve(rq.fqdn)
			if resolved != "" {
				ipb, _ := hex.DecodeString(resolved)
				annIP = net.IP(ipb)
				dest = net.JoinHostPort(annIP.String(), fmt.Sprint(rq.port))
			}
		} else {
			if rq.host != "" {
				annIP = net.ParseIP(rq.host)
				// CONNECT would dial it; UDP ASSOCIATE only records it as the client's announced endpoint
				if annIP == nil || (rq.cmd != 3 && !(annIP.IsLoopback() || annIP.IsUnspecified())) {
					e.out.Stat("skipped_foreign_destination", sc.name)
					return
				}
			}
			dest = net.JoinHostPort(rq.host, fmt.Sprint(rq.port))
		}
	}
	dialr := 2
	if dest != "" && rq.cmd == 1 { // only CONNECT dials
		dialr = e.probe(dest)
		if dialr < 0 {
			e.out.Stat("skipped_unclassified_dial", dest)
			return
		}
	}
	// UDP relay probes after every UDP ASSOCIATE with a known announced endpoint: nothing (an
	// unspecified literal of either family, an empty name), a loopback or foreign literal, a name
	udpProbe := rq.present && rq.cmd == 3 && (rq.atyp != 3 || rq.fqdn == "" || annIP != nil) && (rq.port == 0 || rq.port == e.tgt.port || rq.port == e.gen.closed)
	annHost := annIP
	chunks := v16Chunks(e.r, sc.b)
	o := v16Run(h, e.tgt, chunks, e.client, udpProbe, annHost, rq.port)
	input := map[string]any{"client_address": e.client.name + " " + e.client.addr.String(), "config": cfg.name, "commands": cfg.cmds, "credentials": fmt.Sprint(cfg.creds), "script": sc.name, "bytes": hex.EncodeToString(sc.b)}
	if o.panicMsg != "" {
		e.out.Fail("C16:handler:panic", o.panicMsg, input)
		e.out.Fail("C04:socks5-handler:panic", o.panicMsg, input) // the same failure for the no-panic property, which this engine also serves
		return
	}
	if o.hang {
		e.out.Fail("C16:handler:hang", "the handler did not finish after the client's EOF", input)
		return
	}
	masked, rep, port := v16Mask(o.raw)
	o.out = masked
	o.listened = false
	// the authentication the client presented is read the way the configuration demands it; the
	// request is read the way the server actually negotiated (method 02 selected or not)
	sp := v16ParseSpec(sc.b, credsConfigured)
	if selected02 := len(o.raw) >= 2 && o.raw[0] == 5 && o.raw[1] == 2; selected02 != credsConfigured {
		sq := v16ParseSpec(sc.b, selected02)
		sp.reqComplete, sp.reqMalformed, sp.cmd = sq.reqComplete, sq.reqMalformed, sq.cmd
	}
	if rep == 0 && port != 0 && !o.dialled {
		if sp.reqComplete && sp.cmd == 1 {
			// a CONNECT that succeeded although our target saw nothing: the destination port is served
			// by something that is not ours (another process took it); nothing can be attributed
			e.out.Stat("skipped_connect_answered_by_foreign_listener", sc.name)
			return
		}
		o.listened = true
	}
	if o.udpRelay {
		e.relays++
	}
	e.oracle(cfg, sc, sp, o, rep, input)

	creds := make([]string, len(cfg.creds))
	for i, c := range cfg.creds {
		creds[i] = fmt.Sprintf("(%s,%s)", cHex([]byte(c.rawK)), cHex([]byte(c.rawV)))
	}
	var envt []string
	for k, v := range v16Env {
		envt = append(envt, fmt.Sprintf("(%s,%s)", cHex([]byte("env."+k)), cHex([]byte(v))))
	}
	sortStrings(envt)
	prs := make([]string, len(o.probes))
	for i, p := range o.probes {
		prs[i] = fmt.Sprintf("(%s,%d,%s)", cHex(p.src), p.port, cBool(p.relayed))
	}
	term := fmt.Sprintf("CSess %s %s [%s] [%s] %s %d %d %s true %s %s %s %s [%s]", e.client.coq(), v16HexList(cfg.cmds), strings.Join(creds, "; "), strings.Join(envt, "; "),
		"\""+resolved+"\"", dialr, e.listenr, cHex(sc.b), cHex(o.out), cBool(o.dialled), cHex(o.tbytes), cBool(o.listened), strings.Join(prs, "; "))
	cls := "neg-only"
	switch {
	case o.dialled:
		cls = "dialled"
	case o.listened:
		cls = "listened"
	case rep > 0:
		cls = fmt.Sprintf("reply-%02x", rep)
	case len(o.raw) >= 2 && o.raw[1] == 0xff:
		cls = "no-acceptable-method"
	case len(o.raw) >= 4 && o.raw[1] == 2 && o.raw[3] == 1:
		cls = "auth-failed"
	case len(o.raw) == 0:
		cls = "silent"
	}
	e.out.Case(term, cls, len(o.raw) > 2 || (len(o.raw) == 2 && o.raw[1] != 0xff),
		map[string]any{"config": cfg.name, "script": sc.name, "out": hex.EncodeToString(o.raw), "dialled": o.dialled, "listened": o.listened, "udp_relay": o.udpRelay, "udp_relay_other_source": o.udpThird})
}

func sortStrings(s []string) {
	for i := 1; i < len(s); i++ {
		for j := i; j > 0 && s[j] < s[j-1]; j-- {
			s[j], s[j-1] = s[j-1], s[j]
		}
	}
}

func (cfg v16Cfg) configured(p *[2]string) bool {
	if p == nil {
		return false
	}
	for _, c := range cfg.creds {
		if c.expK != "" && c.expK == p[0] && c.expV == p[1] {
			return true
		}
	}
	return false
}

func (cfg v16Cfg) enabled(cmd int) bool {
	switch cmd {
	case 1:
		return cfg.connect
	case 2:
		return cfg.bind
	case 3:
		return cfg.assoc
	}
	return false
}

// the property text evaluated on what the implementation did
func (e *v16Engine) oracle(cfg v16Cfg, sc v16Script, sp v16Spec, o v16Obs, rep int, input any) {
	credsConfigured := len(cfg.creds) > 0
	outboundSeen := o.dialled || o.listened || o.udpRelay
	raw := o.raw
	authAccepted := len(raw) >= 4 && raw[0] == 5 && raw[1] == 2 && raw[2] == 1 && raw[3] == 0
	if credsConfigured {
		if outboundSeen && !cfg.configured(sp.auth) {
			e.out.Fail("C16:auth:outbound-without-auth", fmt.Sprintf("outbound action (target connection=%v, udp listener=%v) although the client did not present a configured username/password (presented: %s)", o.dialled, o.listened, v16Quote(sp.auth)), input)
		}
		if authAccepted && !cfg.configured(sp.auth) {
			e.out.Fail("C16:auth:wrong-credentials-accepted", fmt.Sprintf("authentication status 00 for %s, which is not byte for byte a configured pair", v16Quote(sp.auth)), input)
		}
	}
	if credsConfigured && o.udpThird {
		e.out.Fail("C16:auth:udp-relay-accepts-other-source", fmt.Sprintf("UDP ASSOCIATE by the authenticated client at %v: a datagram sent from %v (no SOCKS session, no authentication; neither the client's address nor one it announced) to the relay port was forwarded to its destination (RFC 1928 section 7: MUST drop datagrams from any other source IP)", e.client.addr, v16ThirdSources(o.probes)), input)
	}
	if o.dialled && !(sp.reqComplete && sp.cmd == 1 && cfg.connect) {
		e.out.Fail("C16:command:disabled-command-executed", fmt.Sprintf("the target saw a connection; request command=%d complete=%v; CONNECT enabled=%v", sp.cmd, sp.reqComplete, cfg.connect), input)
	}
	if (o.listened || o.udpRelay) && !(sp.reqComplete && sp.cmd == 3 && cfg.assoc) {
		e.out.Fail("C16:command:disabled-command-executed", fmt.Sprintf("a UDP relay was opened; request command=%d complete=%v; ASSOCIATE enabled=%v", sp.cmd, sp.reqComplete, cfg.assoc), input)
	}
	// refusals must be told to the client
	if sp.methodsOK {
		want := byte(0)
		if credsConfigured {
			want = 2
		}
		if !sp.offers[want] {
			if !bytes.Equal(raw, []byte{5, 0xff}) {
				e.out.Fail("C16:refusal:no-reply", fmt.Sprintf("no acceptable method offered, server wrote %x instead of 05ff", raw), input)
			}
			return
		}
		if credsConfigured && sp.auth != nil && !cfg.configured(sp.auth) {
			if !bytes.Equal(raw, []byte{5, 2, 1, 1}) {
				e.out.Fail("C16:refusal:no-reply", fmt.Sprintf("wrong credentials, server wrote %x instead of 05020101", raw), input)
			}
			return
		}
		negotiated := !credsConfigured || cfg.configured(sp.auth)
		if negotiated && (sp.reqMalformed || (sp.reqComplete && !cfg.enabled(sp.cmd))) {
			if rep <= 0 {
				e.out.Fail("C16:refusal:no-reply", fmt.Sprintf("request with command %d (unsupported address type=%v) must be refused with a reply; server wrote %x", sp.cmd, sp.reqMalformed, raw), input)
			}
		}
	}
}

func TestVerifC16(t *testing.T) {
	out := vOpen()
	defer out.Close()
	for k, v := range v16Env {
		os.Setenv(k, v)
	}
	os.Unsetenv("VERIF_C16_NOPE")
	seed := vSeed()
	r := vNewRng(seed)
	base := 21000 + int((uint64(seed)*7919+16)%10000)
	if os.Getenv("VERIF_PROP") != "C16" { // the same test serves C04: keep concurrent runs apart
		base -= 11000
	}
	tgt, err := v16Listen(base)
	if err != nil {
		t.Fatal(err)
	}
	defer tgt.l4.Close()
	defer tgt.l6.Close()
	// a port that refuses connections for the whole run: bound on both loopback addresses but never
	// listened on, so that no other process (a concurrent run of this engine, another check) can
	// start listening there in between
	closed := 0
	for p := tgt.port + 1; p < tgt.port+500; p++ {
		release, err := v16ReservePort(p)
		if err != nil {
			continue
		}
		if v16ProbeDial(fmt.Sprintf("127.0.0.1:%d", p)) == 2 && v16ProbeDial(fmt.Sprintf("[::1]:%d", p)) == 2 {
			closed = p
			defer release()
			break
		}
		release()
	}
	e := &v16Engine{client: v16Clients()[0], out: out, r: r, tgt: tgt, gen: &v16Gen{r: r, port: tgt.port, closed: closed}, dialMem: map[string]int{}, resMem: map[string]string{}}
	// what net.ListenUDP("udp", nil) gives here
	if l, err := net.ListenUDP("udp", nil); err != nil {
		e.listenr = 2
	} else {
		if l.LocalAddr().(*net.UDPAddr).IP.To4() == nil {
			e.listenr = 1
		}
		l.Close()
	}
	e.resolve("verif-no-such-host.invalid")
	out.Stat("target_port", tgt.port)
	out.Stat("slow_dns", e.slowDNS)

	n := vN(600)
	cmdSets := v16CmdSets()
	credSets := v16CredSets()
	type hk struct{ a, b int }
	handlers := map[hk]*Socks5Handler{}
	var cancels []context.CancelFunc
	defer func() {
		for _, c := range cancels {
			c()
		}
	}()
	get := func(ci, ki int) (v16Cfg, *Socks5Handler) {
		cfg := cmdSets[ci]
		cfg.creds = credSets[ki]
		cfg.name = fmt.Sprintf("%s/creds%d", cfg.name, ki)
		if h, ok := handlers[hk{ci, ki}]; ok {
			return cfg, h
		}
		h, err, cancel := v16Provision(cfg)
		cancels = append(cancels, cancel)
		if (err != nil) != cfg.provFails {
			out.Fail("C16:provision:unexpected-result", fmt.Sprintf("Provision error=%v, expected failure=%v", err, cfg.provFails), cfg.name)
		}
		if err != nil {
			h = nil
			creds := make([]string, len(cfg.creds))
			for i, c := range cfg.creds {
				creds[i] = fmt.Sprintf("(%s,%s)", cHex([]byte(c.rawK)), cHex([]byte(c.rawV)))
			}
			var envt []string
			for k, v := range v16Env {
				envt = append(envt, fmt.Sprintf("(%s,%s)", cHex([]byte("env."+k)), cHex([]byte(v))))
			}
			sortStrings(envt)
			out.Case(fmt.Sprintf("CSess %s %s [%s] [%s] \"\" 2 2 \"\" false \"\" false \"\" false []", e.client.coq(), v16HexList(cfg.cmds), strings.Join(creds, "; "), strings.Join(envt, "; ")),
				"provision-error", false, map[string]any{"config": cfg.name, "err": err.Error()})
		}
		handlers[hk{ci, ki}] = h
		return cfg, h
	}

	run := func(ci, ki int, sc v16Script) {
		cfg, h := get(ci, ki)
		if h == nil {
			return
		}
		e.session(cfg, h, sc)
	}

	// pick a client identity appropriate (or not) for the credential set
	authFor := func(cfg v16Cfg, kind int) (byte, string, string, string) {
		var good *v16Cred
		for i := range cfg.creds {
			if cfg.creds[i].expK != "" {
				good = &cfg.creds[i]
			}
		}
		switch kind {
		case 0:
			if good != nil {
				return 1, good.expK, good.expV, "valid"
			}
			return 1, "alice", "s3cret", "valid-elsewhere"
		case 1:
			if good != nil {
				return 1, good.expK, good.expV + "x", "wrong-password"
			}
			return 1, "alice", "wrong", "wrong-password"
		case 2:
			return 1, "mallory", "s3cret", "unknown-user"
		case 3:
			return 1, "", "nopass", "empty-user"
		case 4:
			if good != nil {
				return 1, good.expK, "", "empty-password"
			}
			return 1, "erin", "", "empty-password"
		case 5:
			if good != nil {
				return 1, good.rawK, good.rawV, "raw-placeholder-text"
			}
			return 1, "{env.VERIF_C16_U}", "{env.VERIF_C16_P}", "raw-placeholder-text"
		case 6:
			if good != nil {
				return 2, good.expK, good.expV, "auth-version-2"
			}
			return 0, "alice", "s3cret", "auth-version-0"
		default:
			return 1, strings.Repeat("u", 255), strings.Repeat("p", 255), "long"
		}
	}

	build := func(cfg v16Cfg, mkind, akind int, withAuth bool, ver, cmd, rsv byte, form, port int, payload string) v16Script {
		var b []byte
		b = append(b, e.gen.methods(mkind)...)
		name := fmt.Sprintf("methods%d", mkind)
		if withAuth {
			av, u, p, an := authFor(cfg, akind)
			b = append(b, v16Auth(av, u, p)...)
			name += "+auth:" + an
		}
		rq, _, _ := e.gen.request(ver, cmd, rsv, form, port)
		reqOff := len(b)
		b = append(b, rq...)
		b = append(b, payload...)
		name += fmt.Sprintf("+req(ver=%d,cmd=%d,form=%d,port=%d)", ver, cmd, form, port)
		return v16Script{name: name, b: b, reqOff: reqOff}
	}

	count := 0
	// 1. systematic part: every configuration x the main client behaviours
	for ci := range cmdSets {
		for ki := range credSets {
			cfg, h := get(ci, ki)
			if h == nil {
				continue
			}
			hasCreds := len(cfg.creds) > 0
			m := 0
			if hasCreds {
				m = 1
			}
			for _, cmd := range []byte{1, 2, 3} {
				run(ci, ki, build(cfg, m, 0, hasCreds, 5, cmd, 0, 0, tgt.port, "hello"))
				count++
			}
			// UDP ASSOCIATE announcing no address, as clients usually do: 0.0.0.0:0, [::]:0, and as a name
			for _, form := range []int{8, 10, 13} {
				run(ci, ki, build(cfg, m, 0, hasCreds, 5, 3, 0, form, 0, ""))
				count++
			}
			if hasCreds {
				for ak := 1; ak <= 7; ak++ {
					run(ci, ki, build(cfg, 1, ak, true, 5, 1, 0, 0, tgt.port, "hello"))
					count++
				}
				run(ci, ki, build(cfg, 0, 0, false, 5, 1, 0, 0, tgt.port, "")) // offers "no authentication" only
				run(ci, ki, build(cfg, 2, 0, false, 5, 1, 0, 0, tgt.port, "")) // offers both but skips the sub-negotiation
				count += 2
			} else {
				run(ci, ki, build(cfg, 1, 0, true, 5, 1, 0, 0, tgt.port, ""))  // offers user/pass only to an open server
				run(ci, ki, build(cfg, 3, 0, false, 5, 1, 0, 0, tgt.port, "")) // offers both
				count += 2
			}
		}
	}
	// 2. every command code against a few configurations, every address form
	for _, ck := range [][2]int{{0, 0}, {4, 1}, {1, 2}, {3, 6}} {
		cfg, h := get(ck[0], ck[1])
		if h == nil {
			continue
		}
		hasCreds := len(cfg.creds) > 0
		m := 0
		if hasCreds {
			m = 1
		}
		for cmd := 0; cmd < 256; cmd++ {
			if !vThorough() && cmd > 8 && cmd%16 != 15 && cmd != 128 && cmd != 129 {
				continue
			}
			run(ck[0], ck[1], build(cfg, m, 0, hasCreds, 5, byte(cmd), byte(r.Intn(2)*r.Intn(256)), r.Intn(2), tgt.port, "x"))
			count++
		}
		for form := 0; form < v16Forms; form++ {
			if form == 5 && e.slowDNS {
				continue
			}
			for _, cmd := range []byte{1, 3} {
				run(ck[0], ck[1], build(cfg, m, 0, hasCreds, 5, cmd, 0, form, tgt.port, "payload"))
				count++
			}
		}
		if closed != 0 {
			run(ck[0], ck[1], build(cfg, m, 0, hasCreds, 5, 1, 0, 0, closed, ""))
			run(ck[0], ck[1], build(cfg, m, 0, hasCreds, 5, 1, 0, 1, closed, ""))
			count += 2
		}
		for mk := 0; mk <= 9; mk++ {
			run(ck[0], ck[1], build(cfg, mk, 0, hasCreds, 5, 1, 0, 0, tgt.port, ""))
			count++
		}
		run(ck[0], ck[1], build(cfg, m, 0, hasCreds, 4, 1, 0, 0, tgt.port, "")) // request version 4
		count++
	}
	// 3. random part: truncation at every stage, mutations
	for count < n || count < 300 {
		ci, ki := r.Intn(len(cmdSets)), r.Intn(len(credSets))
		cfg, h := get(ci, ki)
		if h == nil {
			ci = r.Intn(7)
			cfg, h = get(ci, ki)
		}
		hasCreds := len(cfg.creds) > 0
		m := 0
		if hasCreds {
			m = 1
		}
		if r.Intn(4) == 0 {
			m = r.Intn(10)
		}
		withAuth := hasCreds
		if r.Intn(8) == 0 {
			withAuth = !withAuth
		}
		cmd := byte(1 + r.Intn(3))
		if r.Intn(5) == 0 {
			cmd = byte(r.Intn(256))
		}
		ver := byte(5)
		if r.Intn(12) == 0 {
			ver = byte(r.Intn(256))
		}
		form := r.Intn(v16Forms)
		if form == 5 && e.slowDNS {
			form = 2
		}
		port := tgt.port
		if closed != 0 && r.Intn(6) == 0 {
			port = closed
		}
		ak := 0
		if r.Intn(3) == 0 {
			ak = r.Intn(8)
		}
		sc := build(cfg, m, ak, withAuth, ver, cmd, byte(r.Intn(2)*255), form, port, []string{"", "hi", "0123456789"}[r.Intn(3)])
		switch r.Intn(3) {
		case 0: // truncate anywhere
			k := r.Intn(len(sc.b) + 1)
			sc.b = sc.b[:k]
			sc.name += fmt.Sprintf("|cut@%d", k)
		case 1: // flip one bit somewhere before the request's address type
			if lim := sc.reqOff + 3; lim > 0 && r.Intn(2) == 0 {
				k := r.Intn(lim)
				sc.b = append([]byte(nil), sc.b...)
				sc.b[k] ^= byte(1 << uint(r.Intn(8)))
				sc.name += fmt.Sprintf("|flip@%d", k)
			}
		}
		run(ci, ki, sc)
		count++
	}
	// 3b. the bytes of a configured user name and password cut at every other boundary (including an
	//     empty user name / an empty password), and names and passwords of two configured pairs
	//     glued together or swapped: none of these is a configured pair
	for ki := range credSets {
		cfg, h := get(1, ki)
		if h == nil || len(cfg.creds) == 0 {
			continue
		}
		type up struct{ u, p string }
		seen := map[up]bool{}
		var tries []up
		add := func(u, p string) {
			if len(u) > 255 || len(p) > 255 || seen[up{u, p}] {
				return
			}
			seen[up{u, p}] = true
			tries = append(tries, up{u, p})
		}
		for _, c := range cfg.creds {
			s := c.expK + c.expV
			for b := 0; b <= len(s); b++ {
				add(s[:b], s[b:])
			}
			// near misses of the pair itself: only the byte-exact pair may authenticate
			for _, v := range v16NearMisses(c.expV) {
				add(c.expK, v)
			}
			for _, v := range v16NearMisses(c.expK) {
				add(v, c.expV)
			}
			for _, d := range cfg.creds {
				if d != c {
					add(c.expK, d.expV)
					add(c.expK+c.expV, d.expK+d.expV)
					add(c.expK+d.expK, c.expV+d.expV)
					add(c.expK+c.expV+d.expK, d.expV)
				}
			}
		}
		for _, t := range tries {
			var b []byte
			b = append(b, e.gen.methods(1)...)
			b = append(b, v16Auth(1, t.u, t.p)...)
			reqOff := len(b)
			rq, _, _ := e.gen.request(5, 1, 0, 0, tgt.port)
			b = append(b, rq...)
			b = append(b, "hello"...)
			run(1, ki, v16Script{name: fmt.Sprintf("methods1+auth:resplit(%q,%q)+req(ver=5,cmd=1,form=0,port=%d)", t.u, t.p, tgt.port), b: b, reqOff: reqOff})
			count++
		}
	}
	// 3c. UDP ASSOCIATE, every class of announced endpoint x datagram sources (the probes): nothing
	//     announced with port 0 / with a port (IPv4, IPv6, IPv4-mapped, empty name, the name
	//     "0.0.0.0"), the client's own address with port 0 / with a port (literal and by name), the
	//     IPv6 loopback, a foreign concrete address
	{
		p := closed
		if p == 0 {
			p = tgt.port
		}
		pb := []byte{byte(p >> 8), byte(p)}
		type ep struct {
			name string
			atyp byte
			addr []byte
			port []byte
		}
		nameAddr := func(n string) []byte { return append([]byte{byte(len(n))}, n...) }
		eps := []ep{
			{"0.0.0.0:0", 1, net.IPv4zero.To4(), []byte{0, 0}},
			{"0.0.0.0:p", 1, net.IPv4zero.To4(), pb},
			{"[::]:0", 4, net.IPv6unspecified, []byte{0, 0}},
			{"[::]:p", 4, net.IPv6unspecified, pb},
			{"[::ffff:0.0.0.0]:p", 4, net.IPv4zero.To16(), pb},
			{"empty name:0", 3, nameAddr(""), []byte{0, 0}},
			{"empty name:p", 3, nameAddr(""), pb},
			{"name 0.0.0.0:p", 3, nameAddr("0.0.0.0"), pb},
			{"name :::p", 3, nameAddr("::"), pb},
			{"127.0.0.1:0", 1, net.IPv4(127, 0, 0, 1).To4(), []byte{0, 0}},
			{"127.0.0.1:p", 1, net.IPv4(127, 0, 0, 1).To4(), pb},
			{"localhost:p", 3, nameAddr("localhost"), pb},
			{"[::1]:p", 4, net.IPv6loopback, pb},
			{"10.1.2.3:p (foreign)", 1, net.IPv4(10, 1, 2, 3).To4(), pb},
			{"10.1.2.3:0 (foreign)", 1, net.IPv4(10, 1, 2, 3).To4(), []byte{0, 0}},
		}
		for _, ck := range [][2]int{{4, 1}, {3, 6}, {0, 0}} {
			cfg, h := get(ck[0], ck[1])
			if h == nil {
				continue
			}
			hasCreds := len(cfg.creds) > 0
			for _, x := range eps {
				var b []byte
				name := "methods0"
				if hasCreds {
					b = append(b, e.gen.methods(1)...)
					_, u, pw, _ := authFor(cfg, 0)
					b = append(b, v16Auth(1, u, pw)...)
					name = "methods1+auth:valid"
				} else {
					b = append(b, e.gen.methods(0)...)
				}
				reqOff := len(b)
				b = append(b, 5, 3, 0, x.atyp)
				b = append(b, x.addr...)
				b = append(b, x.port...)
				run(ck[0], ck[1], v16Script{name: name + "+associate(" + x.name + ")", b: b, reqOff: reqOff})
				count++
			}
		}
	}
	// 4. the address the client connection reports: UDP ASSOCIATE announcing no address (three ways)
	//    and an explicit one, from clients with a zoned link-local address, an IPv4-mapped address,
	//    a non-TCP net.Addr, ... A real datagram cannot come from most of these addresses here, so
	//    datagrams from this machine's addresses stand for third parties.
	for _, cl := range v16Clients()[1:] {
		e.client = cl
		for _, ck := range [][2]int{{4, 1}, {3, 6}, {0, 0}} {
			cfg, h := get(ck[0], ck[1])
			if h == nil {
				continue
			}
			hasCreds := len(cfg.creds) > 0
			m := 0
			if hasCreds {
				m = 1
			}
			for _, form := range []int{8, 10, 13, 0} {
				run(ck[0], ck[1], build(cfg, m, 0, hasCreds, 5, 3, 0, form, tgt.port, ""))
				count++
			}
			run(ck[0], ck[1], build(cfg, m, 0, hasCreds, 5, 1, 0, 0, tgt.port, "hello"))
			count++
		}
	}
	e.client = v16Clients()[0]
	// 5. the pinning decision itself, white-box: the handler's rewriter called with every client
	//    address x command x announced address
	v16PinCases(out)
	out.Stat("sessions", count)
	out.Stat("udp_relays_confirmed", e.relays)
}

// strings that differ slightly from x: trailing / leading NULs, trailing space, one byte shorter or
// longer, case flipped, empty, all-NUL of the same length (and of length 1, 255), padded to the
// 255-byte maximum, bytes >= 0x80
func v16NearMisses(x string) []string {
	flip := []byte(x)
	for i, c := range flip {
		switch {
		case c >= 'a' && c <= 'z':
			flip[i] = c - 32
		case c >= 'A' && c <= 'Z':
			flip[i] = c + 32
		}
	}
	high := []byte(x)
	if len(high) > 0 {
		high[len(high)-1] |= 0x80
	}
	pad := func(c byte) string {
		if len(x) >= 255 {
			return x
		}
		return x + strings.Repeat(string([]byte{c}), 255-len(x))
	}
	r := []string{
		x + "\x00", x + "\x00\x00", x + strings.Repeat("\x00", 7), "\x00" + x, x + " ", " " + x, x + "\n",
		x + "x", x + "\x80", x + "\xff", string(flip), string(high), "",
		strings.Repeat("\x00", len(x)), "\x00", strings.Repeat("\x00", 255), pad(0), pad(' '), pad(0xff),
		strings.ToUpper(x), x + x,
	}
	if len(x) > 0 {
		r = append(r, x[:len(x)-1], x[1:], x[:len(x)-1]+"\x00", string(append([]byte(x[:len(x)-1]), x[len(x)-1]^1)))
	}
	return r
}

func v16Quote(p *[2]string) string {
	if p == nil {
		return "nothing"
	}
	return fmt.Sprintf("user %q password %q", p[0], p[1])
}

func v16PinCases(out *vOut) {
	announced := []net.IP{
		net.IPv4zero.To4(), net.IPv4zero.To16(), net.IPv6unspecified, nil, {},
		net.IPv4(127, 0, 0, 1).To4(), net.IPv4(127, 0, 0, 1).To16(), net.IPv6loopback, net.IPv4(10, 1, 2, 3).To4(), net.ParseIP("fe80::9"),
	}
	for _, cl := range v16Clients() {
		for _, cmd := range []byte{1, 2, 3, 4} {
			for _, ann := range announced {
				for _, port := range []int{0, 4242} {
					atyp := statute.ATYPIPv4
					if len(ann) == 16 && ann.To4() == nil {
						atyp = statute.ATYPIPv6
					}
					req := &socks5.Request{
						Request:     statute.Request{Version: 5, Command: cmd},
						RemoteAddr:  cl.addr,
						RawDestAddr: &statute.AddrSpec{IP: ann, Port: port, AddrType: atyp},
					}
					var got net.IP
					func() {
						defer func() {
							if r := recover(); r != nil {
								in := map[string]any{"rewriter": true, "client_address": cl.name + " " + cl.addr.String(), "command": cmd, "announced": ann.String()}
								out.Fail("C16:handler:panic", fmt.Sprint(r), in)
								out.Fail("C04:socks5-handler:panic", fmt.Sprint(r), in)
							}
						}()
						_, spec := associateSourceRewriter{}.Rewrite(context.Background(), req)
						if spec != nil {
							got = spec.IP
						}
					}()
					input := map[string]any{"client_address": cl.name + " " + cl.addr.String(), "command": cmd, "announced": ann.String(), "announced_port": port}
					unannounced := len(ann) == 0 || ann.IsUnspecified()
					cip := cl.ip()
					known := len(cip) != 0 && !cip.IsUnspecified()
					if cmd == 3 && unannounced && known && !got.Equal(cip) {
						out.Fail("C16:auth:udp-relay-not-pinned-to-client", fmt.Sprintf("UDP ASSOCIATE announcing %v port %d from the client at %v: the relay's source check is given %v instead of the client's IP (every source is accepted when it is unspecified)", ann, port, cl.addr, got), input)
					}
					if (cmd != 3 || !unannounced) && !got.Equal(ann) && !(len(got) == 0 && len(ann) == 0) {
						out.Fail("C16:command:destination-rewritten", fmt.Sprintf("command %d for %v: the library is given %v", cmd, ann, got), input)
					}
					out.Case(fmt.Sprintf("CPin %s %d %s %s", cl.coq(), cmd, cHex(ann), cHex(got)), "pin:"+cl.name, cmd == 3 && unannounced, input)
				}
			}
		}
	}
}
