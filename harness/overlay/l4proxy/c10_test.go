package l4proxy

// C10 engine: selection policies. White-box (package l4proxy) so that peer state, the robin
// counter and availability predicates can be set and read directly.
//
// For every generated pool state and policy it records a correspondence case (Coq term holding
// the pool, the oracle values and the implementation's answer) and evaluates the property text
// directly on the implementation's answer (vC10Oracle).

import (
	"fmt"
	weakrand "math/rand"
	"net"
	"strings"
	"testing"
	"time"

	"go.uber.org/zap"

	"github.com/mholt/caddy-l4/layer4"
)

type vPeerSt struct{ conns, unhealthy, fails int32 }
type vUpSt struct {
	peers    []vPeerSt
	maxConns int
	maxFails int // 0: none
	nilPol   bool
	name     string
}

func (s vUpSt) build() *Upstream {
	u := &Upstream{Dial: []string{s.name}, MaxConnections: s.maxConns}
	for _, p := range s.peers {
		u.peers = append(u.peers, &peer{numConns: p.conns, unhealthy: p.unhealthy, fails: p.fails})
	}
	if !s.nilPol {
		u.healthCheckPolicy = &PassiveHealthChecks{MaxFails: s.maxFails}
	}
	return u
}

func (s vUpSt) coq() string {
	ps := make([]string, len(s.peers))
	for i, p := range s.peers {
		ps[i] = fmt.Sprintf("(%s,%s,%s)", cZ(int64(p.conns)), cZ(int64(p.unhealthy)), cZ(int64(p.fails)))
	}
	mf := s.maxFails
	if s.nilPol {
		mf = 0
	}
	return fmt.Sprintf("U [%s] %s %s %s", strings.Join(ps, ";"), cZ(int64(s.maxConns)), cZ(int64(mf)), cHex([]byte(s.name)))
}

// the property text's notion of "available": healthy, below its failure and connection limits
func (s vUpSt) specAvail() bool {
	for _, p := range s.peers {
		if p.unhealthy != 0 {
			return false
		}
		if !s.nilPol && s.maxFails > 0 && int(p.fails) >= s.maxFails {
			return false
		}
		if s.maxConns != 0 && int(p.conns) >= s.maxConns {
			return false
		}
	}
	return true
}

func (s vUpSt) total() int {
	t := 0
	for _, p := range s.peers {
		t += int(p.conns)
	}
	return t
}

func vPoolCoq(ps []vUpSt) string {
	ss := make([]string, len(ps))
	for i, p := range ps {
		ss[i] = p.coq()
	}
	return "[" + strings.Join(ss, "; ") + "]"
}

func vBuildPool(ps []vUpSt) UpstreamPool {
	pool := make(UpstreamPool, len(ps))
	for i, p := range ps {
		pool[i] = p.build()
	}
	return pool
}

// kinds used by the exhaustive enumeration
func vKind(k int, idx int) vUpSt {
	name := fmt.Sprintf("10.0.0.%d:80", idx+1)
	switch k {
	case 0: // idle
		return vUpSt{peers: []vPeerSt{{0, 0, 0}}, name: name, nilPol: true}
	case 1: // busy 1, limit 3
		return vUpSt{peers: []vPeerSt{{1, 0, 0}}, maxConns: 3, maxFails: 2, name: name}
	case 2: // busy 2, no limit
		return vUpSt{peers: []vPeerSt{{2, 0, 1}}, maxFails: 2, name: name}
	case 3: // unhealthy (active check)
		return vUpSt{peers: []vPeerSt{{0, 1, 0}}, name: name, nilPol: true}
	case 4: // failed (passive)
		return vUpSt{peers: []vPeerSt{{1, 0, 2}}, maxFails: 2, name: name}
	case 5: // full
		return vUpSt{peers: []vPeerSt{{2, 0, 0}}, maxConns: 2, name: name, nilPol: true}
	case 6: // two peers, both fine
		return vUpSt{peers: []vPeerSt{{1, 0, 0}, {0, 0, 1}}, maxConns: 4, maxFails: 3, name: name}
	case 7: // two peers, second one full
		return vUpSt{peers: []vPeerSt{{0, 0, 0}, {3, 0, 0}}, maxConns: 3, name: name, nilPol: true}
	case 8: // two peers, second one unhealthy
		return vUpSt{peers: []vPeerSt{{0, 0, 0}, {0, 1, 0}}, name: name, nilPol: true}
	default: // two peers, second one passively failed (fails == max_fails exactly)
		return vUpSt{peers: []vPeerSt{{0, 0, 0}, {1, 0, 3}}, maxFails: 3, name: name}
	}
}

func vRandUp(r *vRng, idx int) vUpSt {
	np := 1 + r.Intn(3)
	if r.Intn(3) != 0 {
		np = 1
	}
	s := vUpSt{name: fmt.Sprintf("up%d.example:%d", idx, 1000+r.Intn(5)), nilPol: r.Intn(3) == 0}
	if r.Intn(2) == 0 {
		s.maxConns = 1 + r.Intn(4)
	}
	if !s.nilPol && r.Intn(3) != 0 {
		s.maxFails = 1 + r.Intn(3)
	}
	for i := 0; i < np; i++ {
		p := vPeerSt{}
		if r.Intn(2) == 0 {
			p.conns = int32(r.Intn(5))
		}
		if r.Intn(6) == 0 {
			p.unhealthy = 1
		}
		if r.Intn(3) == 0 {
			p.fails = int32(r.Intn(4))
		}
		s.peers = append(s.peers, p)
	}
	return s
}

type vAddr string

func (a vAddr) Network() string { return "tcp" }
func (a vAddr) String() string  { return string(a) }

type vFakeConn struct{ remote net.Addr }

func (c vFakeConn) Read([]byte) (int, error)         { return 0, fmt.Errorf("closed") }
func (c vFakeConn) Write(b []byte) (int, error)      { return len(b), nil }
func (c vFakeConn) Close() error                     { return nil }
func (c vFakeConn) LocalAddr() net.Addr              { return vAddr("127.0.0.1:1") }
func (c vFakeConn) RemoteAddr() net.Addr             { return c.remote }
func (c vFakeConn) SetDeadline(time.Time) error      { return nil }
func (c vFakeConn) SetReadDeadline(time.Time) error  { return nil }
func (c vFakeConn) SetWriteDeadline(time.Time) error { return nil }

func vCx(remote string) *layer4.Connection {
	return layer4.WrapConnection(vFakeConn{remote: vAddr(remote)}, nil, zap.NewNop())
}

// result of one Select call: index into pool, -1 = nil, -2 = panic, -3 = pointer not in pool
func vSelect(sel Selector, pool UpstreamPool, cx *layer4.Connection) (res int, pmsg string) {
	defer func() {
		if r := recover(); r != nil {
			res, pmsg = -2, fmt.Sprint(r)
		}
	}()
	u := sel.Select(pool, cx)
	if u == nil {
		return -1, ""
	}
	for i, p := range pool {
		if p == u {
			return i, ""
		}
	}
	return -3, ""
}

func vSelCoq(r int) string {
	switch {
	case r >= 0:
		return fmt.Sprintf("(Sel %d)", r)
	case r == -1:
		return "Nil"
	default:
		return "Panic"
	}
}

type vC10 struct {
	out          *vOut
	rng          *vRng
	n            int
	extraRemotes []string
}

// direct property oracle on the implementation's answer
func (e *vC10) oracle(policy string, ps []vUpSt, res int, pmsg string, extra map[string]any) {
	anyAvail := false
	for _, p := range ps {
		if p.specAvail() {
			anyAvail = true
		}
	}
	in := map[string]any{"policy": policy, "pool": vPoolCoq(ps), "result": res}
	for k, v := range extra {
		in[k] = v
	}
	switch {
	case res == -2:
		e.out.Fail("C10:"+policy+":panic", "Select panicked: "+pmsg, in)
	case res == -3:
		e.out.Fail("C10:"+policy+":foreign-upstream", "Select returned an upstream that is not in the pool", in)
	case res == -1 && anyAvail:
		e.out.Fail("C10:"+policy+":nil-with-available", "Select returned nil although an available upstream exists", in)
	case res >= 0 && !ps[res].specAvail():
		e.out.Fail("C10:"+policy+":unavailable-selected", "Select returned an unavailable upstream", in)
	}
}

func (e *vC10) availCases(ps []vUpSt) {
	for _, s := range ps {
		u := s.build()
		h, f, a, t := u.healthy(), u.full(), u.available(), u.totalConns()
		e.out.Case(fmt.Sprintf("CAvail (%s) %s %s %s %s", s.coq(), cBool(h), cBool(f), cBool(a), cZ(int64(t))),
			"avail", len(s.peers) > 1 || s.maxConns > 0 || s.maxFails > 0, nil)
		if a != s.specAvail() {
			e.out.Fail("C10:available:mismatch", fmt.Sprintf("available()=%v but spec says %v", a, s.specAvail()), map[string]any{"upstream": s.coq()})
		}
		if t != s.total() {
			e.out.Fail("C10:totalConns:mismatch", fmt.Sprintf("totalConns()=%d but peers sum to %d", t, s.total()), map[string]any{"upstream": s.coq()})
		}
	}
}

func vNontrivial(ps []vUpSt) bool {
	a, u := false, false
	for _, p := range ps {
		if p.specAvail() {
			a = true
		} else {
			u = true
		}
	}
	return a && u
}

func (e *vC10) runPool(ps []vUpSt, seed int64) {
	pc := vPoolCoq(ps)
	nt := vNontrivial(ps)
	cls := func(p string) string { return fmt.Sprintf("%s/size%d", p, len(ps)) }

	// first
	{
		pool := vBuildPool(ps)
		r, pm := vSelect(&FirstSelection{}, pool, vCx("192.0.2.1:1"))
		e.out.Case(fmt.Sprintf("CFirst %s %s", pc, vSelCoq(r)), cls("first"), nt, nil)
		e.oracle("first", ps, r, pm, nil)
		if r >= 0 {
			for j := 0; j < r; j++ {
				if ps[j].specAvail() {
					e.out.Fail("C10:first:not-earliest", "first skipped an earlier available upstream", map[string]any{"pool": pc, "result": r, "earlier": j})
				}
			}
		}
	}
	// random
	{
		pool := vBuildPool(ps)
		weakrand.Seed(seed)
		ints := make([]int64, 12)
		for i := range ints {
			ints[i] = int64(weakrand.Int())
		}
		weakrand.Seed(seed)
		r, pm := vSelect(&RandomSelection{}, pool, vCx("192.0.2.1:1"))
		e.out.Case(fmt.Sprintf("CRandom %s %s %s", pc, cZList(ints), vSelCoq(r)), cls("random"), nt, nil)
		e.oracle("random", ps, r, pm, map[string]any{"seed": seed})
	}
	// least_conn
	{
		pool := vBuildPool(ps)
		weakrand.Seed(seed + 1)
		ints := make([]int64, 12)
		for i := range ints {
			ints[i] = int64(weakrand.Int())
		}
		weakrand.Seed(seed + 1)
		r, pm := vSelect(&LeastConnSelection{}, pool, vCx("192.0.2.1:1"))
		e.out.Case(fmt.Sprintf("CLeast %s %s %s", pc, cZList(ints), vSelCoq(r)), cls("least_conn"), nt, nil)
		e.oracle("least_conn", ps, r, pm, map[string]any{"seed": seed + 1})
		if r >= 0 {
			for j, p := range ps {
				if p.specAvail() && p.total() < ps[r].total() {
					e.out.Fail("C10:least_conn:not-minimal", "least_conn chose an upstream with more connections than another available one",
						map[string]any{"pool": pc, "result": r, "better": j})
				}
			}
		}
	}
	// round_robin: a sequence of selections from a random starting counter
	{
		pool := vBuildPool(ps)
		start := uint32(e.rng.U64())
		if len(ps) > 0 && e.rng.Intn(4) == 0 {
			start = uint32(0xFFFFFFFF - uint32(e.rng.Intn(2*len(ps)+1))) // near the wrap
		}
		rr := &RoundRobinSelection{robin: start}
		navail := 0
		for _, p := range ps {
			if p.specAvail() {
				navail++
			}
		}
		steps := navail
		if steps == 0 {
			steps = 1
		}
		var visited []int
		wraps := false
		for s := 0; s < steps; s++ {
			before := rr.robin
			r, pm := vSelect(rr, pool, vCx("192.0.2.1:1"))
			after := rr.robin
			if uint64(before)+uint64(len(ps)) >= 1<<32 {
				wraps = true
			}
			e.out.Case(fmt.Sprintf("CRR %s %d %s %d", pc, before, vSelCoq(r), after), cls("round_robin"), nt, nil)
			if wraps && (r == -1) {
				// the recorded uint32-wrap finding: reported under its own key
				anyAvail := navail > 0
				if anyAvail {
					e.out.Fail("C10:round_robin:wrap-nil-with-available", "round_robin returned nil across the uint32 wrap although an upstream is available",
						map[string]any{"pool": pc, "robin": before})
				}
			} else {
				e.oracle("round_robin", ps, r, pm, map[string]any{"robin": before})
			}
			visited = append(visited, r)
		}
		if navail > 0 {
			seen := map[int]int{}
			for _, v := range visited {
				seen[v]++
			}
			bad := false
			for i, p := range ps {
				if p.specAvail() && seen[i] != 1 {
					bad = true
				}
			}
			if bad {
				key := "C10:round_robin:cycle-not-once"
				if wraps {
					key = "C10:round_robin:wrap-cycle-not-once"
				}
				e.out.Fail(key, "k consecutive round_robin selections did not visit each of the k available upstreams exactly once",
					map[string]any{"pool": pc, "robin": start, "visited": visited})
			}
		}
	}
	// ip_hash
	for _, remote := range append([]string{"192.0.2.7:1234", "[2001:db8::1]:99", fmt.Sprintf("198.51.100.%d:%d", e.rng.Intn(256), e.rng.Intn(65536))}, e.extraRemotes...) {
		pool := vBuildPool(ps)
		ip, _, err := net.SplitHostPort(remote)
		if err != nil {
			ip = remote
		}
		r, pm := vSelect(&IPHashSelection{}, pool, vCx(remote))
		e.out.Case(fmt.Sprintf("CIpHash %s %s %s", pc, cHex([]byte(ip)), vSelCoq(r)), cls("ip_hash"), nt, nil)
		e.oracle("ip_hash", ps, r, pm, map[string]any{"remote": remote})
		// deterministic in the client IP (another port, a second call)
		r2, _ := vSelect(&IPHashSelection{}, vBuildPool(ps), vCx(net.JoinHostPort(ip, "4242")))
		if r2 != r {
			e.out.Fail("C10:ip_hash:not-deterministic", "ip_hash gave different answers for the same client IP", map[string]any{"pool": pc, "remote": remote, "r1": r, "r2": r2})
		}
		// stable when other upstreams leave
		if r >= 0 && len(ps) > 1 {
			var sub []vUpSt
			newIdx := -1
			for i, p := range ps {
				if i == r {
					newIdx = len(sub)
					sub = append(sub, p)
				} else if e.rng.Bool() {
					sub = append(sub, p)
				}
			}
			r3, _ := vSelect(&IPHashSelection{}, vBuildPool(sub), vCx(remote))
			if r3 != newIdx {
				e.out.Fail("C10:ip_hash:not-stable-under-removal", "ip_hash changed a client's upstream when other upstreams were removed",
					map[string]any{"pool": pc, "sub": vPoolCoq(sub), "remote": remote, "before": r, "after": r3})
			}
		}
	}
	// random_choose
	for _, choose := range []int{2, 3} {
		pool := vBuildPool(ps)
		k := choose
		if k > len(ps) {
			k = len(ps)
		}
		navail := 0
		for _, u := range pool {
			if u.available() {
				navail++
			}
		}
		s := seed + 7 + int64(choose)
		replay := func() []int64 {
			weakrand.Seed(s)
			var d []int64
			for n := k + 1; n <= navail; n++ {
				d = append(d, int64(weakrand.Intn(n)))
			}
			return d
		}
		draws := replay()
		final := make([]int64, 0, k)
		for m := 1; m <= k; m++ {
			replay()
			final = append(final, int64(weakrand.Intn(m)))
		}
		weakrand.Seed(s)
		r, pm := vSelect(&RandomChoiceSelection{Choose: choose}, pool, vCx("192.0.2.1:1"))
		e.out.Case(fmt.Sprintf("CRChoose %d %s %s %s %s", choose, pc, cZList(draws), cZList(final), vSelCoq(r)), cls("random_choose"), nt, nil)
		e.oracle("random_choose", ps, r, pm, map[string]any{"choose": choose, "seed": s})
	}
}

func TestVerifC10(t *testing.T) {
	out := vOpen()
	defer out.Close()
	e := &vC10{out: out, rng: vNewRng(vSeed())}

	// corpus: pools that failed in the past (always first)
	corpus := [][]vUpSt{
		{vKind(3, 0), vKind(0, 1)},                         // [down, up]: random_choose nil dereference
		{vKind(2, 0), vKind(1, 1)},                         // all busy: leastConns returned nil
		{vKind(3, 0), vKind(3, 1), vKind(0, 2)},            // [down, down, up]
		{vKind(5, 0), vKind(4, 1), vKind(2, 2), vKind(1, 3)}, // full, failed, busy, busy
	}
	// FNV-1a("10.0.0.1:80" + ip) == 0 for these client addresses: the only available upstream hashes to zero
	e.extraRemotes = []string{"[2001:db8::1001:d14c:cd74]:443", "[2001:db8::1001:f756:46b6]:443"}
	e.runPool([]vUpSt{vKind(0, 0)}, 990)
	e.runPool([]vUpSt{vKind(0, 0), vKind(3, 1)}, 991)
	e.extraRemotes = nil
	for i, ps := range corpus {
		for s := int64(0); s < 6; s++ {
			e.runPool(ps, 1000+int64(i)*10+s)
		}
		e.availCases(ps)
	}

	// exhaustive: all pools up to maxSize over 8 kinds of upstream state
	maxSize := 3
	if vThorough() {
		maxSize = 4
	}
	nk := 10
	count := 0
	for size := 0; size <= maxSize; size++ {
		total := 1
		for i := 0; i < size; i++ {
			total *= nk
		}
		for code := 0; code < total; code++ {
			ps := make([]vUpSt, size)
			c := code
			for i := 0; i < size; i++ {
				ps[i] = vKind(c%nk, i)
				c /= nk
			}
			e.runPool(ps, vSeed()*7919+int64(count))
			count++
		}
	}
	for k := 0; k < nk; k++ {
		e.availCases([]vUpSt{vKind(k, k)})
	}
	out.Stat("exhaustive_pools", count)

	// random larger pools
	n := vN(300)
	for i := 0; i < n; i++ {
		size := 1 + e.rng.Intn(8)
		ps := make([]vUpSt, size)
		for j := range ps {
			ps[j] = vRandUp(e.rng, j)
		}
		e.runPool(ps, int64(e.rng.U64()>>1))
		e.availCases(ps)
	}
	out.Stat("random_pools", n)
}
