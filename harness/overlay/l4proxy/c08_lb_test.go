package l4proxy

// C08 engine (load-balancer state shared between connections): the real l4proxy Handler,
// provisioned from JSON with two or three upstreams on unix sockets, passive health checks and
// lb_try_duration > 0, driven by many connections through Handler.Handle while one upstream is
// down for a while and then comes back.  White-box only to look at h.Upstreams.
//
//   * the pool the handler was provisioned with is configuration: after any number of connections,
//     failed dials and retries, h.Upstreams must hold the same *Upstream values in the same order
//     (key C08:lb:upstream-pool-mutated);
//   * with the `first` policy a connection's upstream is a function of which upstreams are
//     available at that moment, not of what happened to earlier connections: once the first
//     upstream is back (and its failure window has passed) connections reach it again; while it is
//     down they reach the next one (key C08:verdict:depends-on-other-connections);
//   * every connection that is served reaches an upstream of the configured pool, and only one.
//
// In the thorough tier the driver builds this test with -race; the workload never uses two peers
// per upstream or the openvpn matcher, so the two recorded races are not in its way.

import (
	"context"
	"encoding/json"
	"fmt"
	"io"
	"net"
	"os"
	"path/filepath"
	"runtime"
	"sync"
	"testing"
	"time"

	"github.com/caddyserver/caddy/v2"
	"go.uber.org/zap"

	"github.com/mholt/caddy-l4/layer4"
)

// an upstream that answers every connection with its name byte and echoes nothing else
type vLbUp struct {
	name byte
	path string
	ln   net.Listener
	mu   sync.Mutex
}

func (u *vLbUp) start() error {
	u.mu.Lock()
	defer u.mu.Unlock()
	if u.ln != nil {
		return nil
	}
	_ = os.Remove(u.path)
	ln, err := net.Listen("unix", u.path)
	if err != nil {
		return err
	}
	u.ln = ln
	go func() {
		for {
			c, err := ln.Accept()
			if err != nil {
				return
			}
			go func(c net.Conn) {
				defer c.Close()
				_, _ = c.Write([]byte{u.name})
				_ = c.SetReadDeadline(time.Now().Add(3 * time.Second))
				_, _ = io.Copy(io.Discard, c)
			}(c)
		}
	}()
	return nil
}

func (u *vLbUp) stop() {
	u.mu.Lock()
	defer u.mu.Unlock()
	if u.ln != nil {
		_ = u.ln.Close()
		u.ln = nil
	}
	_ = os.Remove(u.path)
}

// one client connection through the handler; returns the name byte of the upstream that served it (0: none)
func vLbConnect(h *Handler) byte {
	cl, sv := net.Pipe()
	done := make(chan struct{})
	go func() {
		defer close(done)
		cx := layer4.WrapConnection(sv, []byte{}, zap.NewNop())
		_ = h.Handle(cx, nil)
		_ = sv.Close()
	}()
	_ = cl.SetReadDeadline(time.Now().Add(3 * time.Second))
	b := make([]byte, 1)
	n, _ := cl.Read(b)
	_ = cl.Close()
	<-done
	if n == 1 {
		return b[0]
	}
	return 0
}

func vLbRound(t *testing.T, out *vOut, procs, nups, perPhase int, policy string) (served, wrong int, mutated bool) {
	old := runtime.GOMAXPROCS(procs)
	defer runtime.GOMAXPROCS(old)
	dir, err := os.MkdirTemp("", "verif-c08-lb")
	if err != nil {
		t.Fatal(err)
	}
	defer os.RemoveAll(dir)
	var ups []*vLbUp
	var upsJSON []any
	for i := 0; i < nups; i++ {
		u := &vLbUp{name: byte('A' + i), path: filepath.Join(dir, fmt.Sprintf("u%d.sock", i))}
		ups = append(ups, u)
		upsJSON = append(upsJSON, map[string]any{"dial": []string{"unix/" + u.path}})
	}
	cfg := map[string]any{
		"upstreams":      upsJSON,
		"load_balancing": map[string]any{"selection": map[string]any{"policy": policy}, "try_duration": "400ms", "try_interval": "5ms"},
		"health_checks":  map[string]any{"passive": map[string]any{"fail_duration": "150ms", "max_fails": 1}},
	}
	cj, _ := json.Marshal(cfg)
	h := new(Handler)
	if err := json.Unmarshal(cj, h); err != nil {
		t.Fatal(err)
	}
	ctx, cancel := caddy.NewContext(caddy.Context{Context: context.Background()})
	defer cancel()
	if err := h.Provision(ctx); err != nil {
		t.Fatal(err)
	}
	provisioned := append(UpstreamPool(nil), h.Upstreams...)
	in := func(extra map[string]any) map[string]any {
		m := map[string]any{"gomaxprocs": procs, "upstreams": nups, "policy": policy, "connections_per_phase": perPhase,
			"config": "passive health checks fail_duration 150ms max_fails 1, try_duration 400ms, try_interval 5ms"}
		for k, v := range extra {
			m[k] = v
		}
		return m
	}
	failVerdict := func(phase string, got byte, want string) {
		wrong++
		if wrong == 1 {
			g := "no upstream"
			if got != 0 {
				g = "upstream " + string(got)
			}
			out.Fail("C08:verdict:depends-on-other-connections",
				fmt.Sprintf("%s: a connection was served by %s; with the upstreams available at that moment the %s policy selects %s", phase, g, policy, want),
				in(map[string]any{"phase": phase}))
		}
	}
	run := func(phase string, allowed string, mustSee string) {
		var wg sync.WaitGroup
		res := make([]byte, perPhase)
		for i := 0; i < perPhase; i++ {
			wg.Add(1)
			go func(i int) { defer wg.Done(); res[i] = vLbConnect(h) }(i)
			if i%4 == 3 {
				time.Sleep(time.Millisecond)
			}
		}
		wg.Wait()
		seen := map[byte]bool{}
		for _, b := range res {
			if b != 0 {
				served++
				seen[b] = true
			}
			ok := false
			for _, a := range []byte(allowed) {
				if a == b {
					ok = true
				}
			}
			if !ok {
				failVerdict(phase, b, "one of "+allowed)
			}
		}
		for _, m := range []byte(mustSee) {
			if !seen[m] {
				failVerdict(phase, 0, "upstream "+string(m)+" for at least one of these connections")
			}
		}
	}
	for _, u := range ups[1:] {
		if err := u.start(); err != nil {
			t.Fatal(err)
		}
	}
	defer func() {
		for _, u := range ups {
			u.stop()
		}
	}()
	rest := ""
	for _, u := range ups[1:] {
		rest += string(u.name)
	}
	// phase 1: the first upstream is down: every connection is served by one of the others
	if policy == "first" {
		run("first upstream down", rest[:1], rest[:1])
	} else {
		run("first upstream down", rest, "")
	}
	// phase 2: it comes back; once its failure window has passed the pool is as provisioned
	if err := ups[0].start(); err != nil {
		t.Fatal(err)
	}
	time.Sleep(250 * time.Millisecond)
	if policy == "first" {
		run("all upstreams up again", "A", "A")
	} else {
		all := "A" + rest
		run("all upstreams up again", all, all)
	}
	// the configured pool itself
	if len(h.Upstreams) != len(provisioned) {
		mutated = true
	} else {
		for i := range provisioned {
			if h.Upstreams[i] != provisioned[i] {
				mutated = true
			}
		}
	}
	if mutated {
		var now []string
		for _, u := range h.Upstreams {
			now = append(now, fmt.Sprint(u.Dial))
		}
		out.Fail("C08:lb:upstream-pool-mutated", fmt.Sprintf("after the run the handler's upstream pool is %v: serving connections changed the configured pool that all connections share", now), in(nil))
	}
	return
}

func TestVerifC08LB(t *testing.T) {
	out := vOpen()
	defer out.Close()
	type cfg struct {
		procs, nups, per int
		policy           string
	}
	cfgs := []cfg{{1, 2, 12, "first"}, {4, 2, 24, "first"}, {4, 3, 24, "round_robin"}}
	if vThorough() {
		cfgs = append(cfgs, cfg{16, 3, 64, "first"}, cfg{16, 2, 64, "random"}, cfg{1, 3, 32, "least_conn"})
	}
	for _, c := range cfgs {
		served, wrong, mutated := vLbRound(t, out, c.procs, c.nups, c.per, c.policy)
		bad := wrong
		if mutated {
			bad++
		}
		out.Case(fmt.Sprintf("CStress \"verdict\" %d %d %d %d", c.procs, 2*c.per, served, bad), fmt.Sprintf("lb/%s/procs=%d/ups=%d", c.policy, c.procs, c.nups), true, nil)
		out.Stat(fmt.Sprintf("lb.%s.p%d", c.policy, c.procs), map[string]any{"served": served, "wrong": wrong, "pool_mutated": mutated})
		if served == 0 {
			out.Fail("C08:lb:served-nobody", "no connection was proxied, the scenario exercises nothing", map[string]any{"policy": c.policy})
		}
	}
}
