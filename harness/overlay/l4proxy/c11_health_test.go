package l4proxy

// C11 engine: health accounting, retries, limits. White-box (package l4proxy): the real Handler
// is provisioned against loopback upstream listeners that can be switched between refusing and
// accepting; Handle is called on one end of a net.Pipe; a recording Selector notes when each
// attempt starts and which upstream it got; peer counters are read directly at instants that are
// at least 45 ms away from every event and from every expiry of a remembered failure.
//
// Events (times in ms since the start of the scenario): DialFail p (an attempt whose dial of peer
// p was refused), Open u / Close u (a proxied connection to upstream u starts / Handle returned),
// Probe p ok (doActiveHealthCheck).

import (
	"context"
	"fmt"
	"io"
	"net"
	"sort"
	"strconv"
	"strings"
	"sync"
	"sync/atomic"
	"testing"
	"time"

	"github.com/caddyserver/caddy/v2"
	"go.uber.org/zap"

	"github.com/mholt/caddy-l4/layer4"
)

// ---- switchable upstream listener ----
type vSwL struct {
	mu     sync.Mutex
	addr   string
	ln     net.Listener
	open   map[net.Conn]bool // accepted, not yet ended
	total  int
	closed bool
}

// peers are kept in a process-wide table keyed by dial address; a port freed by a refusing (closed)
// listener can be handed out again by the kernel, so every peer of every scenario gets a loopback
// address of its own (127.x.y.z) and no two scenarios ever share a peer by accident
var vHAddrSeq int32

func vHNextIP() string {
	n := atomic.AddInt32(&vHAddrSeq, 1)
	return fmt.Sprintf("127.%d.%d.%d", 10+(n/(250*250))%200, (n/250)%250, 1+n%250)
}

func newVSwL(accept bool) (*vSwL, error) {
	ln, err := net.Listen("tcp", vHNextIP()+":0")
	if err != nil {
		return nil, err
	}
	l := &vSwL{addr: ln.Addr().String(), open: map[net.Conn]bool{}}
	if accept {
		l.ln = ln
		go l.loop(ln)
	} else {
		ln.Close()
	}
	return l, nil
}
func (l *vSwL) loop(ln net.Listener) {
	for {
		c, err := ln.Accept()
		if err != nil {
			return
		}
		l.mu.Lock()
		l.open[c] = true
		l.total++
		l.mu.Unlock()
		go func() {
			_, _ = io.Copy(io.Discard, c)
			c.Close()
			l.mu.Lock()
			delete(l.open, c)
			l.mu.Unlock()
		}()
	}
}
func (l *vSwL) accepting() bool { l.mu.Lock(); defer l.mu.Unlock(); return l.ln != nil }
func (l *vSwL) set(accept bool) error {
	l.mu.Lock()
	defer l.mu.Unlock()
	if accept == (l.ln != nil) {
		return nil
	}
	if !accept {
		l.ln.Close()
		l.ln = nil
		return nil
	}
	var err error
	for i := 0; i < 20; i++ {
		var ln net.Listener
		ln, err = net.Listen("tcp", l.addr)
		if err == nil {
			l.ln = ln
			go l.loop(ln)
			return nil
		}
		time.Sleep(5 * time.Millisecond)
	}
	return err
}

// the upstream finishes sending on every connection it holds (half-close); the connections stay open
func (l *vSwL) halfCloseAll() {
	l.mu.Lock()
	defer l.mu.Unlock()
	for c := range l.open {
		if tc, ok := c.(*net.TCPConn); ok {
			_ = tc.CloseWrite()
		}
	}
}

func (l *vSwL) nOpen() int { l.mu.Lock(); defer l.mu.Unlock(); return len(l.open) }
func (l *vSwL) shutdown() {
	l.mu.Lock()
	if l.ln != nil {
		l.ln.Close()
		l.ln = nil
	}
	for c := range l.open {
		c.Close()
	}
	l.mu.Unlock()
}

// ---- recording selector ----
type vSelCall struct {
	t   time.Time
	idx int // index into the pool, -1 nil
}
type vRecSel struct {
	inner Selector
	mu    sync.Mutex
	calls []vSelCall
}

func (s *vRecSel) Select(pool UpstreamPool, c *layer4.Connection) *Upstream {
	t := time.Now()
	u := s.inner.Select(pool, c)
	idx := -1
	for i, p := range pool {
		if p == u {
			idx = i
		}
	}
	s.mu.Lock()
	s.calls = append(s.calls, vSelCall{t, idx})
	s.mu.Unlock()
	return u
}
func (s *vRecSel) take() []vSelCall {
	s.mu.Lock()
	defer s.mu.Unlock()
	c := s.calls
	s.calls = nil
	return c
}

// ---- scenario world ----
type vHEvent struct {
	t    int64
	kind string // fail open close probe
	a    int    // peer or upstream
	ok   bool
}

func (e vHEvent) coq() string {
	switch e.kind {
	case "fail":
		return fmt.Sprintf("EFail %d %d", e.t, e.a)
	case "open":
		return fmt.Sprintf("EOpen %d %d", e.t, e.a)
	case "close":
		return fmt.Sprintf("EClose %d %d", e.t, e.a)
	}
	return fmt.Sprintf("EProbe %d %d %s", e.t, e.a, cBool(e.ok))
}

type vHWorld struct {
	start    time.Time
	h        *Handler
	sel      *vRecSel
	topo     [][]int // upstream -> global peer ids
	lst      []*vSwL // per global peer
	peerOf   []*peer // per global peer
	events   []vHEvent
	passive  bool
	fd       int64 // ms
	mfRaw    int
	cancel   context.CancelFunc
	conns    []*vHConn
	portPeer map[string]int
	asyncWG  sync.WaitGroup
	asyncMu  sync.Mutex
	asyncEv  []vHEvent // events produced by "later" steps, merged into events in time order
	rawMC    []int     // max_connections as configured, per upstream
	ucc      int       // passive unhealthy_connection_count as configured
}

type vHConn struct {
	cli  net.Conn
	done chan error
	up   int
	open bool
}

func (w *vHWorld) ms(t time.Time) int64 { return t.Sub(w.start).Milliseconds() }
func (w *vHWorld) now() int64           { return w.ms(time.Now()) }

type vHSpec struct {
	topo         [][]bool // upstream -> peers -> initially accepting
	passive      bool
	failDur      time.Duration
	maxFails     int
	unhealthyCnt int
	maxConns     []int
	tryDur       time.Duration
	tryInt       time.Duration
	policy       string // first | round_robin
}

func vNewWorld(spec vHSpec) (*vHWorld, error) {
	ctx, cancel := caddy.NewContext(caddy.Context{Context: context.Background()})
	w := &vHWorld{cancel: cancel, passive: spec.passive, fd: spec.failDur.Milliseconds(), mfRaw: spec.maxFails, portPeer: map[string]int{}}
	if spec.passive {
		w.ucc = spec.unhealthyCnt
	}
	for ui := range spec.topo {
		mc := 0
		if ui < len(spec.maxConns) {
			mc = spec.maxConns[ui]
		}
		w.rawMC = append(w.rawMC, mc)
	}
	var pool UpstreamPool
	for ui, ps := range spec.topo {
		u := &Upstream{}
		if ui < len(spec.maxConns) {
			u.MaxConnections = spec.maxConns[ui]
		}
		var ids []int
		for _, acc := range ps {
			l, err := newVSwL(acc)
			if err != nil {
				cancel()
				return nil, err
			}
			ids = append(ids, len(w.lst))
			w.portPeer[l.addr] = len(w.lst)
			w.lst = append(w.lst, l)
			u.Dial = append(u.Dial, l.addr)
		}
		w.topo = append(w.topo, ids)
		pool = append(pool, u)
	}
	var inner Selector = &FirstSelection{}
	switch spec.policy {
	case "round_robin":
		inner = &RoundRobinSelection{}
	case "random":
		inner = &RandomSelection{}
	case "random_choose":
		inner = &RandomChoiceSelection{Choose: 2}
	case "least_conn":
		inner = &LeastConnSelection{}
	case "ip_hash":
		inner = &IPHashSelection{}
	}
	w.sel = &vRecSel{inner: inner}
	w.h = &Handler{Upstreams: pool,
		LoadBalancing: &LoadBalancing{SelectionPolicy: w.sel, TryDuration: caddy.Duration(spec.tryDur), TryInterval: caddy.Duration(spec.tryInt)}}
	if spec.passive {
		w.h.HealthChecks = &HealthChecks{Passive: &PassiveHealthChecks{FailDuration: caddy.Duration(spec.failDur), MaxFails: spec.maxFails, UnhealthyConnectionCount: spec.unhealthyCnt}}
	}
	if err := w.h.Provision(ctx); err != nil {
		cancel()
		return nil, err
	}
	// active checks are driven by hand (doActiveHealthCheck), without the ticker goroutine
	if w.h.HealthChecks == nil {
		w.h.HealthChecks = &HealthChecks{}
	}
	w.h.HealthChecks.Active = &ActiveHealthChecks{Timeout: caddy.Duration(time.Second), logger: zap.NewNop()}
	for _, u := range pool {
		w.peerOf = append(w.peerOf, u.peers...)
	}
	w.start = time.Now()
	return w, nil
}

func (w *vHWorld) close() {
	for _, c := range w.conns {
		if c.open {
			c.cli.Close()
			select {
			case <-c.done:
			case <-time.After(2 * time.Second):
			}
		}
	}
	_ = w.h.Cleanup()
	w.cancel()
	for _, l := range w.lst {
		l.shutdown()
	}
}

// first refusing peer of upstream u (what dialPeers fails on), -1 if all accept
func (w *vHWorld) firstRefusing(u int) int {
	for _, p := range w.topo[u] {
		if !w.lst[p].accepting() {
			return p
		}
	}
	return -1
}

type vHAttempt struct {
	tu   int64 // microseconds since scenario start
	t    int64 // ms since scenario start
	up   int   // selected upstream, -1 none
	peer int   // refusing peer, -1 if the dial succeeded / nothing selected
}

// connect runs Handle; it returns when the connection is being proxied or when Handle failed
func (w *vHWorld) connect() (atts []vHAttempt, c *vHConn, herr error, retAtU int64) {
	a, b := net.Pipe()
	cx := layer4.WrapConnection(a, nil, zap.NewNop())
	c = &vHConn{cli: b, done: make(chan error, 1), up: -1}
	w.sel.take()
	before := make([]int, len(w.lst))
	for i, l := range w.lst {
		l.mu.Lock()
		before[i] = l.total
		l.mu.Unlock()
	}
	go func() {
		err := w.h.Handle(cx, nil)
		a.Close()
		c.done <- err
	}()
	deadline := time.After(5 * time.Second)
	tick := time.NewTicker(2 * time.Millisecond)
	defer tick.Stop()
	var calls []vSelCall
	for {
		select {
		case herr = <-c.done:
			retAtU = time.Since(w.start).Microseconds()
			calls = append(calls, w.sel.take()...)
			atts = w.toAttempts(calls, false)
			c.done <- herr
			b.Close()
			return
		case <-deadline:
			herr = fmt.Errorf("harness: Handle neither failed nor connected")
			return
		case <-tick.C:
			calls = append(calls, w.sel.take()...)
			n := len(calls)
			if n == 0 || calls[n-1].idx < 0 {
				continue
			}
			// proxied: every peer of the upstream selected last has accepted a new connection that is still open
			u := calls[n-1].idx
			ok := true
			for _, p := range w.topo[u] {
				l := w.lst[p]
				l.mu.Lock()
				if l.total <= before[p] || len(l.open) == 0 {
					ok = false
				}
				l.mu.Unlock()
			}
			if !ok {
				continue
			}
			time.Sleep(8 * time.Millisecond) // a failed dialPeers would have closed them by now; Handle reaches proxy()
			select {
			case herr = <-c.done:
				c.done <- herr
				continue
			default:
			}
			calls = append(calls, w.sel.take()...)
			if calls[len(calls)-1].idx != u {
				continue
			}
			atts = w.toAttempts(calls, true)
			c.up, c.open = u, true
			w.conns = append(w.conns, c)
			return
		}
	}
}

// every attempt but the last one failed (there was another attempt); the last one succeeded iff proxied
func (w *vHWorld) toAttempts(calls []vSelCall, proxied bool) []vHAttempt {
	var out []vHAttempt
	for i, cl := range calls {
		a := vHAttempt{t: w.ms(cl.t), tu: cl.t.Sub(w.start).Microseconds(), up: cl.idx, peer: -1}
		if cl.idx >= 0 && !(proxied && i == len(calls)-1) {
			a.peer = w.firstRefusing(cl.idx)
			if a.peer < 0 {
				a.peer = w.topo[cl.idx][0] // the listener has been switched since
			}
		}
		out = append(out, a)
	}
	return out
}

// proxied connections open per upstream according to the events (connections held by "hold" included)
func vEvOpen(ev []vHEvent, ui int) int {
	n := 0
	for _, e := range ev {
		if e.a == ui && e.kind == "open" {
			n++
		}
		if e.a == ui && e.kind == "close" {
			n--
		}
	}
	return n
}

// what the property text says about upstream ui at time t after the events ev: out of rotation because of
// remembered failures or a failed probe; at its connection limit
func (w *vHWorld) specOut(ev []vHEvent, t int64, ui int) (out, limited bool) {
	mf := w.maxFailsEff()
	for _, p := range w.topo[ui] {
		win := 0
		if w.counting() {
			for _, e := range ev {
				if e.kind == "fail" && e.a == p && e.t > t-w.fd && e.t <= t {
					win++
				}
			}
		}
		if mf > 0 && win >= mf {
			out = true
		}
		last, seen := true, false
		for _, e := range ev {
			if e.kind == "probe" && e.a == p {
				last, seen = e.ok, true
			}
		}
		if seen && !last {
			out = true
		}
	}
	mc := w.limit(ui)
	limited = mc > 0 && vEvOpen(ev, ui) >= mc
	return
}

// records the attempts of one Handle call as events; an attempt for which the selection policy returned
// nothing is checked on the way: "retries go to another available upstream" - while an upstream is in
// rotation, Select must not come back empty-handed
func (w *vHWorld) takeAsync() []vHEvent {
	w.asyncMu.Lock()
	defer w.asyncMu.Unlock()
	ev := w.asyncEv
	w.asyncEv = nil
	return ev
}

func (w *vHWorld) record(atts []vHAttempt) (cases [][3]string, fails [][2]string) {
	async := w.takeAsync()
	for _, a := range atts {
		for len(async) > 0 && async[0].t <= a.t {
			w.events = append(w.events, async[0])
			async = async[1:]
		}
		switch {
		case a.up < 0:
			near := false
			for _, e := range w.events {
				if e.kind == "fail" && w.counting() {
					if d := a.t - (e.t + w.fd); d > -vHMargin && d < vHMargin {
						near = true
					}
				}
			}
			if near {
				continue
			}
			evs := make([]string, len(w.events))
			for i, e := range w.events {
				evs[i] = e.coq()
			}
			cases = append(cases, [3]string{fmt.Sprintf("HNoUp %s [%s] %d", w.cfgCoq(), strings.Join(evs, "; "), a.t), "select/none", "1"})
			for ui := range w.topo {
				if out, lim := w.specOut(w.events, a.t, ui); !out && !lim {
					fails = append(fails, [2]string{"C11:retry:no-upstream-although-available",
						fmt.Sprintf("at t=%d the selection policy returned no upstream although upstream %d is in rotation (no remembered failures >= max_fails, no failed probe, below its connection limit): the attempt is not retried against it", a.t, ui)})
					break
				}
			}
		case a.peer >= 0:
			w.events = append(w.events, vHEvent{t: a.t, kind: "fail", a: a.peer})
		default:
			w.events = append(w.events, vHEvent{t: a.t, kind: "open", a: a.up})
		}
	}
	w.events = append(w.events, async...)
	return
}

func (w *vHWorld) closeConn(c *vHConn) bool {
	c.cli.Close()
	select {
	case <-c.done:
	case <-time.After(3 * time.Second):
		return false
	}
	c.open = false
	w.events = append(w.events, vHEvent{t: w.now(), kind: "close", a: c.up})
	return true
}

func (w *vHWorld) probe(p int) {
	ok := w.lst[p].accepting()
	_ = w.h.doActiveHealthCheck(w.peerOf[p])
	w.events = append(w.events, vHEvent{t: w.now(), kind: "probe", a: p, ok: ok})
}

func (w *vHWorld) counting() bool { return w.passive && w.fd != 0 }

// boundaries: event times and expiry times of remembered failures
func (w *vHWorld) boundaries() []int64 {
	var b []int64
	for _, e := range w.events {
		b = append(b, e.t)
		if e.kind == "fail" && w.counting() {
			b = append(b, e.t+w.fd)
		}
	}
	return b
}

const vHMargin = 45

// waits for an instant at least vHMargin ms away from every boundary and returns it
func (w *vHWorld) safeInstant() int64 {
	t := w.now() + 1
	for changed := true; changed; {
		changed = false
		for _, b := range w.boundaries() {
			if d := t - b; d > -vHMargin && d < vHMargin {
				t = b + vHMargin
				changed = true
			}
		}
	}
	time.Sleep(time.Until(w.start.Add(time.Duration(t) * time.Millisecond)))
	return t
}

type vHSample struct {
	t      int64
	fails  []int32
	unh    []int32
	conns  []int32
	avail  []bool
	nOpen  []int // proxied connections open per upstream (counted at the listeners of its first peer)
	events int   // number of events before the sample
}

func (w *vHWorld) sample() vHSample {
	w.safeInstant()
	s := vHSample{events: len(w.events)}
	for _, p := range w.peerOf {
		s.fails = append(s.fails, atomic.LoadInt32(&p.fails))
		s.unh = append(s.unh, atomic.LoadInt32(&p.unhealthy))
		s.conns = append(s.conns, atomic.LoadInt32(&p.numConns))
	}
	for ui, u := range w.h.Upstreams {
		s.avail = append(s.avail, u.available())
		s.nOpen = append(s.nOpen, w.lst[w.topo[ui][0]].nOpen())
	}
	s.t = w.now()
	return s
}

func (w *vHWorld) cfgCoq() string {
	var ts, mcs []string
	for ui, ids := range w.topo {
		ss := make([]string, len(ids))
		for i, p := range ids {
			ss[i] = strconv.Itoa(p)
		}
		ts = append(ts, "["+strings.Join(ss, "; ")+"]")
		mcs = append(mcs, strconv.Itoa(w.rawMC[ui]))
	}
	return fmt.Sprintf("(H %s %d %d [%s] [%s] %d)", cBool(w.passive), w.fd, w.mfRaw, strings.Join(ts, "; "), strings.Join(mcs, "; "), w.ucc)
}

// the limit the configuration asks for: max_connections of the upstream if set, else the passive
// unhealthy_connection_count
func (w *vHWorld) limit(ui int) int {
	if w.rawMC[ui] != 0 {
		return w.rawMC[ui]
	}
	if w.ucc > 0 {
		return w.ucc
	}
	return 0
}

func (w *vHWorld) maxFailsEff() int {
	if !w.passive {
		return 0
	}
	return w.h.HealthChecks.Passive.MaxFails
}

// the property text on one sample: window counts, rotation, limits. Returns failures.
func (w *vHWorld) oracle(s vHSample) [][2]string {
	var f [][2]string
	add := func(k, d string) { f = append(f, [2]string{k, d}) }
	ev := w.events[:s.events]
	for p := range w.peerOf {
		win := 0
		if w.counting() {
			for _, e := range ev {
				if e.kind == "fail" && e.a == p && e.t > s.t-w.fd && e.t <= s.t {
					win++
				}
			}
		}
		if s.fails[p] < 0 {
			add("C11:fails:negative", fmt.Sprintf("peer %d: fails = %d at t=%d", p, s.fails[p], s.t))
		} else if int(s.fails[p]) != win {
			add("C11:fails:window-mismatch", fmt.Sprintf("peer %d: fails = %d at t=%d but %d failures lie in (t-%d, t]", p, s.fails[p], s.t, win, w.fd))
		}
		if s.conns[p] < 0 {
			add("C11:conns:negative", fmt.Sprintf("peer %d: numConns = %d", p, s.conns[p]))
		}
		// active marks: the flag is the outcome of the last probe
		last, seen := true, false
		for _, e := range ev {
			if e.kind == "probe" && e.a == p {
				last, seen = e.ok, true
			}
		}
		if seen && !last && s.unh[p] == 0 {
			add("C11:active:not-marked-down", fmt.Sprintf("peer %d refused the last active check but is not marked unhealthy", p))
		}
		if seen && last && s.unh[p] != 0 {
			add("C11:active:not-marked-up", fmt.Sprintf("peer %d accepted the last active check but is still marked unhealthy", p))
		}
	}
	for ui := range w.topo {
		out, limited := w.specOut(ev, s.t, ui)
		mc := w.limit(ui)
		if mc > 0 && s.nOpen[ui] > mc {
			add("C11:max_connections:exceeded", fmt.Sprintf("upstream %d has max_connections %d but %d proxied connections are open", ui, mc, s.nOpen[ui]))
		}
		if out && s.avail[ui] {
			add("C11:rotation:early-return", fmt.Sprintf("upstream %d is in rotation at t=%d although it should be out (failures in window >= max_fails, or failed probe)", ui, s.t))
		}
		if !out && !limited && !s.avail[ui] {
			add("C11:rotation:not-returned", fmt.Sprintf("upstream %d is out of rotation at t=%d although nothing keeps it out", ui, s.t))
		}
	}
	return f
}

func (w *vHWorld) sampleCoq(s vHSample) string {
	evs := make([]string, s.events)
	for i := 0; i < s.events; i++ {
		evs[i] = w.events[i].coq()
	}
	obs := make([]string, len(s.fails))
	for i := range s.fails {
		obs[i] = fmt.Sprintf("(%s, %s, %s)", cZ(int64(s.fails[i])), cZ(int64(s.unh[i])), cZ(int64(s.conns[i])))
	}
	av := make([]string, len(s.avail))
	for i, a := range s.avail {
		av[i] = cBool(a)
	}
	return fmt.Sprintf("HCounters %s [%s] %d %d [%s] [%s]", w.cfgCoq(), strings.Join(evs, "; "), s.t, len(s.fails), strings.Join(obs, "; "), strings.Join(av, "; "))
}

// ---- scripted history scenarios ----
type vHResult struct {
	cases [][3]string // coq, class, nontrivial("1"/"")
	fails [][2]string
	desc  map[string]any
	err   string
}

func vRunHistory(spec vHSpec, script []string, seed uint64) (res vHResult) {
	res.desc = map[string]any{"script": script, "fail_duration_ms": spec.failDur.Milliseconds(), "max_fails": spec.maxFails, "max_connections": spec.maxConns,
		"unhealthy_connection_count": spec.unhealthyCnt, "try_duration_ms": spec.tryDur.Milliseconds(), "try_interval_ms": spec.tryInt.Milliseconds(),
		"policy": spec.policy, "topology": spec.topo, "seed": seed}
	w, err := vNewWorld(spec)
	if err != nil {
		res.err = err.Error()
		return
	}
	defer w.close()
	{
		lim := make([]int64, len(w.h.Upstreams))
		for ui, u := range w.h.Upstreams {
			lim[ui] = int64(u.MaxConnections)
			if u.MaxConnections != w.limit(ui) {
				res.fails = append(res.fails, [2]string{"C11:max_connections:limit-not-provisioned", fmt.Sprintf("upstream %d: max_connections %d, unhealthy_connection_count %d, fail_duration %d ms configured, but the provisioned limit is %d", ui, w.rawMC[ui], w.ucc, w.fd, u.MaxConnections)})
			}
		}
		res.cases = append(res.cases, [3]string{fmt.Sprintf("HLimits %s %s", w.cfgCoq(), cZList(lim)), "provision/limits", b2s1(w.ucc > 0)})
	}
	served := []int{}
	for _, st := range script {
		fs := strings.Split(st, ":")
		arg := 0
		if len(fs) > 1 {
			arg, _ = strconv.Atoi(fs[1])
		}
		switch fs[0] {
		case "conn":
			t0 := w.now()
			atts, c, herr, retAtU := w.connect()
			cs, fs := w.record(atts)
			res.cases = append(res.cases, cs...)
			res.fails = append(res.fails, fs...)
			if len(atts) > 0 && !(herr != nil && strings.HasPrefix(herr.Error(), "harness:")) {
				td, ti := spec.tryDur.Milliseconds(), spec.tryInt.Milliseconds()
				cs, fs, _, _ := w.retryAnalysis(atts, c != nil && c.open, herr, retAtU, td, ti, "conn-retry/"+spec.policy)
				res.cases = append(res.cases, cs...)
				res.fails = append(res.fails, fs...)
				if !(c != nil && c.open) && td > 0 {
					// refused: no upstream may have come (back) into rotation while the retries were due
					var cand []int64
					for _, e := range w.events {
						if e.kind == "fail" && w.counting() {
							cand = append(cand, e.t+w.fd+vHMargin)
						}
						if e.kind == "close" {
							cand = append(cand, e.t+5)
						}
					}
					for _, tau := range cand {
						if tau <= t0 || tau >= t0+td-ti-50 {
							continue
						}
						var ev []vHEvent
						for _, e := range w.events {
							if e.t <= tau {
								ev = append(ev, e)
							}
						}
						for ui := range w.topo {
							out, lim := w.specOut(ev, tau, ui)
							if !out && !lim && w.firstRefusing(ui) < 0 {
								res.fails = append(res.fails, [2]string{"C11:retry:not-retried-until-available",
									fmt.Sprintf("the connection arrived at t=%d with try_duration %d ms and was refused although upstream %d was in rotation and accepting from t=%d on", t0, td, ui, tau)})
								break
							}
						}
					}
				}
			}
			if c != nil && c.open {
				served = append(served, c.up)
				if out, _ := w.specOut(w.events[:len(w.events)-1], w.events[len(w.events)-1].t, c.up); out {
					res.fails = append(res.fails, [2]string{"C11:rotation:early-return", fmt.Sprintf("a connection was proxied to upstream %d at t=%d although it should be out of rotation", c.up, w.events[len(w.events)-1].t)})
				}
			} else if herr != nil && strings.HasPrefix(herr.Error(), "harness:") {
				res.err = herr.Error()
				return
			}
		case "close":
			for _, c := range w.conns {
				if c.open {
					if arg == 0 {
						if !w.closeConn(c) {
							res.err = "Handle did not return after the client closed"
							return
						}
						break
					}
					arg--
				}
			}
		case "down":
			if arg < len(w.lst) {
				_ = w.lst[arg].set(false)
			}
		case "up":
			if arg < len(w.lst) {
				if err := w.lst[arg].set(true); err != nil {
					res.err = "re-listen: " + err.Error()
					return
				}
			}
		case "probe":
			if arg < len(w.lst) {
				w.probe(arg)
			}
		case "later":
			// later:<ms>:<step>:<arg> - the step happens by itself after <ms> (while a connection is waiting)
			if len(fs) == 4 {
				what := fs[2]
				ua, _ := strconv.Atoi(fs[3])
				w.asyncWG.Add(1)
				go func(delay time.Duration) {
					defer w.asyncWG.Done()
					time.Sleep(delay)
					if what == "unhold" && ua < len(w.topo) {
						t := w.now()
						for _, p := range w.topo[ua] {
							_ = w.peerOf[p].countConn(-1)
						}
						w.asyncMu.Lock()
						w.asyncEv = append(w.asyncEv, vHEvent{t: t, kind: "close", a: ua})
						w.asyncMu.Unlock()
					}
				}(time.Duration(arg) * time.Millisecond)
			}
		case "halfclose":
			// upstream arg has nothing more to send on its connections; they are still proxied (the client has
			// not finished) and keep their slots
			if arg < len(w.topo) {
				for _, p := range w.topo[arg] {
					w.lst[p].halfCloseAll()
				}
				time.Sleep(20 * time.Millisecond)
			}
		case "hold", "unhold":
			// a connection to upstream arg held by somebody else sharing the peers (another handler dialing the
			// same address): counted on its peers, as Handle does
			if arg < len(w.topo) {
				d, kind := 1, "open"
				if fs[0] == "unhold" {
					d, kind = -1, "close"
				}
				t := w.now()
				for _, p := range w.topo[arg] {
					_ = w.peerOf[p].countConn(d)
				}
				w.events = append(w.events, vHEvent{t: t, kind: kind, a: arg})
			}
		case "fail":
			// a dial of peer arg fails now (white box: what dialPeers does on an error), whatever the
			// rotation says: a connection that selected the upstream earlier and whose dial fails late
			if arg < len(w.peerOf) {
				t := w.now()
				w.h.countFailure(w.peerOf[arg])
				w.events = append(w.events, vHEvent{t: t, kind: "fail", a: arg})
			}
		case "sleep":
			time.Sleep(time.Duration(arg) * time.Millisecond)
		case "expire":
			// wait until every remembered failure has been forgotten
			var last int64
			for _, e := range w.events {
				if e.kind == "fail" && e.t+w.fd > last {
					last = e.t + w.fd
				}
			}
			if d := last - w.now(); d > 0 && w.counting() {
				time.Sleep(time.Duration(d+5) * time.Millisecond)
			}
		}
		if fs[0] != "later" {
			// whatever was scheduled has happened by the time the counters are read
			w.asyncWG.Wait()
			if late := w.takeAsync(); len(late) > 0 {
				w.events = append(w.events, late...)
				sort.SliceStable(w.events, func(i, j int) bool { return w.events[i].t < w.events[j].t })
			}
		}
		s := w.sample()
		hasFail, hasExpiry, hasOpen, hasClose := false, false, false, false
		for _, e := range w.events[:s.events] {
			switch e.kind {
			case "fail":
				hasFail = true
				if w.counting() && e.t+w.fd <= s.t {
					hasExpiry = true
				}
			case "open":
				hasOpen = true
			case "close":
				hasClose = true
			}
		}
		nt := ""
		if (hasFail && hasExpiry) || (hasOpen && hasClose) {
			nt = "1"
		}
		shape := ""
		for _, e := range w.events[:s.events] {
			shape += e.kind[:1]
		}
		if len(shape) > 8 {
			shape = shape[:8] + "+"
		}
		res.cases = append(res.cases, [3]string{w.sampleCoq(s), "history/" + shape, nt})
		res.fails = append(res.fails, w.oracle(s)...)
	}
	res.desc["served_by"] = served
	evs := make([]string, len(w.events))
	for i, e := range w.events {
		evs[i] = e.coq()
	}
	res.desc["events"] = evs
	return
}

// ---- retry scenarios ----
type vRetrySpec struct {
	nUp      int
	accept   []bool
	passive  bool
	failDur  time.Duration
	maxFails int
	tryDur   time.Duration
	tryInt   time.Duration
	policy   string
	upAfter  time.Duration // >0: upstream 0 starts accepting after this long
}

func vRunRetry(rs vRetrySpec) (res vHResult) {
	topo := make([][]bool, rs.nUp)
	for i := range topo {
		topo[i] = []bool{rs.accept[i]}
	}
	spec := vHSpec{topo: topo, passive: rs.passive, failDur: rs.failDur, maxFails: rs.maxFails, tryDur: rs.tryDur, tryInt: rs.tryInt, policy: rs.policy}
	res.desc = map[string]any{"upstreams_accepting": rs.accept, "passive": rs.passive, "fail_duration_ms": rs.failDur.Milliseconds(), "max_fails": rs.maxFails,
		"try_duration_ms": rs.tryDur.Milliseconds(), "try_interval_ms": rs.tryInt.Milliseconds(), "policy": rs.policy, "up_after_ms": rs.upAfter.Milliseconds()}
	w, err := vNewWorld(spec)
	if err != nil {
		res.err = err.Error()
		return
	}
	defer w.close()
	if rs.upAfter > 0 {
		go func() { time.Sleep(rs.upAfter); _ = w.lst[0].set(true) }()
	}
	t0 := w.now()
	atts, c, herr, retAt := w.connect()
	if herr != nil && strings.HasPrefix(herr.Error(), "harness:") {
		res.err = herr.Error()
		return
	}
	if len(atts) == 0 {
		res.err = "no attempt recorded"
		return
	}
	ti, td := rs.tryInt.Milliseconds(), rs.tryDur.Milliseconds()
	cs, fs, ts, result := w.retryAnalysis(atts, c != nil && c.open, herr, retAt, td, ti, fmt.Sprintf("retry/%s/%dup", rs.policy, rs.nUp))
	_ = t0
	res.cases = append(res.cases, cs...)
	res.fails = append(res.fails, fs...)
	res.desc["attempt_times_ms"] = ts
	res.desc["result"] = result
	return
}

// one Handle call seen as a run of the retry loop: the HRetry case for the model and the property text
// on the attempt schedule and on the error returned
func (w *vHWorld) retryAnalysis(atts []vHAttempt, proxied bool, herr error, retAt, td, ti int64, clsPrefix string) (cases [][3]string, fails [][2]string, ts []string, result int64) {
	base := atts[0].t
	baseU := atts[0].tu
	// the error Handle returned: which upstream's address it names (-1 = "no upstreams available")
	result = int64(-2)
	lastDialErr := int64(-1)
	if herr != nil {
		result = -1
		msg := herr.Error()
		if !strings.Contains(msg, "no upstreams available") {
			result = -3
			for port, p := range w.portPeer {
				if strings.Contains(msg, port) {
					result = int64(p)
				}
			}
		}
	}
	var as []string
	for i, a := range atts {
		ts = append(ts, cZ(a.tu-baseU))
		kind, e := 2, int64(0)
		switch {
		case a.up < 0:
			kind = 2
		case a.peer >= 0:
			kind, e = 1, int64(a.peer)
			lastDialErr = e
		default:
			kind = 0
		}
		// oracle values (microseconds): for an attempt that was followed by another one the whole slack is
		// attributed to the sleep; for the last one the time until Handle was seen to return (plus 1 ms:
		// Handle's own clock started slightly before the first Select) bounds tryAgain's clock read
		d, j := int64(0), int64(0)
		if i+1 < len(atts) {
			j = atts[i+1].tu - a.tu - ti*1000
		} else if !proxied {
			d = retAt - a.tu + 1000
		}
		as = append(as, fmt.Sprintf("A %d %s %s %s", kind, cZ(e), cZ(d), cZ(j)))
	}
	cls := fmt.Sprintf("%s/attempts%d", clsPrefix, len(atts))
	cases = append(cases, [3]string{fmt.Sprintf("HRetry %d %d [%s] [%s] %s", td*1000, ti*1000, strings.Join(as, "; "), strings.Join(ts, "; "), cZ(result)), cls, b2s1(len(atts) > 1)})
	// ---- property text ----
	add := func(k, d string) { fails = append(fails, [2]string{k, d}) }
	for i := 0; i+1 < len(atts); i++ {
		gap := atts[i+1].t - atts[i].t
		if gap < ti-2 || gap > ti+150 {
			add("C11:retry:schedule", fmt.Sprintf("attempts %d and %d are %d ms apart, try_interval is %d ms", i, i+1, gap, ti))
		}
	}
	last := atts[len(atts)-1]
	if !proxied {
		if last.t-base < td-25 {
			add("C11:retry:schedule", fmt.Sprintf("gave up after an attempt at +%d ms although try_duration is %d ms", last.t-base, td))
		}
		if len(atts) >= 2 && atts[len(atts)-2].t-base > td+25 {
			add("C11:retry:schedule", fmt.Sprintf("made another attempt after +%d ms although try_duration is %d ms", atts[len(atts)-2].t-base, td))
		}
		want := lastDialErr // the last dial error; "no upstreams available" only if there was none
		if result != want {
			add("C11:retry:wrong-error", fmt.Sprintf("Handle returned error id %d, the last error among the attempts is %d (-1 = no upstreams available)", result, want))
		}
	} else if herr != nil {
		add("C11:retry:wrong-error", "Handle failed although an attempt connected")
	}
	return
}

func b2s1(b bool) string {
	if b {
		return "1"
	}
	return ""
}

func TestVerifC11(t *testing.T) {
	out := vOpen()
	defer out.Close()
	rng := vNewRng(vSeed())
	ms := time.Millisecond

	type job struct {
		run func() vHResult
	}
	var jobs []job
	addHist := func(spec vHSpec, script []string) {
		seed := rng.U64()
		jobs = append(jobs, job{func() vHResult { return vRunHistory(spec, script, seed) }})
	}
	addRetry := func(rs vRetrySpec) { jobs = append(jobs, job{func() vHResult { return vRunRetry(rs) }}) }

	// 1. the failure window: A refuses, B accepts; first policy
	for _, fd := range []int{150, 250, 400} {
		for _, mf := range []int{0, 1, 2, 3} {
			spec := vHSpec{topo: [][]bool{{false}, {true}}, passive: true, failDur: time.Duration(fd) * ms, maxFails: mf, tryDur: 200 * ms, tryInt: 30 * ms, policy: "first"}
			addHist(spec, []string{"conn", "sleep:60", "expire", "conn", "close:0", "expire", "close:0"})
		}
	}
	// passive checks off / fail_duration 0: failures are not remembered
	addHist(vHSpec{topo: [][]bool{{false}, {true}}, passive: false, tryDur: 100 * ms, tryInt: 30 * ms, policy: "first"}, []string{"conn", "sleep:50", "close:0"})
	addHist(vHSpec{topo: [][]bool{{false}, {true}}, passive: true, failDur: 0, maxFails: 1, tryDur: 100 * ms, tryInt: 30 * ms, policy: "first"}, []string{"conn", "sleep:50", "close:0"})
	// 2. outage and recovery of the only upstream, with active probes
	addHist(vHSpec{topo: [][]bool{{true}, {true}}, passive: true, failDur: 200 * ms, maxFails: 2, tryDur: 0, tryInt: 30 * ms, policy: "first"},
		[]string{"probe:0", "down:0", "probe:0", "conn", "up:0", "probe:0", "conn", "close:0", "close:0", "probe:1"})
	addHist(vHSpec{topo: [][]bool{{true}}, passive: false, tryDur: 0, policy: "first"},
		[]string{"down:0", "probe:0", "probe:0", "conn", "up:0", "conn", "probe:0", "conn", "close:0"})
	// 2b. active and passive checks together: an outage with remembered dial failures, the active check
	// marks the peer down and, while the failures are still remembered, up again; then the failures
	// expire; then a second outage must take the upstream out of rotation again after max_fails failures
	for _, fd := range []int{600, 900} {
		for _, mf := range []int{1, 2} {
			spec := vHSpec{topo: [][]bool{{true}, {true}}, passive: true, failDur: time.Duration(fd) * ms, maxFails: mf, tryDur: 100 * ms, tryInt: 30 * ms, policy: "first"}
			addHist(spec, []string{"down:0", "conn", "probe:0", "up:0", "probe:0", "expire", "probe:0", "down:0", "conn", "conn", "close:0", "close:0", "expire"})
		}
	}
	addHist(vHSpec{topo: [][]bool{{true}}, passive: true, failDur: 700 * ms, maxFails: 3, tryDur: 0, policy: "first"},
		[]string{"down:0", "conn", "conn", "probe:0", "up:0", "probe:0", "conn", "close:0", "expire", "down:0", "conn", "conn", "conn", "conn", "expire"})
	// 3. an upstream with two peers: the second one refuses
	addHist(vHSpec{topo: [][]bool{{true, false}, {true}}, passive: true, failDur: 300 * ms, maxFails: 2, tryDur: 150 * ms, tryInt: 30 * ms, policy: "first"},
		[]string{"conn", "expire", "up:1", "conn", "close:0", "close:0"})
	// 4. connection limits
	addHist(vHSpec{topo: [][]bool{{true}, {true}}, passive: false, maxConns: []int{1, 0}, tryDur: 0, policy: "first"},
		[]string{"conn", "conn", "conn", "close:0", "conn", "close:0", "close:0", "close:0"})
	addHist(vHSpec{topo: [][]bool{{true}, {true}}, passive: true, failDur: 200 * ms, maxFails: 1, unhealthyCnt: 2, tryDur: 0, policy: "first"},
		[]string{"conn", "conn", "conn", "close:1", "conn", "close:0", "close:0", "close:0"})
	addHist(vHSpec{topo: [][]bool{{true, true}}, passive: false, maxConns: []int{2}, tryDur: 0, policy: "first"},
		[]string{"conn", "conn", "conn", "close:0", "close:0", "close:0"})
	// 4b. the configuration grid for the limit: max_connections set/unset x unhealthy_connection_count
	// set/unset x fail_duration set/unset, through Handler.Provision; three connections, then closes
	for g := 0; g < 8; g++ {
		spec := vHSpec{topo: [][]bool{{true}, {true}}, passive: true, tryDur: 0, policy: "first", maxFails: 1}
		if g&1 != 0 {
			spec.maxConns = []int{1, 0}
		}
		if g&2 != 0 {
			spec.unhealthyCnt = 2
		}
		if g&4 != 0 {
			spec.failDur = 300 * ms
		}
		addHist(spec, []string{"conn", "conn", "conn", "conn", "close:0", "conn", "close:0", "close:0", "close:0", "close:0"})
	}
	// 4c. dial failures that land while the upstream is already out of rotation (connections that
	// selected it earlier and fail late): the window must run from the LATEST failure
	for _, mf := range []int{1, 2} {
		for _, fd := range []int{400, 700} {
			spec := vHSpec{topo: [][]bool{{true}, {true}}, passive: true, failDur: time.Duration(fd) * ms, maxFails: mf, tryDur: 0, policy: "first"}
			addHist(spec, []string{"fail:0", "sleep:60", "fail:0", "sleep:80", "fail:0", "sleep:120", "fail:0", "conn", "expire", "conn", "close:0", "close:0"})
		}
	}
	// 4e. a connection whose upstream has finished sending (half-close) is still open and keeps its slot
	for i, pol := range []string{"first", "least_conn", "round_robin"} {
		spec := vHSpec{topo: [][]bool{{true}, {true}}, passive: i == 1, maxConns: []int{1, 0}, tryDur: 0, policy: pol}
		if i == 1 {
			spec.maxConns, spec.unhealthyCnt = nil, 1
			spec.topo = [][]bool{{true}}
			spec.tryDur, spec.tryInt = 60*ms, 30*ms
		}
		addHist(spec, []string{"conn", "halfclose:0", "conn", "conn", "close:0", "conn", "close:0", "close:0", "close:0"})
	}
	// 4f. a connection that arrives while every upstream is out of rotation waits (retries every
	// try_interval) and is handed over as soon as one returns: inside the failure window / at the limit
	for _, pol := range []string{"first", "random", "random_choose", "least_conn", "round_robin", "ip_hash"} {
		nup := 1
		if pol == "random_choose" {
			nup = 2
		}
		topo := make([][]bool, nup)
		var fails, holds, laters []string
		for u := range topo {
			topo[u] = []bool{true}
			fails = append(fails, fmt.Sprintf("fail:%d", u))
			holds = append(holds, fmt.Sprintf("hold:%d", u))
			laters = append(laters, fmt.Sprintf("later:%d:unhold:%d", 330-60*u, u))
		}
		addHist(vHSpec{topo: topo, passive: true, failDur: 350 * ms, maxFails: 1, tryDur: 800 * ms, tryInt: 30 * ms, policy: pol},
			append(append([]string{}, fails...), "conn", "close:0", "conn", "close:0"))
		mc := make([]int, nup)
		for u := range mc {
			mc[u] = 1
		}
		addHist(vHSpec{topo: topo, passive: false, maxConns: mc, tryDur: 800 * ms, tryInt: 30 * ms, policy: pol},
			append(append(append([]string{}, holds...), laters...), "conn", "close:0"))
		// refused for good: nothing returns within try_duration
		addHist(vHSpec{topo: topo, passive: true, failDur: 900 * ms, maxFails: 1, tryDur: 150 * ms, tryInt: 30 * ms, policy: pol},
			append(append([]string{}, fails...), "conn", "expire", "conn", "close:0"))
	}
	// 4d. fail-over under every shipped selection policy: the upstream listed first is out of rotation
	// (remembered failure / failed active check / at its connection limit) and has the fewest open
	// connections, the available ones carry load; every connection must be proxied to an available one
	for _, pol := range []string{"first", "random", "random_choose", "least_conn", "round_robin", "ip_hash"} {
		for reason := 0; reason < 3; reason++ {
			spec := vHSpec{topo: [][]bool{{false}, {true}, {true}}, passive: true, failDur: 3000 * ms, maxFails: 1, tryDur: 200 * ms, tryInt: 30 * ms, policy: pol}
			if pol == "least_conn" || reason == 1 {
				spec.topo = [][]bool{{false}, {true}}
			}
			var script []string
			switch reason {
			case 0:
				script = []string{"fail:0", "conn", "conn", "conn", "conn", "close:0", "conn", "close:0", "close:0", "close:0", "close:0"}
			case 1:
				script = []string{"probe:0", "conn", "conn", "conn", "close:1", "conn", "close:0", "close:0", "close:0"}
			default:
				spec.topo[0][0] = true
				spec.maxConns = []int{1, 0, 0}[:len(spec.topo)]
				script = []string{"hold:0", "conn", "conn", "conn", "conn", "close:0", "conn", "unhold:0", "conn", "close:0", "close:0", "close:0", "close:0", "close:0"}
			}
			addHist(spec, script)
		}
	}
	// 5. random histories
	nr := vN(16)
	for i := 0; i < nr; i++ {
		nup := 2 + rng.Intn(2)
		topo := make([][]bool, nup)
		np := 0
		for u := range topo {
			k := 1
			if rng.Intn(5) == 0 {
				k = 2
			}
			for j := 0; j < k; j++ {
				topo[u] = append(topo[u], rng.Intn(3) != 0)
				np++
			}
		}
		spec := vHSpec{topo: topo, passive: rng.Intn(6) != 0, failDur: time.Duration([]int{120, 180, 260, 400}[rng.Intn(4)]) * ms, maxFails: rng.Intn(4),
			tryDur: time.Duration([]int{0, 100, 200}[rng.Intn(3)]) * ms, tryInt: 30 * ms, policy: []string{"first", "round_robin", "least_conn", "random", "random_choose", "ip_hash"}[rng.Intn(6)]}
		if rng.Intn(3) == 0 {
			spec.maxConns = make([]int, nup)
			spec.maxConns[rng.Intn(nup)] = 1 + rng.Intn(2)
		}
		var script []string
		nsteps := 5 + rng.Intn(6)
		for s := 0; s < nsteps; s++ {
			switch rng.Intn(9) {
			case 0, 1, 2:
				script = append(script, "conn")
			case 3:
				script = append(script, fmt.Sprintf("close:%d", rng.Intn(2)))
			case 4:
				script = append(script, fmt.Sprintf("down:%d", rng.Intn(np)))
			case 5:
				script = append(script, fmt.Sprintf("up:%d", rng.Intn(np)))
			case 6:
				script = append(script, fmt.Sprintf("probe:%d", rng.Intn(np)))
			case 7:
				if rng.Intn(2) == 0 {
					script = append(script, "expire")
				} else {
					script = append(script, fmt.Sprintf("fail:%d", rng.Intn(np)))
				}
			default:
				script = append(script, fmt.Sprintf("sleep:%d", 30+rng.Intn(120)))
			}
		}
		if spec.passive && rng.Intn(3) == 0 {
			// an outage seen by both kinds of check, recovery noticed by the active one first
			p := rng.Intn(np)
			spec.failDur = time.Duration(500+100*rng.Intn(4)) * ms
			script = append(script, fmt.Sprintf("down:%d", p), "conn", fmt.Sprintf("probe:%d", p), fmt.Sprintf("up:%d", p), fmt.Sprintf("probe:%d", p), "expire", fmt.Sprintf("down:%d", p), "conn", "conn")
		}
		addHist(spec, script)
	}
	// 6. retries
	for _, td := range []int{0, 100, 160, 250} {
		addRetry(vRetrySpec{nUp: 2, accept: []bool{false, false}, passive: false, tryDur: time.Duration(td) * ms, tryInt: 30 * ms, policy: "round_robin"})
		addRetry(vRetrySpec{nUp: 3, accept: []bool{false, false, false}, passive: true, failDur: 2000 * ms, maxFails: 1, tryDur: time.Duration(td) * ms, tryInt: 30 * ms, policy: "first"})
	}
	addRetry(vRetrySpec{nUp: 1, accept: []bool{false}, passive: false, tryDur: 250 * ms, tryInt: 30 * ms, policy: "first", upAfter: 100 * ms})
	addRetry(vRetrySpec{nUp: 2, accept: []bool{false, false}, passive: true, failDur: 2000 * ms, maxFails: 1, tryDur: 160 * ms, tryInt: 50 * ms, policy: "first"})
	addRetry(vRetrySpec{nUp: 2, accept: []bool{true, false}, passive: false, tryDur: 160 * ms, tryInt: 30 * ms, policy: "first"})

	results := make([]vHResult, len(jobs))
	sem := make(chan struct{}, 10)
	var wg sync.WaitGroup
	for i := range jobs {
		wg.Add(1)
		sem <- struct{}{}
		go func(i int) {
			defer wg.Done()
			defer func() { <-sem }()
			r := jobs[i].run()
			if len(r.fails) > 0 || r.err != "" {
				// timing-sensitive: one retry before anything is reported
				r2 := jobs[i].run()
				if len(r2.fails) == 0 && r2.err == "" {
					r = r2
				}
			}
			results[i] = r
		}(i)
	}
	wg.Wait()
	nev := 0
	for _, r := range results {
		if r.err != "" {
			out.Fail("C11:harness:error", r.err, r.desc)
			continue
		}
		for _, c := range r.cases {
			out.Case(c[0], c[1], c[2] != "", r.desc)
			nev++
		}
		seen := map[string]bool{}
		for _, f := range r.fails {
			if !seen[f[0]] {
				seen[f[0]] = true
				out.Fail(f[0], f[1], r.desc)
			}
		}
	}
	out.Stat("scenarios", len(jobs))

	// 7. setHealthy and Provision's defaults, exhaustively
	for _, old := range []int32{0, 1} {
		for _, healthy := range []bool{false, true} {
			p := &peer{unhealthy: old}
			sw, _ := p.setHealthy(healthy)
			out.Case(fmt.Sprintf("HSet %d %s %d %s", old, cBool(healthy), p.unhealthy, cBool(sw)), "setHealthy", true, nil)
			if (p.unhealthy == 0) != healthy {
				key := "C11:active:not-marked-down"
				if healthy {
					key = "C11:active:not-marked-up"
				}
				out.Fail(key, "setHealthy did not store the probe's outcome", map[string]any{"old": old, "healthy": healthy})
			}
		}
	}
	for _, fd := range []int{0, 200} {
		for _, mf := range []int{0, 1, 3} {
			spec := vHSpec{topo: [][]bool{{true}}, passive: true, failDur: time.Duration(fd) * ms, maxFails: mf, policy: "first"}
			w, err := vNewWorld(spec)
			if err != nil {
				continue
			}
			out.Case(fmt.Sprintf("HMaxFails %s %d", w.cfgCoq(), w.maxFailsEff()), "provision/max_fails", fd > 0 && mf == 0, nil)
			w.close()
		}
	}
	_ = sort.Ints
}
