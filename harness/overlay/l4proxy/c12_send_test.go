package l4proxy

// C12 engine (sending side and composition): the real proxy handler with proxy_protocol v1/v2
// (Provision + Handle -> dialPeers + proxy) relays a scripted client to a loopback upstream that
// records every byte it receives. Optionally the real proxy_protocol handler runs in front of it,
// so that the client's EFFECTIVE addresses are the ones it received by PROXY protocol.
//
// Observed: the bytes the upstream received (CSend, compared with the model's upstream_bytes).
// Oracle (property text): those bytes are ONE well-formed header of the configured version
// (checked by a strict parser written here from the specification), carrying the client's
// effective addresses, immediately followed by the client's stream; and the real receiving
// handler, fed those bytes, reports the same addresses and the same stream (composition).

import (
	"bytes"
	"context"
	"encoding/binary"
	"fmt"
	"io"
	"math/big"
	"net"
	"net/netip"
	"regexp"
	"strconv"
	"strings"
	"testing"
	"time"

	"github.com/caddyserver/caddy/v2"
	"go.uber.org/zap"

	"github.com/mholt/caddy-l4/layer4"
	"github.com/mholt/caddy-l4/modules/l4proxyprotocol"
)

func vsN(v int) string { return fmt.Sprintf("%d%%N", v) }
func vsBigN(b []byte) string {
	return new(big.Int).SetBytes(b).String() + "%N"
}
func vsIP(ip net.IP) string {
	if len(ip) == 0 {
		return "IPnil"
	}
	if p4 := ip.To4(); p4 != nil {
		return "(IP4 " + vsBigN(p4) + ")"
	}
	if len(ip) == 16 {
		return "(IP6 " + vsBigN(ip) + ")"
	}
	return "IPnil"
}
func vsAddr(a net.Addr) string {
	switch x := a.(type) {
	case *net.TCPAddr:
		return fmt.Sprintf("(ATcp %s %s)", vsIP(x.IP), vsN(x.Port))
	case *net.UDPAddr:
		return fmt.Sprintf("(AUdp %s %s)", vsIP(x.IP), vsN(x.Port))
	case *net.UnixAddr:
		return fmt.Sprintf("(AUnix %s (unhex %s))", cBool(x.Net == "unixgram"), cHex([]byte(x.Name)))
	}
	return "AOther"
}

type vsConn struct {
	net.Conn
	remote, local net.Addr
}

func (c *vsConn) RemoteAddr() net.Addr { return c.remote }
func (c *vsConn) LocalAddr() net.Addr  { return c.local }

func vsSame(a, b net.Addr) bool {
	if a == nil || b == nil {
		return a == nil && b == nil
	}
	return a.Network() == b.Network() && a.String() == b.String()
}

// ---- strict parser of ONE header, written from the specification (canonical forms only)

var vsV1Re = regexp.MustCompile(`^PROXY (?:UNKNOWN|TCP4 ([0-9.]+) ([0-9.]+) ([0-9]+) ([0-9]+)|TCP6 ([0-9a-f:]+) ([0-9a-f:]+) ([0-9]+) ([0-9]+))\r\n`)

type vsParsed struct {
	ok       bool
	none     bool // UNKNOWN / UNSPEC: no addresses carried
	src, dst net.Addr
	rest     []byte
}

func vsCanonPort(s string) (int, bool) {
	v, err := strconv.Atoi(s)
	return v, err == nil && v >= 0 && v <= 65535 && strconv.Itoa(v) == s
}

func vsStrict(version int, b []byte) vsParsed {
	if version == 1 {
		m := vsV1Re.FindSubmatch(b)
		if m == nil || len(m[0]) > 107 {
			return vsParsed{}
		}
		p := vsParsed{ok: true, rest: b[len(m[0]):]}
		g := 1
		want4 := true
		switch {
		case m[1] != nil:
		case m[5] != nil:
			g, want4 = 5, false
		default:
			p.none = true
			return p
		}
		sa, err1 := netip.ParseAddr(string(m[g]))
		da, err2 := netip.ParseAddr(string(m[g+1]))
		sp, ok1 := vsCanonPort(string(m[g+2]))
		dp, ok2 := vsCanonPort(string(m[g+3]))
		if err1 != nil || err2 != nil || !ok1 || !ok2 || sa.Is4() != want4 || da.Is4() != want4 || sa.String() != string(m[g]) || da.String() != string(m[g+1]) {
			return vsParsed{}
		}
		p.src = &net.TCPAddr{IP: sa.AsSlice(), Port: sp}
		p.dst = &net.TCPAddr{IP: da.AsSlice(), Port: dp}
		return p
	}
	sig := []byte{0x0D, 0x0A, 0x0D, 0x0A, 0x00, 0x0D, 0x0A, 0x51, 0x55, 0x49, 0x54, 0x0A}
	if len(b) < 16 || !bytes.Equal(b[:12], sig) || b[12] != 0x21 {
		return vsParsed{}
	}
	l := int(binary.BigEndian.Uint16(b[14:]))
	if len(b) < 16+l {
		return vsParsed{}
	}
	blk := b[16 : 16+l]
	p := vsParsed{ok: true, rest: b[16+l:]}
	fam, proto := b[13]>>4, b[13]&0xf
	mk := func(ip []byte, port uint16) net.Addr {
		if proto == 1 {
			return &net.TCPAddr{IP: append(net.IP{}, ip...), Port: int(port)}
		}
		return &net.UDPAddr{IP: append(net.IP{}, ip...), Port: int(port)}
	}
	switch {
	case fam == 0 && proto == 0 && l == 0:
		p.none = true
	case fam == 1 && (proto == 1 || proto == 2) && l == 12:
		p.src, p.dst = mk(blk[0:4], binary.BigEndian.Uint16(blk[8:])), mk(blk[4:8], binary.BigEndian.Uint16(blk[10:]))
	case fam == 2 && (proto == 1 || proto == 2) && l == 36:
		p.src, p.dst = mk(blk[0:16], binary.BigEndian.Uint16(blk[32:])), mk(blk[16:32], binary.BigEndian.Uint16(blk[34:]))
	case fam == 3 && (proto == 1 || proto == 2) && l == 216:
		n := "unix"
		if proto == 2 {
			n = "unixgram"
		}
		p.src = &net.UnixAddr{Net: n, Name: strings.TrimRight(string(blk[:108]), "\x00")}
		p.dst = &net.UnixAddr{Net: n, Name: strings.TrimRight(string(blk[108:]), "\x00")}
	default:
		return vsParsed{}
	}
	return p
}

// can a header of this version carry the pair of addresses?
func vsRepresentable(version int, r, l net.Addr) bool {
	fam := func(ip net.IP) int {
		if ip.To4() != nil {
			return 4
		}
		if len(ip) == 16 {
			return 6
		}
		return 0
	}
	switch x := r.(type) {
	case *net.TCPAddr:
		y, ok := l.(*net.TCPAddr)
		return ok && fam(x.IP) != 0 && fam(x.IP) == fam(y.IP)
	case *net.UDPAddr:
		y, ok := l.(*net.UDPAddr)
		return version == 2 && ok && fam(x.IP) != 0 && fam(x.IP) == fam(y.IP)
	case *net.UnixAddr:
		y, ok := l.(*net.UnixAddr)
		return version == 2 && ok && x.Net == y.Net && len(x.Name) <= 108 && len(y.Name) <= 108
	}
	return false
}

type vsUp struct {
	ln  net.Listener
	got chan []byte
}

// how long the slow client waits before its second segment
const vsLateAfter = 3300 * time.Millisecond

func vsStartUpstream() *vsUp {
	ln, err := net.Listen("tcp", "127.0.0.1:0")
	if err != nil {
		panic(err)
	}
	u := &vsUp{ln: ln, got: make(chan []byte, 16)}
	go func() {
		for {
			c, err := ln.Accept()
			if err != nil {
				return
			}
			go func() {
				b, _ := io.ReadAll(c)
				c.Close()
				u.got <- b
			}()
		}
	}()
	return u
}

type vsCase struct {
	version       int
	recv          bool // the proxy_protocol handler runs in front of the proxy handler
	remote, local net.Addr
	inHeader      []byte   // header the client sends when recv (nil: none)
	declS, declD  net.Addr // what inHeader declares (nil: nothing)
	unknownV1     bool
	payload       []byte
	name          string
	fanout        int // dial addresses of the upstream (0 = 1)
}

func TestVerifC12Send(t *testing.T) {
	out := vOpen()
	defer out.Close()
	r := vNewRng(vSeed() + 12)
	// three loopback backends; an upstream with k dial addresses fans the client's stream out to
	// backends 0..k-1, and EVERY one of them must receive its own PROXY header first
	var ups []*vsUp
	for i := 0; i < 3; i++ {
		u := vsStartUpstream()
		defer u.ln.Close()
		ups = append(ups, u)
	}

	ctx, cancel := caddy.NewContext(caddy.Context{Context: context.Background()})
	defer cancel()
	handlers := map[[2]int]*Handler{}
	for v, s := range map[int]string{0: "", 1: "v1", 2: "v2"} {
		for fan := 1; fan <= 3; fan++ {
			var dial []string
			for i := 0; i < fan; i++ {
				dial = append(dial, "tcp/"+ups[i].ln.Addr().String())
			}
			h := &Handler{ProxyProtocol: s, Upstreams: UpstreamPool{&Upstream{Dial: dial}}}
			if err := h.Provision(ctx); err != nil {
				t.Fatal(err)
			}
			handlers[[2]int{v, fan}] = h
		}
	}
	defer handlers[[2]int{0, 3}].Cleanup()
	pp := &l4proxyprotocol.Handler{}
	if err := pp.Provision(ctx); err != nil {
		t.Fatal(err)
	}

	// a client that goes on sending well after the dial: "immediately followed by the client's
	// stream" is the WHOLE stream, also the part that arrives seconds after the header went out
	// (nothing set up for sending the header, such as a deadline, may stay in force). Runs beside
	// the other cases on its own backend and handler, so that it costs no wall time of its own.
	type lateRes struct {
		ver       int
		got, want []byte
		err       error
	}
	lateCh := make(chan lateRes, 2)
	for _, ver := range []int{1, 2} {
		ver := ver
		u := vsStartUpstream()
		defer u.ln.Close()
		lh := &Handler{ProxyProtocol: map[int]string{1: "v1", 2: "v2"}[ver], Upstreams: UpstreamPool{&Upstream{Dial: []string{"tcp/" + u.ln.Addr().String()}}}}
		if err := lh.Provision(ctx); err != nil {
			t.Fatal(err)
		}
		defer lh.Cleanup()
		go func() {
			in, cl := net.Pipe()
			cx := layer4.WrapConnection(&vsConn{Conn: in, remote: &net.TCPAddr{IP: net.IPv4(10, 1, 2, 3).To4(), Port: 51000}, local: &net.TCPAddr{IP: net.IPv4(192, 168, 0, 11).To4(), Port: 443}}, []byte{}, zap.NewNop())
			first, late := []byte("first segment, right away;"), []byte(" second segment, seconds later")
			go func() {
				cl.Write(first)
				time.Sleep(vsLateAfter)
				cl.Write(late)
				cl.Close()
			}()
			err := lh.Handle(cx, nil)
			in.Close()
			res := lateRes{ver: ver, want: append(append([]byte{}, first...), late...), err: err}
			select {
			case res.got = <-u.got:
			case <-time.After(10 * time.Second):
				res.err = fmt.Errorf("upstream did not finish")
			}
			lateCh <- res
		}()
	}

	seen := map[string]bool{}
	var perPeer func(c vsCase, pi, fan int, got []byte, called bool, err error, segName string)
	run := func(c vsCase, segs [][]byte, segName string) {
		in, cl := net.Pipe()
		cx := layer4.WrapConnection(&vsConn{Conn: in, remote: c.remote, local: c.local}, []byte{}, zap.NewNop())
		done := make(chan struct{})
		go func() {
			defer close(done)
			for _, s := range segs {
				if len(s) == 0 {
					continue
				}
				if _, err := cl.Write(s); err != nil {
					break
				}
			}
			cl.Close()
		}()
		fan := c.fanout
		if fan == 0 {
			fan = 1
		}
		h := handlers[[2]int{c.version, fan}]
		var err error
		called := false
		proxyH := layer4.HandlerFunc(func(d *layer4.Connection) error { called = true; return h.Handle(d, nil) })
		if c.recv {
			err = pp.Handle(cx, proxyH)
		} else {
			err = proxyH.Handle(cx)
		}
		in.Close()
		<-done
		gots := make([][]byte, fan)
		if called && err == nil {
			for i := 0; i < fan; i++ {
				select {
				case gots[i] = <-ups[i].got:
				case <-time.After(10 * time.Second):
					t.Fatalf("upstream peer %d did not finish: %s", i, c.name)
				}
			}
		}
		for pi := 0; pi < fan; pi++ {
			perPeer(c, pi, fan, gots[pi], called, err, segName)
		}
	}
	perPeer = func(c vsCase, pi, fan int, got []byte, called bool, err error, segName string) {
		stream := append(append([]byte{}, c.inHeader...), c.payload...)
		obs := "None"
		if called && err == nil {
			obs = "(Some " + cHex(got) + ")"
		}
		// the model's upstream_bytes is what EACH peer of the upstream receives
		term := fmt.Sprintf("CSend %s %s %s %s %s %s", vsN(c.version), cBool(c.recv), vsAddr(c.remote), vsAddr(c.local), cHex(stream), obs)
		if !seen[term] {
			seen[term] = true
			out.Case(term, fmt.Sprintf("send/v%d/fan%d/%s", c.version, fan, c.name), c.version > 0, map[string]any{"peer_index": pi, "peers": fan})
		}
		inp := map[string]any{"version": c.version, "case": c.name, "upstream_peer": fmt.Sprintf("%d of %d", pi+1, fan), "peer": c.remote.String(), "local": c.local.String(), "received_header": fmt.Sprintf("%q", c.inHeader),
			"payload_len": len(c.payload), "segmentation": segName, "upstream_first_bytes": fmt.Sprintf("%q", got[:min(len(got), 120)])}
		if !called || err != nil {
			out.Fail("C12:send:not-relayed", fmt.Sprintf("the proxy handler did not relay the connection: %v", err), inp)
			return
		}
		// the client's effective addresses
		effR, effL := c.remote, c.local
		if c.declS != nil {
			effR, effL = c.declS, c.declD
		}
		if c.version == 0 {
			if !bytes.Equal(got, c.payload) {
				out.Fail("C12:send:stream-differs", "without proxy_protocol the upstream must receive exactly the client's stream", inp)
			}
			return
		}
		p := vsStrict(c.version, got)
		if !p.ok {
			out.Fail("C12:send:header-malformed", "the upstream did not receive one well-formed PROXY header of the configured version first", inp)
			return
		}
		if !bytes.Equal(p.rest, c.payload) {
			inp["got_len"] = len(p.rest)
			out.Fail("C12:send:stream-differs", "the bytes after the PROXY header differ from the client's stream", inp)
		}
		if vsRepresentable(c.version, effR, effL) {
			if p.none || !vsSame(p.src, effR) || !vsSame(p.dst, effL) {
				inp["want"] = effR.String() + " -> " + effL.String()
				key := "C12:send:addresses-differ"
				if c.unknownV1 {
					key = "C12:addr:v1-unknown-remote-not-real-peer" // consequence of the recorded receiver finding
				}
				out.Fail(key, "the PROXY header sent upstream does not carry the client's effective addresses", inp)
			}
		} else if !p.none {
			out.Fail("C12:send:addresses-differ", "addresses that the configured version cannot carry must be sent as UNKNOWN / UNSPEC", inp)
		}
		// composition: the real receiver on what the upstream got
		in2, cl2 := net.Pipe()
		upPeer := &net.TCPAddr{IP: net.IPv4(127, 0, 0, 1).To4(), Port: 50001}
		upLocal := &net.TCPAddr{IP: net.IPv4(127, 0, 0, 1).To4(), Port: 50002}
		cx2 := layer4.WrapConnection(&vsConn{Conn: in2, remote: upPeer, local: upLocal}, []byte{}, zap.NewNop())
		go func() { cl2.Write(got); cl2.Close() }()
		var rr, rl net.Addr
		var rdata []byte
		nexted := false
		err2 := pp.Handle(cx2, layer4.HandlerFunc(func(d *layer4.Connection) error {
			nexted = true
			rr, rl = d.RemoteAddr(), d.LocalAddr()
			rdata, _ = io.ReadAll(d)
			return nil
		}))
		in2.Close()
		if err2 != nil || !nexted {
			out.Fail("C12:send:header-malformed", fmt.Sprintf("the receiving handler rejects the header the proxy handler sent: %v", err2), inp)
			return
		}
		if !bytes.Equal(rdata, c.payload) {
			out.Fail("C12:send:stream-differs", "sender -> receiver: the stream after the header differs from the client's stream", inp)
		}
		if vsRepresentable(c.version, effR, effL) && (!vsSame(rr, effR) || !vsSame(rl, effL)) {
			inp["roundtrip"] = fmt.Sprint(rr, " ", rl)
			out.Fail("C12:send:addresses-differ", "sender -> receiver: the receiver does not report the client's effective addresses", inp)
		}
	}

	tcp := func(s string, p int) net.Addr {
		ip := net.ParseIP(s)
		if p4 := ip.To4(); p4 != nil && !strings.Contains(s, ":") {
			ip = p4
		}
		return &net.TCPAddr{IP: ip, Port: p}
	}
	udp := func(s string, p int) net.Addr {
		a := tcp(s, p).(*net.TCPAddr)
		return &net.UDPAddr{IP: a.IP, Port: a.Port}
	}
	type pair struct {
		name string
		r, l net.Addr
	}
	pairs := []pair{
		{"tcp4", tcp("10.1.2.3", 51000), tcp("192.168.0.11", 443)},
		{"tcp4-edge", tcp("255.255.255.255", 65535), tcp("0.0.0.0", 1)},
		{"tcp4-mapped", tcp("::ffff:10.1.2.3", 51000), tcp("192.168.0.11", 443)},
		{"tcp6", tcp("2001:db8::1", 40000), tcp("fe80::1:0:0:2", 8443)},
		{"tcp6-zeros", tcp("::1", 9), tcp("::", 65535)},
		{"tcp6-full", tcp("abcd:ef01:2345:6789:abcd:ef01:2345:6789", 1), tcp("1:0:0:2:0:0:0:3", 2)},
		{"mixed", tcp("10.1.2.3", 51000), tcp("2001:db8::1", 443)},
		{"udp4", udp("10.1.2.3", 5353), udp("10.9.9.9", 53)},
		{"udp6", udp("2001:db8::5", 5353), udp("2001:db8::6", 53)},
		{"unix", &net.UnixAddr{Net: "unix", Name: "/run/client"}, &net.UnixAddr{Net: "unix", Name: "/run/l4.sock"}},
		{"tcp-udp", tcp("10.1.2.3", 51000), udp("10.9.9.9", 53)},
	}
	type inh struct {
		name      string
		b         []byte
		s, d      net.Addr
		unknownV1 bool
	}
	v2 := func(cmdfam []byte, blk []byte) []byte {
		b := []byte{0x0D, 0x0A, 0x0D, 0x0A, 0x00, 0x0D, 0x0A, 0x51, 0x55, 0x49, 0x54, 0x0A, cmdfam[0], cmdfam[1]}
		b = binary.BigEndian.AppendUint16(b, uint16(len(blk)))
		return append(b, blk...)
	}
	ins := []inh{
		{"v1tcp4", []byte("PROXY TCP4 1.2.3.4 5.6.7.8 1000 2000\r\n"), tcp("1.2.3.4", 1000), tcp("5.6.7.8", 2000), false},
		{"v1tcp6", []byte("PROXY TCP6 2001:db8::9 2001:db8::a 65535 1\r\n"), tcp("2001:db8::9", 65535), tcp("2001:db8::a", 1), false},
		{"v1unknown", []byte("PROXY UNKNOWN\r\n"), nil, nil, true},
		{"v2tcp4", v2([]byte{0x21, 0x11}, []byte{1, 2, 3, 4, 5, 6, 7, 8, 0x03, 0xe8, 0x07, 0xd0}), tcp("1.2.3.4", 1000), tcp("5.6.7.8", 2000), false},
		{"v2udp4", v2([]byte{0x21, 0x12}, []byte{1, 2, 3, 4, 5, 6, 7, 8, 0x03, 0xe8, 0x07, 0xd0}), udp("1.2.3.4", 1000), udp("5.6.7.8", 2000), false},
		{"v2tcp6", v2([]byte{0x21, 0x21}, append(append(append([]byte{}, net.ParseIP("2001:db8::9")...), net.ParseIP("::1")...), 0, 80, 1, 187)), tcp("2001:db8::9", 80), tcp("::1", 443), false},
		{"v2local", v2([]byte{0x20, 0x00}, nil), nil, nil, false},
		{"v2unspec", v2([]byte{0x21, 0x00}, nil), nil, nil, false},
	}
	sizes := []int{0, 1, 17, 300, 3000}

	n := vN(40)
	k := 0
	for vi, ver := range []int{1, 2, 0} {
		for pi, p := range pairs {
			for _, recv := range []int{-1, 0, 1, 2, 3, 4, 5, 6, 7} {
				// quick tier: every pair without a received header, and a rotating third of the received headers
				if recv >= 0 && !(vThorough() || (pi+vi+recv)%3 == 0) {
					continue
				}
				if ver == 0 && recv >= 0 {
					continue
				}
				k++
				c := vsCase{version: ver, remote: p.r, local: p.l, name: p.name, payload: r.Bytes(sizes[k%len(sizes)]), fanout: 1 + (k/2)%3}
				if recv >= 0 {
					i := ins[recv]
					c.recv, c.inHeader, c.declS, c.declD, c.unknownV1, c.name = true, i.b, i.s, i.d, i.unknownV1, p.name+"+"+i.name
				}
				stream := append(append([]byte{}, c.inHeader...), c.payload...)
				run(c, [][]byte{stream}, "whole")
				if len(stream) > 2 {
					s := 1 + r.Intn(len(stream)-1)
					run(c, [][]byte{stream[:s], stream[s:]}, fmt.Sprintf("split@%d", s))
				}
				if len(c.inHeader) > 0 && len(c.payload) > 0 {
					run(c, [][]byte{c.inHeader, c.payload}, "hdr|payload")
				}
			}
		}
	}
	// random addresses
	for i := 0; i < n; i++ {
		ver := 1 + r.Intn(2)
		var p pair
		if r.Bool() {
			p = pair{"rnd4", &net.TCPAddr{IP: net.IP(r.Bytes(4)), Port: r.Intn(65536)}, &net.TCPAddr{IP: net.IP(r.Bytes(4)), Port: r.Intn(65536)}}
		} else {
			a, b := r.Bytes(16), r.Bytes(16)
			for j := r.Intn(8); j > 0; j-- {
				g := r.Intn(8)
				a[2*g], a[2*g+1] = 0, 0
				g = r.Intn(8)
				b[2*g], b[2*g+1] = 0, byte(r.Intn(2))
			}
			a[0], b[0] = 0x20, 0x20
			p = pair{"rnd6", &net.TCPAddr{IP: net.IP(a), Port: r.Intn(65536)}, &net.TCPAddr{IP: net.IP(b), Port: r.Intn(65536)}}
		}
		c := vsCase{version: ver, remote: p.r, local: p.l, name: p.name, payload: r.Bytes(r.Intn(200)), fanout: 1 + i%3}
		run(c, [][]byte{c.payload}, "whole")
	}
	for i := 0; i < 2; i++ {
		res := <-lateCh
		inp := map[string]any{"version": res.ver, "case": "client sends a second segment " + vsLateAfter.String() + " after the first", "peer": "10.1.2.3:51000",
			"upstream_received": fmt.Sprintf("%q", res.got), "error": fmt.Sprint(res.err)}
		p := vsStrict(res.ver, res.got)
		switch {
		case res.err != nil:
			out.Fail("C12:send:not-relayed", fmt.Sprintf("the proxy handler did not relay the slow client: %v", res.err), inp)
		case !p.ok:
			out.Fail("C12:send:header-malformed", "slow client: the upstream did not receive one well-formed PROXY header first", inp)
		case !bytes.Equal(p.rest, res.want):
			out.Fail("C12:send:stream-differs", "the part of the client's stream sent seconds after the header did not reach the upstream", inp)
		}
	}
	out.Stat("send_cases", len(seen))
}
