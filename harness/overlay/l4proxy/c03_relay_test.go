package l4proxy

// C03 engine: the relay. White-box (package l4proxy): the real Handler is provisioned against
// loopback upstream listeners and Handle is called with a layer4.Connection wrapping one end of
// a loopback TCP connection, directly or behind the shipped wrapping handlers (throttle with a
// huge rate, proxy_protocol, tee with a discarding branch).
//
// Observables per scenario: bytes received by every upstream and by the client (per originating
// upstream: upstream i only sends bytes b with b%4 == i), EOF seen per endpoint, whether Handle
// returned, whether the proxy's end of every upstream connection was closed (/proc/net/tcp: no
// socket with an owning inode is left on the proxy's local port).  They are taken when Handle
// returns or, if it does not, after a stall time-out; a stalled scenario is then released (the
// client half-closes) and the final observables are taken again for the cleanup oracle.

import (
	"bufio"
	"bytes"
	"context"
	"crypto/ecdsa"
	"crypto/elliptic"
	"crypto/rand"
	"crypto/tls"
	"crypto/x509"
	"crypto/x509/pkix"
	"encoding/json"
	"errors"
	"fmt"
	"io"
	"math/big"
	"net"
	"os"
	"strconv"
	"strings"
	"sync"
	"sync/atomic"
	"testing"
	"time"

	"github.com/caddyserver/caddy/v2"
	"github.com/caddyserver/caddy/v2/modules/caddyhttp/reverseproxy"
	"go.uber.org/zap"

	"github.com/mholt/caddy-l4/layer4"
	_ "github.com/mholt/caddy-l4/modules/l4echo"
	"github.com/mholt/caddy-l4/modules/l4proxyprotocol"
	"github.com/mholt/caddy-l4/modules/l4subroute"
	"github.com/mholt/caddy-l4/modules/l4tee"
	"github.com/mholt/caddy-l4/modules/l4throttle"
)

// branch handler for tee: reads everything and discards it
type vC03Discard struct{}

func (*vC03Discard) CaddyModule() caddy.ModuleInfo {
	return caddy.ModuleInfo{ID: "layer4.handlers.verif_c03_discard", New: func() caddy.Module { return new(vC03Discard) }}
}
func (*vC03Discard) Handle(cx *layer4.Connection, next layer4.Handler) error {
	_, _ = io.Copy(io.Discard, cx)
	return nil
}

func init() { caddy.RegisterModule(&vC03Discard{}) }

type vRelaySc struct {
	peers      int
	cPayload   []byte
	pre        int
	uPayload   [][]byte
	cAfter     bool
	uAfter     []bool
	wrapper    string // "", throttle, proxy_protocol, tee
	cChunk     int
	uChunk     int
	abort      string        // "", client, upstream
	upNet      string        // "" = tcp, "unix", "tls": transport of the upstream connections
	ppOut      string        // proxy_protocol option of the proxy handler ("" or "v1")
	idle       time.Duration // the client pauses this long in the middle of its stream
	uReadDelay time.Duration // the upstreams start consuming what they receive only after this long
	abortAt    time.Duration // abort == "upstream": when peer 0 resets (after half of its stream); the other peers send
	// the first half of theirs at once and the second half 120 ms later
	seed uint64
}

type vRelaySnap struct {
	up       [][]byte
	upEOF    []bool
	cli      []byte
	cliEOF   bool
	returned bool
	closed   []bool
}

type vRelayRes struct {
	s1, s2   vRelaySnap // at return-or-stall, and at the very end
	stalled  bool
	asserted bool // down.Conn.(closeWriter) as seen by the proxy handler
	err      string
}

const (
	vStallT   = 1800 * time.Millisecond
	vReleaseT = 4 * time.Second
	vPPHeader = "PROXY TCP4 192.0.2.7 198.51.100.9 41000 443\r\n"
)

type vRecorder struct {
	mu  sync.Mutex
	b   []byte
	eof bool
	end chan struct{}
}

func newVRecorder() *vRecorder { return &vRecorder{end: make(chan struct{})} }
func (r *vRecorder) run(c net.Conn) {
	buf := make([]byte, 16384)
	for {
		n, err := c.Read(buf)
		r.mu.Lock()
		r.b = append(r.b, buf[:n]...)
		if err == io.EOF {
			r.eof = true
		}
		r.mu.Unlock()
		if err != nil {
			break
		}
	}
	close(r.end)
}
func (r *vRecorder) snap() ([]byte, bool) {
	r.mu.Lock()
	defer r.mu.Unlock()
	return append([]byte(nil), r.b...), r.eof
}

func vWriteChunks(c net.Conn, p []byte, chunk int, rng *vRng, stopAt int) error {
	if chunk <= 0 {
		chunk = len(p)
	}
	if chunk > 0 && len(p)/chunk > 400 {
		chunk = len(p)/400 + 1 // keep a scenario well below the stall time-out
	}
	for off := 0; off < len(p); {
		n := chunk
		if off+n > len(p) {
			n = len(p) - off
		}
		if stopAt >= 0 && off+n > stopAt {
			n = stopAt - off
			if n <= 0 {
				return nil
			}
		}
		if _, err := c.Write(p[off : off+n]); err != nil {
			return err
		}
		off += n
		if rng.Intn(4) == 0 {
			time.Sleep(time.Duration(rng.Intn(300)) * time.Microsecond)
		}
	}
	return nil
}

func vWaitOr(ch <-chan struct{}, d time.Duration) bool {
	select {
	case <-ch:
		return true
	case <-time.After(d):
		return false
	}
}

// sockets of this process (owning inode != 0) by (local port, remote port)
func vOwnedSockets() map[[2]int]bool {
	out := map[[2]int]bool{}
	for _, fn := range []string{"/proc/net/tcp", "/proc/net/tcp6"} {
		f, err := os.Open(fn)
		if err != nil {
			continue
		}
		sc := bufio.NewScanner(f)
		sc.Buffer(make([]byte, 1<<20), 1<<20)
		for sc.Scan() {
			fs := strings.Fields(sc.Text())
			if len(fs) < 10 || !strings.Contains(fs[1], ":") {
				continue
			}
			lp, err1 := strconv.ParseInt(fs[1][strings.LastIndex(fs[1], ":")+1:], 16, 32)
			rp, err2 := strconv.ParseInt(fs[2][strings.LastIndex(fs[2], ":")+1:], 16, 32)
			if err1 != nil || err2 != nil {
				continue
			}
			if fs[9] != "0" {
				out[[2]int{int(lp), int(rp)}] = true
			}
		}
		f.Close()
	}
	return out
}

func vPort(a net.Addr) int {
	if t, ok := a.(*net.TCPAddr); ok {
		return t.Port
	}
	return 0
}

// a throw-away self-signed certificate for the loopback TLS upstreams
var (
	vC03TLSOnce sync.Once
	vC03TLSCfg  *tls.Config
)

func vC03TLSServerConfig() *tls.Config {
	vC03TLSOnce.Do(func() {
		key, err := ecdsa.GenerateKey(elliptic.P256(), rand.Reader)
		if err != nil {
			panic(err)
		}
		tmpl := &x509.Certificate{SerialNumber: big.NewInt(1), Subject: pkix.Name{CommonName: "verif-c03"},
			NotBefore: time.Now().Add(-time.Hour), NotAfter: time.Now().Add(24 * time.Hour),
			KeyUsage: x509.KeyUsageDigitalSignature, ExtKeyUsage: []x509.ExtKeyUsage{x509.ExtKeyUsageServerAuth},
			IPAddresses: []net.IP{net.ParseIP("127.0.0.1")}, DNSNames: []string{"localhost"}}
		der, err := x509.CreateCertificate(rand.Reader, tmpl, tmpl, &key.PublicKey, key)
		if err != nil {
			panic(err)
		}
		vC03TLSCfg = &tls.Config{Certificates: []tls.Certificate{{Certificate: [][]byte{der}, PrivateKey: key}}}
	})
	return vC03TLSCfg
}

// ---- a scripted downstream connection: Read hands out the chunks one by one and returns the last
// one TOGETHER with the final error (io.EOF or another error), as e.g. a TLS connection does when the
// peer's last record arrives with its close_notify; Write records what the proxy sends to the client
type vScriptConn struct {
	mu       sync.Mutex
	chunks   [][]byte
	finalErr error
	lastWith bool // the last chunk comes with finalErr; otherwise finalErr comes alone afterwards
	wrote    []byte
	closed   bool
	closedCh chan struct{}
}

func (c *vScriptConn) Read(p []byte) (int, error) {
	c.mu.Lock()
	if len(c.chunks) == 0 {
		c.mu.Unlock()
		if c.finalErr != io.EOF || c.lastWith {
			// nothing more will ever come
		}
		return 0, c.finalErr
	}
	ch := c.chunks[0]
	n := copy(p, ch)
	if n < len(ch) {
		c.chunks[0] = ch[n:]
		c.mu.Unlock()
		return n, nil
	}
	c.chunks = c.chunks[1:]
	last := len(c.chunks) == 0
	c.mu.Unlock()
	if last && c.lastWith {
		return n, c.finalErr
	}
	return n, nil
}
func (c *vScriptConn) Write(p []byte) (int, error) {
	c.mu.Lock()
	defer c.mu.Unlock()
	if c.closed {
		return 0, net.ErrClosed
	}
	c.wrote = append(c.wrote, p...)
	return len(p), nil
}
func (c *vScriptConn) Close() error {
	c.mu.Lock()
	defer c.mu.Unlock()
	if !c.closed {
		c.closed = true
		close(c.closedCh)
	}
	return nil
}
func (c *vScriptConn) LocalAddr() net.Addr { return &net.TCPAddr{IP: net.IPv4(127, 0, 0, 1), Port: 7} }
func (c *vScriptConn) RemoteAddr() net.Addr {
	return &net.TCPAddr{IP: net.IPv4(127, 0, 0, 1), Port: 40007}
}
func (c *vScriptConn) SetDeadline(time.Time) error      { return nil }
func (c *vScriptConn) SetReadDeadline(time.Time) error  { return nil }
func (c *vScriptConn) SetWriteDeadline(time.Time) error { return nil }

// runs Handle over a scripted downstream; reports through out
func vRunScripted(ctx caddy.Context, out *vOut, rng *vRng, peers int, nchunks int, finalErr error, lastWith bool, pre int) {
	var chunks [][]byte
	var stream []byte
	for i := 0; i < nchunks; i++ {
		ch := rng.Bytes(1 + rng.Intn(900))
		chunks = append(chunks, ch)
		stream = append(stream, ch...)
	}
	if pre > len(stream) {
		pre = len(stream)
	}
	desc := map[string]any{"peers": peers, "chunks": nchunks, "client_bytes": len(stream), "prefetched": pre, "final_error": fmt.Sprint(finalErr), "last_chunk_with_error": lastWith}
	type up struct {
		ln  net.Listener
		rec *vRecorder
		pl  []byte
	}
	var ups []*up
	var addrs []string
	var wg sync.WaitGroup
	for i := 0; i < peers; i++ {
		ln, err := net.Listen("tcp", "127.0.0.1:0")
		if err != nil {
			out.Fail("C03:harness:error", err.Error(), desc)
			return
		}
		u := &up{ln: ln, rec: newVRecorder(), pl: vTagPayload(rng, 50+rng.Intn(400), i)}
		ups = append(ups, u)
		addrs = append(addrs, ln.Addr().String())
		wg.Add(1)
		go func(u *up) {
			defer wg.Done()
			_ = u.ln.(*net.TCPListener).SetDeadline(time.Now().Add(3 * time.Second))
			c, err := u.ln.Accept()
			if err != nil {
				close(u.rec.end)
				return
			}
			defer c.Close()
			go u.rec.run(c)
			_, _ = c.Write(u.pl)
			vWaitOr(u.rec.end, 3*time.Second) // finish after the client has
			_ = c.(*net.TCPConn).CloseWrite()
			time.Sleep(50 * time.Millisecond)
		}(u)
	}
	defer func() {
		for _, u := range ups {
			u.ln.Close()
		}
		wg.Wait()
	}()
	h := &Handler{Upstreams: UpstreamPool{&Upstream{Dial: addrs}}}
	if err := vC03Prov(func() error { return h.Provision(ctx) }); err != nil {
		out.Fail("C03:harness:error", "provision: "+err.Error(), desc)
		return
	}
	defer vC03Prov(h.Cleanup)
	// the matching buffer holds the first [pre] bytes, the scripted conn the rest
	rest := stream[pre:]
	var restChunks [][]byte
	skip := pre
	for _, ch := range chunks {
		if skip >= len(ch) {
			skip -= len(ch)
			continue
		}
		restChunks = append(restChunks, ch[skip:])
		skip = 0
	}
	_ = rest
	sc := &vScriptConn{chunks: restChunks, finalErr: finalErr, lastWith: lastWith && len(restChunks) > 0, closedCh: make(chan struct{})}
	cx := layer4.WrapConnection(sc, append([]byte(nil), stream[:pre]...), zap.NewNop())
	done := make(chan struct{})
	go func() { _ = h.Handle(cx, nil); close(done) }()
	returned := vWaitOr(done, 4*time.Second)
	if returned {
		sc.Close()
	}
	var upb [][]byte
	var upeof, closed []bool
	for _, u := range ups {
		vWaitOr(u.rec.end, time.Second)
		b, e := u.rec.snap()
		upb = append(upb, b)
		upeof = append(upeof, e)
		closed = append(closed, returned)
	}
	sc.mu.Lock()
	cli := append([]byte(nil), sc.wrote...)
	sc.mu.Unlock()
	if !returned {
		sc.Close()
		vWaitOr(done, 2*time.Second)
	}
	proj := vProjCli(cli, peers)
	var upl [][]byte
	for _, u := range ups {
		upl = append(upl, u.pl)
	}
	kind := "eof"
	if finalErr != io.EOF {
		kind = "error"
	}
	cls := fmt.Sprintf("scripted/%dpeer/final-%s/with-last-chunk=%v", peers, kind, lastWith)
	if finalErr == io.EOF {
		uafter := make([]bool, peers)
		for i := range uafter {
			uafter[i] = true
		}
		out.Case(fmt.Sprintf("RExact %d %d %s %s false %s chain_udp %s %s %s %s %s %s", peers, pre, cHex(stream), vHexList(upl), vBoolList(uafter),
			vHexList(upb), vHexList(proj), cBool(returned), vBoolList(upeof), cBool(returned), vBoolList(closed)), cls, lastWith, desc)
	} else {
		out.Case(fmt.Sprintf("RAbort %d %s %s %s %s %s %s", peers, cHex(stream), vHexList(upl), vHexList(upb), vHexList(proj), cBool(returned), vBoolList(closed)), cls, lastWith, desc)
	}
	for i := range ups {
		if !bytesEq(upb[i], stream) {
			out.Fail("C03:relay:upstream-bytes-differ", fmt.Sprintf("upstream %d received %d bytes, the downstream connection delivered %d (the last chunk came together with %v; equal prefix: %v)", i, len(upb[i]), len(stream), finalErr, isPrefix(upb[i], stream)), desc)
		}
		if !upeof[i] {
			out.Fail("C03:halfclose:upstream-eof-missing", fmt.Sprintf("the client's stream ended but upstream %d did not observe end-of-stream", i), desc)
		}
		if !bytesEq(proj[i], ups[i].pl) {
			out.Fail("C03:relay:client-bytes-differ", fmt.Sprintf("the client received %d bytes from upstream %d, which sent %d", len(proj[i]), i, len(ups[i].pl)), desc)
		}
	}
	if !returned {
		out.Fail("C03:cleanup:handle-never-returned", "the downstream stream ended and every upstream finished, but Handle did not return", desc)
	}
}

// caddy.Context is not safe for concurrent provisioning: scenarios provision one at a time
var vC03ProvMu sync.Mutex

func vC03Prov(f func() error) error {
	vC03ProvMu.Lock()
	defer vC03ProvMu.Unlock()
	return f()
}

func vRunRelay(ctx caddy.Context, sc vRelaySc) (res vRelayRes) {
	rng := vNewRng(int64(sc.seed))
	n := sc.peers

	// ---- upstream servers ----
	type upSrv struct {
		ln        net.Listener
		rec       *vRecorder
		conn      atomic.Value // net.Conn
		accepted  chan struct{}
		proxyPort int
		port      int
	}
	ups := make([]*upSrv, n)
	var addrs []string
	var upWG sync.WaitGroup
	sockDir := ""
	release := make(chan struct{})   // closed at the very end: upstream servers close their conns
	kick := make(chan struct{})      // closed when a stalled scenario is released: whoever waits for EOF stops waiting
	listening := make(chan struct{}) // closed once every upstream listener exists
	for i := 0; i < n; i++ {
		var ln net.Listener
		var err error
		dialAddr := ""
		if sc.upNet == "unix" {
			if sockDir == "" {
				if sockDir, err = os.MkdirTemp("", "vc03"); err != nil {
					res.err = err.Error()
					return
				}
				defer os.RemoveAll(sockDir)
			}
			path := fmt.Sprintf("%s/u%d.sock", sockDir, i)
			ln, err = net.Listen("unix", path)
			dialAddr = "unix/" + path
		} else {
			ln, err = net.Listen("tcp", "127.0.0.1:0")
			if err == nil {
				dialAddr = ln.Addr().String()
				if sc.upNet == "tls" {
					ln = tls.NewListener(ln, vC03TLSServerConfig())
				}
			}
		}
		if err != nil {
			res.err = err.Error()
			return
		}
		u := &upSrv{ln: ln, rec: newVRecorder(), accepted: make(chan struct{}), port: vPort(ln.Addr())}
		ups[i] = u
		addrs = append(addrs, dialAddr)
		upWG.Add(1)
		go func(i int, u *upSrv) {
			defer upWG.Done()
			c, err := u.ln.Accept()
			if err != nil {
				return
			}
			u.conn.Store(c)
			u.proxyPort = vPort(c.RemoteAddr())
			close(u.accepted)
			if tc, ok := c.(*tls.Conn); ok {
				_ = tc.SetDeadline(time.Now().Add(5 * time.Second))
				if err := tc.Handshake(); err != nil {
					u.rec.mu.Lock()
					close(u.rec.end)
					u.rec.mu.Unlock()
					return
				}
				_ = tc.SetDeadline(time.Time{})
			}
			if sc.uReadDelay > 0 {
				go func() { time.Sleep(sc.uReadDelay); u.rec.run(c) }()
			} else {
				go u.rec.run(c)
			}
			urng := vNewRng(int64(sc.seed) + int64(i) + 1)
			if sc.abort == "upstream" && i == 0 {
				_ = vWriteChunks(c, sc.uPayload[i], sc.uChunk, urng, len(sc.uPayload[i])/2)
				// not before the proxy handler has connected to every peer (the property starts there)
				<-listening
				for _, o := range ups {
					vWaitOr(o.accepted, 3*time.Second)
				}
				time.Sleep(5*time.Millisecond + sc.abortAt)
				if tc, ok := c.(*net.TCPConn); ok {
					_ = tc.SetLinger(0)
				}
				_ = c.Close()
				return
			}
			if sc.abort == "upstream" {
				// still sending when (or after, or before) peer 0 is reset
				_ = vWriteChunks(c, sc.uPayload[i], sc.uChunk, urng, len(sc.uPayload[i])/2)
				time.Sleep(120 * time.Millisecond)
				_ = vWriteChunks(c, sc.uPayload[i][len(sc.uPayload[i])/2:], sc.uChunk, urng, -1)
			} else {
				_ = vWriteChunks(c, sc.uPayload[i], sc.uChunk, urng, -1)
			}
			if sc.uAfter[i] {
				select {
				case <-u.rec.end:
				case <-kick:
				}
			}
			_ = c.(interface{ CloseWrite() error }).CloseWrite()
			<-release
			_ = c.Close()
		}(i, u)
	}
	close(listening)
	defer func() {
		close(release)
		for _, u := range ups {
			u.ln.Close()
		}
		upWG.Wait()
	}()

	// ---- the proxy handler ----
	h := &Handler{Upstreams: UpstreamPool{&Upstream{Dial: addrs}}, ProxyProtocol: sc.ppOut}
	if sc.upNet == "tls" {
		h.Upstreams[0].TLS = &reverseproxy.TLSConfig{InsecureSkipVerify: true}
	}
	if err := vC03Prov(func() error { return h.Provision(ctx) }); err != nil {
		res.err = "provision: " + err.Error()
		return
	}
	defer vC03Prov(h.Cleanup)
	var asserted atomic.Bool
	var herr atomic.Value // string: set by the handler goroutine, copied into res at the end
	defer func() {
		res.asserted = asserted.Load()
		if e, ok := herr.Load().(string); ok && res.err == "" {
			res.err = e
		}
	}()
	final := layer4.HandlerFunc(func(cx *layer4.Connection) error {
		_, ok := cx.Conn.(closeWriter)
		asserted.Store(ok)
		return h.Handle(cx, nil)
	})

	// ---- client connection ----
	cln, err := net.Listen("tcp", "127.0.0.1:0")
	if err != nil {
		res.err = err.Error()
		return
	}
	defer cln.Close()
	accCh := make(chan net.Conn, 1)
	go func() {
		c, err := cln.Accept()
		if err == nil {
			accCh <- c
		}
	}()
	cc, err := net.Dial("tcp", cln.Addr().String())
	if err != nil {
		res.err = err.Error()
		return
	}
	defer cc.Close()
	var srv net.Conn
	select {
	case srv = <-accCh:
	case <-time.After(3 * time.Second):
		res.err = "accept timeout"
		return
	}

	crec := newVRecorder()
	go crec.run(cc)
	cliDone := make(chan struct{})
	go func() {
		defer close(cliDone)
		if sc.wrapper == "proxy_protocol" {
			if _, err := cc.Write([]byte(vPPHeader)); err != nil {
				return
			}
		}
		if sc.abort == "client" {
			_ = vWriteChunks(cc, sc.cPayload, sc.cChunk, rng, len(sc.cPayload)/2)
			time.Sleep(20 * time.Millisecond)
			_ = cc.(*net.TCPConn).SetLinger(0)
			_ = cc.Close()
			return
		}
		if sc.abort == "upstream" {
			// keep sending after the upstream has been reset, so that a write to it fails
			_ = vWriteChunks(cc, sc.cPayload, sc.cChunk, rng, len(sc.cPayload)/2)
			time.Sleep(150 * time.Millisecond)
			for k := 0; k < 4; k++ {
				off := len(sc.cPayload)/2 + k*(len(sc.cPayload)-len(sc.cPayload)/2)/4
				end := len(sc.cPayload)/2 + (k+1)*(len(sc.cPayload)-len(sc.cPayload)/2)/4
				if _, err := cc.Write(sc.cPayload[off:end]); err != nil {
					break
				}
				time.Sleep(15 * time.Millisecond)
			}
		} else if sc.idle > 0 {
			// a first segment, a long pause, a second segment
			_ = vWriteChunks(cc, sc.cPayload, sc.cChunk, rng, len(sc.cPayload)/2)
			time.Sleep(sc.idle)
			_ = vWriteChunks(cc, sc.cPayload[len(sc.cPayload)/2:], sc.cChunk, rng, -1)
		} else {
			_ = vWriteChunks(cc, sc.cPayload, sc.cChunk, rng, -1)
		}
		if sc.cAfter {
			select {
			case <-crec.end:
			case <-kick:
			}
		}
		_ = cc.(*net.TCPConn).CloseWrite()
	}()

	// ---- server side: matching buffer, wrappers, Handle ----
	done := make(chan struct{})
	var returned atomic.Bool
	go func() {
		defer close(done)
		pre := make([]byte, sc.pre)
		if sc.pre > 0 {
			_ = srv.SetReadDeadline(time.Now().Add(3 * time.Second))
			if _, err := io.ReadFull(srv, pre); err != nil {
				herr.Store("prefetch: " + err.Error())
				return
			}
			_ = srv.SetReadDeadline(time.Time{})
		}
		cx := layer4.WrapConnection(srv, pre, zap.NewNop())
		var err error
		switch sc.wrapper {
		case "":
			err = final.Handle(cx)
		case "throttle":
			th := &l4throttle.Handler{ReadBytesPerSecond: 1e12, ReadBurstSize: 1 << 30}
			if err = vC03Prov(func() error { return th.Provision(ctx) }); err == nil {
				err = th.Handle(cx, final)
			}
		case "proxy_protocol":
			pp := &l4proxyprotocol.Handler{}
			if err = vC03Prov(func() error { return pp.Provision(ctx) }); err == nil {
				err = pp.Handle(cx, final)
			}
		case "subroute":
			// the proxy is reached by falling through a real compiled route list: a route without matcher whose
			// handler (throttle) is not terminal, then a route whose matcher (tls) needs data and says no
			sub := new(l4subroute.Handler)
			err = json.Unmarshal([]byte(`{"matching_timeout": "300ms", "routes": [
				{"handle": [{"handler": "throttle", "read_bytes_per_second": 1e12, "read_burst_size": 1073741824}]},
				{"match": [{"tls": {}}], "handle": [{"handler": "echo"}]}]}`), sub)
			if err == nil {
				err = vC03Prov(func() error { return sub.Provision(ctx) })
			}
			if err == nil {
				chain := layer4.Handlers{sub, layer4.NextHandlerFunc(func(cx *layer4.Connection, _ layer4.Handler) error { return final.Handle(cx) })}.Compile()
				err = chain.Handle(cx)
			}
		case "tee":
			raw, _ := json.Marshal(map[string]string{"handler": "verif_c03_discard"})
			te := &l4tee.Handler{HandlersRaw: []json.RawMessage{raw}}
			if err = vC03Prov(func() error { return te.Provision(ctx) }); err == nil {
				err = te.Handle(cx, final)
			}
		}
		if err != nil {
			herr.Store("handle: " + err.Error())
		}
		returned.Store(true)
	}()

	snap := func() vRelaySnap {
		var s vRelaySnap
		s.returned = returned.Load()
		s.cli, s.cliEOF = crec.snap()
		owned := vOwnedSockets()
		for _, u := range ups {
			b, e := u.rec.snap()
			if sc.ppOut == "v1" {
				// the upstream first gets the PROXY header describing the client connection; a missing or wrong
				// header stays in front of the bytes and shows up as a difference
				hdr := []byte(fmt.Sprintf("PROXY TCP4 127.0.0.1 127.0.0.1 %d %d\r\n", vPort(cc.LocalAddr()), vPort(cc.RemoteAddr())))
				if bytes.HasPrefix(b, hdr) {
					b = b[len(hdr):]
				}
			}
			s.up = append(s.up, b)
			s.upEOF = append(s.upEOF, e)
			select {
			case <-u.accepted:
				if sc.upNet == "unix" {
					// the proxy's end of a unix socket has no name to look up: closed = Handle returned and
					// the upstream's reads have ended
					select {
					case <-u.rec.end:
						s.closed = append(s.closed, s.returned)
					default:
						s.closed = append(s.closed, false)
					}
				} else {
					s.closed = append(s.closed, !owned[[2]int{u.proxyPort, u.port}])
				}
			default:
				s.closed = append(s.closed, true) // never dialled
			}
		}
		return s
	}
	settle := func() {
		// let the endpoints drain what is in flight (EOF on every endpoint that is going to get one)
		if returned.Load() {
			_ = srv.Close() // what the layer4 server does after the handler chain returns
			vWaitOr(crec.end, time.Second)
			for _, u := range ups {
				vWaitOr(u.rec.end, time.Second)
			}
		} else {
			time.Sleep(50 * time.Millisecond)
		}
	}

	if !vWaitOr(done, vStallT+sc.idle) {
		res.stalled = true
	}
	settle()
	res.s1 = snap()
	if res.stalled {
		close(kick)
		vWaitOr(done, vReleaseT)
		settle()
		res.s2 = snap()
		if !returned.Load() {
			// last resort so that nothing is left behind
			_ = cc.Close()
			_ = srv.Close()
			vWaitOr(done, 2*time.Second)
		}
	} else {
		res.s2 = res.s1
	}
	vWaitOr(cliDone, time.Second)
	return
}

// ---------------------------------------------------------------------------------------------

func vTagPayload(r *vRng, n, tag int) []byte {
	b := r.Bytes(n)
	for i := range b {
		b[i] = b[i]&^3 | byte(tag)
	}
	return b
}

func vProjCli(b []byte, n int) [][]byte {
	out := make([][]byte, n)
	for _, x := range b {
		t := int(x & 3)
		if t < n {
			out[t] = append(out[t], x)
		} else {
			out[0] = append(out[0], x) // a byte no upstream sent: shows up as a difference on upstream 0
		}
	}
	return out
}

func vChainCoq(w string) string {
	switch w {
	case "throttle":
		return "chain_throttle"
	case "proxy_protocol":
		return "chain_proxy_protocol"
	case "tee":
		return "chain_tee"
	case "subroute":
		return "chain_throttle" // the subroute's first route put a throttledConn around the transport
	}
	return "chain_direct"
}

func vHexList(bs [][]byte) string {
	ss := make([]string, len(bs))
	for i, b := range bs {
		ss[i] = cHex(b)
	}
	return "[" + strings.Join(ss, "; ") + "]"
}
func vBoolList(bs []bool) string {
	ss := make([]string, len(bs))
	for i, b := range bs {
		ss[i] = cBool(b)
	}
	return "[" + strings.Join(ss, "; ") + "]"
}

func vSizeBucket(n int) string {
	switch {
	case n == 0:
		return "0"
	case n <= 64:
		return "tiny"
	case n <= 2048:
		return "small"
	case n <= 65536:
		return "mid"
	}
	return "big"
}

func (sc vRelaySc) describe() map[string]any {
	ul := make([]int, len(sc.uPayload))
	for i, p := range sc.uPayload {
		ul[i] = len(p)
	}
	return map[string]any{"peers": sc.peers, "client_bytes": len(sc.cPayload), "prefetched": sc.pre, "upstream_bytes": ul,
		"client_fin_after_eof": sc.cAfter, "upstream_fin_after_eof": sc.uAfter, "wrapper": sc.wrapper,
		"client_chunk": sc.cChunk, "upstream_chunk": sc.uChunk, "abort": sc.abort, "upstream_network": nonEmpty(sc.upNet, "tcp"), "peer0_reset_after_ms": sc.abortAt.Milliseconds(), "upstream_read_delay_ms": sc.uReadDelay.Milliseconds(), "proxy_protocol_out": sc.ppOut, "client_idle_ms": sc.idle.Milliseconds(), "seed": sc.seed}
}

func bytesEq(a, b []byte) bool  { return string(a) == string(b) }
func isPrefix(a, b []byte) bool { return len(a) <= len(b) && string(a) == string(b[:len(a)]) }

// the property text evaluated on the observables; returns the failures (key, detail)
func vRelayOracle(sc vRelaySc, r vRelayRes) [][2]string {
	var f [][2]string
	add := func(k, d string) { f = append(f, [2]string{k, d}) }
	wsuf := ""
	if sc.wrapper != "" {
		wsuf = ":" + sc.wrapper
	}
	if r.err != "" && sc.abort == "" {
		add("C03:harness:error", r.err)
		return f
	}
	fin := r.s2
	proj := vProjCli(fin.cli, sc.peers)
	if sc.abort != "" {
		for i := range fin.up {
			if !isPrefix(fin.up[i], sc.cPayload) {
				add("C03:relay:upstream-bytes-differ", fmt.Sprintf("after an abrupt close upstream %d holds bytes that are not a prefix of the client's stream", i))
			}
			if !isPrefix(proj[i], sc.uPayload[i]) {
				add("C03:relay:client-bytes-differ", fmt.Sprintf("after an abrupt close the client holds bytes from upstream %d that are not a prefix of its stream", i))
			}
			// the client->upstream direction has ended (with an error): every upstream that is still
			// there must observe end-of-stream without anybody else having to act
			// a peer that was reset takes nothing away from the others: everything they send reaches the client
			if sc.abort == "upstream" && i != 0 && !bytesEq(proj[i], sc.uPayload[i]) {
				add("C03:relay:client-bytes-differ", fmt.Sprintf("peer 0 was reset; the client received %d bytes from peer %d, which sent %d and was not disturbed", len(proj[i]), i, len(sc.uPayload[i])))
			}
			if sc.uAfter[i] && !(sc.abort == "upstream" && i == 0) && !r.s1.upEOF[i] {
				add("C03:halfclose:upstream-eof-missing", fmt.Sprintf("the client->upstream direction ended with an error (%s reset) but upstream %d, waiting for end-of-stream, did not observe it", sc.abort, i))
			}
		}
		if sc.abort == "upstream" && !fin.cliEOF {
			add("C03:halfclose:client-eof-missing", "one peer was reset, the others finished: the client must see end-of-stream after the last of them, not an error")
		}
		if r.stalled {
			add("C03:cleanup:handle-never-returned", "after the abrupt close Handle did not return although every remaining peer finishes as soon as it sees end-of-stream")
			return f
		}
	} else {
		for i := range fin.up {
			if !bytesEq(fin.up[i], sc.cPayload) {
				add("C03:relay:upstream-bytes-differ", fmt.Sprintf("upstream %d received %d bytes, the client sent %d (equal prefix: %v)", i, len(fin.up[i]), len(sc.cPayload), isPrefix(fin.up[i], sc.cPayload)))
			}
			if !bytesEq(proj[i], sc.uPayload[i]) {
				add("C03:relay:client-bytes-differ", fmt.Sprintf("the client received %d bytes from upstream %d, which sent %d (equal prefix: %v)", len(proj[i]), i, len(sc.uPayload[i]), isPrefix(proj[i], sc.uPayload[i])))
			}
		}
		// half-close towards the client: every upstream has finished, the client must see EOF
		// without having to finish first (it is waiting for it when cAfter)
		if sc.cAfter && !r.s1.cliEOF {
			add("C03:halfclose:client-eof-missing"+wsuf, "every upstream finished sending but the client did not observe end-of-stream while its own direction was still open")
		} else if !fin.cliEOF {
			add("C03:halfclose:client-eof-missing"+wsuf, "the client never observed end-of-stream")
		}
		for i, e := range fin.upEOF {
			if sc.uAfter[i] && !r.s1.upEOF[i] {
				add("C03:halfclose:upstream-eof-missing", fmt.Sprintf("the client finished sending but upstream %d did not observe end-of-stream while its own direction was still open", i))
			} else if !e {
				add("C03:halfclose:upstream-eof-missing", fmt.Sprintf("the client finished sending but upstream %d never observed end-of-stream", i))
			}
		}
	}
	if !fin.returned {
		add("C03:cleanup:handle-never-returned", "both sides finished (or aborted) but Handle did not return")
	} else {
		for i, c := range fin.closed {
			if !c {
				add("C03:cleanup:upstream-left-open", fmt.Sprintf("Handle returned but the proxy's socket to upstream %d is still open", i))
			}
		}
	}
	return f
}

func vRelayCase(out *vOut, sc vRelaySc, r vRelayRes) {
	s := r.s1
	ul := make([]string, sc.peers)
	for i := range ul {
		ul[i] = cZ(int64(len(sc.uPayload[i])))
	}
	maxU := 0
	for _, p := range sc.uPayload {
		if len(p) > maxU {
			maxU = len(p)
		}
	}
	nt := len(sc.cPayload) > 0 && maxU > 0 && (sc.cAfter || anyTrue(sc.uAfter))
	order := "free"
	if sc.cAfter {
		order = "upstream-first"
	} else if anyTrue(sc.uAfter) {
		order = "client-first"
	}
	cls := fmt.Sprintf("%dpeer/%s/%s/c%s-u%s", sc.peers, nonEmpty(sc.wrapper, "direct"), order, vSizeBucket(len(sc.cPayload)), vSizeBucket(maxU))
	if sc.upNet != "" {
		cls = sc.upNet + "/" + cls
	}
	if sc.ppOut != "" {
		cls = "pp-" + sc.ppOut + "/" + cls
	}
	if sc.idle > 0 {
		cls = "late-write/" + cls
	}
	proj := vProjCli(s.cli, sc.peers)
	switch {
	case sc.abort != "" && maxU > 16384:
		// too large to be spelled out in a Coq term: the prefix relations are checked by the oracle only
	case sc.abort != "":
		out.Case(fmt.Sprintf("RAbort %d %s %s %s %s %s %s", sc.peers, cHex(sc.cPayload), vHexList(sc.uPayload), vHexList(r.s1.up), vHexList(vProjCli(r.s1.cli, sc.peers)),
			cBool(r.s1.returned), vBoolList(r.s1.closed)), "abort-"+sc.abort+"/"+cls, true, sc.describe())
	case len(sc.cPayload) <= 1200 && maxU <= 1200:
		out.Case(fmt.Sprintf("RExact %d %d %s %s %s %s %s %s %s %s %s %s %s", sc.peers, sc.pre, cHex(sc.cPayload), vHexList(sc.uPayload), cBool(sc.cAfter), vBoolList(sc.uAfter),
			vChainCoq(sc.wrapper), vHexList(s.up), vHexList(proj), cBool(s.cliEOF), vBoolList(s.upEOF), cBool(s.returned), vBoolList(s.closed)), cls, nt, sc.describe())
	default:
		upo := make([]string, sc.peers)
		clo := make([]string, sc.peers)
		for i := 0; i < sc.peers; i++ {
			upo[i] = fmt.Sprintf("(%d, %s)", len(s.up[i]), cBool(bytesEq(s.up[i], sc.cPayload)))
			clo[i] = fmt.Sprintf("(%d, %s)", len(proj[i]), cBool(bytesEq(proj[i], sc.uPayload[i])))
		}
		out.Case(fmt.Sprintf("RBig %d %d [%s] %s %s %s [%s] [%s] %s %s %s %s", sc.peers, len(sc.cPayload), strings.Join(ul, "; "), cBool(sc.cAfter), vBoolList(sc.uAfter),
			vChainCoq(sc.wrapper), strings.Join(upo, "; "), strings.Join(clo, "; "), cBool(s.cliEOF), vBoolList(s.upEOF), cBool(s.returned), vBoolList(s.closed)), cls, nt, sc.describe())
	}
}

func anyTrue(b []bool) bool {
	for _, x := range b {
		if x {
			return true
		}
	}
	return false
}
func nonEmpty(s, d string) string {
	if s == "" {
		return d
	}
	return s
}

// dialPeers: peers that refuse; how many connections were opened and how many of them closed
func vDialCase(ctx caddy.Context, out *vOut, pattern []int) {
	var lns []net.Listener
	var addrs []string
	type acc struct {
		mu     sync.Mutex
		n      int
		closed int
	}
	st := &acc{}
	var wg sync.WaitGroup
	for _, p := range pattern {
		ln, err := net.Listen("tcp", "127.0.0.1:0")
		if err != nil {
			return
		}
		addrs = append(addrs, ln.Addr().String())
		if p == 1 {
			ln.Close() // refuses from now on
			continue
		}
		lns = append(lns, ln)
		wg.Add(1)
		go func(ln net.Listener) {
			defer wg.Done()
			_ = ln.(*net.TCPListener).SetDeadline(time.Now().Add(1500 * time.Millisecond))
			c, err := ln.Accept()
			if err != nil {
				return
			}
			st.mu.Lock()
			st.n++
			st.mu.Unlock()
			_ = c.SetReadDeadline(time.Now().Add(1500 * time.Millisecond))
			_, err = c.Read(make([]byte, 1))
			if err == io.EOF {
				st.mu.Lock()
				st.closed++
				st.mu.Unlock()
			}
			c.Close()
		}(ln)
	}
	h := &Handler{Upstreams: UpstreamPool{&Upstream{Dial: addrs}}}
	if err := h.Provision(ctx); err != nil {
		out.Fail("C03:harness:error", "provision: "+err.Error(), pattern)
		return
	}
	defer h.Cleanup()
	a, b := net.Pipe()
	defer a.Close()
	defer b.Close()
	cx := layer4.WrapConnection(a, nil, zap.NewNop())
	repl := cx.Context.Value(layer4.ReplacerCtxKey).(*caddy.Replacer)
	conns, err := h.dialPeers(h.Upstreams[0], repl, cx)
	if err == nil {
		time.Sleep(100 * time.Millisecond) // nothing must have been closed
	}
	for _, ln := range lns {
		if err != nil {
			// listeners after the failing peer are never dialled: do not wait for them
			_ = ln.(*net.TCPListener).SetDeadline(time.Now().Add(300 * time.Millisecond))
		}
	}
	if err == nil {
		st.mu.Lock()
		closedEarly := st.closed
		st.mu.Unlock()
		for _, c := range conns {
			c.Close()
		}
		wg.Wait()
		st.mu.Lock()
		out.Case(fmt.Sprintf("RDial %s true %d %d", cZList(toI64(pattern)), st.n, closedEarly), fmt.Sprintf("dial/ok/%d", len(pattern)), len(pattern) > 1, pattern)
		st.mu.Unlock()
		return
	}
	wg.Wait()
	st.mu.Lock()
	defer st.mu.Unlock()
	out.Case(fmt.Sprintf("RDial %s false %d %d", cZList(toI64(pattern)), st.n, st.closed), fmt.Sprintf("dial/fail/%d", len(pattern)), st.n > 0, pattern)
	if st.closed != st.n {
		out.Fail("C03:cleanup:upstream-left-open", fmt.Sprintf("dialPeers failed after opening %d connections but closed only %d of them", st.n, st.closed), pattern)
	}
}

func toI64(a []int) []int64 {
	o := make([]int64, len(a))
	for i, x := range a {
		o[i] = int64(x)
	}
	return o
}

func TestVerifC03(t *testing.T) {
	out := vOpen()
	defer out.Close()
	ctx, cancel := caddy.NewContext(caddy.Context{Context: context.Background()})
	defer cancel()
	rng := vNewRng(vSeed())

	var scs []vRelaySc
	mk := func(peers, clen, pre int, ulen []int, cAfter bool, uAfter bool, wrapper string, cChunk, uChunk int, abort string) vRelaySc {
		sc := vRelaySc{peers: peers, pre: pre, cAfter: cAfter, wrapper: wrapper, cChunk: cChunk, uChunk: uChunk, abort: abort, abortAt: 20 * time.Millisecond, seed: rng.U64() >> 1}
		sc.cPayload = rng.Bytes(clen)
		if pre > clen {
			sc.pre = clen
		}
		if wrapper == "proxy_protocol" || wrapper == "tee" || wrapper == "subroute" {
			sc.pre = 0 // prefetched residue behind these wrappers is C01's subject
		}
		for i := 0; i < peers; i++ {
			l := ulen[i%len(ulen)]
			sc.uPayload = append(sc.uPayload, vTagPayload(rng, l, i))
			sc.uAfter = append(sc.uAfter, uAfter)
		}
		return sc
	}
	wrappers := []string{"", "throttle", "proxy_protocol", "tee"}
	// 0. late writes (first, so that they run alongside everything else): a segment, a long pause, another
	// segment; with and without proxy_protocol on the proxy handler
	idles := []time.Duration{4 * time.Second}
	if vThorough() {
		idles = append(idles, 12*time.Second)
	}
	for _, idle := range idles {
		for _, pp := range []string{"v1", ""} {
			sc := mk(1+len(pp)/2, 1500+rng.Intn(500), 0, []int{300 + rng.Intn(300)}, false, true, "", 0, 0, "")
			sc.ppOut, sc.idle = pp, idle
			scs = append(scs, sc)
		}
	}
	// 0b. the proxy reached by falling through a subroute (matching_timeout 300 ms); the client pauses
	// three times as long between two segments: no deadline of the matching phase may survive
	for i := 0; i < 3; i++ {
		sc := mk(1+i%2, 800+rng.Intn(800), 0, []int{200 + rng.Intn(500)}, i == 2, i != 2, "subroute", 0, 0, "")
		sc.cPayload[0] = 'h' // not a TLS record: the tls matcher says no once it has seen data
		sc.idle = 900 * time.Millisecond
		scs = append(scs, sc)
	}
	// 1. every wrapper x every half-close order x 1..3 peers, small payloads both ways
	for _, w := range wrappers {
		for peers := 1; peers <= 3; peers++ {
			for order := 0; order < 4; order++ {
				// 0: both free, client data first; 1: client finishes first (upstreams wait for EOF);
				// 2: upstreams finish first (client waits for EOF); 3: both free, large chunk mix
				cAfter, uAfter := order == 2, order == 1
				cl, ul := 300+rng.Intn(1500), 200+rng.Intn(1500)
				scs = append(scs, mk(peers, cl, rng.Intn(64), []int{ul, ul / 2, ul / 3}, cAfter, uAfter, w, []int{0, 7, 100, 1000}[rng.Intn(4)], []int{0, 13, 500}[rng.Intn(3)], ""))
			}
		}
	}
	// 2. boundary sizes (empty streams, one byte, io.Copy buffer sizes, 1 MiB), direct and behind throttle
	sizes := []int{0, 1, 4096, 8192, 8193, 32768, 32769, 65536, 1 << 20}
	for i, cs := range sizes {
		us := sizes[(i*5+3)%len(sizes)]
		w := wrappers[i%2]
		scs = append(scs, mk(1+i%3, cs, rng.Intn(200), []int{us}, false, i%2 == 0, w, []int{0, 4096, 65536}[i%3], 0, ""))
		scs = append(scs, mk(1, us, 0, []int{cs}, false, false, wrappers[(i+1)%4], 0, []int{0, 1000, 65536}[i%3], ""))
	}
	scs = append(scs, mk(1, 0, 0, []int{0}, false, false, "", 0, 0, ""))
	scs = append(scs, mk(2, 0, 0, []int{0}, true, false, "", 0, 0, ""))
	scs = append(scs, mk(1, 1<<20, 0, []int{1 << 20}, false, true, "", 0, 0, ""))
	// 3. abrupt closes
	for i := 0; i < 6; i++ {
		ab := []string{"client", "upstream"}[i%2]
		scs = append(scs, mk(1+i%2, 600+rng.Intn(1000), rng.Intn(32), []int{500 + rng.Intn(1000)}, false, false, wrappers[i%2], 50, 50, ab))
	}
	// 3b. abrupt closes while upstreams idle, waiting for end-of-stream before they finish: the
	// client->upstream direction ends with an error (client reset / a write to a reset peer fails)
	for i := 0; i < 6; i++ {
		if i%2 == 0 {
			scs = append(scs, mk(1+i/2, 600+rng.Intn(1000), rng.Intn(32), []int{300 + rng.Intn(600)}, false, true, wrappers[(i/2)%2], 50, 0, "client"))
		} else {
			sc := mk(2+i/4, 4000+rng.Intn(4000), 0, []int{400 + rng.Intn(400)}, false, true, "", 200, 0, "upstream")
			scs = append(scs, sc)
		}
	}
	// 3b'. one peer of 2..3 is reset before / while / after the others send (they stream 4..260 KiB in two
	// halves 120 ms apart): the others' bytes all reach the client, which sees end-of-stream at the end
	for i := 0; i < 6; i++ {
		sc := mk(2+i%2, 3000+rng.Intn(3000), 0, []int{4000 + rng.Intn(4000), []int{5000, 262144, 70000}[i%3], 9000}, false, i%2 == 0, "", 300, []int{0, 8192}[i%2], "upstream")
		sc.abortAt = []time.Duration{0, 20 * time.Millisecond, 60 * time.Millisecond, 200 * time.Millisecond}[rng.Intn(4)]
		if i < 2 {
			sc.abortAt = 20 * time.Millisecond
		}
		scs = append(scs, sc)
	}
	// 3b''. upstreams that answer and finish at once but consume the client's stream late: Handle returns while
	// the client's bytes are still queued towards them; closing the upstream connections must not drop them
	for i := 0; i < 3; i++ {
		sc := mk(1+i%2, []int{200000, 3 << 20, 50000}[i], 0, []int{300, 2000}, false, false, []string{"", "", "throttle"}[i], 0, 0, "")
		sc.uReadDelay = 300 * time.Millisecond
		scs = append(scs, sc)
	}
	// 3c. upstream peers over unix sockets (no WriteTo/ReadFrom fast path in io.Copy), 2..3 peers
	// streaming large payloads at the same time
	for i := 0; i < 5; i++ {
		peers := 2 + i%2
		ul := []int{1 << 20, 700000 + rng.Intn(600000), 300000 + rng.Intn(900000)}
		if i == 4 {
			ul = []int{900, 700, 500}
		}
		sc := mk(peers, []int{0, 3000, 70000, 1 << 20, 1000}[i], 0, ul, i == 1, i == 2, "", 0, []int{0, 0, 65536, 0, 100}[i], "")
		sc.upNet = "unix"
		if i == 1 {
			sc.pre = 16
		}
		scs = append(scs, sc)
	}
	// 3d. TLS upstreams (the upstream `tls` option, certificate not verified): 1..2 peers, empty and
	// non-empty streams in both directions, every half-close order; PROXY header in front of a few
	for i := 0; i < 9; i++ {
		order := i % 3 // 0 free, 1 client first (upstreams wait for EOF), 2 upstreams first
		cl := []int{0, 0, 700, 0, 1, 40000, 900, 0, 300}[i]
		ul := []int{0, 500, 0, 900, 1, 70000, 800, 0, 300}[i]
		if order == 1 && i < 6 {
			cl = 0 // the empty request with the client half-closing first
		}
		sc := mk(1+i%2, cl, 0, []int{ul, ul / 2}, order == 2, order == 1, "", []int{0, 100}[i%2], 0, "")
		sc.upNet = "tls"
		scs = append(scs, sc)
	}
	for i := 0; i < 3; i++ {
		sc := mk(1+i%2, []int{0, 800, 5000}[i], 0, []int{[]int{600, 0, 3000}[i]}, i == 2, i == 0, "", 0, 0, "")
		sc.ppOut = "v1"
		scs = append(scs, sc)
	}
	// 4. random scenarios
	nrand := vN(40)
	for i := 0; i < nrand; i++ {
		peers := 1 + rng.Intn(3)
		order := rng.Intn(3)
		big := rng.Intn(6) == 0
		cl, ul := rng.Intn(2048), rng.Intn(2048)
		if big {
			cl, ul = rng.Intn(300000), rng.Intn(300000)
		}
		scs = append(scs, mk(peers, cl, rng.Intn(100), []int{ul, rng.Intn(ul + 1), rng.Intn(ul + 1)}, order == 2, order == 1, wrappers[rng.Intn(4)],
			[]int{0, 1, 64, 1500, 9000}[rng.Intn(5)], []int{0, 3, 700, 40000}[rng.Intn(4)], ""))
	}

	results := make([]vRelayRes, len(scs))
	sem := make(chan struct{}, 12)
	var wg sync.WaitGroup
	for i := range scs {
		wg.Add(1)
		sem <- struct{}{}
		go func(i int) {
			defer wg.Done()
			defer func() { <-sem }()
			r := vRunRelay(ctx, scs[i])
			if len(vRelayOracle(scs[i], r)) > 0 {
				// one retry before anything is reported (time-outs under load)
				r2 := vRunRelay(ctx, scs[i])
				if len(vRelayOracle(scs[i], r2)) == 0 || r.err != "" {
					r = r2
				}
			}
			results[i] = r
		}(i)
	}
	wg.Wait()

	stalls := 0
	seenMethod := map[string]bool{}
	for i, sc := range scs {
		r := results[i]
		if r.stalled {
			stalls++
		}
		if r.err != "" && sc.abort == "" {
			out.Fail("C03:harness:error", r.err, sc.describe())
			continue
		}
		vRelayCase(out, sc, r)
		if !seenMethod[sc.wrapper] {
			seenMethod[sc.wrapper] = true
			out.Case(fmt.Sprintf("RMethod %s %s", vChainCoq(sc.wrapper), cBool(r.asserted)), "method/"+nonEmpty(sc.wrapper, "direct"), sc.wrapper != "", sc.wrapper)
		}
		for _, f := range vRelayOracle(sc, r) {
			in := sc.describe()
			in["stalled"] = r.stalled
			in["handle_error"] = r.err
			out.Fail(f[0], f[1], in)
		}
	}
	out.Stat("relay_scenarios", len(scs))
	out.Stat("relay_stalled", stalls)

	// scripted downstream connections: the last chunk arrives together with io.EOF / with an error
	for i, e := range []error{io.EOF, errors.New("verif: connection reset"), io.EOF, io.ErrUnexpectedEOF, io.EOF, io.EOF} {
		vRunScripted(ctx, out, rng, 1+i%2, []int{1, 2, 3, 1, 4, 2}[i], e, i != 4, []int{0, 0, 10, 5, 0, 2000}[i])
	}
	// dialPeers cleanup
	for _, p := range [][]int{{0}, {1}, {0, 1}, {0, 0, 1}, {0, 1, 0}, {1, 0}, {0, 0}, {0, 0, 0}} {
		vDialCase(ctx, out, p)
	}
}
