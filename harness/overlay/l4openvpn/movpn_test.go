package l4openvpn

// Engine "movpn": OpenVPN codecs (C18) and matcher (C04, C06, C14). White-box (package l4openvpn) so
// that the provisioned keys and the mutable lastDigest field can be set and read.
//
// The message generator below is an encoder written from the OpenVPN wire definition (tls-auth,
// tls-crypt, tls-crypt-v2 client reset packets); it does not call the module's ToBytes/Sign/Encrypt.
// Only the raw primitives (HMAC per digest, AES-256-CTR) are shared with the module.

import (
	"bytes"
	"context"
	"crypto/aes"
	"crypto/cipher"
	"crypto/hmac"
	"crypto/sha256"
	"encoding/base64"
	"encoding/binary"
	"encoding/hex"
	"errors"
	"fmt"
	"io"
	"net"
	"os"
	"runtime"
	"strings"
	"testing"
	"time"

	"github.com/caddyserver/caddy/v2"
	"go.uber.org/zap"

	"github.com/mholt/caddy-l4/layer4"
)

// ---------------------------------------------------------------- connection + evaluation

type vConn struct {
	tcp   bool
	reads int
}

func (c *vConn) Read(p []byte) (int, error)        { c.reads++; return 0, io.EOF }
func (c *vConn) Write(b []byte) (int, error)       { return len(b), nil }
func (c *vConn) Close() error                      { return nil }
func (c *vConn) RemoteAddr() net.Addr              { return &net.TCPAddr{IP: net.IPv4(192, 0, 2, 1), Port: 40000} }
func (c *vConn) SetDeadline(time.Time) error       { return nil }
func (c *vConn) SetReadDeadline(time.Time) error   { return nil }
func (c *vConn) SetWriteDeadline(time.Time) error  { return nil }
func (c *vConn) LocalAddr() net.Addr {
	if c.tcp {
		return &net.TCPAddr{IP: net.IPv4(127, 0, 0, 1), Port: 1194}
	}
	return &net.UDPAddr{IP: net.IPv4(127, 0, 0, 1), Port: 1194}
}

const (
	vYes = iota
	vNo
	vMore
	vFail
	vPanic
)

var vVerdictNames = []string{"Yes", "No", "More", "Fail", "Panic"}

type vRes struct {
	code   int
	pmsg   string
	reads  int
	intact bool
	alloc  uint64
}

var vMeasureAlloc bool

// evaluates m on a fresh connection preloaded with prefix, in matching mode
func vEval(m layer4.ConnMatcher, tcp bool, prefix []byte) (r vRes) {
	conn := &vConn{tcp: tcp}
	buf := append(make([]byte, 0, len(prefix)+8), prefix...)
	cx := layer4.WrapConnection(conn, buf, zap.NewNop())
	var ms0, ms1 runtime.MemStats
	func() {
		defer func() {
			if e := recover(); e != nil {
				r.code, r.pmsg = vPanic, fmt.Sprint(e)
			}
		}()
		if vMeasureAlloc {
			runtime.ReadMemStats(&ms0)
		}
		ok, err := layer4.MatcherSet{m}.Match(cx)
		if vMeasureAlloc {
			runtime.ReadMemStats(&ms1)
			r.alloc = ms1.TotalAlloc - ms0.TotalAlloc
		}
		switch {
		case err == nil && ok:
			r.code = vYes
		case err == nil:
			r.code = vNo
		case errors.Is(err, layer4.ErrConsumedAllPrefetchedBytes):
			r.code = vMore
		default:
			r.code, r.pmsg = vFail, err.Error()
		}
	}()
	r.reads = conn.reads
	if r.code != vPanic {
		rb := make([]byte, len(prefix))
		n, _ := io.ReadFull(cx, rb)
		r.intact = n == len(prefix) && bytes.Equal(rb, prefix) && conn.reads == r.reads
	} else {
		r.intact = true
	}
	return
}

// ---------------------------------------------------------------- configurations

type vCfg struct {
	name                   string
	plain, auth, crypt, c2 bool
	igc, igt               bool
	gk                     []byte // 256 bytes or nil
	dir                    string // "", normal, inverse, bidi
	ad                     int    // -1 none
	cks                    []vCK
	sk                     []byte // 128 bytes or nil
	m                      *MatchOpenVPN
}

type vCK struct {
	kc  []byte // 256
	wkc []byte // tag || enc || len
}

func (c *vCfg) modes() []string {
	var ms []string
	if c.plain {
		ms = append(ms, "plain")
	}
	if c.auth {
		ms = append(ms, "AUTH")
	}
	if c.crypt {
		ms = append(ms, "crypt")
	}
	if c.c2 {
		ms = append(ms, "Crypt2")
	}
	if len(ms) == 4 {
		return nil
	}
	return ms
}

func (c *vCfg) provision(ctx caddy.Context) error {
	m := &MatchOpenVPN{Modes: c.modes(), IgnoreCrypto: c.igc, IgnoreTimestamp: c.igt, GroupKeyDirection: c.dir}
	if c.gk != nil {
		m.GroupKey = hex.EncodeToString(c.gk)
	}
	if c.ad >= 0 {
		m.AuthDigest = AuthDigests[c.ad].Names[len(AuthDigests[c.ad].Names)-1]
	}
	if c.sk != nil {
		m.ServerKey = base64.StdEncoding.EncodeToString(c.sk)
	}
	for _, ck := range c.cks {
		m.ClientKeys = append(m.ClientKeys, base64.StdEncoding.EncodeToString(append(append([]byte{}, ck.kc...), ck.wkc...)))
	}
	c.m = m
	return m.Provision(ctx)
}

// keys are printed as indices into the table that coq/corr/OvpnDnsCorr.v carries (vKeyTab; tied by the KKeyTab case)
var vKeyTab [][]byte

func vKeyIdx(b []byte) int {
	for i, k := range vKeyTab {
		if bytes.Equal(k, b) {
			return i
		}
	}
	panic("key not in table")
}

func (c *vCfg) coq() string {
	gk := "None"
	if c.gk != nil {
		gk = fmt.Sprintf("(Some (%s,%s,%d))", cBool(c.dir == "bidi" || c.dir == "bidirectional"), cBool(c.dir == "inverse"), vKeyIdx(c.gk))
	}
	sk := "None"
	if c.sk != nil {
		sk = fmt.Sprintf("(Some %d)", vKeyIdx(c.sk))
	}
	cks := make([]string, len(c.cks))
	for i, ck := range c.cks {
		cks[i] = fmt.Sprintf("(%d,%d)", vKeyIdx(ck.kc), vKeyIdx(ck.wkc))
	}
	return fmt.Sprintf("(OC %s %s %s %s %s %s %s %s [%s] %s)", cBool(c.plain), cBool(c.auth), cBool(c.crypt), cBool(c.c2),
		cBool(c.igc), cBool(c.igt), gk, cZ(int64(c.ad)), strings.Join(cks, ";"), sk)
}

// ---------------------------------------------------------------- encoder from the wire definition

func vBE16(v uint16) []byte { return binary.BigEndian.AppendUint16(nil, v) }
func vBE32(v uint32) []byte { return binary.BigEndian.AppendUint32(nil, v) }
func vBE64(v uint64) []byte { return binary.BigEndian.AppendUint64(nil, v) }
func vCat(bs ...[]byte) []byte {
	var o []byte
	for _, b := range bs {
		o = append(o, b...)
	}
	return o
}

func vHMAC(d int, key, plain []byte) []byte {
	ad := AuthDigests[d]
	if ad.Generator != nil {
		return ad.Generator(key, plain)
	}
	h := hmac.New(ad.Creator, key)
	h.Write(plain)
	return h.Sum(nil)
}

func vCTR(key, iv, in []byte) []byte {
	block, err := aes.NewCipher(key)
	if err != nil {
		panic(err)
	}
	out := make([]byte, len(in))
	cipher.NewCTR(block, iv).XORKeyStream(out, in)
	return out
}

// the HMAC key a client uses with a 2048-bit static key (OpenVPN key2 layout: cipher/hmac keys for each direction)
func vClientHMACKey(key []byte, dir string, size int) []byte {
	if size > 64 {
		size = 64
	}
	switch dir {
	case "inverse", "bidi", "bidirectional":
		return key[64 : 64+size]
	default:
		return key[192 : 192+size]
	}
}

type vMsg struct {
	mode          int // 0 plain, 1 auth, 2 crypt, 3 crypt2
	opcode, keyid byte
	sid           uint64
	prev          byte
	pid           uint32
	rpid, ts      uint32
	digest        int    // HMAC algorithm the client used
	hkey          []byte // 256-byte key the client used (nil: random tag)
	dir           string // direction the client used (auth)
	tagLen        int    // when hkey == nil
	flipTag       bool
	flipEnc       bool
	swapQuarters  bool // crypt: keys taken from the other direction's quarters (what a server, not a client, would use)
	wkc           []byte // crypt2
	note          string
	rnd           *vRng
}

func (g *vMsg) hdr() byte { return g.opcode<<3 | g.keyid }

// the packet without the TCP length prefix
func (g *vMsg) wire() []byte {
	h := []byte{g.hdr()}
	tail := vCat([]byte{g.prev}, vBE32(g.pid))
	switch g.mode {
	case 0:
		return vCat(h, vBE64(g.sid), tail)
	case 1:
		var tag []byte
		if g.hkey != nil {
			size := AuthDigests[g.digest].Size
			tag = vHMAC(g.digest, vClientHMACKey(g.hkey, g.dir, size), vCat(vBE32(g.rpid), vBE32(g.ts), h, vBE64(g.sid), tail))
		} else {
			tag = g.rnd.Bytes(g.tagLen)
		}
		if g.flipTag {
			tag[len(tag)/2] ^= 0x10
		}
		return vCat(h, vBE64(g.sid), tag, vBE32(g.rpid), vBE32(g.ts), tail)
	default:
		head := vCat(h, vBE64(g.sid), vBE32(g.rpid), vBE32(g.ts))
		var tag, enc []byte
		if g.hkey != nil {
			// tls-crypt has a fixed key direction: the client authenticates with key[192:224] and encrypts with
			// key[128:160] (OpenVPN key2 layout, KEY_DIRECTION_INVERSE on the client); group_key_direction does not apply
			hk, ck := g.hkey[192:224], g.hkey[128:160]
			if g.swapQuarters {
				hk, ck = g.hkey[64:96], g.hkey[0:32]
			}
			tag = vHMAC(g.digest, hk, vCat(head, tail))
			enc = vCTR(ck, tag[:16], tail)
		} else {
			tag, enc = g.rnd.Bytes(32), g.rnd.Bytes(5)
		}
		if g.flipTag {
			tag[20] ^= 0x01
		}
		if g.flipEnc {
			enc[2] ^= 0x80
		}
		out := vCat(head, tag, enc)
		if g.mode == 3 {
			out = append(out, g.wkc...)
		}
		return out
	}
}

// tls-crypt-v2 wrapped client key: tag || AES-CTR(Kc || metadata) || len, keyed by the 1024-bit server key
func vWrap(server, kc, metadata []byte) []byte {
	n := uint16(32 + len(kc) + len(metadata) + 2)
	mac := hmac.New(sha256.New, server[64:96])
	mac.Write(vBE16(n))
	mac.Write(kc)
	mac.Write(metadata)
	tag := mac.Sum(nil)
	enc := vCTR(server[0:32], tag[:16], vCat(kc, metadata))
	return vCat(tag, enc, vBE16(n))
}

func vFrame(tcp bool, wire []byte) []byte {
	if !tcp {
		return wire
	}
	return vCat(vBE16(uint16(len(wire))), wire)
}

// ---------------------------------------------------------------- crypto answers for the model

type vTables struct {
	tag  []byte // the tag of the message the next answers are about
	hm   []string
	ae   []string
	seen map[string]bool
}

// only answers that equal the tag on the wire are recorded: for any other answer "not in the table" and "in the table
// but different" lead the model to the same decision (no tag found), and the cases stay small
func (t *vTables) addHM(d int, key, plain, out []byte) {
	if !bytes.Equal(out, t.tag) {
		return
	}
	s := fmt.Sprintf("(%d,%s,%s,%s)", d, cHex(key), cHex(plain), cHex(out))
	if !t.seen[s] {
		t.seen[s] = true
		t.hm = append(t.hm, s)
	}
}
func (t *vTables) addAE(key, iv, data, out []byte) {
	s := fmt.Sprintf("(%s,%s,%s,%s)", cHex(key), cHex(iv), cHex(data), cHex(out))
	if !t.seen[s] {
		t.seen[s] = true
		t.ae = append(t.ae, s)
	}
}

func (t *vTables) cryptWith(body []byte, hdr *MessageHeader, sk *StaticKey) {
	defer func() { _ = recover() }()
	mc := &MessageCrypt{}
	if mc.FromBytesHeadless(body, hdr) != nil || len(sk.KeyBytes) != StaticKeyBytesTotal {
		return
	}
	key, iv := sk.GetServerDecryptKey(CryptCipherDefault.SizeKey), mc.HMAC[:16]
	// besides what the module's own key selectors pick, the answers for the key quarters the OpenVPN documentation
	// prescribes for tls-crypt (client cipher key[128:160], client HMAC key[192:224], no direction option): a model
	// that selects keys correctly must find its tag here even when the module selected other quarters
	func() {
		defer func() { _ = recover() }()
		dk, hk := sk.KeyBytes[128:160], sk.KeyBytes[192:224]
		pl2 := vCTR(dk, iv, mc.Encrypted)
		t.addAE(dk, iv, mc.Encrypted, pl2)
		m2 := &MessageCrypt{}
		if m2.FromBytesHeadless(body, hdr) != nil || m2.FromBytesCrypt(pl2) != nil {
			return
		}
		for i, ad := range AuthDigests {
			if ad.Size == len(m2.HMAC) {
				t.tag = m2.HMAC
				t.addHM(i, hk, m2.ToBytesAuth(), vHMAC(i, hk, m2.ToBytesAuth()))
			}
		}
	}()
	pl := CryptCipherDefault.Decryptor(key, iv, mc.Encrypted)
	t.addAE(key, iv, mc.Encrypted, pl)
	if mc.FromBytesCrypt(pl) != nil {
		return
	}
	for i, ad := range AuthDigests {
		if ad.Size == len(mc.HMAC) {
			t.tag = mc.HMAC
			t.addHM(i, sk.GetClientAuthKey(ad.Size), mc.ToBytesAuth(), ad.HMACGenerateOnClient(sk, mc.ToBytesAuth()))
		}
	}
}

// everything the primitives would answer on the values the module derives from this body
func vBuildTables(c *vCfg, body []byte, hb byte) *vTables {
	t := &vTables{seen: map[string]bool{}}
	hdr := &MessageHeader{}
	_ = hdr.FromBytes([]byte{hb})
	func() {
		defer func() { _ = recover() }()
		if c.m.groupKeyAuth == nil {
			return
		}
		ma := &MessageAuth{}
		if ma.FromBytesHeadless(body, hdr) != nil {
			return
		}
		for i, ad := range AuthDigests {
			if ad.Size == len(ma.HMAC) {
				t.tag = ma.HMAC
				t.addHM(i, c.m.groupKeyAuth.GetClientAuthKey(ad.Size), ma.ToBytesAuth(), ad.HMACGenerateOnClient(c.m.groupKeyAuth, ma.ToBytesAuth()))
				// and for the quarter the documentation prescribes for tls-auth under the configured direction
				dk := vClientHMACKey(c.gk, c.dir, ad.Size)
				t.addHM(i, dk, ma.ToBytesAuth(), vHMAC(i, dk, ma.ToBytesAuth()))
			}
		}
	}()
	if c.m.groupKeyCrypt != nil {
		t.cryptWith(body, hdr, c.m.groupKeyCrypt)
	}
	func() {
		defer func() { _ = recover() }()
		mr := &MessageCrypt2{}
		if mr.FromBytesHeadless(body, hdr) != nil {
			return
		}
		for _, ck := range c.m.clientKeys {
			t.cryptWith(body[:MessageCryptBytesTotalHL], hdr, &ck.StaticKey)
		}
		if sk := c.m.serverKey; sk != nil && len(mr.WrappedKey.Encrypted) >= StaticKeyBytesTotal {
			wk := &mr.WrappedKey
			key, iv := sk.GetClientDecryptKey(CryptCipherDefault.SizeKey), wk.HMAC[:16]
			pl := CryptCipherDefault.Decryptor(key, iv, wk.Encrypted)
			t.addAE(key, iv, wk.Encrypted, pl)
			if wk.FromBytesCrypt(pl) != nil {
				return
			}
			for i, ad := range AuthDigests {
				if ad.Size == len(wk.HMAC) {
					t.tag = wk.HMAC
					t.addHM(i, sk.GetServerAuthKey(ad.Size), wk.ToBytesAuth(), ad.HMACGenerateOnServer(sk, wk.ToBytesAuth()))
				}
			}
			t.cryptWith(body[:MessageCryptBytesTotalHL], hdr, &StaticKey{KeyBytes: append([]byte{}, pl[:StaticKeyBytesTotal]...)})
		}
	}()
	return t
}

// the body the matcher hands to the parsers, following the framing of the wire definition
func vBodyOf(tcp bool, in []byte) (body []byte, hb byte, ok bool) {
	if tcp {
		if len(in) < 3 {
			return nil, 0, false
		}
		l := int(binary.BigEndian.Uint16(in))
		if l < 1 || len(in) != 2+l {
			return nil, 0, false
		}
		return in[3:], in[2], true
	}
	if len(in) < 2 {
		return nil, 0, false
	}
	return in[1:], in[0], true
}

func vDigestIdx(ad *AuthDigest) int {
	for i, d := range AuthDigests {
		if d == ad {
			return i
		}
	}
	if ad == nil {
		return -1
	}
	return -2
}

// ---------------------------------------------------------------- the engine

type vOvpn struct {
	out  *vOut
	rng  *vRng
	prop string
	cfgs []*vCfg
	gk   []byte
	sk   []byte
	seen map[string]bool
	nMatch int
	thin   uint64
	fromThin uint64 // sampling of codec correspondence cases in the current sweep (quick tier)
}

func (e *vOvpn) want(p string) bool { return e.prop == "" || e.prop == p }

// one evaluation of the real matcher + correspondence case + C04/C06 point oracles
func (e *vOvpn) match(c *vCfg, ld int, tcp bool, in []byte, cls string, nt bool) vRes {
	if ld >= 0 {
		c.m.lastDigest = AuthDigests[ld]
	} else {
		c.m.lastDigest = nil
	}
	now := time.Now().UnixNano()
	r := vEval(c.m, tcp, in)
	ld2 := vDigestIdx(c.m.lastDigest)
	e.nMatch++
	key := fmt.Sprintf("%s|%d|%v|%x", c.name, ld, tcp, in)
	// correspondence cases are sampled (deterministically, by a hash of the case) so that the in-Coq evaluation
	// stays short: long inputs are sampled more thinly, matches less thinly; the oracles see every evaluation
	mod := uint64(6 + len(in)/5)
	if vThorough() {
		mod = uint64(1 + len(in)/300)
	}
	if r.code == vYes || r.code == vPanic {
		mod = (mod + 1) / 2
	}
	if c.dir != "" && c.crypt {
		mod = (mod + 2) / 3 // key selection per mode and direction: sampled more densely
	}
	if e.thin > 1 && !vThorough() {
		mod *= e.thin
	}
	hsh := uint64(14695981039346656037)
	for i := 0; i < len(key); i++ {
		hsh = (hsh ^ uint64(key[i])) * 1099511628211
	}
	if !e.seen[key] && (hsh>>17)%mod == 0 {
		e.seen[key] = true
		t := &vTables{}
		if body, hb, ok := vBodyOf(tcp, in); ok {
			t = vBuildTables(c, body, hb)
		}
		e.out.Case(fmt.Sprintf("KMatch %s %s %s %d [%s] [%s] %s %d %s", c.coq(), cZ(int64(ld)), cBool(tcp), now,
			strings.Join(t.hm, ";"), strings.Join(t.ae, ";"), cHex(in), r.code, cZ(int64(ld2))),
			"match/"+cls+"/"+vVerdictNames[r.code], nt, nil)
	}
	inp := map[string]any{"config": c.name, "tcp": tcp, "input": hex.EncodeToString(in), "lastDigest": ld}
	if r.code == vPanic {
		e.out.Fail("C04:openvpn:panic", "Match panicked: "+r.pmsg, inp)
	}
	if r.code == vFail {
		e.out.Fail("C04:openvpn:error", "Match returned an unexpected error: "+r.pmsg, inp)
	}
	if vMeasureAlloc && r.alloc > 16*layer4.MaxMatchingBytes {
		// re-measure once: another goroutine (GC worker, logger) may have allocated meanwhile
		if r2 := vEval(c.m, tcp, in); r2.alloc > 16*layer4.MaxMatchingBytes {
			e.out.Fail("C04:openvpn:alloc", fmt.Sprintf("Match allocated %d bytes (limit %d)", r2.alloc, 16*layer4.MaxMatchingBytes), inp)
		}
	}
	if r.reads != 0 {
		e.out.Fail("C06:openvpn:network-read", fmt.Sprintf("Match read from the socket %d time(s) while matching", r.reads), inp)
	}
	if !r.intact {
		e.out.Fail("C06:openvpn:stream-changed", "bytes readable after Match differ from the prefetched prefix", inp)
	}
	return r
}

// C06: the verdict chain over prefixes of a TCP stream
func (e *vOvpn) chain(c *vCfg, stream []byte, full int, cls string) {
	var lens []int
	for n := 0; n <= len(stream); n++ {
		if len(stream) <= 120 || n <= 70 || n%41 == 0 || (n >= full-3 && n <= full+3) || n >= len(stream)-2 {
			lens = append(lens, n)
		}
	}
	sawNo, noAt := false, 0
	var nos []int
	whole := -1
	for _, n := range lens {
		ld := -1
		if n%3 == 1 {
			ld = n % len(AuthDigests)
		}
		r1 := e.match(c, ld, true, stream[:n], cls, n >= 3)
		r2 := e.match(c, (n*7)%len(AuthDigests), true, stream[:n], cls, n >= 3)
		inp := map[string]any{"config": c.name, "stream": hex.EncodeToString(stream), "prefix_len": n}
		if r1.code != r2.code {
			e.out.Fail("C06:openvpn:nondeterministic", fmt.Sprintf("two evaluations of the same prefix gave %s and %s (lastDigest differs)",
				vVerdictNames[r1.code], vVerdictNames[r2.code]), inp)
		}
		if sawNo && r1.code != vNo {
			inp["no_at"] = noAt
			e.out.Fail("C06:openvpn:no-then-not-no", fmt.Sprintf("No on prefix %d but %s on longer prefix %d", noAt, vVerdictNames[r1.code], n), inp)
		}
		if r1.code == vNo {
			if !sawNo {
				sawNo, noAt = true, n
			}
			nos = append(nos, n)
		}
		if n == full {
			whole = r1.code
		}
	}
	if whole == vYes {
		for _, n := range nos {
			if n < full {
				e.out.Fail("C06:openvpn:fragment-rejected", fmt.Sprintf("message matches whole (%d bytes) but prefix %d is answered No", full, n),
					map[string]any{"config": c.name, "stream": hex.EncodeToString(stream[:full]), "prefix_len": n})
			}
		}
	}
}

func (e *vOvpn) newMsg(mode int) *vMsg {
	g := &vMsg{mode: mode, opcode: OpcodeControlHardResetClientV2, sid: e.rng.U64() | 1, rpid: 1, ts: uint32(time.Now().Unix()),
		digest: 4, rnd: e.rng, tagLen: 32}
	if mode == 3 {
		g.opcode = OpcodeControlHardResetClientV3
		if e.rng.Bool() {
			g.rpid = 0x0f000001
		}
	}
	return g
}

// the reference predicate of C14: should this message, generated with known ground truth, match under c?
// okTag: the tag verifies under the keys/direction/digest of c; wkcKnown: the wrapped key is acceptable under c.
func vRef(c *vCfg, g *vMsg, wellFormed bool, okTag bool, tsOK bool, wkcOK bool) bool {
	if !wellFormed || g.keyid != 0 || g.sid == 0 {
		return false
	}
	switch g.mode {
	case 0:
		return c.plain && g.opcode == 7 && g.prev == 0 && g.pid == 0
	case 1:
		if !(c.auth && g.opcode == 7 && g.prev == 0 && g.pid == 0 && g.rpid == 1 && (c.igt || tsOK)) {
			return false
		}
		if c.ad >= 0 && AuthDigests[c.ad].Size != vTagLen(g) {
			return false
		}
		return c.igc || c.gk == nil || okTag
	case 2:
		if !(c.crypt && g.opcode == 7 && g.rpid == 1 && (c.igt || tsOK)) {
			return false
		}
		return c.igc || c.gk == nil || (okTag && g.prev == 0 && g.pid == 0)
	default:
		if !(c.c2 && g.opcode == 10 && (g.rpid == 1 || g.rpid == 0x0f000001) && (c.igt || tsOK)) {
			return false
		}
		if c.igc || (len(c.cks) == 0 && c.sk == nil) {
			return true
		}
		return wkcOK && okTag && g.prev == 0 && g.pid == 0
	}
}

func vTagLen(g *vMsg) int {
	if g.hkey != nil {
		return AuthDigests[g.digest].Size
	}
	return g.tagLen
}

type vVariant struct {
	g          *vMsg
	wellFormed bool // length / framing as the wire definition says
	tagKey     []byte
	wkcOK      func(c *vCfg) bool
	trail      int
	lenDelta   int
	special    string // known deviation class, "" otherwise
}

func (e *vOvpn) c14(c *vCfg, v vVariant, tcp bool) {
	g := v.g
	wire := g.wire()
	in := wire
	if tcp {
		in = vCat(vBE16(uint16(len(wire)+v.lenDelta)), wire)
	}
	if v.trail > 0 {
		in = append(in, e.rng.Bytes(v.trail)...)
	}
	now := uint32(time.Now().Unix())
	tsOK := g.ts+5 > now && g.ts < now+5
	okTag := false
	if g.hkey != nil && !g.flipTag && !(g.flipEnc) && c.gk != nil && g.mode <= 2 {
		okTag = bytes.Equal(g.hkey, c.gk)
		if g.mode == 1 {
			cd := c.dir
			if cd == "" {
				cd = "normal"
			}
			gd := g.dir
			if gd == "" {
				gd = "normal"
			}
			same := cd == gd || (cd != "normal" && gd != "normal")
			okTag = okTag && same && (c.ad < 0 || c.ad == g.digest)
		}
		if g.mode == 2 {
			okTag = okTag && g.digest == 4 && !g.swapQuarters
		}
	}
	wkcOK := false
	if g.mode == 3 {
		wkcOK = v.wkcOK != nil && v.wkcOK(c)
		okTag = g.hkey != nil && !g.flipTag && !g.flipEnc && g.digest == 4
	}
	wf := v.wellFormed && v.trail == 0 && (!tcp || v.lenDelta == 0)
	want := vRef(c, g, wf, okTag, tsOK, wkcOK)
	cls := fmt.Sprintf("c14/mode%d", g.mode)
	r := e.match(c, -1, tcp, in, cls, true)
	got := r.code == vYes
	if got == want || r.code == vPanic {
		return
	}
	inp := map[string]any{"config": c.name, "tcp": tcp, "input": hex.EncodeToString(in), "note": g.note, "mode": g.mode,
		"verdict": vVerdictNames[r.code]}
	comp := "openvpn"
	if v.special != "" {
		comp = "openvpn-" + v.special
	}
	if want {
		e.out.Fail("C14:"+comp+":rejects-valid", "a well-formed client reset that passes the configured filters was not matched ("+g.note+")", inp)
	} else {
		e.out.Fail("C14:"+comp+":accepts-invalid", "a message violating a mandatory field or a filter was matched ("+g.note+")", inp)
	}
}

func TestVerifMovpn(t *testing.T) {
	out := vOpen()
	defer out.Close()
	e := &vOvpn{out: out, rng: vNewRng(vSeed()), prop: os.Getenv("VERIF_PROP"), seen: map[string]bool{}, fromThin: 1}
	vMeasureAlloc = e.want("C04")

	// ---- constants the models write out
	dg := make([]int64, len(AuthDigests))
	for i, ad := range AuthDigests {
		dg[i] = int64(ad.Size)
	}
	szs := make([]int64, len(AuthDigestSizes))
	for i, s := range AuthDigestSizes {
		szs[i] = int64(s)
	}
	out.Case(fmt.Sprintf("KConsts %s %s %s []", cZList([]int64{MessagePlainBytesTotalHL, MessagePlainBytesTotal, MessageAuthBytesMinHL, MessageAuthBytesMin,
		MessageAuthBytesMaxHL, MessageAuthBytesMax, MessageCryptBytesTotalHL, MessageCryptBytesTotal, MessageCrypt2BytesMinHL, MessageCrypt2BytesMin,
		MessageCrypt2BytesMaxHL, MessageCrypt2BytesMax, WrappedKeyBytesMin, WrappedKeyBytesMax, MetaDataPayloadBytesMax, AuthHMACBytesMin,
		AuthHMACBytesMax, CryptHMACBytesTotal, int64(vDigestIdx(AuthDigestDefault)), int64(CryptCipherDefault.SizeBlock), int64(CryptCipherDefault.SizeKey)}),
		cZList(dg), cZList(szs)), "consts", true, nil)

	if e.want("C18") {
		e.codecs()
	}
	if !(e.want("C04") || e.want("C06") || e.want("C14")) {
		return
	}

	// ---- configurations (inline keys)
	ctx, cancel := caddy.NewContext(caddy.Context{Context: context.Background()})
	defer cancel()
	kr := vNewRng(77)
	e.gk, e.sk = kr.Bytes(256), kr.Bytes(128)
	gk2 := kr.Bytes(256)
	kc1, kc2, kc3, kc4 := kr.Bytes(256), kr.Bytes(256), kr.Bytes(256), kr.Bytes(256)
	ts8 := vCat([]byte{1}, vBE64(1700000000))
	ck1 := vCK{kc1, vWrap(e.sk, kc1, nil)}
	ck2 := vCK{kc2, vWrap(e.sk, kc2, ts8)}
	ck3 := vCK{kc3, vWrap(e.sk, kc3, vCat([]byte{0}, []byte("user-7")))}
	ckType := vCK{kc4, vWrap(e.sk, kc4, []byte{0})} // metadata = type byte only
	sk2 := kr.Bytes(128)
	kcForeign := kr.Bytes(256)
	ckForeign := vCK{kcForeign, vWrap(sk2, kcForeign, ts8)}
	vKeyTab = [][]byte{e.gk, e.sk, ck1.kc, ck1.wkc, ck2.kc, ck2.wkc, ck3.kc, ck3.wkc}
	{
		hs := make([]string, len(vKeyTab))
		for i, k := range vKeyTab {
			hs[i] = cHex(k)
		}
		out.Case("KKeyTab ["+strings.Join(hs, ";")+"]", "keytab", true, nil)
	}
	all := func(name string) *vCfg { return &vCfg{name: name, plain: true, auth: true, crypt: true, c2: true, ad: -1} }
	cfgs := []*vCfg{
		all("default"),
		func() *vCfg { c := all("ignore_ts"); c.igt = true; return c }(),
		{name: "plain-only", plain: true, ad: -1},
		{name: "auth+key", auth: true, igt: true, gk: e.gk, ad: -1},
		{name: "auth+key+sha256", auth: true, igt: true, gk: e.gk, ad: 4},
		{name: "auth+key+inverse", auth: true, igt: true, gk: e.gk, dir: "inverse", ad: -1},
		{name: "auth+key+bidi", auth: true, igt: true, gk: e.gk, dir: "bidi", ad: -1},
		{name: "auth-nokey+sha1", auth: true, igt: true, ad: 1},
		{name: "crypt+key", crypt: true, igt: true, gk: e.gk, ad: -1},
		{name: "crypt2+server", c2: true, igt: true, sk: e.sk, ad: -1},
		{name: "crypt2+clients", c2: true, igt: true, cks: []vCK{ck1, ck2}, ad: -1},
		{name: "crypt2+both", c2: true, igt: true, sk: e.sk, cks: []vCK{ck2, ck3}, ad: -1},
		func() *vCfg { c := all("all+keys"); c.igt = true; c.gk = e.gk; c.sk = e.sk; return c }(),
		func() *vCfg { c := all("all+keys+ignore_crypto"); c.igt, c.igc = true, true; c.gk = e.gk; c.sk = e.sk; return c }(),
		func() *vCfg { c := all("all+keys+timestamps"); c.gk = e.gk; c.sk = e.sk; return c }(),
		{name: "auth+crypt+key", auth: true, crypt: true, igt: true, gk: e.gk, ad: -1},
		// every value of group_key_direction x {auth, crypt}: the option is documented for auth mode only
		{name: "auth+key+normal", auth: true, igt: true, gk: e.gk, dir: "normal", ad: -1},
		{name: "auth+key+bidirectional", auth: true, igt: true, gk: e.gk, dir: "bidirectional", ad: -1},
		{name: "crypt+key+normal", crypt: true, igt: true, gk: e.gk, dir: "normal", ad: -1},
		{name: "crypt+key+inverse", crypt: true, igt: true, gk: e.gk, dir: "inverse", ad: -1},
		{name: "crypt+key+bidi", crypt: true, igt: true, gk: e.gk, dir: "bidi", ad: -1},
		{name: "crypt+key+bidirectional", crypt: true, igt: true, gk: e.gk, dir: "bidirectional", ad: -1},
		{name: "auth+crypt+key+inverse", auth: true, crypt: true, igt: true, gk: e.gk, dir: "inverse", ad: -1},
		func() *vCfg { c := all("all+keys+bidi"); c.igt = true; c.gk = e.gk; c.sk = e.sk; c.dir = "bidi"; return c }(),
	}
	for _, c := range cfgs {
		if err := c.provision(ctx); err != nil {
			out.Fail(e.prop+":openvpn:provision", "Provision rejected configuration "+c.name+": "+err.Error(), nil)
			return
		}
	}
	e.cfgs = cfgs
	byName := map[string]*vCfg{}
	for _, c := range cfgs {
		byName[c.name] = c
	}

	// ---- generated messages with ground truth
	nowS := uint32(time.Now().Unix())
	var vars []vVariant
	add := func(g *vMsg, note string, wf bool) *vVariant {
		g.note = note
		vars = append(vars, vVariant{g: g, wellFormed: wf})
		return &vars[len(vars)-1]
	}
	mut := func(mode int, f func(g *vMsg)) *vMsg { g := e.newMsg(mode); f(g); return g }
	// plain
	add(e.newMsg(0), "plain valid", true)
	add(mut(0, func(g *vMsg) { g.sid = 0 }), "plain session id zero", true)
	add(mut(0, func(g *vMsg) { g.sid = 1 << 63 }), "plain session id high bit only", true)
	add(mut(0, func(g *vMsg) { g.prev = 1 }), "plain ack count 1", true)
	add(mut(0, func(g *vMsg) { g.pid = 1 }), "plain packet id 1", true)
	add(mut(0, func(g *vMsg) { g.pid = 1 << 31 }), "plain packet id 2^31", true)
	add(mut(0, func(g *vMsg) { g.keyid = 1 + byte(e.rng.Intn(7)) }), "plain key id nonzero", true)
	for op := 0; op < 32; op++ {
		if op != 7 {
			o := byte(op)
			add(mut(0, func(g *vMsg) { g.opcode = o }), fmt.Sprintf("plain opcode %d", op), true)
		}
	}
	// auth, every digest, client direction normal
	for d := range AuthDigests {
		d := d
		add(mut(1, func(g *vMsg) { g.digest, g.hkey = d, e.gk }), "auth valid "+AuthDigests[d].Names[0], true)
		add(mut(1, func(g *vMsg) { g.digest, g.hkey, g.flipTag = d, e.gk, true }), "auth tag bit flipped "+AuthDigests[d].Names[0], true)
	}
	for _, dir := range []string{"inverse", "bidi"} {
		dir := dir
		add(mut(1, func(g *vMsg) { g.digest, g.hkey, g.dir = 4, e.gk, dir }), "auth valid sha256 client direction "+dir, true)
		add(mut(1, func(g *vMsg) { g.digest, g.hkey, g.dir = 6, e.gk, dir }), "auth valid sha512 client direction "+dir, true)
	}
	add(mut(1, func(g *vMsg) { g.digest, g.hkey = 4, gk2 }), "auth signed with another key", true)
	add(mut(1, func(g *vMsg) { g.digest, g.hkey, g.sid = 4, e.gk, 0 }), "auth session id zero", true)
	add(mut(1, func(g *vMsg) { g.digest, g.hkey, g.rpid = 4, e.gk, 0 }), "auth replay packet id 0", true)
	add(mut(1, func(g *vMsg) { g.digest, g.hkey, g.rpid = 1, e.gk, 2 }), "auth replay packet id 2", true)
	add(mut(1, func(g *vMsg) { g.digest, g.hkey, g.rpid = 4, e.gk, 0x0f000001 }), "auth replay packet id 0x0f000001", true)
	add(mut(1, func(g *vMsg) { g.digest, g.hkey, g.prev = 4, e.gk, 1 }), "auth ack count 1", true)
	add(mut(1, func(g *vMsg) { g.digest, g.hkey, g.pid = 6, e.gk, 1 }), "auth packet id 1", true)
	add(mut(1, func(g *vMsg) { g.digest, g.hkey, g.keyid = 4, e.gk, 2 }), "auth key id 2", true)
	add(mut(1, func(g *vMsg) { g.digest, g.hkey, g.ts = 4, e.gk, nowS-3600 }), "auth timestamp one hour old", true)
	add(mut(1, func(g *vMsg) { g.digest, g.hkey, g.ts = 0, e.gk, nowS+3600 }), "auth timestamp one hour ahead", true)
	add(mut(1, func(g *vMsg) { g.digest, g.hkey, g.ts = 4, e.gk, 0 }), "auth timestamp zero", true)
	for _, tl := range []int{15, 16, 17, 19, 20, 21, 24, 28, 32, 36, 40, 48, 63, 64, 65} {
		tl := tl
		okLen := false
		for _, s := range []int{16, 20, 28, 32, 36, 48, 64} {
			okLen = okLen || s == tl
		}
		add(mut(1, func(g *vMsg) { g.tagLen = tl }), fmt.Sprintf("auth random tag of %d bytes", tl), okLen)
	}
	// crypt
	add(mut(2, func(g *vMsg) { g.hkey = e.gk }), "crypt valid", true)
	add(mut(2, func(g *vMsg) { g.hkey, g.flipTag = e.gk, true }), "crypt tag bit flipped", true)
	add(mut(2, func(g *vMsg) { g.hkey, g.flipEnc = e.gk, true }), "crypt ciphertext bit flipped", true)
	add(mut(2, func(g *vMsg) { g.hkey = gk2 }), "crypt with another key", true)
	add(mut(2, func(g *vMsg) { g.hkey, g.prev = e.gk, 1 }), "crypt encrypted ack count 1", true)
	add(mut(2, func(g *vMsg) { g.hkey, g.pid = e.gk, 7 }), "crypt encrypted packet id 7", true)
	add(mut(2, func(g *vMsg) { g.hkey, g.sid = e.gk, 0 }), "crypt session id zero", true)
	add(mut(2, func(g *vMsg) { g.hkey, g.rpid = e.gk, 2 }), "crypt replay packet id 2", true)
	add(mut(2, func(g *vMsg) { g.hkey, g.rpid = e.gk, 0x0f000001 }), "crypt replay packet id 0x0f000001", true)
	add(mut(2, func(g *vMsg) { g.hkey, g.ts = e.gk, nowS-3600 }), "crypt timestamp one hour old", true)
	add(mut(2, func(g *vMsg) { g.hkey, g.keyid = e.gk, 5 }), "crypt key id 5", true)
	add(mut(2, func(g *vMsg) {}), "crypt random tag and ciphertext", true)
	add(mut(2, func(g *vMsg) { g.hkey, g.swapQuarters = e.gk, true }), "crypt keyed with the server-to-client quarters of the group key", true)
	for _, d := range []int{8, 10, 13, 15} {
		d := d
		v := add(mut(2, func(g *vMsg) { g.hkey, g.digest = e.gk, d }), "crypt tag computed with "+AuthDigests[d].Names[0]+" instead of SHA-256", true)
		v.special = "crypt-foreign-digest"
	}
	// crypt2
	known := func(ck vCK) func(c *vCfg) bool {
		return func(c *vCfg) bool {
			if len(c.cks) > 0 {
				for _, k := range c.cks {
					if bytes.Equal(k.wkc, ck.wkc) {
						return true
					}
				}
				return false
			}
			return c.sk != nil && vUnwrapOK(c.sk, ck)
		}
	}
	for i, ck := range []vCK{ck1, ck2, ck3} {
		ck := ck
		add(mut(3, func(g *vMsg) { g.hkey, g.wkc = ck.kc, ck.wkc }), fmt.Sprintf("crypt2 valid client key %d", i+1), true).wkcOK = known(ck)
		add(mut(3, func(g *vMsg) { g.hkey, g.wkc, g.flipTag = ck.kc, ck.wkc, true }), fmt.Sprintf("crypt2 tag flipped client key %d", i+1), true).wkcOK = known(ck)
	}
	add(mut(3, func(g *vMsg) { g.hkey, g.wkc, g.rpid = ck1.kc, ck1.wkc, 2 }), "crypt2 replay packet id 2", true).wkcOK = known(ck1)
	add(mut(3, func(g *vMsg) { g.hkey, g.wkc, g.rpid = ck1.kc, ck1.wkc, 0x0f000000 }), "crypt2 replay packet id 0x0f000000", true).wkcOK = known(ck1)
	add(mut(3, func(g *vMsg) { g.hkey, g.wkc, g.sid = ck2.kc, ck2.wkc, 0 }), "crypt2 session id zero", true).wkcOK = known(ck2)
	add(mut(3, func(g *vMsg) { g.hkey, g.wkc, g.pid = ck2.kc, ck2.wkc, 1 }), "crypt2 encrypted packet id 1", true).wkcOK = known(ck2)
	add(mut(3, func(g *vMsg) { g.hkey, g.wkc, g.prev = ck2.kc, ck2.wkc, 3 }), "crypt2 encrypted ack count 3", true).wkcOK = known(ck2)
	add(mut(3, func(g *vMsg) { g.hkey, g.wkc, g.ts = ck3.kc, ck3.wkc, nowS-86400 }), "crypt2 timestamp one day old", true).wkcOK = known(ck3)
	add(mut(3, func(g *vMsg) { g.hkey, g.wkc, g.keyid = ck3.kc, ck3.wkc, 1 }), "crypt2 key id 1", true).wkcOK = known(ck3)
	add(mut(3, func(g *vMsg) { g.hkey, g.wkc, g.opcode = ck3.kc, ck3.wkc, 7 }), "crypt2 body under opcode 7", true).wkcOK = known(ck3)
	add(mut(3, func(g *vMsg) { g.hkey, g.wkc = ckForeign.kc, ckForeign.wkc }), "crypt2 client key wrapped by another server", true).wkcOK = known(ckForeign)
	add(mut(3, func(g *vMsg) { g.hkey, g.wkc = kc2, ck1.wkc }), "crypt2 message keyed with a different client key than the wrapped one", true).wkcOK = func(*vCfg) bool { return false }
	{
		bad := append([]byte{}, ck1.wkc...)
		bad[40] ^= 0x04
		add(mut(3, func(g *vMsg) { g.hkey, g.wkc = ck1.kc, bad }), "crypt2 wrapped key ciphertext bit flipped", true).wkcOK = func(*vCfg) bool { return false }
		short := append([]byte{}, ck2.wkc[:len(ck2.wkc)-3]...)
		add(mut(3, func(g *vMsg) { g.hkey, g.wkc = ck2.kc, short }), "crypt2 wrapped key truncated (length trailer wrong)", false).wkcOK = func(*vCfg) bool { return false }
		big := vWrap(e.sk, kc1, vCat([]byte{0}, e.rng.Bytes(733)))
		add(mut(3, func(g *vMsg) { g.hkey, g.wkc = kc1, big }), "crypt2 maximum metadata (1024-byte wrapped key)", true).wkcOK = known(vCK{kc1, big})
		over := vWrap(e.sk, kc1, vCat([]byte{0}, e.rng.Bytes(734)))
		add(mut(3, func(g *vMsg) { g.hkey, g.wkc = kc1, over }), "crypt2 metadata one byte over the maximum", false).wkcOK = func(*vCfg) bool { return false }
		v := add(mut(3, func(g *vMsg) { g.hkey, g.wkc = ckType.kc, ckType.wkc }), "crypt2 wrapped key whose metadata is a type byte only", true)
		v.wkcOK, v.special = known(ckType), "crypt2-type-only-metadata"
	}
	out.Stat("message_variants", len(vars))

	if e.want("C14") || e.want("C04") {
		for _, c := range cfgs {
			for i := range vars {
				for _, tcp := range []bool{true, false} {
					e.c14(c, vars[i], tcp)
				}
			}
		}
		// framing corruptions on a few valid messages
		for _, c := range []*vCfg{byName["ignore_ts"], byName["all+keys"]} {
			for _, i := range []int{0, 38, 39, 80} {
				if i >= len(vars) {
					continue
				}
				for _, d := range []int{-2, -1, 1, 2} {
					v := vars[i]
					v.lenDelta = d
					e.c14(c, v, true)
				}
				for _, tr := range []int{1, 2, 7} {
					v := vars[i]
					v.trail = tr
					e.c14(c, v, true)
					e.c14(c, v, false)
				}
			}
		}
	}

	if e.want("C06") {
		e.thin = 12
		streams := 0
		for _, c := range []*vCfg{byName["default"], byName["ignore_ts"], byName["all+keys"], byName["auth+key"], byName["crypt+key"],
			byName["crypt2+server"], byName["crypt2+clients"], byName["all+keys+ignore_crypto"]} {
			for i := range vars {
				g := vars[i].g
				if !(i%7 == int(vSeed())%7 || strings.Contains(g.note, "valid") || strings.Contains(g.note, "flipped")) {
					continue
				}
				if g.mode == 3 && !(strings.Contains(c.name, "crypt2") || strings.Contains(c.name, "all")) {
					continue
				}
				wire := g.wire()
				stream := vFrame(true, wire)
				full := len(stream)
				switch e.rng.Intn(3) {
				case 0:
					stream = append(stream, e.rng.Bytes(1+e.rng.Intn(4))...)
				case 1:
					stream = append(stream, vFrame(true, wire)...)
				}
				e.chain(c, stream, full, fmt.Sprintf("c06/mode%d", g.mode))
				streams++
			}
		}
		out.Stat("c06_streams", streams)
		e.thin = 1
	}

	if e.want("C04") {
		// malformed / random input on every configuration, both transports, every length field value class
		n := vN(400)
		for i := 0; i < n; i++ {
			c := cfgs[e.rng.Intn(len(cfgs))]
			var in []byte
			switch e.rng.Intn(6) {
			case 0:
				in = e.rng.Bytes(e.rng.Intn(40))
			case 1: // plausible header, random rest of random length
				l := []int{0, 1, 12, 13, 14, 15, 36, 37, 38, 53, 54, 55, 85, 86, 87, 342, 343, 344, 345, 1076, 1077, 1078, 1079, 1500}[e.rng.Intn(24)]
				in = append([]byte{[]byte{0x38, 0x50, 0x39, 0x00, 0xff}[e.rng.Intn(5)]}, e.rng.Bytes(l)...)
			case 2: // a valid message with random bytes overwritten
				in = vars[e.rng.Intn(len(vars))].g.wire()
				for k := 0; k < 1+e.rng.Intn(3); k++ {
					in[e.rng.Intn(len(in))] = byte(e.rng.U64())
				}
			case 3: // crypt2 with a self-consistent but wrong wrapped-key length trailer
				g := e.newMsg(3)
				wl := 290 + e.rng.Intn(735)
				g.wkc = vCat(e.rng.Bytes(wl-2), vBE16(uint16(wl+e.rng.Intn(3)-1)))
				in = g.wire()
			case 4: // truncated valid message
				in = vars[e.rng.Intn(len(vars))].g.wire()
				in = in[:e.rng.Intn(len(in)+1)]
			default:
				in = e.rng.Bytes(1 + e.rng.Intn(1600))
				in[0] = []byte{0x38, 0x50}[e.rng.Intn(2)]
			}
			tcp := e.rng.Bool()
			if tcp {
				switch e.rng.Intn(4) {
				case 0:
					in = vCat(vBE16(uint16(e.rng.Intn(65536))), in)
				default:
					in = vFrame(true, in)
				}
			}
			ld := e.rng.Intn(len(AuthDigests)+1) - 1
			e.match(c, ld, tcp, in, "c04/random", len(in) > 3)
		}
		// every value of the TCP length field around the gates, with and without enough bytes behind it
		for _, l := range []int{0, 1, 13, 14, 15, 37, 38, 54, 86, 87, 343, 344, 345, 1077, 1078, 1079, 65535} {
			for _, hb := range []byte{0x38, 0x50} {
				for _, have := range []int{0, 1, l - 2, l - 1, l, l + 1} {
					if have < 0 || have > 2000 {
						continue
					}
					in := vCat(vBE16(uint16(l)), []byte{hb}, e.rng.Bytes(have))
					e.match(cfgs[12], -1, true, in, "c04/lengths", true)
					e.match(cfgs[1], 3, true, in, "c04/lengths", true)
				}
			}
		}
		// key selectors
		for _, kl := range []int{0, 10, 63, 64, 65, 127, 128, 129, 255, 256, 300} {
			kb := e.rng.Bytes(kl)
			for _, fl := range [][2]bool{{false, false}, {true, false}, {false, true}, {true, true}} {
				for _, size := range []int{16, 32, 36, 64} {
					for which := 0; which < 4; which++ {
						e.keyCase(kb, fl[0], fl[1], which, size)
					}
				}
			}
		}
	}
	out.Stat("match_evaluations", e.nMatch)
}

func vUnwrapOK(server []byte, ck vCK) bool {
	if len(ck.wkc) < 290 || len(ck.wkc) > 1024 {
		return false
	}
	tag, enc := ck.wkc[:32], ck.wkc[32:len(ck.wkc)-2]
	pl := vCTR(server[0:32], tag[:16], enc)
	mac := hmac.New(sha256.New, server[64:96])
	mac.Write(ck.wkc[len(ck.wkc)-2:])
	mac.Write(pl)
	return hmac.Equal(mac.Sum(nil), tag) && bytes.Equal(pl[:256], ck.kc)
}

func (e *vOvpn) keyCase(kb []byte, bidi, inverse bool, which, size int) {
	sk := &StaticKey{Bidi: bidi, Inverse: inverse, KeyBytes: kb}
	obs := "None"
	func() {
		defer func() {
			if r := recover(); r != nil {
				obs = "None"
			}
		}()
		var k []byte
		switch which {
		case 0:
			k = sk.GetClientAuthKey(size)
		case 1:
			k = sk.GetClientEncryptKey(size)
		case 2:
			k = sk.GetClientDecryptKey(size)
		default:
			k = sk.GetServerAuthKey(size)
		}
		obs = "(Some " + cHex(k) + ")"
	}()
	if vThorough() || (len(kb)+which+size/4)%3 == 0 {
		e.out.Case(fmt.Sprintf("KKey (%s,%s,%s) %d %d %s", cBool(bidi), cBool(inverse), cHex(kb), which, size, obs), "key", len(kb) >= 128, nil)
	}
}

// ---------------------------------------------------------------- C18: codecs

func sortInts(a []int) {
	for i := 1; i < len(a); i++ {
		for j := i; j > 0 && a[j-1] > a[j]; j-- {
			a[j-1], a[j] = a[j], a[j-1]
		}
	}
}

func vErrCode(err error) int {
	switch {
	case errors.Is(err, ErrInvalidSourceLength):
		return 0
	case errors.Is(err, ErrInvalidHeaderOpcode):
		return 1
	case errors.Is(err, ErrInvalidHMACLength):
		return 2
	default:
		return 3
	}
}

var vTypeNames = []string{"MessageHeader", "MessagePlain", "MessageAuth", "MessageCrypt", "WrappedKey", "MessageCrypt2"}

type vFlat struct {
	ints  []int64
	blobs [][]byte
}

func (f vFlat) coq() string {
	bs := make([]string, len(f.blobs))
	for i, b := range f.blobs {
		bs[i] = cHex(b)
	}
	return fmt.Sprintf("%s [%s]", cZList(f.ints), strings.Join(bs, ";"))
}
func (f vFlat) eq(g vFlat) bool {
	if len(f.ints) != len(g.ints) || len(f.blobs) != len(g.blobs) {
		return false
	}
	for i := range f.ints {
		if f.ints[i] != g.ints[i] {
			return false
		}
	}
	for i := range f.blobs {
		if !bytes.Equal(f.blobs[i], g.blobs[i]) {
			return false
		}
	}
	return true
}

func vFlatHdr(h MessageHeader) []int64 { return []int64{int64(h.Opcode), int64(h.KeyID)} }
func vFlatCrypt(m *MessageCrypt) vFlat {
	// uint64 session ids are printed through big.Int-free formatting below (cU64)
	return vFlat{append(vFlatHdr(m.MessageHeader), 0, int64(m.ReplayPacketID), int64(m.ReplayTimestamp), int64(m.PrevPacketIDsCount), int64(m.ThisPacketID)),
		[][]byte{m.HMAC, m.Encrypted}}
}

// a parsed value of any of the six types, with its session id kept apart (uint64 does not fit int64)
type vParsed struct {
	flat vFlat
	sid  uint64
	tb   []byte
}

func (p vParsed) coqFlat() string {
	f := p.flat
	ints := make([]string, len(f.ints))
	for i, v := range f.ints {
		ints[i] = cZ(v)
	}
	if len(ints) > 2 {
		ints[2] = fmt.Sprintf("%d", p.sid)
	}
	bs := make([]string, len(f.blobs))
	for i, b := range f.blobs {
		bs[i] = cHex(b)
	}
	return fmt.Sprintf("[%s] [%s]", strings.Join(ints, "; "), strings.Join(bs, ";"))
}

// state of the receiver FromBytes* is called on: 0 fresh (&T{}); 1 reused after a successful parse of another valid message
// (and, where the type has such fields, after Authenticate left a digest / FromBytesCrypt left the decrypted tail);
// 2 pre-filled the way MatchOpenVPN.Match pre-fills a MessageAuth (Digest: lastDigest)
type vRecv struct {
	kind int
	dg   int    // digest the receiver holds (index into AuthDigests)
	prev uint8  // PrevPacketIDsCount left by FromBytesCrypt
	pid  uint32 // ThisPacketID left by FromBytesCrypt
}

var (
	vValidPlain  = append([]byte{0x38}, bytes.Repeat([]byte{0x11}, 8+1+4)...)
	vValidAuth   = append([]byte{0x38}, bytes.Repeat([]byte{0x22}, 8+16+4+4+1+4)...)
	vValidCrypt  = append([]byte{0x38}, bytes.Repeat([]byte{0x33}, 53)...)
	vValidWK     = append(bytes.Repeat([]byte{0x44}, 288), 0x01, 0x22)
	vValidCrypt2 = append(append([]byte{0x50}, bytes.Repeat([]byte{0x55}, 53)...), vValidWK...)
)

func vParse(ty int, headless bool, hb byte, src []byte) (p vParsed, code int) {
	p, code, _ = vParseOn(ty, headless, hb, src, vRecv{})
	return
}

// dgAfter: the digest the MessageAuth receiver holds after the call (-1 nil, -3 not applicable)
func vParseOn(ty int, headless bool, hb byte, src []byte, rc vRecv) (p vParsed, code int, dgAfter int) {
	dgAfter = -3
	defer func() {
		if r := recover(); r != nil {
			code = -2
		}
	}()
	hdr := &MessageHeader{}
	_ = hdr.FromBytes([]byte{hb})
	var err error
	tail := append([]byte{rc.prev}, vBE32(rc.pid)...)
	if rc.kind != 0 {
		switch ty {
		case 1:
			m := &MessagePlain{}
			_ = m.FromBytes(vValidPlain)
			if headless {
				err = m.FromBytesHeadless(src, hdr)
			} else {
				err = m.FromBytes(src)
			}
			if err == nil {
				p = vParsed{flat: vFlat{append(vFlatHdr(m.MessageHeader), 0, int64(m.PrevPacketIDsCount), int64(m.ThisPacketID)), nil}, sid: m.LocalSessionID, tb: m.ToBytes()}
			}
		case 2:
			m := &MessageAuth{}
			if rc.kind == 1 {
				_ = m.FromBytes(vValidAuth)
			}
			m.Digest = AuthDigests[rc.dg]
			if headless {
				err = m.FromBytesHeadless(src, hdr)
			} else {
				err = m.FromBytes(src)
			}
			dgAfter = vDigestIdx(m.Digest)
			if err == nil {
				p = vParsed{flat: vFlat{append(vFlatHdr(m.MessageHeader), 0, int64(m.ReplayPacketID), int64(m.ReplayTimestamp), int64(m.PrevPacketIDsCount), int64(m.ThisPacketID)),
					[][]byte{m.HMAC}}, sid: m.LocalSessionID, tb: m.ToBytes()}
			}
		case 3:
			m := &MessageCrypt{}
			_ = m.FromBytes(vValidCrypt)
			_ = m.FromBytesCrypt(tail)
			if headless {
				err = m.FromBytesHeadless(src, hdr)
			} else {
				err = m.FromBytes(src)
			}
			if err == nil {
				p = vParsed{flat: vFlatCrypt(m), sid: m.LocalSessionID, tb: m.ToBytes()}
			}
		case 4:
			m := &WrappedKey{}
			_ = m.FromBytes(vValidWK)
			m.StaticKey.KeyBytes, m.MetaData.Type, m.MetaData.Payload = bytes.Repeat([]byte{9}, 256), 1, []byte{1, 2, 3}
			if err = m.FromBytes(src); err == nil {
				p = vParsed{flat: vFlat{nil, [][]byte{m.HMAC, m.Encrypted}}, tb: m.ToBytes()}
			}
		case 5:
			m := &MessageCrypt2{}
			_ = m.FromBytes(vValidCrypt2)
			_ = m.MessageCrypt.FromBytesCrypt(tail)
			m.WrappedKey.StaticKey.KeyBytes = bytes.Repeat([]byte{9}, 256)
			if headless {
				err = m.FromBytesHeadless(src, hdr)
			} else {
				err = m.FromBytes(src)
			}
			if err == nil {
				f := vFlatCrypt(&m.MessageCrypt)
				f.blobs = append(f.blobs, m.WrappedKey.HMAC, m.WrappedKey.Encrypted)
				p = vParsed{flat: f, sid: m.LocalSessionID, tb: m.ToBytes()}
			}
		default:
			m := &MessageHeader{Opcode: 31, KeyID: 7}
			if err = m.FromBytes(src); err == nil {
				p = vParsed{flat: vFlat{vFlatHdr(*m), nil}, tb: m.ToBytes()}
			}
		}
		if err != nil {
			return p, 1 + vErrCode(err), dgAfter
		}
		return p, 0, dgAfter
	}
	switch ty {
	case 0:
		m := &MessageHeader{}
		if err = m.FromBytes(src); err == nil {
			p = vParsed{flat: vFlat{vFlatHdr(*m), nil}, tb: m.ToBytes()}
		}
	case 1:
		m := &MessagePlain{}
		if headless {
			err = m.FromBytesHeadless(src, hdr)
		} else {
			err = m.FromBytes(src)
		}
		if err == nil {
			p = vParsed{flat: vFlat{append(vFlatHdr(m.MessageHeader), 0, int64(m.PrevPacketIDsCount), int64(m.ThisPacketID)), nil}, sid: m.LocalSessionID, tb: m.ToBytes()}
		}
	case 2:
		m := &MessageAuth{}
		if headless {
			err = m.FromBytesHeadless(src, hdr)
		} else {
			err = m.FromBytes(src)
		}
		if err == nil {
			p = vParsed{flat: vFlat{append(vFlatHdr(m.MessageHeader), 0, int64(m.ReplayPacketID), int64(m.ReplayTimestamp), int64(m.PrevPacketIDsCount), int64(m.ThisPacketID)),
				[][]byte{m.HMAC}}, sid: m.LocalSessionID, tb: m.ToBytes()}
		}
	case 3:
		m := &MessageCrypt{}
		if headless {
			err = m.FromBytesHeadless(src, hdr)
		} else {
			err = m.FromBytes(src)
		}
		if err == nil {
			p = vParsed{flat: vFlatCrypt(m), sid: m.LocalSessionID, tb: m.ToBytes()}
		}
	case 4:
		m := &WrappedKey{}
		if err = m.FromBytes(src); err == nil {
			p = vParsed{flat: vFlat{nil, [][]byte{m.HMAC, m.Encrypted}}, tb: m.ToBytes()}
		}
	default:
		m := &MessageCrypt2{}
		if headless {
			err = m.FromBytesHeadless(src, hdr)
		} else {
			err = m.FromBytes(src)
		}
		if err == nil {
			f := vFlatCrypt(&m.MessageCrypt)
			f.blobs = append(f.blobs, m.WrappedKey.HMAC, m.WrappedKey.Encrypted)
			p = vParsed{flat: f, sid: m.LocalSessionID, tb: m.ToBytes()}
		}
	}
	if err != nil {
		return p, 1 + vErrCode(err), dgAfter
	}
	return p, 0, dgAfter
}

// lengths the wire definition allows, written out (not taken from the module's constants)
func vLenValid(ty int, headless bool, n int) bool {
	if headless {
		n++
	}
	switch ty {
	case 0:
		return n == 1
	case 1:
		return n == 14
	case 2:
		for _, s := range []int{16, 20, 28, 32, 36, 48, 64} {
			if n == 22+s {
				return true
			}
		}
		return false
	case 3:
		return n == 54
	case 4:
		return n >= 290 && n <= 1024
	default:
		return n >= 344 && n <= 1078
	}
}

func (e *vOvpn) fromCase(ty int, headless bool, hb byte, src []byte) {
	e.fromCaseOn(ty, headless, hb, src, vRecv{}, e.fromThin)
	// receivers that are not fresh: reused after another valid message; for MessageAuth also pre-filled with a digest the
	// way the matcher does (rotating through the table, so that sizes equal to and different from the HMAC part occur)
	k := (len(src)*7 + ty) % len(AuthDigests)
	e.fromCaseOn(ty, headless, hb, src, vRecv{kind: 1, dg: k, prev: uint8(1 + len(src)%200), pid: uint32(len(src))*2654435761 | 1}, 3*e.fromThin)
	if ty == 2 {
		e.fromCaseOn(ty, headless, hb, src, vRecv{kind: 2, dg: (k + 5) % len(AuthDigests)}, 3*e.fromThin)
	}
}

func (e *vOvpn) fromCaseOn(ty int, headless bool, hb byte, src []byte, rc vRecv, thin uint64) {
	if ty == 0 || ty == 4 {
		headless = false
	}
	p, code, dgAfter := vParseOn(ty, headless, hb, src, rc)
	name := vTypeNames[ty]
	inp := map[string]any{"type": name, "headless": headless, "src": hex.EncodeToString(src), "len": len(src),
		"receiver": []string{"fresh", "reused after another valid message", "pre-filled with a digest (as Match does)"}[rc.kind]}
	if rc.kind != 0 && ty == 2 {
		inp["receiver_digest"] = AuthDigests[rc.dg].Names[0]
	}
	obs := "FPanic"
	switch {
	case code == 0:
		obs = "(FOk " + p.coqFlat() + ")"
	case code > 0:
		obs = fmt.Sprintf("(FErr %d)", code-1)
	}
	valid := vLenValid(ty, headless, len(src))
	// the embedded length field must agree with the actual length of the wrapped key
	if valid && (ty == 4 || ty == 5) {
		off := 0
		if ty == 5 {
			off = 53
			if !headless {
				off = 54
			}
		}
		valid = int(binary.BigEndian.Uint16(src[len(src)-2:])) == len(src)-off
	}
	near := false
	for d := -2; d <= 2; d++ {
		near = near || vLenValid(ty, headless, len(src)+d)
	}
	// in the quick tier the correspondence cases of the bulky sweeps are a deterministic sample (every accepted input is kept);
	// the oracles below see every call
	hsh := uint64(14695981039346656037)
	for _, b := range src {
		hsh = (hsh ^ uint64(b)) * 1099511628211
	}
	hsh = (hsh ^ uint64(ty*8+rc.kind*2)) * 1099511628211
	if len(src) >= 200 && thin < 4 {
		thin = 4 // wrapped keys and crypt2 messages are bulky
	}
	if vThorough() || thin <= 1 || code == -2 || (hsh>>13)%thin == 0 || (code == 0 && (len(src) < 200 || (hsh>>9)%3 == 0)) {
		if rc.kind == 0 {
			e.out.Case(fmt.Sprintf("KFrom %d %s %d %s %s %s", ty, cBool(headless), hb, cHex(src), obs, cHex(p.tb)),
				fmt.Sprintf("from/%s/%v", name, code == 0), near, nil)
		} else {
			st, st2 := "[]", "[]"
			switch ty {
			case 2:
				st, st2 = fmt.Sprintf("[%d]", rc.dg), "["+cZ(int64(dgAfter))+"]"
			case 3, 5:
				st = fmt.Sprintf("[%d; %d]", rc.prev, rc.pid)
			}
			e.out.Case(fmt.Sprintf("KFromSt %d %s %d %s %s %s %s %s", ty, cBool(headless), hb, st, cHex(src), obs, cHex(p.tb), st2),
				fmt.Sprintf("from-recv%d/%s/%v", rc.kind, name, code == 0), near, nil)
		}
	}
	if rc.kind != 0 && ty == 2 && dgAfter != rc.dg && code != -2 {
		e.out.Fail("C18:"+name+":receiver-state-changed", "FromBytes changed the Digest the receiver held", inp)
	}
	if code == -2 {
		e.out.Fail("C04:openvpn-codec:panic", name+".FromBytes panicked", inp)
		return
	}
	if code == 0 {
		want := src
		if headless {
			want = append([]byte{hb}, src...)
		}
		if !bytes.Equal(p.tb, want) {
			inp["tobytes"] = hex.EncodeToString(p.tb)
			e.out.Fail("C18:"+name+":to-from-mismatch", "ToBytes(FromBytes(b)) != b", inp)
		}
		if !valid {
			e.out.Fail("C18:"+name+":accepts-wrong-length", fmt.Sprintf("FromBytes accepted %d bytes, which no %s has (total length or embedded length field inconsistent)", len(src), name), inp)
		}
	}
}

func (e *vOvpn) codecs() {
	r := e.rng
	hbs := []byte{0x38, 0x50, 0x39, 0x00, 0xff}
	// every length around each bound, random and structured contents, with and without header
	lens := map[int][]int{
		0: {0, 1, 2, 3},
		1: {0, 1, 11, 12, 13, 14, 15, 16},
		2: nil,
		3: {0, 51, 52, 53, 54, 55, 56},
		4: {0, 2, 287, 288, 289, 290, 291, 292, 500, 1022, 1023, 1024, 1025, 1026},
		5: {0, 52, 53, 54, 341, 342, 343, 344, 345, 346, 347, 348, 600, 1075, 1076, 1077, 1078, 1079, 1080},
	}
	for n := 0; n <= 92; n++ {
		if n <= 2 || n >= 18 {
			lens[2] = append(lens[2], n)
		}
	}
	reps := 2
	if vThorough() {
		reps = 8
	}
	for ty := 0; ty < 6; ty++ {
		for _, n := range lens[ty] {
			for rep := 0; rep < reps; rep++ {
				for _, headless := range []bool{false, true} {
					src := r.Bytes(n)
					hb := hbs[(rep+n)%len(hbs)]
					if rep%2 == 0 {
						hb = []byte{0x38, 0x38, 0x38, 0x38, 0x38, 0x50}[ty]
					}
					if !headless && n > 0 && ty != 4 {
						src[0] = hb
					}
					// self-consistent wrapped-key trailer in half of the cases
					if (ty == 4 || ty == 5) && rep%2 == 0 {
						off := 0
						if ty == 5 {
							off = 53
							if !headless {
								off = 54
							}
						}
						if n-off >= 2 {
							binary.BigEndian.PutUint16(src[n-2:], uint16(n-off))
						}
					}
					e.fromCase(ty, headless, hb, src)
				}
			}
		}
	}
	// the embedded length field (2-byte trailer of the wrapped key) swept around its correct value, around the
	// wrapped-key size bounds and at the extremes, for wrapped-key lengths around both bounds and in between:
	// self-inconsistent length fields are where a parser that trusts the field truncates or over-reads
	wkLens := []int{288, 289, 290, 291, 292, 293, 294, 300, 511, 512, 700, 1021, 1022, 1023, 1024, 1025, 1026}
	if vThorough() {
		for n := 295; n < 1021; n += 37 {
			wkLens = append(wkLens, n)
		}
	}
	e.fromThin = 8
	for _, wl := range wkLens {
		trailers := map[int]bool{0: true, 1: true, 2: true, 34: true, 289: true, 290: true, 291: true, 1023: true, 1024: true, 1025: true, 65535: true,
			wl + 53: true, wl + 54: true, wl + 256: true, (wl + 290) / 2: true}
		for d := -4; d <= 4; d++ {
			if wl+d >= 0 {
				trailers[wl+d] = true
			}
		}
		for tr := range trailers {
			if tr < 0 || tr > 65535 {
				delete(trailers, tr)
			}
		}
		trs := make([]int, 0, len(trailers))
		for tr := range trailers {
			trs = append(trs, tr)
		}
		sortInts(trs)
		for _, tr := range trs {
			wk := r.Bytes(wl)
			binary.BigEndian.PutUint16(wk[wl-2:], uint16(tr))
			e.fromCase(4, false, 0, wk)
			body := append(r.Bytes(53), wk...)
			e.fromCase(5, true, 0x50, body)
			e.fromCase(5, false, 0x50, append([]byte{0x50}, body...))
		}
	}
	e.fromThin = 1
	// ToBytes on generated field values (well-formed and out-of-range), and the second inverse law
	n := vN(300)
	for i := 0; i < n; i++ {
		wf := i%4 != 3
		op, kid := uint8(r.Intn(32)), uint8(r.Intn(8))
		if !wf {
			op, kid = uint8(r.Intn(256)), uint8(r.Intn(256))
		}
		h := MessageHeader{Opcode: op, KeyID: kid}
		sid, prev, pid, rpid, rts := r.U64(), uint8(r.U64()), uint32(r.U64()), uint32(r.U64()), uint32(r.U64())
		if i%5 == 0 {
			sid, pid = 0, 0
		}
		tagLen := []int{16, 20, 28, 32, 36, 48, 64}[r.Intn(7)]
		encLen := 5
		if !wf {
			tagLen, encLen = r.Intn(70), r.Intn(9)
		}
		tag, enc := r.Bytes(tagLen), r.Bytes(encLen)
		wtag, wenc := r.Bytes(32), r.Bytes(256+r.Intn(735))
		if !wf && r.Bool() {
			wtag, wenc = r.Bytes(r.Intn(40)), r.Bytes(r.Intn(1100))
		}
		ints := func(xs ...int64) string {
			ss := make([]string, len(xs))
			for i, x := range xs {
				ss[i] = cZ(x)
			}
			if len(ss) > 2 {
				ss[2] = fmt.Sprintf("%d", sid)
			}
			return "[" + strings.Join(ss, "; ") + "]"
		}
		// header
		e.out.Case(fmt.Sprintf("KTo 0 %s [] %s", ints(int64(op), int64(kid)), cHex(h.ToBytes())), "to/MessageHeader", wf, nil)
		// plain
		mp := &MessagePlain{MessageHeader: h, LocalSessionID: sid, PrevPacketIDsCount: prev, ThisPacketID: pid}
		e.out.Case(fmt.Sprintf("KTo 1 %s [] %s", ints(int64(op), int64(kid), 0, int64(prev), int64(pid)), cHex(mp.ToBytes())), "to/MessagePlain", wf, nil)
		// auth
		ma := &MessageAuth{MessagePlain: *mp, MessageTraitAuth: MessageTraitAuth{HMAC: tag}, MessageTraitReplay: MessageTraitReplay{rpid, rts}}
		ai := ints(int64(op), int64(kid), 0, int64(rpid), int64(rts), int64(prev), int64(pid))
		e.out.Case(fmt.Sprintf("KTo 2 %s [%s] %s", ai, cHex(tag), cHex(ma.ToBytes())), "to/MessageAuth", wf, nil)
		e.out.Case(fmt.Sprintf("KToAuth 2 %s [%s] %s", ai, cHex(tag), cHex(ma.ToBytesAuth())), "toauth/MessageAuth", wf, nil)
		// crypt
		mc := &MessageCrypt{MessageAuth: MessageAuth{MessagePlain: *mp, MessageTraitAuth: MessageTraitAuth{HMAC: tag[:min(len(tag), 32)]}, MessageTraitReplay: MessageTraitReplay{rpid, rts}},
			MessageTraitCrypt: MessageTraitCrypt{Encrypted: enc}}
		ctag := tag[:min(len(tag), 32)]
		e.out.Case(fmt.Sprintf("KTo 3 %s [%s;%s] %s", ai, cHex(ctag), cHex(enc), cHex(mc.ToBytes())), "to/MessageCrypt", wf, nil)
		e.out.Case(fmt.Sprintf("KToAuth 3 %s [%s;%s] %s", ai, cHex(ctag), cHex(enc), cHex(mc.ToBytesAuth())), "toauth/MessageCrypt", wf, nil)
		// wrapped key, crypt2
		wk := WrappedKey{MessageTraitAuth: MessageTraitAuth{HMAC: wtag}, MessageTraitCrypt: MessageTraitCrypt{Encrypted: wenc}}
		bulky := vThorough() || i%4 == 0
		if bulky {
			e.out.Case(fmt.Sprintf("KTo 4 [] [%s;%s] %s", cHex(wtag), cHex(wenc), cHex(wk.ToBytes())), "to/WrappedKey", wf, nil)
		}
		mr := &MessageCrypt2{MessageCrypt: *mc, WrappedKey: wk}
		if bulky {
			e.out.Case(fmt.Sprintf("KTo 5 %s [%s;%s;%s;%s] %s", ai, cHex(ctag), cHex(enc), cHex(wtag), cHex(wenc), cHex(mr.ToBytes())), "to/MessageCrypt2", wf, nil)
		}

		if !wf {
			continue
		}
		// from_to: FromBytes(ToBytes(x)) == x on the wire-visible fields of well-formed values
		v2, v3 := h, h
		v2.Opcode, v3.Opcode = OpcodeControlHardResetClientV2, OpcodeControlHardResetClientV3
		check := func(ty int, wire []byte, want vParsed) {
			got, code := vParse(ty, false, 0, wire)
			if code != 0 || !got.flat.eq(want.flat) || got.sid != want.sid {
				e.out.Fail("C18:"+vTypeNames[ty]+":from-to-mismatch", fmt.Sprintf("FromBytes(ToBytes(x)) != x (code %d)", code),
					map[string]any{"type": vTypeNames[ty], "wire": hex.EncodeToString(wire), "want": want.coqFlat(), "got": got.coqFlat()})
			}
		}
		check(0, h.ToBytes(), vParsed{flat: vFlat{vFlatHdr(h), nil}})
		mp.MessageHeader = v2
		check(1, mp.ToBytes(), vParsed{flat: vFlat{append(vFlatHdr(v2), 0, int64(prev), int64(pid)), nil}, sid: sid})
		ma.MessageHeader = v2
		check(2, ma.ToBytes(), vParsed{flat: vFlat{append(vFlatHdr(v2), 0, int64(rpid), int64(rts), int64(prev), int64(pid)), [][]byte{tag}}, sid: sid})
		ctag32 := r.Bytes(32)
		mc2 := &MessageCrypt{MessageAuth: MessageAuth{MessagePlain: MessagePlain{MessageHeader: v2, LocalSessionID: sid}, MessageTraitAuth: MessageTraitAuth{HMAC: ctag32},
			MessageTraitReplay: MessageTraitReplay{rpid, rts}}, MessageTraitCrypt: MessageTraitCrypt{Encrypted: enc}}
		check(3, mc2.ToBytes(), vParsed{flat: vFlat{append(vFlatHdr(v2), 0, int64(rpid), int64(rts), 0, 0), [][]byte{ctag32, enc}}, sid: sid})
		check(4, wk.ToBytes(), vParsed{flat: vFlat{nil, [][]byte{wtag, wenc}}})
		mc2.MessageHeader = v3
		mr2 := &MessageCrypt2{MessageCrypt: *mc2, WrappedKey: wk}
		check(5, mr2.ToBytes(), vParsed{flat: vFlat{append(vFlatHdr(v3), 0, int64(rpid), int64(rts), 0, 0), [][]byte{ctag32, enc, wtag, wenc}}, sid: sid})
	}
}
