package l4throttle

// C17 engine: throttle handler.
//
//  (a) exact, clock-free: rate.NewLimiter(r, b).ReserveN(t, n).DelayFrom(t) and TokensAt(t) on
//      generated (t, n) sequences; rates are powers of two and instants multiples of 1/512 s so
//      that every float64 operation of rate.go is exact -> correspondence cases CReserve.
//  (b) Provision on generated configurations (CProvision) and the sizes of the inner Reads made
//      by the real throttledConn.Read over a scripted inner connection, with rates high enough
//      that waits are microseconds (CRead); the concatenated stream must be unchanged.
//  (c) real time: 1..8 connections through one provisioned Handler; an instrumented inner
//      connection timestamps the cumulative number of bytes pulled; the property's bound is
//      checked one-sidedly at every sample.

import (
	"bytes"
	"context"
	"errors"
	"fmt"
	"io"
	"math"
	"math/big"
	"net"
	"runtime"
	"runtime/debug"
	"strings"
	"sync"
	"sync/atomic"
	"testing"
	"time"

	"github.com/caddyserver/caddy/v2"
	"go.uber.org/zap"
	"golang.org/x/time/rate"

	"github.com/mholt/caddy-l4/layer4"
)

// ---------------------------------------------------------------- (a) ReserveN

const v17Tick = 1953125 // ns: 1/512 s, exactly representable as float64 seconds

func v17Reserve(out *vOut, r *vRng, n int) {
	base := time.Unix(1700000000, 0)
	for i := 0; i < n; i++ {
		// limit = 2^j tokens/s (j in -3..20), or 0, or Inf
		var lp, lq int64 = 1, 1
		inf := false
		var lim rate.Limit
		switch k := r.Intn(20); {
		case k == 0:
			lp, lq, lim = 0, 1, 0
		case k == 1:
			inf, lim = true, rate.Inf
		default:
			j := r.Intn(24) - 3
			if j >= 0 {
				lp = 1 << uint(j)
			} else {
				lq = 1 << uint(-j)
			}
			lim = rate.Limit(float64(lp) / float64(lq))
		}
		burst := int64(r.Intn(6))
		switch r.Intn(4) {
		case 0:
			burst = int64(1 + r.Intn(64))
		case 1:
			burst = int64(1 << uint(r.Intn(17)))
		}
		l := rate.NewLimiter(lim, int(burst))
		steps := 1 + r.Intn(12)
		t := int64(1+r.Intn(1000)) * v17Tick
		var reqs, obs []string
		exact := true
		for s := 0; s < steps; s++ {
			switch r.Intn(8) {
			case 0: // same instant
			case 1: // clock reading taken before the previous one (lock order differs from clock order)
				t -= int64(r.Intn(3)) * v17Tick
				if t < 0 {
					t = 0
				}
			case 2:
				t += int64(r.Intn(4000)) * v17Tick
			default:
				t += int64(r.Intn(40)) * v17Tick
			}
			nn := int64(r.Intn(int(burst) + 3))
			if r.Intn(3) == 0 && burst > 0 {
				nn = burst - int64(r.Intn(2))
			}
			at := base.Add(time.Duration(t))
			d := l.ReserveN(at, int(nn)).DelayFrom(at)
			tokU := int64(-1)
			if !inf {
				// tokens in units of 1/(lq*1e9): must be an integer when the arithmetic was exact
				tk := new(big.Rat)
				tk.SetFloat64(l.TokensAt(at))
				tk.Mul(tk, new(big.Rat).SetInt64(lq*1000000000))
				if tk.IsInt() && tk.Num().IsInt64() {
					tokU = tk.Num().Int64()
					if tokU == -1 {
						exact = false
					}
				} else {
					exact = false
				}
			}
			reqs = append(reqs, fmt.Sprintf("(%s,%s)", cZ(t), cZ(nn)))
			obs = append(obs, fmt.Sprintf("(%s,%s)", cZ(int64(d)), cZ(tokU)))
		}
		if !exact {
			out.Stat("reserve_inexact_skipped", 1)
			continue
		}
		cls := "reserve:finite"
		if inf {
			cls = "reserve:inf"
		} else if lp == 0 {
			cls = "reserve:zero"
		}
		out.Case(fmt.Sprintf("CReserve %s %s %s %s [%s] [%s]", cZ(lp), cZ(lq), cZ(burst), cBool(inf),
			strings.Join(reqs, ";"), strings.Join(obs, ";")), cls, steps >= 2 && !inf && burst > 0,
			map[string]any{"limit": float64(lim), "burst": burst, "reqs": reqs, "obs": obs})
	}
}

// arbitrary rates and instants: float64 rounds, so delays are compared within 2 ns
func v17ReserveApprox(out *vOut, r *vRng, n int) {
	base := time.Unix(1700000000, 0)
	for i := 0; i < n; i++ {
		lq := []int64{1, 2, 3, 7, 10}[r.Intn(5)]
		lp := lq + int64(r.Intn(400000))*lq/int64(1+r.Intn(3)) + int64(r.Intn(int(lq)))
		lim := rate.Limit(float64(lp) / float64(lq))
		burst := int64(1 + r.Intn(70000))
		l := rate.NewLimiter(lim, int(burst))
		steps := 1 + r.Intn(12)
		t := int64(r.Intn(2000000000))
		var reqs, obs []string
		for s := 0; s < steps; s++ {
			switch r.Intn(6) {
			case 0:
			case 1:
				t += int64(r.Intn(3000000000))
			default:
				t += int64(r.Intn(30000000))
			}
			nn := int64(r.Intn(int(burst) + 2))
			if r.Intn(3) == 0 {
				nn = int64(r.Intn(1500))
				if nn > burst {
					nn = burst
				}
			}
			at := base.Add(time.Duration(t))
			d := l.ReserveN(at, int(nn)).DelayFrom(at)
			reqs = append(reqs, fmt.Sprintf("(%s,%s)", cZ(t), cZ(nn)))
			obs = append(obs, fmt.Sprintf("(%s,(-1))", cZ(int64(d))))
		}
		out.Case(fmt.Sprintf("CReserveApprox %s %s %s 2 [%s] [%s]", cZ(lp), cZ(lq), cZ(burst), strings.Join(reqs, ";"), strings.Join(obs, ";")),
			"reserve:approx", steps >= 2, map[string]any{"limit": float64(lim), "burst": burst, "reqs": reqs, "obs": obs})
	}
}

// ---------------------------------------------------------------- configurations

type v17Cfg struct {
	rp, rq, rburst, trp, trq, tburst int64
	lat                              time.Duration
}

func (c v17Cfg) coq() string {
	return fmt.Sprintf("(T %s %s false %s %s %s false %s %s)", cZ(c.rp), cZ(c.rq), cZ(c.rburst), cZ(c.trp), cZ(c.trq), cZ(c.tburst), cZ(int64(c.lat)))
}

func (c v17Cfg) handler() *Handler {
	return &Handler{
		ReadBytesPerSecond:      float64(c.rp) / float64(c.rq),
		ReadBurstSize:           int(c.rburst),
		TotalReadBytesPerSecond: float64(c.trp) / float64(c.trq),
		TotalReadBurstSize:      int(c.tburst),
		Latency:                 caddy.Duration(c.lat),
	}
}

func v17Provision(h *Handler) (err error, cancel context.CancelFunc) {
	ctx, cancel := caddy.NewContext(caddy.Context{Context: context.Background()})
	return h.Provision(ctx), cancel
}

// ---------------------------------------------------------------- scripted / instrumented inner conn

type v17Sample struct {
	at  time.Time
	cum int64
}

type v17Inner struct {
	mu      sync.Mutex
	size    int64 // bytes the client will send in total
	off     int64
	chunk   int   // at most this many bytes per Read (0: no limit)
	asked   []int // len(p) of every Read
	gave    []int
	errs    []int // error code returned by every Read (0 nil, 1 io.EOF, 2 other)
	errWith int   // 0: io.EOF alone after the data; 1: io.EOF together with the last bytes; 2: a reset-like error together with the last bytes; 3: that error alone after the data
	samples []v17Sample
	first   time.Time
	seed    byte
	base    int64 // position of the inner connection's first byte in the whole stream (bytes before it were prefetched)
	shared  *v17Shared
}

type v17Shared struct {
	mu      sync.Mutex
	cum     int64
	samples []v17Sample
}

func v17Byte(seed byte, off int64) byte { return byte(off*131+int64(seed)*17) ^ byte(off>>8) }

func (c *v17Inner) Read(p []byte) (int, error) {
	now := time.Now()
	c.mu.Lock()
	defer c.mu.Unlock()
	if c.first.IsZero() {
		c.first = now
	}
	n := len(p)
	if c.chunk > 0 && n > c.chunk {
		n = c.chunk
	}
	if rem := c.size - c.off; int64(n) > rem {
		n = int(rem)
	}
	for i := 0; i < n; i++ {
		p[i] = v17Byte(c.seed, c.base+c.off+int64(i))
	}
	c.off += int64(n)
	c.asked = append(c.asked, len(p))
	c.gave = append(c.gave, n)
	c.samples = append(c.samples, v17Sample{now, c.off})
	if c.shared != nil {
		c.shared.mu.Lock()
		c.shared.cum += int64(n)
		c.shared.samples = append(c.shared.samples, v17Sample{now, c.shared.cum})
		c.shared.mu.Unlock()
	}
	var err error
	if len(p) > 0 && c.off == c.size && (n == 0 || c.errWith == 1 || c.errWith == 2) {
		err = io.EOF
		if c.errWith >= 2 {
			err = errV17Reset
		}
	}
	c.errs = append(c.errs, v17ErrCode(err))
	return n, err
}

var errV17Reset = errors.New("read: connection reset by peer")

func v17ErrCode(err error) int {
	switch {
	case err == nil:
		return 0
	case errors.Is(err, io.EOF):
		return 1
	}
	return 2
}
func (c *v17Inner) Write(b []byte) (int, error)      { return len(b), nil }
func (c *v17Inner) Close() error                     { return nil }
func (c *v17Inner) LocalAddr() net.Addr              { return &net.TCPAddr{IP: net.IPv4(127, 0, 0, 1), Port: 1} }
func (c *v17Inner) RemoteAddr() net.Addr             { return &net.TCPAddr{IP: net.IPv4(127, 0, 0, 1), Port: 2} }
func (c *v17Inner) SetDeadline(time.Time) error      { return nil }
func (c *v17Inner) SetReadDeadline(time.Time) error  { return nil }
func (c *v17Inner) SetWriteDeadline(time.Time) error { return nil }

// the same connection, also offering the net.PacketConn methods (like layer4's UDP connections)
type v17PacketInner struct{ *v17Inner }

func (c v17PacketInner) ReadFrom(p []byte) (int, net.Addr, error) {
	n, err := c.v17Inner.Read(p)
	return n, c.RemoteAddr(), err
}
func (c v17PacketInner) WriteTo(p []byte, _ net.Addr) (int, error) { return len(p), nil }

var _ net.PacketConn = v17PacketInner{}

func v17AsConn(in *v17Inner, packet bool) net.Conn {
	if packet {
		return v17PacketInner{in}
	}
	return in
}

// ---------------------------------------------------------------- (b) Provision and read sizes

func v17ProvisionCases(out *vOut, r *vRng, n int) {
	for i := 0; i < n; i++ {
		c := v17Cfg{rq: 1 << uint(r.Intn(4)), trq: 1 << uint(r.Intn(4))}
		pick := func() int64 {
			switch r.Intn(6) {
			case 0:
				return 0
			case 1:
				return -int64(1 + r.Intn(5))
			case 2:
				return int64(1 + r.Intn(16))
			default:
				return int64(1 + r.Intn(4000000))
			}
		}
		pickB := func() int64 {
			switch r.Intn(5) {
			case 0, 1:
				return 0
			case 2:
				return -int64(1 + r.Intn(3))
			default:
				return int64(1 + r.Intn(70000))
			}
		}
		c.rp, c.trp, c.rburst, c.tburst = pick(), pick(), pickB(), pickB()
		h := c.handler()
		err, cancel := v17Provision(h)
		cancel()
		out.Case(fmt.Sprintf("CProvision %s %s %s %s %s", c.coq(), cBool(err == nil), cZ(int64(h.ReadBurstSize)), cZ(int64(h.TotalReadBurstSize)),
			cBool(h.totalLimiter != nil)), "provision", c.rp > 0 || c.trp > 0,
			map[string]any{"cfg": c.coq(), "err": fmt.Sprint(err)})
		if err != nil {
			if h.ReadBytesPerSecond >= 0 && h.TotalReadBytesPerSecond >= 0 && h.ReadBurstSize >= 0 && h.TotalReadBurstSize >= 0 {
				out.Fail("C17:provision:valid-config-rejected", fmt.Sprint(err), c.coq())
			}
			continue
		}
		// the property needs: a configured rate has a burst > 0 (otherwise every Read fails or the limiter is absent)
		if (h.ReadBytesPerSecond > 0 && h.ReadBurstSize <= 0) || (h.TotalReadBytesPerSecond > 0 && h.TotalReadBurstSize <= 0) {
			out.Fail("C17:provision:rate-without-burst", "a rate is configured but the burst is not positive", c.coq())
		}
	}
}

func v17ReadCases(out *vOut, r *vRng, n int) {
	for i := 0; i < n; i++ {
		// high rates: waits are microseconds; small bursts so that batches are clipped
		c := v17Cfg{rq: 1, trq: 1}
		ledger := false
		switch r.Intn(6) {
		case 4, 5: // negligible refill (2^-20 B/s), bursts that cover everything: the token ledger is observable
			ledger = true
			if k := r.Intn(3); k != 1 {
				c.rp, c.rq, c.rburst = 1, 1<<20, int64(60000+r.Intn(5000))
			}
			if k := r.Intn(3); k != 1 || c.rp == 0 {
				c.trp, c.trq, c.tburst = 1, 1<<20, int64(60000+r.Intn(5000))
			}
		case 0: // local only
			c.rp, c.rburst = int64(20000000+r.Intn(1000000)), int64(1+r.Intn(40))
		case 1: // total only
			c.trp, c.tburst = int64(20000000+r.Intn(1000000)), int64(1+r.Intn(40))
		case 2: // both
			c.rp, c.rburst = int64(20000000+r.Intn(1000000)), int64(1+r.Intn(40))
			c.trp, c.tburst = int64(20000000+r.Intn(1000000)), int64(1+r.Intn(40))
		default: // none, or default bursts
			if r.Bool() {
				c.rp = int64(30000000 + r.Intn(100))
			}
			if r.Bool() {
				c.trp = int64(30000000 + r.Intn(100))
			}
		}
		h := c.handler()
		err, cancel := v17Provision(h)
		if err != nil {
			cancel()
			out.Fail("C17:provision:valid-config-rejected", fmt.Sprint(err), c.coq())
			continue
		}
		avail := int64(r.Intn(300))
		if r.Bool() { // short streams: the reads reach the end, where the inner connection reports its error
			avail = int64(r.Intn(40))
		}
		chunk := 0
		if r.Intn(3) == 0 {
			chunk = 1 + r.Intn(30)
		}
		// bytes the layer4 connection holds already when throttle runs (prefetched for matching), part
		// of which an earlier handler may have consumed
		var prefix []byte
		consumed := 0
		if r.Intn(2) == 0 {
			prefix = make([]byte, 1+r.Intn(60))
			for k := range prefix {
				prefix[k] = v17Byte(byte(i), int64(k))
			}
			if r.Intn(2) == 0 {
				consumed = r.Intn(len(prefix) + 1)
			}
		}
		pre := int64(len(prefix) - consumed)
		inner := &v17Inner{size: avail, chunk: chunk, seed: byte(i), errWith: r.Intn(4), base: int64(len(prefix))}
		var lens []int64
		for k := 1 + r.Intn(12); k > 0; k-- {
			switch r.Intn(5) {
			case 0:
				lens = append(lens, 0)
			case 1:
				lens = append(lens, int64(1+r.Intn(4)))
			case 2:
				lens = append(lens, 4096)
			default:
				lens = append(lens, int64(1+r.Intn(80)))
			}
		}
		input := map[string]any{"cfg": c.coq(), "prefetched_bytes": len(prefix), "of_which_consumed_before_throttle": consumed, "inner_stream_bytes": avail, "inner_max_per_read": chunk, "read_lengths": lens,
			"inner_final_error": []string{"io.EOF after the data", "io.EOF together with the last bytes", "reset together with the last bytes", "reset after the data"}[inner.errWith]}
		var got []byte
		var ns, rerrs, innerIdx []int
		consT, consL := int64(-1), int64(-1)
		packet := r.Intn(3) == 0 // the wrapped connection also is a net.PacketConn
		input["inner_is_packet_conn"] = packet
		cx := layer4.WrapConnection(v17AsConn(inner, packet), prefix, zap.NewNop())
		if len(prefix) > 0 && r.Bool() {
			// a real matcher round over the prefetched bytes first (freeze, read, rewind)
			peek := 1 + r.Intn(len(prefix)+4)
			_, _ = layer4.MatcherSet{v17PeekMatcher{peek}}.Match(cx)
		}
		if consumed > 0 {
			head := make([]byte, consumed)
			if m, err := io.ReadFull(cx, head); m != consumed || err != nil || !bytes.Equal(head, prefix[:consumed]) {
				out.Fail("C17:harness:prefix-read", fmt.Sprintf("reading %d prefetched bytes before the handler: n=%d err=%v", consumed, m, err), input)
				cancel()
				continue
			}
		}
		herr := h.Handle(cx, layer4.HandlerFunc(func(cx *layer4.Connection) error {
			for _, l := range lens {
				p := make([]byte, l)
				inner.mu.Lock()
				before := len(inner.asked)
				inner.mu.Unlock()
				m, rerr := cx.Read(p)
				inner.mu.Lock()
				if len(inner.asked) > before {
					innerIdx = append(innerIdx, before)
				} else {
					innerIdx = append(innerIdx, -1)
				}
				inner.mu.Unlock()
				ns = append(ns, m)
				rerrs = append(rerrs, v17ErrCode(rerr))
				got = append(got, p[:m]...)
			}
			if ledger {
				tc, ok := cx.Conn.(throttledConn)
				if !ok {
					return fmt.Errorf("cx.Conn is %T", cx.Conn)
				}
				consT, consL = 0, 0
				if tc.totalLimiter != nil {
					consT = int64(tc.totalLimiter.Burst()) - int64(math.Round(tc.totalLimiter.Tokens()))
				}
				if tc.localLimiter != nil {
					consL = int64(tc.localLimiter.Burst()) - int64(math.Round(tc.localLimiter.Tokens()))
				}
			}
			return nil
		}))
		cancel()
		if herr != nil {
			out.Fail("C17:handle:error", fmt.Sprint(herr), input)
			continue
		}
		// oracle: stream intact (what was prefetched and not yet consumed, then the inner stream),
		// inner read sizes within batch
		want := make([]byte, len(got))
		for k := range want {
			want[k] = v17Byte(inner.seed, int64(consumed+k))
		}
		if !bytes.Equal(got, want) || int64(len(got)) != pre-v17BufferLeft(pre, lens)+inner.off {
			out.Fail("C17:stream:bytes-differ", fmt.Sprintf("the connection held %d prefetched bytes, the inner connection handed over %d; the next handler received %d bytes, first difference at %d", pre, inner.off, len(got), v17Diff(got, want)), input)
		}
		var obs, ret []string
		var ierrs []int64
		clipped := false
		withData := false
		for k := range inner.errs {
			ierrs = append(ierrs, int64(inner.errs[k]))
			if inner.errs[k] != 0 && inner.gave[k] > 0 {
				withData = true
			}
		}
		rest := pre // the harness's own account of the buffer
		planOK := true
		for i, l := range lens {
			ret = append(ret, fmt.Sprintf("(%d,%d)", ns[i], rerrs[i]))
			k := innerIdx[i]
			if rest > 0 {
				n := l
				if rest < n {
					n = rest
				}
				rest -= n
				if k >= 0 || int64(ns[i]) != n || rerrs[i] != 0 {
					planOK = false
					out.Fail("C17:stream:prefetched-not-first", fmt.Sprintf("Read %d (len %d) with %d prefetched bytes left: returned (%d, error code %d), reached the inner connection: %v", i, l, rest+n, ns[i], rerrs[i], k >= 0), input)
				}
				continue
			}
			if k < 0 {
				planOK = false
				out.Fail("C17:read:inner-read-count", fmt.Sprintf("Read %d (len %d) did not reach the inner connection although nothing was buffered", i, l), input)
				continue
			}
			if inner.errs[k] != rerrs[i] {
				out.Fail("C17:read:error-not-passed-on", fmt.Sprintf("Read %d: inner Read returned (%d, error code %d), Read returned (%d, error code %d)", i, inner.gave[k], inner.errs[k], ns[i], rerrs[i]), input)
			}
			if ns[i] != inner.gave[k] {
				out.Fail("C17:stream:bytes-differ", fmt.Sprintf("Read %d: inner Read returned %d bytes (error code %d) but Read returned %d", i, inner.gave[k], inner.errs[k], ns[i]), input)
			}
			a := inner.asked[k]
			b := l
			if h.totalLimiter != nil && int64(h.TotalReadBurstSize) < b {
				b = int64(h.TotalReadBurstSize)
			}
			if h.ReadBurstSize > 0 && int64(h.ReadBurstSize) < b {
				b = int64(h.ReadBurstSize)
			}
			if b < l {
				clipped = true
			}
			if int64(a) > b {
				out.Fail("C17:read:batch-exceeded", fmt.Sprintf("Read(p) with len(p)=%d: inner Read was given %d bytes of room, batch is %d", l, a, b), input)
			}
		}
		for k, a := range inner.asked {
			obs = append(obs, fmt.Sprintf("(%d,%d)", a, inner.gave[k]))
		}
		if !planOK {
			continue
		}
		cls := "read-sizes"
		if ledger {
			cls = "read-ledger"
			// the property's accounting: each limiter present is charged exactly the batch of every Read
			var sum int64
			for _, a := range inner.asked {
				sum += int64(a)
			}
			if (h.totalLimiter != nil && consT != sum) || (h.ReadBurstSize > 0 && consL != sum) {
				out.Fail("C17:read:tokens-not-charged", fmt.Sprintf("batches sum to %d; total limiter charged %d, per-connection limiter charged %d", sum, consT, consL), input)
			}
		}
		if withData {
			cls += "+error-with-data"
		}
		if pre > 0 {
			cls += "+prefetched"
		}
		if packet {
			cls += "+packetconn"
		}
		out.Case(fmt.Sprintf("CRead %s %s %s %s %s %s [%s] [%s] %s %s", c.coq(), cZ(pre), cZ(avail), cZ(int64(chunk2(chunk))), cZList(lens), cZList(ierrs), strings.Join(obs, ";"), strings.Join(ret, ";"), cZ(consT), cZ(consL)),
			cls, clipped || ledger || withData || pre > 0, map[string]any{"cfg": c.coq(), "prefetched_left": pre, "lens": lens, "inner_errs": ierrs, "obs": obs, "ret": ret, "final_error_mode": inner.errWith, "consumed_total": consT, "consumed_local": consL})
	}
}

// a matcher that looks at the first n bytes (more than are prefetched: it asks for more and fails)
type v17PeekMatcher struct{ n int }

func (m v17PeekMatcher) Match(cx *layer4.Connection) (bool, error) {
	_, err := io.ReadFull(cx, make([]byte, m.n))
	return err == nil, err
}

// prefetched bytes still buffered after Reads of the given lengths (buffered bytes are served first)
func v17BufferLeft(pre int64, lens []int64) int64 {
	for _, l := range lens {
		if pre <= 0 {
			break
		}
		if l < pre {
			pre -= l
		} else {
			pre = 0
		}
	}
	return pre
}

func chunk2(c int) int {
	if c == 0 {
		return math.MaxInt32
	}
	return c
}

func v17Diff(a, b []byte) int {
	for i := 0; i < len(a) && i < len(b); i++ {
		if a[i] != b[i] {
			return i
		}
	}
	if len(a) < len(b) {
		return len(a)
	}
	return len(b)
}

// ---------------------------------------------------------------- (c) real time

type v17Timed struct {
	rate, trate   float64
	burst, tburst int
	lat           time.Duration
	conns         int
	bufLen        int
	dur           time.Duration
}

func (c v17Timed) String() string {
	return fmt.Sprintf("rate=%g burst=%d total_rate=%g total_burst=%d latency=%s conns=%d buf=%d", c.rate, c.burst, c.trate, c.tburst, c.lat, c.conns, c.bufLen)
}

const v17Slack = 20 * time.Millisecond

// one-sided check of the property's bound at every sample: cum <= burst + rate*(T - t0 + slack) + batch
func v17CheckBound(samples []v17Sample, t0 time.Time, rt float64, burst int, batch int) (bool, string) {
	for _, s := range samples {
		el := s.at.Sub(t0) + v17Slack
		lim := float64(burst) + rt*el.Seconds() + float64(batch)
		if float64(s.cum) > lim {
			return false, fmt.Sprintf("%d bytes pulled %s after the first read; burst + rate*T (+%s, +%d) = %.1f", s.cum, s.at.Sub(t0), v17Slack, batch, lim)
		}
	}
	return true, ""
}

type v17Fail struct{ key, detail string }

func v17RunTimed(c v17Timed, seed byte) (fails []v17Fail, pulled int64, elapsed time.Duration) {
	h := &Handler{ReadBytesPerSecond: c.rate, ReadBurstSize: c.burst, TotalReadBytesPerSecond: c.trate, TotalReadBurstSize: c.tburst, Latency: caddy.Duration(c.lat)}
	err, cancel := v17Provision(h)
	defer cancel()
	if err != nil {
		return []v17Fail{{"C17:provision:valid-config-rejected", err.Error()}}, 0, 0
	}
	shared := &v17Shared{}
	var mu sync.Mutex
	var t0Total time.Time
	var wg sync.WaitGroup
	start := time.Now()
	deadline := start.Add(c.dur)
	addFail := func(k, d string) { mu.Lock(); fails = append(fails, v17Fail{k, d}); mu.Unlock() }
	batch := c.bufLen
	if h.totalLimiter != nil && h.TotalReadBurstSize < batch {
		batch = h.TotalReadBurstSize
	}
	if h.ReadBurstSize > 0 && h.ReadBurstSize < batch {
		batch = h.ReadBurstSize
	}
	for k := 0; k < c.conns; k++ {
		wg.Add(1)
		go func(k int) {
			defer wg.Done()
			inner := &v17Inner{size: 1 << 40, seed: seed + byte(k), shared: shared}
			cx := layer4.WrapConnection(v17AsConn(inner, (k+int(seed))%3 == 0), nil, zap.NewNop())
			var t0 time.Time
			var got int64
			entered := time.Now()
			herr := h.Handle(cx, layer4.HandlerFunc(func(cx *layer4.Connection) error {
				p := make([]byte, c.bufLen)
				for time.Now().Before(deadline) {
					before := time.Now()
					if t0.IsZero() {
						t0 = before
						mu.Lock()
						if t0Total.IsZero() || before.Before(t0Total) {
							t0Total = before
						}
						mu.Unlock()
					}
					m, err := cx.Read(p)
					for i := 0; i < m; i++ {
						if p[i] != v17Byte(inner.seed, got+int64(i)) {
							addFail("C17:stream:bytes-differ", fmt.Sprintf("connection %d: byte %d differs", k, got+int64(i)))
							return nil
						}
					}
					got += int64(m)
					if err != nil {
						addFail("C17:read:error", fmt.Sprintf("connection %d: %v", k, err))
						return nil
					}
				}
				return nil
			}))
			if herr != nil {
				addFail("C17:handle:error", herr.Error())
			}
			inner.mu.Lock()
			defer inner.mu.Unlock()
			if got != inner.off {
				addFail("C17:stream:bytes-differ", fmt.Sprintf("connection %d: delivered %d bytes, inner handed over %d", k, got, inner.off))
			}
			if !inner.first.IsZero() && inner.first.Sub(entered) < c.lat {
				addFail("C17:latency:read-before-latency", fmt.Sprintf("connection %d: first inner Read %s after Handle was entered, latency is %s", k, inner.first.Sub(entered), c.lat))
			}
			for _, a := range inner.asked {
				if a > batch {
					addFail("C17:read:batch-exceeded", fmt.Sprintf("connection %d: inner Read was given %d bytes of room, batch is %d", k, a, batch))
					break
				}
			}
			if h.ReadBytesPerSecond > 0 || h.ReadBurstSize > 0 {
				if ok, d := v17CheckBound(inner.samples, t0, h.ReadBytesPerSecond, h.ReadBurstSize, batch); !ok {
					addFail("C17:bound:per-connection-exceeded", fmt.Sprintf("connection %d: %s", k, d))
				}
			}
		}(k)
	}
	wg.Wait()
	elapsed = time.Since(start)
	shared.mu.Lock()
	defer shared.mu.Unlock()
	pulled = shared.cum
	if h.totalLimiter != nil {
		if ok, d := v17CheckBound(shared.samples, t0Total, h.TotalReadBytesPerSecond, h.TotalReadBurstSize, batch*c.conns); !ok {
			fails = append(fails, v17Fail{"C17:bound:total-exceeded", d})
		}
	}
	return
}

func v17TimedCases(out *vOut, r *vRng, n int) {
	var cases []v17Timed
	dur := 3 * time.Second
	if vThorough() {
		dur = 6 * time.Second
	}
	for i := 0; i < n; i++ {
		c := v17Timed{conns: 1 + r.Intn(8), dur: dur}
		c.bufLen = []int{1, 64, 1500, 4096, 32768, 65536}[r.Intn(6)]
		rt := func() float64 { return float64(1000 + r.Intn(199000)) }
		bs := func() int { return 1024 << uint(r.Intn(7)) }
		switch i % 4 {
		case 0: // both limits
			c.rate, c.burst, c.trate, c.tburst = rt(), bs(), rt(), bs()
		case 1: // per connection only, default burst
			c.rate = rt()
		case 2: // total only
			c.trate, c.tburst = rt(), bs()
		default:
			c.rate, c.burst, c.trate = rt(), bs(), rt()
		}
		if c.bufLen == 1 { // byte-at-a-time readers: keep the number of reads bounded
			if c.rate > 20000 || c.rate == 0 {
				c.rate = float64(1000 + r.Intn(19000))
			}
		}
		c.lat = time.Duration(r.Intn(5)) * 50 * time.Millisecond
		cases = append(cases, c)
	}
	type res struct {
		fails   []v17Fail
		pulled  int64
		elapsed time.Duration
	}
	results := make([]res, len(cases))
	var wg sync.WaitGroup
	for i, c := range cases {
		wg.Add(1)
		go func(i int, c v17Timed) {
			defer wg.Done()
			f, p, e := v17RunTimed(c, byte(i))
			if len(f) > 0 { // timing-sensitive: report only what happens twice
				f2, _, _ := v17RunTimed(c, byte(i))
				keys := map[string]bool{}
				for _, x := range f2 {
					keys[x.key] = true
				}
				var keep []v17Fail
				for _, x := range f {
					if keys[x.key] {
						keep = append(keep, x)
					}
				}
				f = keep
			}
			results[i] = res{f, p, e}
		}(i, c)
	}
	wg.Wait()
	var total int64
	for i, c := range cases {
		for _, f := range results[i].fails {
			out.Fail(f.key, f.detail, c.String())
		}
		total += results[i].pulled
		out.Case("", "timed", results[i].pulled > 0, map[string]any{"cfg": c.String(), "pulled": results[i].pulled, "secs": results[i].elapsed.Seconds()})
	}
	out.Stat("timed_cases", len(cases))
	out.Stat("timed_bytes_pulled", total)
}

// A connection whose context is cancelled during the latency wait, then at least the latency
// passes, then several new connections: each of them must still wait the whole latency before its
// first read (state left behind by the cancelled wait - a timer, a channel - must not leak into
// later connections). Run on one P with the collector off so that recycled objects, if any, are
// met again; one retry before reporting.
func v17LatencyAfterCancel(out *vOut) {
	lat := 60 * time.Millisecond
	once := func() (fails []string, conns int) {
		h := &Handler{Latency: caddy.Duration(lat), ReadBytesPerSecond: 1e6, ReadBurstSize: 4096}
		err, cancel := v17Provision(h)
		defer cancel()
		if err != nil {
			return []string{"provision: " + err.Error()}, 0
		}
		prev := runtime.GOMAXPROCS(1)
		defer runtime.GOMAXPROCS(prev)
		gc := debug.SetGCPercent(-1)
		defer debug.SetGCPercent(gc)
		readOne := layer4.HandlerFunc(func(cx *layer4.Connection) error {
			p := make([]byte, 16)
			_, err := cx.Read(p)
			return err
		})
		for round := 0; round < 3; round++ {
			inner := &v17Inner{size: 1000}
			cx := layer4.WrapConnection(inner, nil, zap.NewNop())
			ctx, cancelConn := context.WithCancel(cx.Context)
			cx.Context = ctx
			timer := time.AfterFunc(lat/4, cancelConn)
			herr := h.Handle(cx, readOne)
			timer.Stop()
			cancelConn()
			inner.mu.Lock()
			readHappened := !inner.first.IsZero()
			inner.mu.Unlock()
			if readHappened {
				fails = append(fails, fmt.Sprintf("round %d: the connection cancelled %s into its %s latency wait was read from (Handle returned %v)", round, lat/4, lat, herr))
			}
			time.Sleep(lat + 30*time.Millisecond)
			for k := 0; k < 4; k++ {
				in2 := &v17Inner{size: 1000}
				cx2 := layer4.WrapConnection(in2, nil, zap.NewNop())
				entered := time.Now()
				if herr := h.Handle(cx2, readOne); herr != nil {
					fails = append(fails, fmt.Sprintf("round %d connection %d: %v", round, k, herr))
				}
				conns++
				in2.mu.Lock()
				first := in2.first
				in2.mu.Unlock()
				if !first.IsZero() && first.Sub(entered) < lat {
					fails = append(fails, fmt.Sprintf("round %d: connection %d after a connection that was cancelled during its latency wait (and a pause of %s): first inner Read %s after Handle was entered, latency is %s", round, k, lat+30*time.Millisecond, first.Sub(entered), lat))
				}
			}
		}
		return
	}
	fails, conns := once()
	if len(fails) > 0 {
		if f2, _ := once(); len(f2) == 0 {
			fails = nil
		}
	}
	for _, f := range fails {
		out.Fail("C17:latency:read-before-latency", f, "latency=60ms; sequence: connection cancelled 15ms into the latency wait, pause 90ms, four new connections; three rounds; GOMAXPROCS(1), GC off")
	}
	out.Case("", "timed:latency-after-cancel", conns > 0, map[string]any{"connections": conns, "failures": len(fails)})
}

// The latency wait does not depend on which limits are configured: latency alone, with a total
// limit only, with bursts only, with every limit. One connection each, one small Read.
func v17LatencyConfigs(out *vOut) {
	lat := 80 * time.Millisecond
	cfgs := []struct {
		name string
		h    Handler
	}{
		{"latency only", Handler{}},
		{"latency + total rate", Handler{TotalReadBytesPerSecond: 50000}},
		{"latency + total burst only", Handler{TotalReadBurstSize: 4096}},
		{"latency + burst only", Handler{ReadBurstSize: 4096}},
		{"latency + rate", Handler{ReadBytesPerSecond: 50000}},
		{"latency + every limit", Handler{ReadBytesPerSecond: 50000, ReadBurstSize: 2048, TotalReadBytesPerSecond: 80000, TotalReadBurstSize: 4096}},
	}
	type res struct {
		early time.Duration
		err   string
		read  bool
	}
	once := func(i int) res {
		h := cfgs[i].h
		h.Latency = caddy.Duration(lat)
		err, cancel := v17Provision(&h)
		defer cancel()
		if err != nil {
			return res{err: "provision: " + err.Error()}
		}
		inner := &v17Inner{size: 1000}
		cx := layer4.WrapConnection(inner, nil, zap.NewNop())
		entered := time.Now()
		herr := h.Handle(cx, layer4.HandlerFunc(func(cx *layer4.Connection) error {
			_, err := cx.Read(make([]byte, 16))
			return err
		}))
		if herr != nil {
			return res{err: herr.Error()}
		}
		inner.mu.Lock()
		defer inner.mu.Unlock()
		if inner.first.IsZero() {
			return res{}
		}
		return res{early: lat - inner.first.Sub(entered), read: true}
	}
	results := make([]res, len(cfgs))
	var wg sync.WaitGroup
	for i := range cfgs {
		wg.Add(1)
		go func(i int) {
			defer wg.Done()
			results[i] = once(i)
			if results[i].early > 0 || results[i].err != "" {
				if r2 := once(i); r2.early <= 0 && r2.err == "" {
					results[i] = r2
				}
			}
		}(i)
	}
	wg.Wait()
	for i, c := range cfgs {
		in := fmt.Sprintf("%s: latency=%s read_bytes_per_second=%g read_burst_size=%d total_read_bytes_per_second=%g total_read_burst_size=%d; one connection, one Read of 16 bytes",
			c.name, lat, c.h.ReadBytesPerSecond, c.h.ReadBurstSize, c.h.TotalReadBytesPerSecond, c.h.TotalReadBurstSize)
		switch {
		case results[i].err != "":
			out.Fail("C17:handle:error", results[i].err, in)
		case results[i].early > 0:
			out.Fail("C17:latency:read-before-latency", fmt.Sprintf("%s: first inner Read %s after Handle was entered, latency is %s", c.name, lat-results[i].early, lat), in)
		}
		out.Case("", "timed:latency-config", results[i].read, map[string]any{"cfg": in})
	}
}

// High contention on the handler-wide bucket: a total burst of exactly one batch, a refill rate
// that is negligible within a round, and N connections of one handler released together, each
// doing one Read of batch size against an inner connection with data ready. The bucket is a shared
// object and its reservations are atomic: whatever the interleaving, the bytes pulled by all
// connections within the round stay within total_burst + total_rate * elapsed. The Reads that have
// to wait (a second per batch) are cancelled through the connection context when the round ends.
func v17SharedBucketRace(out *vOut) {
	const (
		batch  = 1000
		trate  = 1000.0
		conns  = 12
		rounds = 300
	)
	if prev := runtime.GOMAXPROCS(0); prev < 4 {
		runtime.GOMAXPROCS(4)
		defer runtime.GOMAXPROCS(prev)
	}
	run := func() (worst string, bad, roundsRun int, pulledMax int64) {
		for round := 0; round < rounds; round++ {
			h := &Handler{TotalReadBytesPerSecond: trate, TotalReadBurstSize: batch}
			err, cancelProv := v17Provision(h)
			if err != nil {
				cancelProv()
				return "provision: " + err.Error(), 1, round, 0
			}
			ctx, cancelConns := context.WithCancel(context.Background())
			var release int32
			var ready, done sync.WaitGroup
			inners := make([]*v17Inner, conns)
			for k := 0; k < conns; k++ {
				inners[k] = &v17Inner{size: batch, seed: byte(k)}
				cx := layer4.WrapConnection(inners[k], nil, zap.NewNop())
				cctx, ccancel := context.WithCancel(cx.Context)
				go func() { <-ctx.Done(); ccancel() }()
				cx.Context = cctx
				ready.Add(1)
				done.Add(1)
				go func() {
					defer done.Done()
					_ = h.Handle(cx, layer4.HandlerFunc(func(cx *layer4.Connection) error {
						p := make([]byte, batch)
						ready.Done()
						for atomic.LoadInt32(&release) == 0 {
							runtime.Gosched()
						}
						_, _ = cx.Read(p)
						return nil
					}))
				}()
			}
			ready.Wait()
			t0 := time.Now()
			atomic.StoreInt32(&release, 1)
			time.Sleep(time.Millisecond)
			cancelConns()
			done.Wait()
			elapsed := time.Since(t0)
			cancelProv()
			var pulled int64
			for _, in := range inners {
				in.mu.Lock()
				pulled += in.off
				in.mu.Unlock()
			}
			roundsRun++
			if pulled > pulledMax {
				pulledMax = pulled
			}
			if lim := float64(batch) + trate*(elapsed+v17Slack).Seconds(); float64(pulled) > lim {
				bad++
				if worst == "" || pulled == pulledMax {
					worst = fmt.Sprintf("round %d: %d connections released together, each one Read of %d bytes: %d bytes pulled in total within %s; total_burst + total_rate*(T+%s) = %.1f", round, conns, batch, pulled, elapsed, v17Slack, lim)
				}
			}
		}
		return
	}
	worst, bad, n, pmax := run()
	if bad > 0 { // timing-sensitive: report only what happens twice
		if w2, bad2, _, _ := run(); bad2 == 0 {
			bad = 0
		} else if worst == "" {
			worst = w2
		}
	}
	in := fmt.Sprintf("total_read_bytes_per_second=%g total_read_burst_size=%d; %d rounds of %d connections of one handler released together (GOMAXPROCS=%d), one Read(p) with len(p)=%d each; waiting Reads cancelled after 1 ms", trate, batch, rounds, conns, runtime.GOMAXPROCS(0), batch)
	if bad > 0 {
		out.Fail("C17:bound:total-exceeded", fmt.Sprintf("%d of %d rounds over the bound; %s", bad, n, worst), in)
	}
	out.Case("", "timed:shared-bucket-race", pmax > 0, map[string]any{"cfg": in, "rounds": n, "max_pulled_in_a_round": pmax, "rounds_over_bound": bad})
	out.Stat("shared_bucket_rounds", n)
}

// ---------------------------------------------------------------- chains of throttle handlers

// handlers run in the given order: the first wraps the socket, the last wraps outermost
func v17ChainHandle(hs []*Handler, cx *layer4.Connection, next layer4.Handler) error {
	h := next
	for i := len(hs) - 1; i >= 0; i-- {
		hi, inner := hs[i], h
		h = layer4.HandlerFunc(func(cx *layer4.Connection) error { return hi.Handle(cx, inner) })
	}
	return h.Handle(cx)
}

func v17ChainBatch(hs []*Handler, l int64) int64 {
	for _, h := range hs {
		if h.totalLimiter != nil && int64(h.TotalReadBurstSize) < l {
			l = int64(h.TotalReadBurstSize)
		}
		if h.ReadBurstSize > 0 && int64(h.ReadBurstSize) < l {
			l = int64(h.ReadBurstSize)
		}
	}
	return l
}

// clock-free: what the socket is asked for through 2..3 handlers (rates high enough that waits are microseconds)
func v17ChainReadCases(out *vOut, r *vRng, n int) {
	for i := 0; i < n; i++ {
		k := 2 + r.Intn(2)
		var cfgs []v17Cfg
		var hs []*Handler
		var cancels []context.CancelFunc
		bad := false
		for j := 0; j < k; j++ {
			c := v17Cfg{rq: 1, trq: 1}
			switch r.Intn(4) {
			case 0:
				c.rp, c.rburst = int64(20000000+r.Intn(1000000)), int64(1+r.Intn(60))
			case 1:
				c.trp, c.tburst = int64(20000000+r.Intn(1000000)), int64(1+r.Intn(60))
			case 2:
				c.rp, c.rburst = int64(20000000+r.Intn(1000000)), int64(1+r.Intn(60))
				c.trp, c.tburst = int64(20000000+r.Intn(1000000)), int64(1+r.Intn(60))
			default: // no limit at all, or a rate with its default burst
				if r.Bool() {
					c.rp = int64(30000000 + r.Intn(100))
				}
			}
			h := c.handler()
			err, cancel := v17Provision(h)
			cancels = append(cancels, cancel)
			if err != nil {
				out.Fail("C17:provision:valid-config-rejected", fmt.Sprint(err), c.coq())
				bad = true
			}
			cfgs, hs = append(cfgs, c), append(hs, h)
		}
		if bad {
			for _, c := range cancels {
				c()
			}
			continue
		}
		avail := int64(r.Intn(400))
		chunk := 0
		if r.Intn(3) == 0 {
			chunk = 1 + r.Intn(30)
		}
		inner := &v17Inner{size: avail, chunk: chunk, seed: byte(i)}
		var lens []int64
		for m := 1 + r.Intn(10); m > 0; m-- {
			switch r.Intn(4) {
			case 0:
				lens = append(lens, 4096)
			case 1:
				lens = append(lens, int64(r.Intn(3)))
			default:
				lens = append(lens, int64(1+r.Intn(100)))
			}
		}
		names := make([]string, len(cfgs))
		for j, c := range cfgs {
			names[j] = c.coq()
		}
		input := map[string]any{"chain": names, "socket_stream_bytes": avail, "socket_max_per_read": chunk, "read_lengths": lens}
		var got []byte
		cx := layer4.WrapConnection(inner, nil, zap.NewNop())
		herr := v17ChainHandle(hs, cx, layer4.HandlerFunc(func(cx *layer4.Connection) error {
			for _, l := range lens {
				p := make([]byte, l)
				m, _ := cx.Read(p)
				got = append(got, p[:m]...)
			}
			return nil
		}))
		for _, c := range cancels {
			c()
		}
		if herr != nil {
			out.Fail("C17:handle:error", fmt.Sprint(herr), input)
			continue
		}
		want := make([]byte, len(got))
		for m := range want {
			want[m] = v17Byte(inner.seed, int64(m))
		}
		if !bytes.Equal(got, want) || int64(len(got)) != inner.off {
			out.Fail("C17:stream:bytes-differ", fmt.Sprintf("chain of %d throttle handlers: the socket handed over %d bytes, the next handler received %d, first difference at %d", k, inner.off, len(got), v17Diff(got, want)), input)
		}
		if len(inner.asked) != len(lens) {
			out.Fail("C17:read:inner-read-count", fmt.Sprintf("%d Reads, %d socket Reads", len(lens), len(inner.asked)), input)
			continue
		}
		var obs []string
		clipped := false
		for m, a := range inner.asked {
			b := v17ChainBatch(hs, lens[m])
			if b < lens[m] {
				clipped = true
			}
			if int64(a) > b {
				out.Fail("C17:read:batch-exceeded", fmt.Sprintf("chain of %d throttle handlers, Read(p) with len(p)=%d: the socket's Read was given %d bytes of room, the smallest burst allows %d", k, lens[m], a, b), input)
			}
			obs = append(obs, fmt.Sprintf("(%d,%d)", a, inner.gave[m]))
		}
		out.Case(fmt.Sprintf("CChain [%s] %s %s %s [%s]", strings.Join(names, "; "), cZ(avail), cZ(int64(chunk2(chunk))), cZList(lens), strings.Join(obs, ";")),
			fmt.Sprintf("chain-sizes:%d", k), clipped, map[string]any{"chain": names, "lens": lens, "obs": obs})
	}
}

// real time: every handler of the chain must see its own bound respected
type v17ChainCase struct {
	hs     []v17Timed // rate, burst, trate, tburst, lat per handler (conns, bufLen, dur from the first)
	conns  int
	bufLen int
	dur    time.Duration
}

func (c v17ChainCase) String() string {
	var ss []string
	for i, h := range c.hs {
		ss = append(ss, fmt.Sprintf("handler %d: rate=%g burst=%d total_rate=%g total_burst=%d latency=%s", i, h.rate, h.burst, h.trate, h.tburst, h.lat))
	}
	return fmt.Sprintf("chain [%s] conns=%d buf=%d", strings.Join(ss, " | "), c.conns, c.bufLen)
}

func v17RunChain(c v17ChainCase, seed byte) (fails []v17Fail, pulled int64) {
	var hs []*Handler
	var latSum time.Duration
	for _, hc := range c.hs {
		h := &Handler{ReadBytesPerSecond: hc.rate, ReadBurstSize: hc.burst, TotalReadBytesPerSecond: hc.trate, TotalReadBurstSize: hc.tburst, Latency: caddy.Duration(hc.lat)}
		err, cancel := v17Provision(h)
		defer cancel()
		if err != nil {
			return []v17Fail{{"C17:provision:valid-config-rejected", err.Error()}}, 0
		}
		hs = append(hs, h)
		latSum += hc.lat
	}
	batch := int(v17ChainBatch(hs, int64(c.bufLen)))
	shared := &v17Shared{}
	var mu sync.Mutex
	var t0Total time.Time
	var wg sync.WaitGroup
	deadline := time.Now().Add(c.dur)
	addFail := func(k, d string) { mu.Lock(); fails = append(fails, v17Fail{k, d}); mu.Unlock() }
	for k := 0; k < c.conns; k++ {
		wg.Add(1)
		go func(k int) {
			defer wg.Done()
			inner := &v17Inner{size: 1 << 40, seed: seed + byte(k), shared: shared}
			cx := layer4.WrapConnection(inner, nil, zap.NewNop())
			var t0 time.Time
			var got int64
			entered := time.Now()
			herr := v17ChainHandle(hs, cx, layer4.HandlerFunc(func(cx *layer4.Connection) error {
				p := make([]byte, c.bufLen)
				for time.Now().Before(deadline) {
					before := time.Now()
					if t0.IsZero() {
						t0 = before
						mu.Lock()
						if t0Total.IsZero() || before.Before(t0Total) {
							t0Total = before
						}
						mu.Unlock()
					}
					m, err := cx.Read(p)
					for i := 0; i < m; i++ {
						if p[i] != v17Byte(inner.seed, got+int64(i)) {
							addFail("C17:stream:bytes-differ", fmt.Sprintf("connection %d: byte %d differs", k, got+int64(i)))
							return nil
						}
					}
					got += int64(m)
					if err != nil {
						addFail("C17:read:error", fmt.Sprintf("connection %d: %v", k, err))
						return nil
					}
				}
				return nil
			}))
			if herr != nil {
				addFail("C17:handle:error", herr.Error())
			}
			inner.mu.Lock()
			defer inner.mu.Unlock()
			if got != inner.off {
				addFail("C17:stream:bytes-differ", fmt.Sprintf("connection %d: delivered %d bytes, the socket handed over %d", k, got, inner.off))
			}
			if !inner.first.IsZero() && inner.first.Sub(entered) < latSum {
				addFail("C17:latency:read-before-latency", fmt.Sprintf("connection %d: first socket Read %s after the chain was entered; the handlers' latencies add up to %s", k, inner.first.Sub(entered), latSum))
			}
			for _, a := range inner.asked {
				if a > batch {
					addFail("C17:read:batch-exceeded", fmt.Sprintf("connection %d: the socket's Read was given %d bytes of room, the smallest burst of the chain allows %d", k, a, batch))
					break
				}
			}
			for i, h := range hs {
				if h.ReadBytesPerSecond > 0 || h.ReadBurstSize > 0 {
					if ok, d := v17CheckBound(inner.samples, t0, h.ReadBytesPerSecond, h.ReadBurstSize, batch); !ok {
						addFail("C17:bound:per-connection-exceeded", fmt.Sprintf("handler %d of the chain, connection %d: %s", i, k, d))
					}
				}
			}
		}(k)
	}
	wg.Wait()
	shared.mu.Lock()
	defer shared.mu.Unlock()
	pulled = shared.cum
	for i, h := range hs {
		if h.totalLimiter != nil {
			if ok, d := v17CheckBound(shared.samples, t0Total, h.TotalReadBytesPerSecond, h.TotalReadBurstSize, batch*c.conns); !ok {
				fails = append(fails, v17Fail{"C17:bound:total-exceeded", fmt.Sprintf("handler %d of the chain: %s", i, d)})
			}
		}
	}
	return
}

func v17ChainTimedGen(r *vRng, n int) []v17ChainCase {
	dur := 2500 * time.Millisecond
	if vThorough() {
		dur = 5 * time.Second
	}
	var cases []v17ChainCase
	for i := 0; i < n; i++ {
		c := v17ChainCase{conns: 1 + r.Intn(3), dur: dur, bufLen: []int{64, 1500, 4096, 32768}[r.Intn(4)]}
		k := 2 + r.Intn(2)
		strict := r.Intn(k) // which handler is the strict one
		for j := 0; j < k; j++ {
			h := v17Timed{}
			lax := float64(100000 + r.Intn(200000))
			switch {
			case j == strict:
				h.rate, h.burst = float64(1000+r.Intn(20000)), 256<<uint(r.Intn(5))
			case r.Intn(3) == 0: // no per-connection limit here
			default:
				h.rate = lax // default burst
			}
			// total limits: none on any handler in a third of the chains (i%3 == 0), else on some
			if i%3 != 0 && r.Intn(2) == 0 {
				h.trate, h.tburst = float64(20000+r.Intn(100000)), 1024<<uint(r.Intn(5))
			}
			if r.Intn(2) == 0 {
				h.lat = time.Duration(1+r.Intn(3)) * 50 * time.Millisecond
			}
			c.hs = append(c.hs, h)
		}
		cases = append(cases, c)
	}
	return cases
}

func v17ChainTimed(out *vOut, cases []v17ChainCase) {
	type res struct {
		fails  []v17Fail
		pulled int64
	}
	results := make([]res, len(cases))
	var wg sync.WaitGroup
	for i, c := range cases {
		wg.Add(1)
		go func(i int, c v17ChainCase) {
			defer wg.Done()
			f, p := v17RunChain(c, byte(i))
			if len(f) > 0 { // timing-sensitive: report only what happens twice
				f2, _ := v17RunChain(c, byte(i))
				keys := map[string]bool{}
				for _, x := range f2 {
					keys[x.key] = true
				}
				var keep []v17Fail
				for _, x := range f {
					if keys[x.key] {
						keep = append(keep, x)
					}
				}
				f = keep
			}
			results[i] = res{f, p}
		}(i, c)
	}
	wg.Wait()
	for i, c := range cases {
		for _, f := range results[i].fails {
			out.Fail(f.key, f.detail, c.String())
		}
		out.Case("", fmt.Sprintf("timed:chain-%d", len(c.hs)), results[i].pulled > 0, map[string]any{"cfg": c.String(), "pulled": results[i].pulled})
	}
}

func TestVerifC17(t *testing.T) {
	out := vOpen()
	defer out.Close()
	r := vNewRng(vSeed())
	n := vN(2000)
	v17Reserve(out, r, n)
	v17ReserveApprox(out, r, n/4)
	v17ProvisionCases(out, r, n/5)
	v17ReadCases(out, r, n/5)
	v17ChainReadCases(out, r, n/10)
	nt := 16
	if vThorough() {
		nt = 48
	}
	v17SharedBucketRace(out)
	v17LatencyConfigs(out)
	v17LatencyAfterCancel(out)
	nc := 8
	if vThorough() {
		nc = 24
	}
	chains := v17ChainTimedGen(r, nc)
	chainsDone := make(chan struct{})
	go func() { defer close(chainsDone); v17ChainTimed(out, chains) }()
	v17TimedCases(out, r, nt)
	<-chainsDone
}
