package layer4

// C02 engine (also serves the untimed part of C05): differential test of RouteList.Compile.
//
// White-box (package layer4): RouteList values are built directly from scripted matchers and
// handlers (Route.matcherSets / Route.middleware), the compiled handler is run by the real
// Server.handle over a scripted net.Conn whose Read pops one script item per call (chunk /
// timeout / error, EOF at the end) and which records SetReadDeadline calls.  Recorded: the ordered
// trace of deadline arm/clear, route runs (nesting depth, route index, bytes available), bytes
// obtained by consuming handlers, fallback calls, drops (reason taken from the logged error),
// handler errors, matcher panics; and how often the connection was closed.
//
// For every configuration the property text is evaluated directly on that trace (v2Oracle); a
// slice of the configurations is emitted as Coq terms for the in-Coq comparison with
// model/Router.v (corr/C02Corr.v).

import (
	"bytes"
	"crypto/tls"
	"errors"
	"fmt"
	"io"
	"net"
	"os"
	"strings"
	"sync"
	"testing"
	"time"

	"go.uber.org/zap"
	"go.uber.org/zap/zapcore"
)

// ---------------------------------------------------------------- specs

const (
	v2Yes = iota
	v2No
	v2More
	v2Fail
	v2Panic
)

var v2VerdictName = []string{"Yes", "No", "More", "Fail", "Panic"}

type v2M struct {
	kind int // 0 thr k v; 1 at k c y n; 2 not sets
	k    int
	c    byte
	v    int
	y, n int
	sets [][]v2M
}

type v2H struct {
	kind int // 0 term; 1 cons k; 2 fail; 3 wrap; 4 sub
	k    int
	sub  []v2R
}

type v2R struct {
	mss [][]v2M
	hs  []v2H
}

type v2Item struct {
	kind int // 0 chunk; 1 timeout; 2 neterr
	data []byte
}

func (m v2M) coq() string {
	switch m.kind {
	case 0:
		return fmt.Sprintf("T %d %s", m.k, v2VerdictName[m.v])
	case 1:
		return fmt.Sprintf("A %d %d %s %s", m.k, m.c, v2VerdictName[m.y], v2VerdictName[m.n])
	default:
		return "Nt " + v2SetsCoq(m.sets)
	}
}

func v2SetsCoq(sets [][]v2M) string {
	ss := make([]string, len(sets))
	for i, s := range sets {
		ms := make([]string, len(s))
		for j, m := range s {
			ms[j] = m.coq()
		}
		ss[i] = "[" + strings.Join(ms, "; ") + "]"
	}
	return "[" + strings.Join(ss, "; ") + "]"
}

func (h v2H) coq() string {
	switch h.kind {
	case 0:
		return "HTerm"
	case 1:
		return fmt.Sprintf("hC %d", h.k)
	case 2:
		return "HFail"
	case 3:
		return "HWrap"
	default:
		return "hS " + v2RoutesCoq(h.sub)
	}
}

func v2RoutesCoq(rs []v2R) string {
	ss := make([]string, len(rs))
	for i, r := range rs {
		hs := make([]string, len(r.hs))
		for j, h := range r.hs {
			hs[j] = h.coq()
		}
		ss[i] = "R " + v2SetsCoq(r.mss) + " [" + strings.Join(hs, "; ") + "]"
	}
	return "[" + strings.Join(ss, "; ") + "]"
}

func v2ScriptCoq(sc []v2Item) string {
	ss := make([]string, len(sc))
	for i, it := range sc {
		switch it.kind {
		case 0:
			ss[i] = "ch " + cHex(it.data)
		case 1:
			ss[i] = "ATimeout"
		default:
			ss[i] = "ANetErr"
		}
	}
	return "[" + strings.Join(ss, "; ") + "]"
}

// ---------------------------------------------------------------- the property text's own evaluation of matchers
// (pure functions of the bytes; written independently of MatcherSet.Match / AnyMatch / MatchNot)

func (m v2M) spec(b []byte) int {
	switch m.kind {
	case 0:
		if len(b) < m.k {
			return v2More
		}
		return m.v
	case 1:
		if len(b) <= m.k {
			return v2More
		}
		if b[m.k] == m.c {
			return m.y
		}
		return m.n
	default:
		for _, s := range m.sets {
			switch v := v2SpecAll(s, b); v {
			case v2Yes:
				return v2No
			case v2No:
			default:
				return v
			}
		}
		return v2Yes
	}
}

// all matchers of one set match (left to right; the first that does not answer Yes decides)
func v2SpecAll(s []v2M, b []byte) int {
	for _, m := range s {
		if v := m.spec(b); v != v2Yes {
			return v
		}
	}
	return v2Yes
}

// one of the sets matches; no set at all matches everything
func v2SpecAny(mss [][]v2M, b []byte) int {
	if len(mss) == 0 {
		return v2Yes
	}
	for _, s := range mss {
		switch v := v2SpecAll(s, b); v {
		case v2No:
		default:
			return v
		}
	}
	return v2No
}

// ---------------------------------------------------------------- run-time objects

type v2Evt struct {
	kind  string // arm clr run rd fb drop herr panic term
	inv   int    // Compile invocation (0 = the server's)
	depth int
	idx   int
	avail int
	why   string
	data  []byte // rd: bytes obtained; run/fb: copy of the bytes available
	armed bool   // deadline state when the event was recorded
	rs    []v2R  // run/fb: the route list of that invocation
}

type v2Level struct {
	depth int
	inv   int
	rs    []v2R
}

type v2Runner struct {
	listener bool     // run in listener-wrapper form: the fallback is the hand-off to the wrapped listener
	tlsVar   bool     // wrapping handlers also record a TLS connection state, as the tls handler does
	handed   net.Conn // what the wrapped listener's Accept side received
	tr      []v2Evt
	conn    *v2Conn
	invs    int
	maxBuf  int
	retErr  bool
	panicked bool
}

var v2ErrScripted = errors.New("scripted matcher error")
var v2ErrHandler = errors.New("scripted handler error")

type v2Addr struct{}

func (v2Addr) Network() string { return "tcp" }
func (v2Addr) String() string  { return "192.0.2.1:1234" }

// scripted net.Conn
type v2Conn struct {
	r         *v2Runner
	script    []v2Item
	armed     bool
	closed    int
	delivered int // bytes handed out by Read so far
}

func (c *v2Conn) Read(p []byte) (int, error) {
	if len(c.script) == 0 {
		return 0, io.EOF
	}
	it := &c.script[0]
	switch it.kind {
	case 0:
		n := copy(p, it.data)
		c.delivered += n
		it.data = it.data[n:]
		if len(it.data) == 0 {
			c.script = c.script[1:]
		}
		return n, nil
	case 1:
		c.script = c.script[1:]
		return 0, os.ErrDeadlineExceeded
	default:
		c.script = c.script[1:]
		return 0, errors.New("scripted network error")
	}
}
func (c *v2Conn) Write(p []byte) (int, error)  { return len(p), nil }
func (c *v2Conn) Close() error                 { c.closed++; return nil }
func (c *v2Conn) LocalAddr() net.Addr          { return v2Addr{} }
func (c *v2Conn) RemoteAddr() net.Addr         { return v2Addr{} }
func (c *v2Conn) SetDeadline(time.Time) error  { return nil }
func (c *v2Conn) SetWriteDeadline(time.Time) error { return nil }
func (c *v2Conn) SetReadDeadline(t time.Time) error {
	c.armed = !t.IsZero()
	if c.armed {
		c.r.tr = append(c.r.tr, v2Evt{kind: "arm", armed: true})
	} else {
		c.r.tr = append(c.r.tr, v2Evt{kind: "clr"})
	}
	return nil
}

// zap core that turns Compile's "matching connection" log lines into drop events
type v2Core struct {
	r   *v2Runner
	lvl *v2Level
}

func (c *v2Core) Enabled(l zapcore.Level) bool         { return l >= zapcore.WarnLevel }
func (c *v2Core) With([]zapcore.Field) zapcore.Core    { return c }
func (c *v2Core) Sync() error                          { return nil }
func (c *v2Core) Check(e zapcore.Entry, ce *zapcore.CheckedEntry) *zapcore.CheckedEntry {
	if c.Enabled(e.Level) {
		return ce.AddCore(e, c)
	}
	return ce
}
func (c *v2Core) Write(e zapcore.Entry, fs []zapcore.Field) error {
	var err error
	for _, f := range fs {
		if f.Type == zapcore.ErrorType {
			err, _ = f.Interface.(error)
		}
	}
	switch e.Message {
	case "matching connection":
		why := "DNetErr"
		switch {
		case errors.Is(err, ErrMatchingTimeout):
			why = "DTimeout"
		case errors.Is(err, ErrMatchingBufferFull):
			why = "DFull"
		case errors.Is(err, v2ErrScripted):
			why = "DMatchErr"
		}
		c.r.tr = append(c.r.tr, v2Evt{kind: "drop", inv: c.lvl.inv, depth: c.lvl.depth, why: why, armed: c.r.conn.armed, avail: c.r.conn.delivered, rs: c.lvl.rs})
	case "handling connection":
		c.r.retErr = true
	}
	return nil
}

func v2Avail(cx *Connection) []byte { return append([]byte(nil), cx.buf[cx.offset:]...) }

// scripted matcher: reads through the connection like real matchers do
type v2Matcher struct {
	r   *v2Runner
	lvl *v2Level
	idx int
	m   v2M
}

func v2Answer(v int) (bool, error) {
	switch v {
	case v2Yes:
		return true, nil
	case v2No:
		return false, nil
	case v2Fail:
		return false, v2ErrScripted
	default:
		panic("scripted matcher panic")
	}
}

func (m *v2Matcher) Match(cx *Connection) (bool, error) {
	need := m.m.k
	if m.m.kind == 1 {
		need++
	}
	buf := make([]byte, need)
	if _, err := io.ReadFull(cx, buf); err != nil {
		return false, err
	}
	v := m.m.v
	if m.m.kind == 1 {
		v = m.m.n
		if buf[m.m.k] == m.m.c {
			v = m.m.y
		}
	}
	if v == v2Panic {
		m.r.tr = append(m.r.tr, v2Evt{kind: "panic", inv: m.lvl.inv, depth: m.lvl.depth, idx: m.idx, armed: m.r.conn.armed})
	}
	return v2Answer(v)
}

func (r *v2Runner) buildMatcher(m v2M, lvl *v2Level, idx int) ConnMatcher {
	if m.kind == 2 {
		not := &MatchNot{}
		for _, s := range m.sets {
			not.MatcherSets = append(not.MatcherSets, r.buildSet(s, lvl, idx))
		}
		return not
	}
	return &v2Matcher{r: r, lvl: lvl, idx: idx, m: m}
}

func (r *v2Runner) buildSet(s []v2M, lvl *v2Level, idx int) MatcherSet {
	var ms MatcherSet
	for _, m := range s {
		ms = append(ms, r.buildMatcher(m, lvl, idx))
	}
	return ms
}

func (r *v2Runner) note(cx *Connection) {
	if len(cx.buf) > r.maxBuf {
		r.maxBuf = len(cx.buf)
	}
}

func (r *v2Runner) buildRoutes(rs []v2R, lvl *v2Level) RouteList {
	var out RouteList
	for i, spec := range rs {
		i, spec := i, spec
		rt := &Route{}
		for _, s := range spec.mss {
			rt.matcherSets = append(rt.matcherSets, r.buildSet(s, lvl, i))
		}
		// recorder: first handler of every route
		rt.middleware = append(rt.middleware, wrapHandler(NextHandlerFunc(func(cx *Connection, next Handler) error {
			r.note(cx)
			b := v2Avail(cx)
			r.tr = append(r.tr, v2Evt{kind: "run", inv: lvl.inv, depth: lvl.depth, idx: i, avail: len(b), data: b, armed: r.conn.armed, rs: lvl.rs})
			return next.Handle(cx)
		})))
		for _, h := range spec.hs {
			h := h
			var nh NextHandler
			switch h.kind {
			case 0:
				nh = NextHandlerFunc(func(cx *Connection, _ Handler) error {
					r.tr = append(r.tr, v2Evt{kind: "term", inv: lvl.inv, depth: lvl.depth, idx: i, armed: r.conn.armed})
					return nil
				})
			case 1:
				nh = NextHandlerFunc(func(cx *Connection, next Handler) error {
					buf := make([]byte, h.k)
					if _, err := io.ReadFull(cx, buf); err != nil {
						r.tr = append(r.tr, v2Evt{kind: "herr", inv: lvl.inv, depth: lvl.depth, idx: i, armed: r.conn.armed})
						return err
					}
					r.tr = append(r.tr, v2Evt{kind: "rd", inv: lvl.inv, depth: lvl.depth, idx: i, data: buf, armed: r.conn.armed})
					return next.Handle(cx)
				})
			case 2:
				nh = NextHandlerFunc(func(cx *Connection, _ Handler) error {
					r.tr = append(r.tr, v2Evt{kind: "herr", inv: lvl.inv, depth: lvl.depth, idx: i, armed: r.conn.armed})
					return v2ErrHandler
				})
			case 3:
				nh = NextHandlerFunc(func(cx *Connection, next Handler) error {
					// as after tls.Server(cx) / proxyprotocol.NewConn(cx): the new Connection reads through the old one
					if r.tlsVar {
						// what l4tls leaves behind after terminating TLS (the listener wrapper looks at it at the hand-off)
						states, _ := cx.GetVar("tls_connection_states").([]*tls.ConnectionState)
						cx.SetVar("tls_connection_states", append(states, &tls.ConnectionState{}))
					}
					return next.Handle(cx.Wrap(cx))
				})
			default:
				sub := &v2Level{depth: lvl.depth + 1, rs: h.sub}
				subRoutes := r.buildRoutes(h.sub, sub)
				logger := zap.New(&v2Core{r: r, lvl: sub})
				// what l4subroute.Handler.Handle does: Compile with the rest of the chain as next
				nh = NextHandlerFunc(func(cx *Connection, next Handler) error {
					r.invs++
					sub.inv = r.invs
					fb := HandlerFunc(func(cx *Connection) error {
						r.note(cx)
						b := v2Avail(cx)
						r.tr = append(r.tr, v2Evt{kind: "fb", inv: sub.inv, depth: sub.depth, avail: len(b), data: b, armed: r.conn.armed, rs: sub.rs})
						return next.Handle(cx)
					})
					return subRoutes.Compile(logger, time.Hour, fb).Handle(cx)
				})
			}
			rt.middleware = append(rt.middleware, wrapHandler(nh))
		}
		out = append(out, rt)
	}
	return out
}

func v2CloneScript(sc []v2Item) []v2Item {
	out := make([]v2Item, len(sc))
	for i, it := range sc {
		out[i] = v2Item{kind: it.kind, data: append([]byte(nil), it.data...)}
	}
	return out
}

// runs the real Server.handle on the configuration
func v2Run(rs []v2R, script []v2Item) *v2Runner {
	r := &v2Runner{}
	r.conn = &v2Conn{r: r, script: v2CloneScript(script)}
	top := &v2Level{depth: 0, inv: 0, rs: rs}
	routes := r.buildRoutes(rs, top)
	logger := zap.New(&v2Core{r: r, lvl: top})
	fb := HandlerFunc(func(cx *Connection) error {
		r.note(cx)
		b := v2Avail(cx)
		r.tr = append(r.tr, v2Evt{kind: "fb", inv: 0, depth: 0, avail: len(b), data: b, armed: r.conn.armed, rs: rs})
		return nil
	})
	s := &Server{logger: logger, compiledRoute: routes.Compile(logger, time.Hour, fb)}
	func() {
		defer func() {
			if e := recover(); e != nil {
				r.panicked = true
			}
		}()
		s.handle(r.conn)
	}()
	return r
}

// runs the configuration in listener-wrapper form: the real listener.handle with the real listenerHandler as
// fallback; the trace's fallback event is what arrives on the wrapped listener's side
func v2RunListener(rs []v2R, script []v2Item, tlsVar bool) *v2Runner {
	r := &v2Runner{listener: true, tlsVar: tlsVar}
	r.conn = &v2Conn{r: r, script: v2CloneScript(script)}
	top := &v2Level{depth: 0, inv: 0, rs: rs}
	routes := r.buildRoutes(rs, top)
	logger := zap.New(&v2Core{r: r, lvl: top})
	l := &listener{logger: logger, connChan: make(chan net.Conn, 4), done: make(chan struct{}), wg: &sync.WaitGroup{}}
	l.compiledRoute = routes.Compile(logger, time.Hour, listenerHandler{})
	func() {
		defer func() {
			if e := recover(); e != nil {
				r.panicked = true
			}
		}()
		l.wg.Add(1)
		l.handle(r.conn)
	}()
	select {
	case c := <-l.connChan:
		r.handed = c
		var b []byte
		known := false
		switch x := c.(type) {
		case *Connection:
			b, known = v2Avail(x), true
			r.note(x)
		case *tlsConnection:
			if cx, ok := x.Conn.(*Connection); ok {
				b, known = v2Avail(cx), true
				r.note(cx)
			}
		}
		why := ""
		if !known {
			why = "not-a-layer4-connection"
		}
		r.tr = append(r.tr, v2Evt{kind: "fb", inv: 0, depth: 0, avail: len(b), data: b, armed: r.conn.armed, rs: rs, why: why})
	default:
	}
	if len(l.connChan) > 0 {
		r.tr = append(r.tr, v2Evt{kind: "fb", inv: 0, depth: 0, rs: rs, why: "second-hand-off"})
	}
	return r
}

// listener-wrapper form: what the wrapped listener can read from the connection it was handed is exactly the
// client's stream minus what the handlers consumed (scripts of chunks only)
func v2ListenerOracle(rs []v2R, script []v2Item, r *v2Runner, fails v2Fails) {
	var stream []byte
	for _, it := range script {
		if it.kind == 0 {
			stream = append(stream, it.data...)
		}
	}
	consumed := 0
	for _, e := range r.tr {
		if e.kind == "rd" {
			consumed += len(e.data)
		}
	}
	if r.handed == nil {
		if !r.panicked && r.conn.closed != 1 {
			fails.add("C02:listener:close-count", fmt.Sprintf("connection not handed over and closed %d times", r.conn.closed))
		}
		return
	}
	if r.conn.closed != 0 {
		fails.add("C02:listener:handed-over-connection-closed", "the connection was closed by the listener wrapper although it was handed to the wrapped listener")
	}
	got, _ := io.ReadAll(r.handed)
	want := v2Slice(stream, consumed, len(stream))
	if !bytes.Equal(got, want) {
		fails.add("C02:listener:handoff-stream-not-intact", fmt.Sprintf("the wrapped listener reads %d bytes %q from the connection it was handed, the client's unconsumed stream is %d bytes %q (TLS state recorded by a wrapping handler: %v)", len(got), v2Short(got), len(want), v2Short(want), r.tlsVar))
	}
}

func v2Short(b []byte) string {
	if len(b) > 24 {
		return string(b[:24]) + "..."
	}
	return string(b)
}

func (r *v2Runner) coqTrace() string {
	var ss []string
	for _, e := range r.tr {
		switch e.kind {
		case "arm":
			ss = append(ss, "EArm")
		case "clr":
			ss = append(ss, "EClear")
		case "run":
			ss = append(ss, fmt.Sprintf("eRun %d %d %s", e.depth, e.idx, cHex(e.data)))
		case "rd":
			ss = append(ss, fmt.Sprintf("eRead %d %d %s", e.depth, e.idx, cHex(e.data)))
		case "fb":
			ss = append(ss, fmt.Sprintf("eFb %d %s", e.depth, cHex(e.data)))
		case "drop":
			ss = append(ss, fmt.Sprintf("eDrop %d %s", e.depth, e.why))
		case "herr":
			ss = append(ss, fmt.Sprintf("eHErr %d %d", e.depth, e.idx))
		case "panic":
			ss = append(ss, fmt.Sprintf("ePanic %d %d", e.depth, e.idx))
		}
	}
	return "[" + strings.Join(ss, "; ") + "]"
}

// ---------------------------------------------------------------- the oracle: the property text on the implementation's trace

type v2Fails map[string]string

func (f v2Fails) add(key, detail string) {
	if _, ok := f[key]; !ok {
		f[key] = detail
	}
}

func v2Oracle(rs []v2R, script []v2Item, r *v2Runner) v2Fails {
	fails := v2Fails{}
	var stream []byte
	for _, it := range script {
		if it.kind == 0 {
			stream = append(stream, it.data...)
		}
	}
	consumed := 0
	emptyArmed := false // the deadline is armed because an empty route list handed over without clearing it
	ended := ""            // "term" / "drop" / "herr" / "panic": nothing may run afterwards
	lastRun := map[int]int{} // per invocation: index of the last route that ran
	fbCount := map[int]int{}
	seenInv := map[int]bool{0: true}
	for n, e := range r.tr {
		where := fmt.Sprintf("event %d (%s depth=%d idx=%d)", n, e.kind, e.depth, e.idx)
		switch e.kind {
		case "run", "fb", "rd", "term", "herr":
			if ended != "" {
				if ended == "term" {
					fails.add("C02:router:ran-after-terminal", where+" after a terminal handler")
				} else {
					fails.add("C02:router:ran-after-"+ended, where+" after "+ended)
					fails.add("C05:router:not-closed-after-"+ended, where+" after "+ended)
				}
			}
		}
		switch e.kind {
		case "clr", "arm":
			emptyArmed = false
		case "run":
			seenInv[e.inv] = true
			if e.armed {
				fails.add("C05:router:deadline-armed-at-handler", where+": matching deadline still armed when the route's handlers start")
			}
			route := e.rs[e.idx]
			if v := v2SpecAny(route.mss, e.data); v != v2Yes {
				fails.add("C02:router:ran-unmatched-route", fmt.Sprintf("%s: matcher sets evaluate to %s on the %d available bytes", where, v2VerdictName[v], len(e.data)))
			}
			last, ok := lastRun[e.inv]
			if !ok {
				last = -1
			}
			if e.idx <= last {
				fails.add("C02:router:order", fmt.Sprintf("%s: route %d ran after route %d in the same route list", where, e.idx, last))
			}
			for i := last + 1; i < e.idx; i++ {
				if v2SpecAny(e.rs[i].mss, e.data) == v2Yes {
					fails.add("C02:router:skipped-matching-route", fmt.Sprintf("%s: route %d matches the same bytes but was passed over", where, i))
				}
			}
			lastRun[e.inv] = e.idx
			if !bytes.Equal(e.data, v2Slice(stream, consumed, consumed+len(e.data))) {
				fails.add("C02:router:stream-not-intact", where+": bytes available to the route are not the client's unconsumed stream")
			}
		case "rd":
			if !bytes.Equal(e.data, v2Slice(stream, consumed, consumed+len(e.data))) {
				fails.add("C02:router:stream-not-intact", fmt.Sprintf("%s: handler read %x, stream continues with %x", where, e.data, v2Slice(stream, consumed, consumed+len(e.data))))
			}
			consumed += len(e.data)
		case "fb":
			seenInv[e.inv] = true
			fbCount[e.inv]++
			if fbCount[e.inv] > 1 {
				fails.add("C02:router:fallback-twice", where+": the fallback of one route list was called again")
			}
			if e.armed {
				if len(e.rs) == 0 || emptyArmed {
					emptyArmed = true
					fails.add("C05:router:deadline-armed-at-fallback-empty-routes", where+": empty route list calls its fallback with the matching deadline still armed")
				} else {
					fails.add("C05:router:deadline-armed-at-fallback", where+": matching deadline still armed when the fallback is called")
				}
			}
			last, ok := lastRun[e.inv]
			if !ok {
				last = -1
			}
			for i := last + 1; i < len(e.rs); i++ {
				if v := v2SpecAny(e.rs[i].mss, e.data); v != v2No {
					fails.add("C02:router:fallback-with-undecided-or-matching-route", fmt.Sprintf("%s: route %d evaluates to %s on the available bytes", where, i, v2VerdictName[v]))
				}
			}
			if !bytes.Equal(e.data, v2Slice(stream, consumed, consumed+len(e.data))) {
				fails.add("C02:router:stream-not-intact", where+": bytes handed to the fallback are not the client's unconsumed stream")
			}
		case "term":
			ended = "term"
		case "drop":
			if ended == "" {
				ended = "drop"
			}
			if e.why != "DMatchErr" {
				// matching goes on (and can only be given up by timeout, full buffer or a network error)
				// while some route above the last one that ran is still undecided
				b := v2Slice(stream, consumed, e.avail)
				last, ok := lastRun[e.inv]
				if !ok {
					last = -1
				}
				und := false
				for i := last + 1; i < len(e.rs); i++ {
					if v2SpecAny(e.rs[i].mss, b) == v2More {
						und = true
					}
				}
				if !und {
					fails.add("C02:router:dropped-although-every-route-decided", fmt.Sprintf("%s (%s): no route above %d is undecided on the %d available bytes, the fallback should have run", where, e.why, last, len(b)))
				}
			}
		case "herr":
			if ended == "" {
				ended = "herr"
			}
		case "panic":
			if ended == "" {
				ended = "panic"
			}
		}
	}
	if ended == "" {
		// nothing stopped the chain: every route list that was entered must have called its fallback exactly once
		for inv := range seenInv {
			if fbCount[inv] != 1 {
				fails.add("C02:router:fallback-missing", fmt.Sprintf("route list invocation %d returned without terminal handler, drop or error but its fallback ran %d times", inv, fbCount[inv]))
			}
		}
		for inv := 1; inv <= r.invs; inv++ {
			if fbCount[inv] != 1 {
				fails.add("C02:router:fallback-missing", fmt.Sprintf("subroute invocation %d: fallback ran %d times", inv, fbCount[inv]))
			}
		}
	}
	if ended != "herr" && r.retErr {
		fails.add("C02:router:error-without-handler-error", "the compiled handler returned an error although no handler failed")
	}
	if !r.listener && !r.panicked && r.conn.closed != 1 {
		fails.add("C05:router:close-count", fmt.Sprintf("connection closed %d times by Server.handle", r.conn.closed))
	}
	if r.maxBuf > MaxMatchingBytes-1+prefetchChunkSize {
		fails.add("C05:router:buffer-over-bound", fmt.Sprintf("matching buffer held %d bytes", r.maxBuf))
	}
	return fails
}

func v2Slice(s []byte, a, b int) []byte {
	if a > len(s) {
		a = len(s)
	}
	if b > len(s) {
		b = len(s)
	}
	return s[a:b]
}

// ---------------------------------------------------------------- generators

func v2T(k, v int) v2M { return v2M{kind: 0, k: k, v: v} }

// matcher-set alphabet of the exhaustive enumeration
func v2MatcherAlphabet() [][][]v2M {
	return [][][]v2M{
		{{v2T(0, v2Yes)}},
		{{v2T(1, v2Yes)}},
		{{v2T(3, v2Yes)}},
		{{v2T(0, v2No)}},
		{{v2T(1, v2No)}},
		{{v2T(3, v2No)}},
		{{{kind: 2, sets: [][]v2M{{v2T(1, v2Yes)}}}}},                  // not: No once 1 byte is there
		{{{kind: 2, sets: [][]v2M{{v2T(3, v2No)}}}}},                   // not: Yes once 3 bytes are there
		{{v2T(3, v2No)}, {v2T(1, v2Yes)}},                              // two sets: first undecided longer than the second
		{{v2T(1, v2Yes), {kind: 1, k: 2, c: 0x63, y: v2Yes, n: v2No}}}, // AND with a content test on the third byte
		{{{kind: 1, k: 0, c: 'b', y: v2Yes, n: v2No}}},                   // the first available byte is 'b' (depends on what earlier handlers consumed)
		{}, // no matcher: matches everything
	}
}

func v2HandlerAlphabet() [][]v2H {
	subA := []v2R{{mss: [][]v2M{{v2T(2, v2No)}}, hs: []v2H{{kind: 0}}}}
	subB := []v2R{
		{mss: [][]v2M{{v2T(2, v2Yes)}}, hs: []v2H{{kind: 1, k: 1}}},
		{mss: [][]v2M{{v2T(1, v2No)}}, hs: []v2H{{kind: 0}}},
	}
	return [][]v2H{
		{{kind: 0}},
		{},
		{{kind: 1, k: 1}},
		{{kind: 3}, {kind: 1, k: 2}},
		{{kind: 2}},
		{{kind: 4, sub: subA}},
		{{kind: 4, sub: subB}, {kind: 1, k: 1}},
		{{kind: 4, sub: []v2R{}}},
	}
}

// arrival schedules of at most 3 chunks over the stream "abcdef" plus endings
func v2Schedules() [][]v2Item {
	s := []byte("abcdef")
	ch := func(a, b int) v2Item { return v2Item{kind: 0, data: s[a:b]} }
	return [][]v2Item{
		{ch(0, 6)},
		{ch(0, 1), ch(1, 3), ch(3, 6)},
		{ch(0, 2), ch(2, 6)},
		{ch(0, 1), ch(1, 2), {kind: 1}},
		{ch(0, 2), {kind: 1}},
		{ch(0, 1), {kind: 2}, ch(1, 6)},
		{},
		{ch(0, 3)},
	}
}

func v2RandMatcher(g *vRng, depth int) v2M {
	switch x := g.Intn(10); {
	case x < 5:
		v := v2Yes
		if g.Bool() {
			v = v2No
		}
		if g.Intn(25) == 0 {
			v = v2Fail
		}
		if g.Intn(60) == 0 {
			v = v2Panic
		}
		return v2T(g.Intn(6), v)
	case x < 8 || depth >= 2:
		y, n := v2Yes, v2No
		if g.Bool() {
			y, n = v2No, v2Yes
		}
		return v2M{kind: 1, k: g.Intn(5), c: byte('a' + g.Intn(3)), y: y, n: n}
	default:
		return v2M{kind: 2, sets: v2RandSets(g, depth+1, 1+g.Intn(2))}
	}
}

func v2RandSets(g *vRng, depth, n int) [][]v2M {
	sets := make([][]v2M, n)
	for i := range sets {
		k := 1 + g.Intn(2)
		for j := 0; j < k; j++ {
			sets[i] = append(sets[i], v2RandMatcher(g, depth))
		}
	}
	return sets
}

func v2RandRoutes(g *vRng, depth, n int) []v2R {
	rs := make([]v2R, n)
	for i := range rs {
		if g.Intn(8) != 0 {
			rs[i].mss = v2RandSets(g, 0, 1+g.Intn(2))
		}
		nh := g.Intn(3)
		for j := 0; j < nh; j++ {
			switch x := g.Intn(12); {
			case x < 2:
				rs[i].hs = append(rs[i].hs, v2H{kind: 0})
			case x < 6:
				rs[i].hs = append(rs[i].hs, v2H{kind: 1, k: g.Intn(4)})
			case x < 7:
				rs[i].hs = append(rs[i].hs, v2H{kind: 2})
			case x < 9:
				rs[i].hs = append(rs[i].hs, v2H{kind: 3})
			default:
				if depth < 2 {
					rs[i].hs = append(rs[i].hs, v2H{kind: 4, sub: v2RandRoutes(g, depth+1, g.Intn(4))})
				}
			}
		}
	}
	return rs
}

func v2RandScript(g *vRng) []v2Item {
	n := g.Intn(7)
	var sc []v2Item
	for i := 0; i < n; i++ {
		switch x := g.Intn(14); {
		case x == 0:
			sc = append(sc, v2Item{kind: 1})
		case x == 1:
			sc = append(sc, v2Item{kind: 2})
		default:
			l := 1 + g.Intn(4)
			d := make([]byte, l)
			for j := range d {
				d[j] = byte('a' + g.Intn(3))
			}
			sc = append(sc, v2Item{kind: 0, data: d})
		}
	}
	return sc
}

// configurations around the buffer limit: a route that stays undecided beyond MaxMatchingBytes
func v2BigConfigs(g *vRng) (out []struct {
	rs []v2R
	sc []v2Item
}) {
	big := func(n int) []byte {
		b := make([]byte, n)
		for i := range b {
			b[i] = byte('a' + i%3)
		}
		return b
	}
	add := func(rs []v2R, sc []v2Item) {
		out = append(out, struct {
			rs []v2R
			sc []v2Item
		}{rs, sc})
	}
	never := [][]v2M{{v2T(MaxMatchingBytes+prefetchChunkSize+10, v2Yes)}}
	for _, total := range []int{MaxMatchingBytes - 1, MaxMatchingBytes, MaxMatchingBytes + 1, MaxMatchingBytes + prefetchChunkSize + 100} {
		// one big write
		add([]v2R{{mss: never, hs: []v2H{{kind: 0}}}}, []v2Item{{kind: 0, data: big(total)}})
		// chunks of 2047 so that the buffer passes the limit at MAX-1 .. MAX-1+CHUNK
		var sc []v2Item
		for left := total; left > 0; {
			n := prefetchChunkSize - 1
			if n > left {
				n = left
			}
			sc = append(sc, v2Item{kind: 0, data: big(n)})
			left -= n
		}
		add([]v2R{{mss: never, hs: []v2H{{kind: 0}}}}, sc)
		// a first route consumes one byte (offset > 0), the second never decides
		add([]v2R{{mss: [][]v2M{{v2T(1, v2Yes)}}, hs: []v2H{{kind: 1, k: 1}}}, {mss: never, hs: []v2H{{kind: 0}}}}, []v2Item{{kind: 0, data: big(total)}})
		// decides exactly at the limit
		add([]v2R{{mss: [][]v2M{{v2T(total, v2Yes)}}, hs: []v2H{{kind: 1, k: 3}}}}, []v2Item{{kind: 0, data: big(total)}})
	}
	_ = g
	return
}

// hand-written scenarios, each aimed at one way of getting Compile's state machine wrong
func v2Corpus() (out []struct {
	rs []v2R
	sc []v2Item
}) {
	s := []byte("abcdef")
	ch := func(a, b int) v2Item { return v2Item{kind: 0, data: s[a:b]} }
	sched := [][]v2Item{{ch(0, 1), ch(1, 3), ch(3, 6)}, {ch(0, 1), ch(1, 2), ch(2, 3), ch(3, 6)}, {ch(0, 6)}, {ch(0, 2), ch(2, 6)}}
	term := []v2H{{kind: 0}}
	firstIs := func(c byte) [][]v2M { return [][]v2M{{{kind: 1, k: 0, c: c, y: v2Yes, n: v2No}}} }
	one := func(m v2M) [][]v2M { return [][]v2M{{m}} }
	cfgs := [][]v2R{
		// a cached "not matched" from before an earlier route consumed bytes must not be honoured afterwards
		{{mss: one(v2T(3, v2Yes)), hs: []v2H{{kind: 1, k: 1}}}, {mss: firstIs('b'), hs: term}, {mss: one(v2T(5, v2Yes)), hs: term}},
		{{mss: one(v2T(3, v2Yes)), hs: []v2H{{kind: 3}, {kind: 1, k: 2}}}, {mss: firstIs('c'), hs: term}, {mss: one(v2T(6, v2No)), hs: term}},
		// an undecided route below a matched one must not keep the loop going
		{{mss: one(v2T(5, v2Yes)), hs: term}, {mss: one(v2T(1, v2Yes)), hs: nil}, {mss: one(v2T(1, v2No)), hs: term}},
		// a later route may match while an earlier one is still undecided
		{{mss: one(v2T(5, v2Yes)), hs: term}, {mss: one(v2T(1, v2No)), hs: term}, {mss: one(v2T(2, v2Yes)), hs: term}},
		// the connection handed to the last handler (after Wrap and a partial read) is the one matching goes on with
		{{mss: one(v2T(3, v2Yes)), hs: []v2H{{kind: 3}, {kind: 1, k: 1}}}, {mss: firstIs('b'), hs: []v2H{{kind: 1, k: 2}}}, {mss: firstIs('d'), hs: term}},
		// subroute: its fallback is the rest of the outer chain; outer matching then goes on
		{{mss: nil, hs: []v2H{{kind: 4, sub: []v2R{{mss: one(v2T(2, v2No)), hs: term}}}, {kind: 1, k: 1}}}, {mss: firstIs('b'), hs: term}},
		// a wrapping non-terminal handler (TLS termination), then a data-reading matcher that decides no-match: the
		// fallback (in listener-wrapper form: the wrapped listener) gets the connection with the bytes prefetched since
		{{mss: one(v2T(1, v2Yes)), hs: []v2H{{kind: 3}}}, {mss: one(v2T(3, v2No)), hs: term}},
		{{mss: one(v2T(2, v2Yes)), hs: []v2H{{kind: 3}, {kind: 1, k: 1}}}, {mss: firstIs('x'), hs: term}, {mss: one(v2T(4, v2No)), hs: term}},
		// a matcher set that never decides with a second set that does
		{{mss: [][]v2M{{v2T(7, v2Yes)}, {v2T(2, v2Yes)}}, hs: []v2H{{kind: 1, k: 2}}}, {mss: [][]v2M{{{kind: 2, sets: [][]v2M{{v2T(1, v2Yes)}}}}}, hs: term}},
	}
	for _, rs := range cfgs {
		for _, sc := range sched {
			out = append(out, struct {
				rs []v2R
				sc []v2Item
			}{rs, sc})
		}
	}
	return
}

// ---------------------------------------------------------------- the test

func TestVerifC02Router(t *testing.T) {
	out := vOpen()
	defer out.Close()
	g := vNewRng(vSeed())
	nCases := vN(2000)
	prop := os.Getenv("VERIF_PROP")
	if prop == "C05" {
		// C05 uses this engine for its untimed part (deadline state at handlers, buffer bound, fail-closed):
		// every configuration still goes through the oracle, a quarter of the slice through the in-Coq comparison
		nCases /= 4
	}

	type cfg struct {
		rs  []v2R
		sc  []v2Item
		cls string
	}
	runs, emitted := 0, 0
	failCount := map[string]int{}
	listenerRuns := 0
	chunksOnly := func(sc []v2Item) bool {
		for _, it := range sc {
			if it.kind != 0 {
				return false
			}
		}
		return true
	}
	// the same configuration in listener-wrapper form (fallback = hand-off to the wrapped listener)
	doListener := func(c cfg) {
		lr := v2RunListener(c.rs, c.sc, listenerRuns%2 == 0)
		listenerRuns++
		fails := v2Oracle(c.rs, c.sc, lr)
		v2ListenerOracle(c.rs, c.sc, lr, fails)
		input := map[string]any{"form": "listener wrapper", "routes": v2RoutesCoq(c.rs), "script": v2ScriptCoq(c.sc), "trace": lr.coqTrace(), "tls_state_recorded_by_wrapping_handlers": lr.tlsVar}
		for k, d := range fails {
			failCount[k]++
			if failCount[k] <= 3 {
				out.Fail(k, d, input)
			}
		}
	}
	do := func(c cfg, emit bool) {
		r := v2Run(c.rs, c.sc)
		runs++
		if chunksOnly(c.sc) && (c.cls == "corpus" || c.cls == "exh0" || c.cls == "exh1" || c.cls == "random" || runs%5 == 0) {
			doListener(c)
			if c.cls == "corpus" {
				doListener(c) // both with and without a recorded TLS state
			}
		}
		fails := v2Oracle(c.rs, c.sc, r)
		input := map[string]any{"routes": v2RoutesCoq(c.rs), "script": v2ScriptCoq(c.sc), "trace": r.coqTrace()}
		for k, d := range fails {
			failCount[k]++
			if failCount[k] <= 3 {
				out.Fail(k, d, input)
			}
		}
		if emit {
			emitted++
			nRun, nArm := 0, 0
			for _, e := range r.tr {
				if e.kind == "run" {
					nRun++
				}
				if e.kind == "arm" {
					nArm++
				}
			}
			// non-trivial: at least two passes (a prefetch happened) and at least one route ran or several routes exist
			nt := nArm >= 2 && (nRun >= 1 || len(c.rs) >= 2)
			closed := int64(r.conn.closed)
			coq := fmt.Sprintf("RC %s %s %s %s %s", v2RoutesCoq(c.rs), v2ScriptCoq(c.sc), r.coqTrace(), cZ(closed), cBool(r.panicked))
			out.Case(coq, c.cls, nt, nil)
		}
	}

	// 0. corpus of hand-written scenarios
	for _, c := range v2Corpus() {
		do(cfg{c.rs, c.sc, "corpus"}, true)
	}

	// 1. exhaustive small scope: <= 3 routes over the alphabets, every schedule
	ms, hs, scs := v2MatcherAlphabet(), v2HandlerAlphabet(), v2Schedules()
	per := len(ms) * len(hs)
	mk := func(code int) v2R { return v2R{mss: ms[code/len(hs)], hs: hs[code%len(hs)]} }
	total3 := per * per * per
	// how many of the 3-route configurations are run through the oracle / emitted for Coq
	oracle3 := 40000
	if vThorough() {
		oracle3 = total3
	}
	small := per*len(scs) + per*per*len(scs)
	emitSmallEvery := 1 + small/(nCases/2+1)
	n := 0
	do(cfg{nil, nil, "exh0"}, true)
	for _, sc := range scs {
		do(cfg{[]v2R{}, sc, "exh0"}, true)
	}
	for a := 0; a < per; a++ {
		for _, sc := range scs {
			n++
			do(cfg{[]v2R{mk(a)}, sc, "exh1"}, n%emitSmallEvery == 0 || a%len(hs) == 0)
		}
	}
	for a := 0; a < per; a++ {
		for b := 0; b < per; b++ {
			for _, sc := range scs {
				n++
				do(cfg{[]v2R{mk(a), mk(b)}, sc, "exh2"}, n%emitSmallEvery == 0)
			}
		}
	}
	stride := total3 / oracle3
	if stride < 1 {
		stride = 1
	}
	emit3 := nCases / 3
	emitEvery := 1 + (total3/stride)*len(scs)/(emit3+1)
	start := int(g.U64() % uint64(stride))
	n = 0
	for code := start; code < total3; code += stride {
		rs := []v2R{mk(code / (per * per)), mk(code / per % per), mk(code % per)}
		for si, sc := range scs {
			if !vThorough() && (code/stride+si)%2 == 1 {
				continue // quick: half of the schedules per configuration, alternating
			}
			n++
			do(cfg{rs, sc, "exh3"}, n%emitEvery == 0)
		}
	}

	// 2. random larger instances
	nRand := nCases / 4
	for i := 0; i < nRand; i++ {
		rs := v2RandRoutes(g, 0, 1+g.Intn(6))
		do(cfg{rs, v2RandScript(g), "random"}, true)
	}

	// 3. around the buffer limit
	for _, c := range v2BigConfigs(g) {
		do(cfg{c.rs, c.sc, "buffer-limit"}, true)
	}

	out.Stat("configurations_run_through_oracle", runs)
	out.Stat("configurations_also_run_in_listener_wrapper_form", listenerRuns)
	out.Stat("cases_emitted", emitted)
	out.Stat("exhaustive_three_route_space", total3*len(scs))
	_ = prop
	for k, c := range failCount {
		out.Stat("fail."+k, c)
	}
}
