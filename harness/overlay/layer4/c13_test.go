package layer4

// C13 engine: the real ListenerWrapper (WrapListener -> listener.loop/handle/Accept/Close,
// listenerHandler, pipeConnection) over an in-memory net.Listener of net.Pipe connections.
// White-box only for building routes from scripted matchers/handlers and for looking at
// connChan/wg after Close; nothing of the wrapper is replaced.
//
// A scenario = a mix of connections (matched by a terminal route / falling through to the
// wrapped listener, possibly after a non-terminal handler consumed a prefix or attached a TLS
// state / failing matching / rejected by a handler / timing out / hanging up while matching),
// their streams and segmentations, GOMAXPROCS (= connChan capacity), a consumer that calls
// Accept with delays and reads the accepted connections at once or late, temporary accept
// errors, and the instant of Close.
//
// Observables: the history of {loop accepted c, Accept returned c, Accept returned ErrClosed,
// c.Close() by the wrapper, Close()}, the bytes read from every accepted connection, what is
// left of the wrapper's goroutines after Close.  The history is replayed on model/Listener.v
// (corr/C13Corr.v) and the property text is evaluated directly (oracle keys C13:...).

import (
	"bytes"
	"crypto/tls"
	"errors"
	"fmt"
	"io"
	"net"
	"os"
	"os/exec"
	"runtime"
	"sort"
	"strings"
	"sync"
	"sync/atomic"
	"testing"
	"time"

	"go.uber.org/zap"
)

// ---- history ------------------------------------------------------------------------------------

type vEv struct {
	k  string // Arr Del Cls AErr Close
	id int
}

type vHist struct {
	mu sync.Mutex
	ev []vEv
}

func (h *vHist) add(k string, id int) {
	h.mu.Lock()
	h.ev = append(h.ev, vEv{k, id})
	h.mu.Unlock()
}

func (h *vHist) snapshot() []vEv {
	h.mu.Lock()
	defer h.mu.Unlock()
	return append([]vEv(nil), h.ev...)
}

// ---- connections and the inner listener ---------------------------------------------------------

type vSrvConn struct {
	net.Conn
	id       int
	kindTag  int // used by the C08 stress engine
	h        *vHist
	closes   atomic.Int32
	released atomic.Bool // the consumer is done with it: a Close from now on is the consumer's
	// a read of the wrapper hit the matching deadline before the connection was handed over (the
	// machine was too slow for this client's stream): the wrapper then rightly drops it
	deadlineHit atomic.Bool
	handedOver  atomic.Bool
}

func (c *vSrvConn) Read(p []byte) (int, error) {
	n, err := c.Conn.Read(p)
	if err != nil && errors.Is(err, os.ErrDeadlineExceeded) && !c.handedOver.Load() {
		c.deadlineHit.Store(true)
	}
	return n, err
}

func (c *vSrvConn) Close() error {
	if !c.released.Load() {
		c.closes.Add(1)
		c.h.add("Cls", c.id)
	}
	return c.Conn.Close()
}

type vTempErr struct{}

func (vTempErr) Error() string   { return "verif: temporary accept error" }
func (vTempErr) Timeout() bool   { return false }
func (vTempErr) Temporary() bool { return true }

type vInner struct {
	mu     sync.Mutex
	ch     chan *vSrvConn
	tmp    chan struct{}
	closed chan struct{}
	isCl   bool
	h      *vHist
}

func (l *vInner) Accept() (net.Conn, error) {
	for {
		select {
		case <-l.closed:
			return nil, net.ErrClosed
		case <-l.tmp:
			return nil, vTempErr{}
		case c := <-l.ch:
			l.mu.Lock()
			if l.isCl {
				// raced with Close: this connection was never handed to the wrapper
				l.mu.Unlock()
				_ = c.Conn.Close()
				return nil, net.ErrClosed
			}
			l.h.add("Arr", c.id)
			l.mu.Unlock()
			return c, nil
		}
	}
}

func (l *vInner) Close() error {
	l.mu.Lock()
	if !l.isCl {
		l.isCl = true
		l.h.add("Close", 0)
		close(l.closed)
	}
	l.mu.Unlock()
	return nil
}

type vAddr string

func (a vAddr) Network() string  { return "pipe" }
func (a vAddr) String() string   { return string(a) }
func (l *vInner) Addr() net.Addr { return vAddr("verif") }

// ---- scripted routes ----------------------------------------------------------------------------

const vC13Need = 4 // bytes every matcher wants to see
// bytes a matcher wants to see of a 'G' stream: it stays undecided until the matching buffer is
// nearly full, so that the last prefetch takes the buffer beyond MaxMatchingBytes when the segments
// are not aligned with the chunk size
const vC13Greedy = MaxMatchingBytes - 150

const vC13Long = 3000 // bytes a matcher wants to see of an 'L' stream (more than one prefetch chunk)
const vC13Prefix = 5  // bytes the non-terminal 'N' handler consumes

type vKindMatcher struct {
	kind byte
	need int // bytes it wants to see (0: vC13Need); routes differ so that one can say no while another still waits
}

func (m vKindMatcher) Match(cx *Connection) (bool, error) {
	need := m.need
	if need == 0 {
		need = vC13Need
	}
	b := make([]byte, need)
	if _, err := io.ReadFull(cx, b); err != nil {
		return false, err
	}
	if b[0] == 'L' {
		if _, err := io.ReadFull(cx, make([]byte, vC13Long-vC13Need)); err != nil {
			return false, err
		}
	}
	if b[0] == 'G' {
		if _, err := io.ReadFull(cx, make([]byte, vC13Greedy-vC13Need)); err != nil {
			return false, err
		}
	}
	if b[0] == 'E' && m.kind == 'E' {
		return false, errors.New("verif: matcher failure")
	}
	return b[0] == m.kind, nil
}

// matchers that do not read: they decide without looking (vConstMatcher) or by peeking at the
// prefetched bytes (vPeekMatcher); used behind a reading matcher in multi-matcher sets
type vConstMatcher struct{ verdict bool }

func (m vConstMatcher) Match(*Connection) (bool, error) { return m.verdict, nil }

type vPeekMatcher struct{ kind byte }

func (m vPeekMatcher) Match(cx *Connection) (bool, error) {
	b := cx.MatchingBytes()
	return len(b) > 0 && b[0] == m.kind, nil
}

type vScen struct {
	release chan struct{} // closed by the run when held ('H') connections may finish
	conns   []*vScConn
	byID    map[int]*vScConn // by small id (1..n, what the model sees)
	byTag   map[int]*vScConn // by the run-wide unique tag the stream carries
}

var vC13Tag atomic.Int32

type vScConn struct {
	id      int
	tag     int
	kind    byte
	stream  []byte
	segs    []int // write sizes
	gapUs   int   // pause between writes
	startUs int   // when the client dials, relative to scenario start
	tailUs  int   // pause before the last segment (a client that is still sending after matching ended)
}

func vC13Stream(kind byte, id, n int) []byte {
	b := make([]byte, n)
	for i := range b {
		// payload bytes have the top bit set so that they are never a kind letter
		if i%2 == 0 {
			b[i] = 0x80 | byte(id>>6)
		} else {
			b[i] = 0x80 | byte(id&0x3f) | 0x40
		}
	}
	b[0] = kind
	if n > 2 {
		b[1], b[2] = byte(id>>8), byte(id)
	}
	return b
}

func vIDOf(hdr []byte) int { return int(hdr[1])<<8 | int(hdr[2]) }

func (k *vScConn) hijack() bool {
	switch k.kind {
	case 'F', 'N', 'S', 'L', 'M', 'P', 'Q', 'G', 'D':
		return true
	}
	return false
}

func (k *vScConn) consumed() int {
	if k.kind == 'N' || k.kind == 'Q' || k.kind == 'D' {
		return vC13Prefix
	}
	return 0
}

func (k *vScConn) outcome() string {
	switch k.kind {
	case 'F', 'N', 'S', 'L', 'M', 'P', 'Q', 'G', 'D':
		return "Hijack"
	case 'T', 'H', 'U':
		return "Consumed"
	}
	return "Rejected"
}

func vC13Routes(sc *vScen) RouteList {
	mk := func(kind byte, h NextHandler) *Route {
		return &Route{matcherSets: MatcherSets{{vKindMatcher{kind: kind}}}, middleware: []Middleware{wrapHandler(h)}}
	}
	terminal := NextHandlerFunc(func(cx *Connection, _ Handler) error {
		hdr := make([]byte, 3)
		if _, err := io.ReadFull(cx, hdr); err != nil {
			return nil
		}
		if k := sc.byTag[vIDOf(hdr)]; k != nil {
			rest := len(k.stream) - 3
			if k.kind == 'U' {
				// a terminal handler need not read its connection to the end: it leaves enough for
				// every later route to decide (they must not be asked any more)
				rest -= vC13Prefix + 3*vC13Need
			}
			_, _ = io.ReadFull(cx, make([]byte, rest))
		}
		return nil
	})
	// a consumed connection that is still being served (think of a proxied session) when the
	// listener is closed
	held := NextHandlerFunc(func(cx *Connection, _ Handler) error {
		select {
		case <-sc.release:
		case <-time.After(8 * time.Second):
		}
		return nil
	})
	reject := NextHandlerFunc(func(cx *Connection, _ Handler) error { return errors.New("verif: rejected") })
	nonTerminal := NextHandlerFunc(func(cx *Connection, next Handler) error {
		if _, err := io.ReadFull(cx, make([]byte, vC13Prefix)); err != nil {
			return err
		}
		return next.Handle(cx)
	})
	tlsLike := NextHandlerFunc(func(cx *Connection, next Handler) error {
		tag := vIDOf(cx.MatchingBytes())
		cx.SetVar("tls_connection_states", []*tls.ConnectionState{{ServerName: "stale"}, {ServerName: fmt.Sprintf("verif-%d", tag)}})
		return next.Handle(cx)
	})
	never := NextHandlerFunc(func(cx *Connection, next Handler) error { return errors.New("verif: unreachable") })
	// matcher sets with several matchers, the reading one first (like {tls, remote_ip}):
	//   'M'  {reads+matches, says no}                    -> set does not match, falls through
	//   'P'  {reads+matches, peeks+matches, says yes}    -> non-terminal handler that reads nothing
	//   'Q'  {reads+matches, says yes, peeks+matches}    -> non-terminal handler that consumes a prefix
	// In all three the connection reaches the wrapped listener and must replay its stream from
	// the first unconsumed byte, whatever the matchers of the set looked at.
	passOn := NextHandlerFunc(func(cx *Connection, next Handler) error { return next.Handle(cx) })
	multi := func(ms MatcherSet, h NextHandler) *Route {
		return &Route{matcherSets: MatcherSets{ms}, middleware: []Middleware{wrapHandler(h)}}
	}
	return RouteList{
		multi(MatcherSet{vKindMatcher{kind: 'M'}, vConstMatcher{false}}, never),
		multi(MatcherSet{vKindMatcher{kind: 'P'}, vPeekMatcher{'P'}, vConstMatcher{true}}, passOn),
		multi(MatcherSet{vKindMatcher{kind: 'Q'}, vConstMatcher{true}, vPeekMatcher{'Q'}}, nonTerminal),
		// 'U': a non-terminal route whose matcher wants more bytes than the others, placed in front of
		// the terminal 'T' route: what is left of a 'U' stream after the handler took its prefix is a
		// 'T' stream, so the connection must be consumed by the terminal route, whatever that route
		// said about the untransformed bytes while 'U' was still waiting for data
		multi(MatcherSet{vKindMatcher{kind: 'U', need: vC13Prefix + 1}}, nonTerminal),
		mk('D', nonTerminal),
		mk('T', terminal), mk('R', reject), mk('N', nonTerminal), mk('K', nonTerminal), mk('S', tlsLike), mk('E', never), mk('H', held),
		// a last route that wants to see 8 bytes before it says no: keeps "needs more" alive behind the others
		multi(MatcherSet{vKindMatcher{kind: 'y', need: 2 * vC13Need}}, never)}
}

// ---- scenario generation ------------------------------------------------------------------------

func (sc *vScen) add(k *vScConn) {
	sc.conns = append(sc.conns, k)
	sc.byID[k.id] = k
	sc.byTag[k.tag] = k
}

func vC13Gen(r *vRng) *vScen {
	n := 2 + r.Intn(9)
	kinds := []byte{'F', 'F', 'F', 'T', 'R', 'N', 'S', 'E', 'L', 'X', 'Z', 'F', 'T', 'N', 'H', 'M', 'P', 'Q', 'M', 'G', 'K', 'U', 'U', 'D'}
	sc := &vScen{byID: map[int]*vScConn{}, byTag: map[int]*vScConn{}, release: make(chan struct{})}
	for i := 0; i < n; i++ {
		k := &vScConn{id: i + 1, tag: int(vC13Tag.Add(1)) & 0x7fff, kind: kinds[r.Intn(len(kinds))]}
		ln := 8 + r.Intn(120)
		switch k.kind {
		case 'L':
			ln = vC13Long + r.Intn(1500)
		case 'G':
			ln = MaxMatchingBytes + 300 + r.Intn(3000)
		case 'U', 'D':
			ln = 6*vC13Need + vC13Prefix + r.Intn(60)
		case 'K':
			// the non-terminal handler takes its prefix, then the client stays silent with fewer
			// bytes left than the later routes want: matching has to time out a second time
			ln = vC13Prefix + 1 + r.Intn(vC13Need-1)
		case 'X', 'Z':
			ln = 1 + r.Intn(vC13Need-1)
		default:
			if r.Intn(6) == 0 {
				ln = 2048 + r.Intn(2500) // more than one chunk arrives before/after the hand-over
			}
		}
		if (k.kind == 'N' || k.kind == 'Q') && ln < vC13Prefix+vC13Need+4 {
			// after the non-terminal handler consumed its prefix the later routes still need their bytes
			ln = vC13Prefix + vC13Need + 4
		}
		k.stream = vC13Stream(k.kind, k.tag, ln)
		if k.kind == 'U' {
			// behind the prefix: a 'T' stream with this connection's tag
			k.stream[vC13Prefix], k.stream[vC13Prefix+1], k.stream[vC13Prefix+2] = 'T', byte(k.tag>>8), byte(k.tag)
		}
		if k.kind == 'X' || k.kind == 'Z' {
			k.stream[0] = 'F' // looks like a fall-through stream but never completes the first read
		}
		// segmentation
		rest := ln
		switch {
		case k.kind == 'U' && r.Intn(3) > 0:
			// a first segment on which the terminal route can already say no, this route not yet
			first := vC13Need + r.Intn(2)
			k.segs = append(k.segs, first, rest-first)
			rest = 0
			k.gapUs = 200 + r.Intn(400)
		case k.kind == 'D':
			// prefix plus too little for the later routes, a bit more, and a tail long after matching ended
			k.segs = append(k.segs, vC13Prefix+2, rest-vC13Prefix-2-8, 8)
			rest = 0
			k.tailUs = 230000
		}
		if k.kind == 'G' || (ln > 4096 && r.Intn(2) == 0) {
			// not aligned with the prefetch chunk: a short first segment, then whole chunks
			first := 1 + r.Intn(prefetchChunkSize-1)
			k.segs = append(k.segs, first)
			rest -= first
			for rest > 0 {
				s := min(rest, prefetchChunkSize)
				k.segs = append(k.segs, s)
				rest -= s
			}
		}
		for rest > 0 {
			s := rest
			switch r.Intn(4) {
			case 0:
				s = 1 + r.Intn(3)
			case 1:
				s = 1 + r.Intn(64)
			case 2:
				s = 1 + r.Intn(2500)
			}
			if s > rest {
				s = rest
			}
			if len(k.segs) > 40 {
				s = rest
			}
			k.segs = append(k.segs, s)
			rest -= s
		}
		if k.gapUs == 0 {
			k.gapUs = r.Intn(300)
		}
		k.startUs = r.Intn(3000)
		sc.add(k)
	}
	return sc
}

// ---- one run ------------------------------------------------------------------------------------

type vC13Plan struct {
	procs        int
	acceptDelay  []int // microseconds before each Accept call (cycled)
	readLate     bool  // read accepted connections only after all connections went through matching
	closeAfter   int   // call Close after this many Accept results (-1: only at the end)
	closeAtUs    int   // ... or at this time, whichever first (0: not by time)
	tempErrs     int
	startAccepts int // microseconds before the consumer starts accepting
	// the consumer does not call Accept before every connection went through its handler as far as
	// it can: connChan is full (or holds them all) and the others are blocked in the send
	holdUntilQueued bool
	// Close is called from another goroutine at the moment the consumer calls its first Accept
	closeConcurrent bool
}

type vC13Result struct {
	timedOut         map[int]bool // matching deadline hit before hand-over: the wrapper drops such a connection
	hist             []vEv
	readBack         map[int][]byte
	readErr          map[int]string
	tlsName          map[int]string
	isTLS            map[int]bool
	stuck            []string
	blockedAccept    bool
	afterQuiesceConn bool
	quiesced         bool
	cap              int
}

func vWrapperGoroutines() []string {
	buf := make([]byte, 1<<20)
	n := runtime.Stack(buf, true)
	var out []string
	for _, g := range strings.Split(string(buf[:n]), "\n\n") {
		if strings.Contains(g, "layer4.(*listener).loop") || strings.Contains(g, "layer4.(*listener).handle") ||
			strings.Contains(g, "layer4.(*listener).pipeConnection") {
			lines := strings.Split(g, "\n")
			fn := ""
			for _, l := range lines[1:] {
				if strings.Contains(l, "layer4.(*listener)") {
					fn = strings.TrimSpace(l)
					break
				}
			}
			out = append(out, fn)
		}
	}
	sort.Strings(out)
	return out
}

func vC13Run(sc *vScen, pl vC13Plan) *vC13Result {
	old := runtime.GOMAXPROCS(pl.procs)
	defer runtime.GOMAXPROCS(old)

	h := &vHist{}
	inner := &vInner{ch: make(chan *vSrvConn), tmp: make(chan struct{}, 8), closed: make(chan struct{}), h: h}
	lw := &ListenerWrapper{logger: zap.NewNop()}
	lw.compiledRoute = vC13Routes(sc).Compile(lw.logger, 150*time.Millisecond, listenerHandler{})
	ln := lw.WrapListener(inner)
	li := ln.(*listener)
	res := &vC13Result{readBack: map[int][]byte{}, readErr: map[int]string{}, tlsName: map[int]string{}, isTLS: map[int]bool{}, cap: cap(li.connChan)}

	start := time.Now()
	at := func(us int) {
		if d := time.Duration(us)*time.Microsecond - time.Since(start); d > 0 {
			time.Sleep(d)
		}
	}

	srvs := map[int]*vSrvConn{}
	var srvMu sync.Mutex
	timedOut := func(id int) bool {
		srvMu.Lock()
		defer srvMu.Unlock()
		sv := srvs[id]
		return sv != nil && sv.deadlineHit.Load() && !sv.handedOver.Load()
	}
	// clients
	var cw sync.WaitGroup
	var matched sync.WaitGroup // rough: "all clients have written everything"
	for _, k := range sc.conns {
		cw.Add(1)
		matched.Add(1)
		go func(k *vScConn) {
			defer cw.Done()
			at(k.startUs)
			cl, sv := net.Pipe()
			srv := &vSrvConn{Conn: sv, id: k.id, h: h}
			srvMu.Lock()
			srvs[k.id] = srv
			srvMu.Unlock()
			select {
			case inner.ch <- srv:
			case <-inner.closed:
				matched.Done()
				_ = cl.Close()
				_ = sv.Close()
				return
			}
			matched.Done()
			_ = cl.SetWriteDeadline(time.Now().Add(4 * time.Second))
			off := 0
			for si, s := range k.segs {
				if k.tailUs > 0 && si == len(k.segs)-1 {
					time.Sleep(time.Duration(k.tailUs) * time.Microsecond)
				}
				if _, err := cl.Write(k.stream[off : off+s]); err != nil {
					break
				}
				off += s
				if k.gapUs > 0 {
					time.Sleep(time.Duration(k.gapUs) * time.Microsecond)
				}
			}
			if k.kind == 'Z' {
				_ = cl.Close()
				return
			}
			_ = cl.SetReadDeadline(time.Now().Add(6 * time.Second))
			_, _ = io.Copy(io.Discard, cl)
			_ = cl.Close()
		}(k)
	}
	for i := 0; i < pl.tempErrs; i++ {
		inner.tmp <- struct{}{}
	}

	// consumer
	var rmu sync.Mutex
	var readers sync.WaitGroup
	// "everything that arrives has been through the wrapper": every connection was handed to the
	// loop (or refused by the closed inner listener) and was then delivered or closed
	arrivalsDone := make(chan struct{})
	go func() { matched.Wait(); close(arrivalsDone) }()
	settled := func() bool {
		select {
		case <-arrivalsDone:
		default:
			return false
		}
		seen := map[int]bool{}
		arr := 0
		for _, e := range h.snapshot() {
			switch e.k {
			case "Arr":
				arr++
				if k := sc.byID[e.id]; k != nil && k.kind == 'H' {
					seen[e.id] = true // stays open until released
				}
			case "Del", "Cls":
				seen[e.id] = true
			}
		}
		return len(seen) >= arr
	}
	waitSettled := func(max time.Duration) {
		t0 := time.Now()
		for !settled() && time.Since(t0) < max {
			time.Sleep(200 * time.Microsecond)
		}
	}
	readConn := func(c net.Conn, k *vScConn, sv *vSrvConn) {
		defer readers.Done()
		if pl.readLate {
			waitSettled(time.Second)
			time.Sleep(time.Millisecond)
		}
		want := len(k.stream) - k.consumed()
		buf := make([]byte, want)
		if k.tailUs > 0 {
			// a consumer that sets no deadline of its own: the connection must come without one.
			// (bounded by a watchdog instead)
			wd := time.AfterFunc(4*time.Second, func() { sv.released.Store(true); _ = c.Close() })
			defer wd.Stop()
		} else {
			_ = c.SetReadDeadline(time.Now().Add(4 * time.Second))
		}
		n, err := io.ReadFull(c, buf)
		rmu.Lock()
		res.readBack[k.id] = buf[:n]
		if err != nil {
			res.readErr[k.id] = err.Error()
		}
		rmu.Unlock()
		sv.released.Store(true)
		_ = c.Close()
	}
	closeOnce := sync.Once{}
	var closeCalled atomic.Bool
	doClose := func() { closeOnce.Do(func() { closeCalled.Store(true); _ = ln.Close() }) }
	if pl.closeAtUs > 0 {
		go func() { at(pl.closeAtUs); doClose() }()
	}

	results := 0
	acceptOne := func() (net.Conn, error, bool) {
		type ar struct {
			c   net.Conn
			err error
		}
		ch := make(chan ar, 1)
		go func() { c, err := ln.Accept(); ch <- ar{c, err} }()
		// before Close a starving consumer is given up after 3 s; after Close Accept has to report
		// closure promptly (2 s is three orders of magnitude above what it takes), no matter
		// whether consumed connections are still being served
		for waited := 0; waited < 3000; waited += 50 {
			select {
			case r := <-ch:
				return r.c, r.err, true
			case <-time.After(50 * time.Millisecond):
			}
			if closeCalled.Load() {
				select {
				case r := <-ch:
					return r.c, r.err, true
				case <-time.After(2 * time.Second):
					return nil, nil, false
				}
			}
		}
		return nil, nil, false
	}
	handleAccepted := func(c net.Conn) {
		var cx *Connection
		switch v := c.(type) {
		case *Connection:
			cx = v
		case *tlsConnection:
			cx, _ = v.Conn.(*Connection)
		}
		var sv *vSrvConn
		if cx != nil {
			sv, _ = cx.Conn.(*vSrvConn)
		}
		if sv == nil {
			h.add("Del", -1)
			return
		}
		sv.handedOver.Store(true)
		h.add("Del", sv.id)
		if cs, ok := c.(interface{ ConnectionState() tls.ConnectionState }); ok {
			rmu.Lock()
			res.isTLS[sv.id] = true
			res.tlsName[sv.id] = cs.ConnectionState().ServerName
			rmu.Unlock()
		}
		readers.Add(1)
		go readConn(c, sc.byID[sv.id], sv)
	}

	at(pl.startAccepts)
	if pl.holdUntilQueued {
		for t0 := time.Now(); time.Since(t0) < 2*time.Second; time.Sleep(100 * time.Microsecond) {
			arr := 0
			for _, e := range h.snapshot() {
				if e.k == "Arr" {
					arr++
				}
			}
			if arr == len(sc.conns) && len(li.connChan) == min(len(sc.conns), cap(li.connChan)) {
				break
			}
		}
		time.Sleep(time.Millisecond) // lets the handlers beyond the capacity reach their blocked send
	}
	if pl.closeConcurrent {
		go doClose()
	}
	expectHijack := func() int {
		n := 0
		for _, k := range sc.conns {
			if k.hijack() && !timedOut(k.id) {
				n++
			}
		}
		return n
	}
	nHijack := expectHijack()
	gotErr := false
	for i := 0; !gotErr; i++ {
		nHijack = expectHijack()
		if pl.closeAfter >= 0 && results >= min(pl.closeAfter, nHijack) {
			doClose()
		}
		if results >= nHijack && pl.closeAfter < 0 {
			// everything that can be delivered has been: wait for the clients, then close
			waitSettled(time.Second)
			doClose()
		}
		if len(pl.acceptDelay) > 0 {
			time.Sleep(time.Duration(pl.acceptDelay[i%len(pl.acceptDelay)]) * time.Microsecond)
		}
		c, err, ok := acceptOne()
		if !ok {
			if !closeCalled.Load() {
				// the consumer starved: a connection it was waiting for never came (the oracle will
				// say which); close and go on so that the run terminates
				doClose()
				continue
			}
			res.blockedAccept = true
			break
		}
		if err != nil {
			h.add("AErr", 0)
			gotErr = true
			break
		}
		results++
		handleAccepted(c)
	}
	doClose()

	close(sc.release)
	// A server stops calling Accept at the first ErrClosed.  From here on nobody receives from the
	// wrapper any more: it has to shut down by itself (the loop drains and closes what is pending,
	// every handler returns, the waiter closes the channel).
	deadline := time.Now().Add(5 * time.Second)
	for time.Now().Before(deadline) {
		if len(vWrapperGoroutines()) == 0 {
			res.quiesced = true
			break
		}
		time.Sleep(time.Millisecond)
	}
	if res.quiesced && !res.blockedAccept {
		for i := 0; i < 3; i++ {
			c, err, ok := acceptOne()
			if !ok {
				res.blockedAccept = true
				break
			}
			if err == nil {
				res.afterQuiesceConn = true
				handleAccepted(c)
			} else {
				h.add("AErr", 0)
			}
		}
	}
	readers.Wait()
	// give the wrapper's goroutines a moment to unwind, then look for leftovers
	res.stuck = vWrapperGoroutines()
	cwDone := make(chan struct{})
	go func() { cw.Wait(); close(cwDone) }()
	select {
	case <-cwDone:
	case <-time.After(7 * time.Second):
	}
	res.hist = h.snapshot()
	res.timedOut = map[int]bool{}
	for _, k := range sc.conns {
		srvMu.Lock()
		sv := srvs[k.id]
		srvMu.Unlock()
		// excused only if THIS connection's wrapper-side read hit the matching deadline, it never
		// reached the hand-over, and the wrapper closed it (what it does with a matching timeout)
		if sv != nil && timedOut(k.id) && sv.closes.Load() > 0 {
			res.timedOut[k.id] = true
		}
	}
	return res
}

// ---- oracle + case printing ---------------------------------------------------------------------

func vC13Coq(sc *vScen, res *vC13Result) string {
	var cs, es []string
	for _, k := range sc.conns {
		o := k.outcome()
		if o == "Hijack" && res.timedOut[k.id] {
			o = "Rejected" // matching timed out on this machine before the stream was complete
		}
		cs = append(cs, fmt.Sprintf("(%d,%s)", k.id, o))
	}
	for _, e := range res.hist {
		switch e.k {
		case "Arr":
			es = append(es, fmt.Sprintf("OArr %d", e.id))
		case "Del":
			if e.id < 0 {
				es = append(es, "ODel 0")
			} else {
				es = append(es, fmt.Sprintf("ODel %d", e.id))
			}
		case "Cls":
			es = append(es, fmt.Sprintf("OCls %d", e.id))
		case "AErr":
			es = append(es, "OAErr")
		case "Close":
			es = append(es, "OClose")
		}
	}
	return fmt.Sprintf("CHist %d [%s] [%s] %s", res.cap, strings.Join(cs, ";"), strings.Join(es, "; "), cBool(res.quiesced && len(res.stuck) == 0))
}

func vC13Oracle(out *vOut, sc *vScen, pl vC13Plan, res *vC13Result) (shape string, nontrivial bool) {
	in := func(extra map[string]any) map[string]any {
		m := map[string]any{"gomaxprocs": pl.procs, "plan": fmt.Sprintf("%+v", pl)}
		var ks []string
		for _, k := range sc.conns {
			ks = append(ks, fmt.Sprintf("%d:%c:%dB/%dsegs", k.id, k.kind, len(k.stream), len(k.segs)))
		}
		m["connections"] = ks
		var hs []string
		for _, e := range res.hist {
			hs = append(hs, fmt.Sprintf("%s%d", e.k, e.id))
		}
		m["history"] = strings.Join(hs, " ")
		for k, v := range extra {
			m[k] = v
		}
		return m
	}
	arr, del, cls := map[int]int{}, map[int]int{}, map[int]int{}
	closed := false
	for _, e := range res.hist {
		switch e.k {
		case "Arr":
			arr[e.id]++
		case "Del":
			del[e.id]++
		case "Cls":
			cls[e.id]++
		case "Close":
			closed = true
		}
	}
	nh, nn, pendingAtClose := 0, 0, false
	for _, k := range sc.conns {
		if arr[k.id] == 0 {
			continue
		}
		if k.hijack() && !res.timedOut[k.id] {
			nh++
			if del[k.id] > 1 {
				out.Fail("C13:handover:delivered-twice", fmt.Sprintf("connection %d was returned by Accept %d times", k.id, del[k.id]), in(map[string]any{"connection": k.id}))
			}
			if del[k.id] >= 1 && cls[k.id] >= 1 {
				out.Fail("C13:handover:closed-while-delivered", fmt.Sprintf("connection %d was returned by Accept and also closed by the wrapper", k.id), in(map[string]any{"connection": k.id}))
			}
			if del[k.id] == 0 && cls[k.id] == 0 && !res.blockedAccept {
				out.Fail("C13:handover:lost", fmt.Sprintf("connection %d fell through to the wrapped listener but was neither returned by Accept nor closed", k.id), in(map[string]any{"connection": k.id}))
			}
			if del[k.id] == 0 && cls[k.id] >= 1 {
				pendingAtClose = true
				if !closed {
					out.Fail("C13:handover:closed-not-delivered", fmt.Sprintf("connection %d should have been handed over but was closed although the listener was never closed", k.id), in(map[string]any{"connection": k.id}))
				}
			}
			if del[k.id] >= 1 {
				want := k.stream[k.consumed():]
				got := res.readBack[k.id]
				if string(got) != string(want) {
					at := 0
					for at < len(got) && at < len(want) && got[at] == want[at] {
						at++
					}
					g, w := got[at:], want[at:]
					if len(g) > 12 {
						g = g[:12]
					}
					if len(w) > 12 {
						w = w[:12]
					}
					out.Fail("C13:handover:stream-corrupted",
						fmt.Sprintf("connection %d: bytes read from the connection returned by Accept differ from the client's stream from its first unconsumed byte at offset %d (read %d of %d bytes, err=%q)", k.id, at, len(got), len(want), res.readErr[k.id]),
						in(map[string]any{"connection": k.id, "offset": at, "got": fmt.Sprintf("%x", g), "want": fmt.Sprintf("%x", w), "read_late": pl.readLate}))
				}
				if k.kind == 'S' {
					if !res.isTLS[k.id] || res.tlsName[k.id] != fmt.Sprintf("verif-%d", k.tag) {
						out.Fail("C13:handover:tls-state-missing", fmt.Sprintf("connection %d carried tls_connection_states but the connection returned by Accept exposes %q (tls=%v)", k.id, res.tlsName[k.id], res.isTLS[k.id]), in(map[string]any{"connection": k.id}))
					}
				} else if res.isTLS[k.id] {
					out.Fail("C13:handover:tls-state-spurious", fmt.Sprintf("connection %d had no TLS state but Accept returned a TLS connection", k.id), in(map[string]any{"connection": k.id}))
				}
			}
		} else {
			nn++
			if del[k.id] > 0 {
				out.Fail("C13:consumed:delivered", fmt.Sprintf("connection %d (kind %c: consumed or rejected by layer4) was returned by Accept", k.id, k.kind), in(map[string]any{"connection": k.id}))
			}
			if cls[k.id] == 0 && !res.blockedAccept {
				out.Fail("C13:consumed:not-closed", fmt.Sprintf("connection %d (kind %c: consumed or rejected by layer4) was never closed", k.id, k.kind), in(map[string]any{"connection": k.id}))
			}
		}
	}
	if del[-1] > 0 {
		out.Fail("C13:handover:foreign-connection", "Accept returned a connection that is not one of the accepted ones", in(nil))
	}
	if res.blockedAccept {
		out.Fail("C13:close:accept-after-close", "Accept did not return within 2 s after Close (it has to report closure even while consumed connections are still being served)", in(nil))
	}
	if res.afterQuiesceConn {
		out.Fail("C13:close:accept-after-close", "Accept returned a connection after the wrapper had shut down (channel closed)", in(nil))
	}
	if !res.quiesced || len(res.stuck) > 0 {
		out.Fail("C13:close:goroutine-stuck", fmt.Sprintf("after Close the wrapper did not shut down: quiesced=%v, goroutines left: %v", res.quiesced, res.stuck), in(map[string]any{"left": res.stuck}))
	}
	shape = fmt.Sprintf("h%d/n%d/close=%v/pend=%v/late=%v/p%d", min(nh, 3), min(nn, 3), pl.closeAfter >= 0 || pl.closeAtUs > 0, pendingAtClose, pl.readLate, pl.procs)
	nontrivial = (nh >= 1 && nn >= 1) || pendingAtClose
	return
}

func vC13Plan1(r *vRng) vC13Plan {
	pl := vC13Plan{procs: []int{1, 1, 2, 4, 16}[r.Intn(5)], closeAfter: -1}
	switch r.Intn(3) {
	case 0:
		pl.acceptDelay = []int{0}
	case 1:
		pl.acceptDelay = []int{r.Intn(2000), r.Intn(200), r.Intn(4000)}
	case 2:
		pl.acceptDelay = []int{r.Intn(300)}
		pl.startAccepts = 2000 + r.Intn(6000) // slow consumer: handlers pile up behind the channel
	}
	pl.readLate = r.Intn(2) == 0
	switch r.Intn(4) {
	case 0:
		pl.closeAfter = r.Intn(4)
	case 1:
		pl.closeAtUs = 200 + r.Intn(6000)
	}
	if r.Intn(5) == 0 {
		pl.tempErrs = 1 + r.Intn(3)
	}
	return pl
}

// the deterministic overlap: A falls through and is accepted but read late; B, C go through
// matching afterwards on the same P
func vC13Overlap() (*vScen, vC13Plan) {
	sc := &vScen{byID: map[int]*vScConn{}, byTag: map[int]*vScConn{}, release: make(chan struct{})}
	for i := 0; i < 4; i++ {
		k := &vScConn{id: i + 1, tag: int(vC13Tag.Add(1)) & 0x7fff, kind: 'F', startUs: i * 1500}
		k.stream = vC13Stream('F', k.tag, 64)
		k.segs = []int{64}
		sc.add(k)
	}
	return sc, vC13Plan{procs: 1, closeAfter: -1, readLate: true, acceptDelay: []int{0}}
}

// n fall-through connections against a channel of capacity procs, none accepted before all of
// them are queued in connChan or blocked in the send; then Close before any Accept (mode 0), after
// one Accept (mode 1), or concurrently with the first Accept (mode 2); the consumer keeps calling
// Accept until the first ErrClosed.  Every connection must end up returned by Accept XOR closed.
func vC13PendingAtClose(procs, n, mode int) (*vScen, vC13Plan) {
	sc := &vScen{byID: map[int]*vScConn{}, byTag: map[int]*vScConn{}, release: make(chan struct{})}
	for i := 0; i < n; i++ {
		k := &vScConn{id: i + 1, tag: int(vC13Tag.Add(1)) & 0x7fff, kind: 'F', startUs: i * 50}
		k.stream = vC13Stream('F', k.tag, 24+i)
		k.segs = []int{len(k.stream)}
		sc.add(k)
	}
	pl := vC13Plan{procs: procs, closeAfter: 0, holdUntilQueued: true, acceptDelay: []int{0}}
	switch mode {
	case 1:
		pl.closeAfter = 1
	case 2:
		pl.closeAfter = -1
		pl.closeConcurrent = true
	}
	return sc, pl
}

// the same with a first connection whose first prefetch fills the pooled chunk exactly (len == cap)
func vC13OverlapBoundary() (*vScen, vC13Plan) {
	sc, pl := vC13Overlap()
	k := sc.conns[0]
	k.stream = vC13Stream('F', k.tag, prefetchChunkSize+300)
	k.segs = []int{len(k.stream)}
	return sc, pl
}

// one connection per multi-matcher route plus a plain fall-through one, segmented so that the
// sets are evaluated over several prefetches
func vC13MultiMatcher() (*vScen, vC13Plan) {
	sc := &vScen{byID: map[int]*vScConn{}, byTag: map[int]*vScConn{}, release: make(chan struct{})}
	for i, kind := range []byte{'M', 'P', 'Q', 'F'} {
		k := &vScConn{id: i + 1, tag: int(vC13Tag.Add(1)) & 0x7fff, kind: kind, startUs: i * 300}
		k.stream = vC13Stream(kind, k.tag, 40+7*i)
		k.segs = []int{2, 3, len(k.stream) - 5}
		k.gapUs = 100
		sc.add(k)
	}
	// a stream that takes the matching buffer beyond MaxMatchingBytes with unaligned segments, and
	// a connection that goes silent after a non-terminal match
	g := &vScConn{id: 5, tag: int(vC13Tag.Add(1)) & 0x7fff, kind: 'G', startUs: 1200}
	g.stream = vC13Stream('G', g.tag, MaxMatchingBytes+2500)
	g.segs = []int{100}
	for rest := len(g.stream) - 100; rest > 0; rest -= min(rest, prefetchChunkSize) {
		g.segs = append(g.segs, min(rest, prefetchChunkSize))
	}
	sc.add(g)
	q := &vScConn{id: 6, tag: int(vC13Tag.Add(1)) & 0x7fff, kind: 'K', startUs: 1500}
	q.stream = vC13Stream('K', q.tag, vC13Prefix+2)
	q.segs = []int{len(q.stream)}
	sc.add(q)
	// 'U' streams (non-terminal route, then the terminal route on what is left), whole and split so
	// that the terminal route sees the raw bytes first; a 'D' stream whose client is still sending
	// long after matching ended
	for i, first := range []int{0, vC13Need, vC13Need + 1} {
		u := &vScConn{id: 7 + i, tag: int(vC13Tag.Add(1)) & 0x7fff, kind: 'U', startUs: 1700 + 100*i, gapUs: 400}
		u.stream = vC13Stream('U', u.tag, 40)
		u.stream[vC13Prefix], u.stream[vC13Prefix+1], u.stream[vC13Prefix+2] = 'T', byte(u.tag>>8), byte(u.tag)
		if first == 0 {
			u.segs = []int{40}
		} else {
			u.segs = []int{first, 40 - first}
		}
		sc.add(u)
	}
	dd := &vScConn{id: 10, tag: int(vC13Tag.Add(1)) & 0x7fff, kind: 'D', startUs: 2000, tailUs: 230000}
	dd.stream = vC13Stream('D', dd.tag, 48)
	dd.segs = []int{vC13Prefix + 2, 48 - vC13Prefix - 2 - 8, 8}
	sc.add(dd)
	return sc, vC13Plan{procs: 2, closeAfter: -1, readLate: false, acceptDelay: []int{100}}
}

// ---- accept-and-close at once (run in a child process: a panic kills the process) ---------------

// hands out one connection, then fails for good (the listener was closed right after the accept)
type vOnceListener struct {
	c    net.Conn
	gave atomic.Bool
}

func (l *vOnceListener) Accept() (net.Conn, error) {
	if l.gave.CompareAndSwap(false, true) {
		return l.c, nil
	}
	return nil, net.ErrClosed
}
func (l *vOnceListener) Close() error   { return nil }
func (l *vOnceListener) Addr() net.Addr { return vAddr("once") }

func TestVerifC13PanicChild(t *testing.T) {
	if os.Getenv("VERIF_C13_CHILD") != "1" {
		t.Skip("child of TestVerifC13")
	}
	runtime.GOMAXPROCS(1)
	okRounds := 0
	for round := 0; round < 80; round++ {
		sc := &vScen{byID: map[int]*vScConn{}, byTag: map[int]*vScConn{}, release: make(chan struct{})}
		k := &vScConn{id: 1, tag: int(vC13Tag.Add(1)) & 0x7fff, kind: 'F'}
		k.stream = vC13Stream('F', k.tag, 32)
		sc.add(k)
		cl, sv := net.Pipe()
		h := &vHist{}
		srv := &vSrvConn{Conn: sv, id: 1, h: h}
		go func() {
			_ = cl.SetWriteDeadline(time.Now().Add(2 * time.Second))
			_, _ = cl.Write(k.stream)
			_ = cl.SetReadDeadline(time.Now().Add(2 * time.Second))
			_, _ = io.Copy(io.Discard, cl)
			_ = cl.Close()
		}()
		lw := &ListenerWrapper{logger: zap.NewNop()}
		if round%2 == 0 {
			// no routes: the connection goes straight to the listener handler
			lw.compiledRoute = RouteList{}.Compile(lw.logger, time.Second, listenerHandler{})
		} else {
			lw.compiledRoute = vC13Routes(sc).Compile(lw.logger, time.Second, listenerHandler{})
		}
		ln := lw.WrapListener(&vOnceListener{c: srv})
		if round%4 >= 2 {
			runtime.Gosched()
		}
		// the consumer: whatever Accept says, the connection must end up delivered or closed
		c, err := ln.Accept()
		fate := make(chan struct{})
		go func() {
			defer close(fate)
			if err == nil && c != nil {
				srv.released.Store(true)
				_ = c.Close()
				return
			}
			for t0 := time.Now(); time.Since(t0) < 2*time.Second; time.Sleep(200 * time.Microsecond) {
				if srv.closes.Load() > 0 {
					return
				}
				if c2, err2 := ln.Accept(); err2 == nil && c2 != nil {
					srv.released.Store(true)
					_ = c2.Close()
					return
				}
			}
			fmt.Println("VERIF-C13-CHILD-LOST")
		}()
		<-fate
		okRounds++
	}
	fmt.Printf("VERIF-C13-CHILD-OK %d\n", okRounds)
}

func vC13AcceptAndClose(out *vOut) {
	cmd := exec.Command(os.Args[0], "-test.run=^TestVerifC13PanicChild$", "-test.count=1", "-test.timeout=120s")
	cmd.Env = append(os.Environ(), "VERIF_C13_CHILD=1", "VERIF_OUT=/dev/null")
	b, err := cmd.CombinedOutput()
	tail := b
	if i := bytes.Index(b, []byte("panic:")); i >= 0 {
		tail = b[i:]
	}
	if len(tail) > 1800 {
		tail = tail[:1800]
	}
	in := map[string]any{"scenario": "GOMAXPROCS(1), an in-memory listener that hands out one fall-through connection and then reports closure; 80 rounds, with and without routes", "child_output": string(tail)}
	switch {
	case bytes.Contains(b, []byte("send on closed channel")):
		out.Fail("C13:close:panic-send-on-closed-channel", "a connection accepted at the instant the listener is closed made the wrapper panic: pipeConnection sent on connChan after the shutdown goroutine had closed it", in)
	case bytes.Contains(b, []byte("panic:")):
		out.Fail("C13:close:panic", "the wrapper panicked when a connection was accepted at the instant the listener is closed", in)
	case bytes.Contains(b, []byte("VERIF-C13-CHILD-LOST")):
		out.Fail("C13:handover:lost", "a connection accepted at the instant the listener is closed was neither delivered nor closed", in)
	case err != nil || !bytes.Contains(b, []byte("VERIF-C13-CHILD-OK")):
		out.Fail("C13:close:child-failed", fmt.Sprintf("the accept-and-close child did not complete: %v", err), in)
	default:
		out.Stat("accept_and_close_rounds", 80)
	}
}

func TestVerifC13(t *testing.T) {
	out := vOpen()
	defer out.Close()
	seed := vSeed()
	n := vN(40)
	r := vNewRng(seed)
	var slow time.Duration
	loadTimeouts := 0
	run := func(sc *vScen, pl vC13Plan, cls string) {
		t0 := time.Now()
		defer func() {
			if d := time.Since(t0); d > slow {
				slow = d
				out.Stat("slowest_scenario_ms", d.Milliseconds())
			}
		}()
		res := vC13Run(sc, pl)
		if len(res.timedOut) > 0 {
			loadTimeouts += len(res.timedOut)
			out.Stat("matching_timeouts_before_handover", loadTimeouts)
		}
		shape, nt := vC13Oracle(out, sc, pl, res)
		out.Case(vC13Coq(sc, res), cls+"/"+shape, nt, nil)
	}
	sc, pl := vC13Overlap()
	run(sc, pl, "overlap")
	sc, pl = vC13OverlapBoundary()
	run(sc, pl, "overlap-boundary")
	sc, pl = vC13MultiMatcher()
	run(sc, pl, "multi-matcher-sets")
	for _, procs := range []int{1, 2, 4} {
		for _, n := range []int{procs, procs + 1, procs + 3} {
			for mode := 0; mode < 3; mode++ {
				sc, pl = vC13PendingAtClose(procs, n, mode)
				run(sc, pl, fmt.Sprintf("pending-at-close/mode%d", mode))
			}
		}
	}
	vC13AcceptAndClose(out)
	for i := 0; i < n; i++ {
		sc := vC13Gen(r)
		pl := vC13Plan1(r)
		run(sc, pl, "random")
	}
}
