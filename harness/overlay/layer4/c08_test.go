package layer4

// C08 engine (package layer4, white-box):
//
//  (a) lock-step: single-goroutine schedules of several connections on the REAL bufPool,
//      WrapConnection, prefetch, MatchingBytes and Read, with the pool's choices and append's
//      capacities observed (array identity by base pointer); printed as CPool cases and replayed
//      on model/Pool.v inside Coq.  Life cycle kind 0 = Put only when the connection does not
//      live on (what Server.handle / listener.handle do), kind 1 = Put always (the defect fixed
//      by f83061f, emulated here to validate the model of the defect against real memory).
//  (b) stress: 64..512 simultaneous connections with self-identifying streams through the real
//      Server.handle and through the real ListenerWrapper with delayed Accept and late reads,
//      GOMAXPROCS in {1,4,16}; every byte a matcher, handler or the wrapped listener's consumer
//      sees must carry the connection's own id.
//      keys C08:pool:cross-talk-server, C08:pool:cross-talk-listener
//  (c) the access discipline evaluated on the regenerated coq/gen/Access.v: every location the
//      discipline flags is reported as C08:race:<location> (recorded findings are printed as
//      KNOWN-FINDING by the driver, anything else is a violation); CLoc cases tie this
//      evaluation to the one inside Coq.

import (
	"bufio"
	"fmt"
	"io"
	"net"
	"os"
	"path/filepath"
	"regexp"
	"runtime"
	"sort"
	"strings"
	"sync"
	"sync/atomic"
	"testing"
	"time"
	"unsafe"

	"go.uber.org/zap"
)

// ---- (a) lock-step ------------------------------------------------------------------------------

type vScriptConn struct {
	next  []byte
	lastP *byte
	reads int
}

func (c *vScriptConn) Read(p []byte) (int, error) {
	c.reads++
	c.lastP = unsafe.SliceData(p)
	n := copy(p, c.next)
	c.next = nil
	return n, nil
}
func (c *vScriptConn) Write(b []byte) (int, error)      { return len(b), nil }
func (c *vScriptConn) Close() error                     { return nil }
func (c *vScriptConn) LocalAddr() net.Addr              { return vAddr8("local") }
func (c *vScriptConn) RemoteAddr() net.Addr             { return vAddr8("remote") }
func (c *vScriptConn) SetDeadline(time.Time) error      { return nil }
func (c *vScriptConn) SetReadDeadline(time.Time) error  { return nil }
func (c *vScriptConn) SetWriteDeadline(time.Time) error { return nil }

// a byte string run-length encoded as a Coq list of (value, count) pairs
func vRle(b []byte) string {
	var parts []string
	for i := 0; i < len(b); {
		j := i
		for j < len(b) && b[j] == b[i] {
			j++
		}
		parts = append(parts, fmt.Sprintf("(%d,%d)", b[i], j-i))
		i = j
	}
	return "[" + strings.Join(parts, ";") + "]"
}

type vAddr8 string

func (a vAddr8) Network() string { return "verif" }
func (a vAddr8) String() string  { return string(a) }

type vLsConn struct {
	id    int
	sc    *vScriptConn
	cx    *Connection
	buf0  []byte
	state int // 0 not started, 1 handling, 2 handed over, 3 done
	got   []byte
	tag   byte
	// made by Wrap from another connection: starts without a buffer, never returns anything to
	// the pool itself, but is matched (prefetched) again like a connection behind a tls handler
	wrapped bool
}

func vLockstep(r *vRng, kind int) (coq string, nontrivial bool, cls string) {
	var free []*byte // mirror of the pool, most recently put first
	find := func(p *byte) int {
		for i, q := range free {
			if q == p {
				return i
			}
		}
		return -1
	}
	put := func(p *byte) { free = append([]*byte{p}, free...) }
	take := func(i int) { free = append(free[:i:i], free[i+1:]...) }
	kOf := func(i int) string {
		if i < 0 {
			return "None"
		}
		return fmt.Sprintf("(Some %d)", i)
	}

	n := 2 + r.Intn(4)
	conns := make([]*vLsConn, n)
	for i := range conns {
		conns[i] = &vLsConn{id: i + 1, sc: &vScriptConn{}, tag: byte('A' + i)}
	}
	var evs []string
	reuse, grew, late, forked := false, false, false, false
	steps := 12 + r.Intn(40)
	for s := 0; s < steps; s++ {
		c := conns[r.Intn(n)]
		switch c.state {
		case 0:
			b := bufPool.Get().([]byte)
			b = b[:0]
			p := unsafe.SliceData(b[:1])
			i := find(p)
			if i >= 0 {
				take(i)
				reuse = true
			}
			c.buf0 = b
			c.cx = WrapConnection(c.sc, b, zap.NewNop())
			c.state = 1
			evs = append(evs, fmt.Sprintf("ZGet %d %s", c.id, kOf(i)))
		case 1, 2:
			if c.state == 1 && !c.wrapped && len(conns) < 8 && r.Intn(10) == 0 {
				w := &vLsConn{id: len(conns) + 1, sc: &vScriptConn{}, state: 2, wrapped: true}
				w.cx = c.cx.Wrap(w.sc)
				conns = append(conns, w)
				n = len(conns)
				forked = true
				evs = append(evs, fmt.Sprintf("ZFork %d %d", c.id, w.id))
				continue
			}
			op := r.Intn(10)
			switch {
			case op < 4 && (c.state == 1 || c.wrapped): // prefetch
				var ln int
				switch r.Intn(12) {
				case 0:
					ln = 2048
				case 1:
					ln = 2048 + r.Intn(600) // more than the chunk: truncated by the read
				case 2, 3:
					ln = 1000 + r.Intn(1048)
				default:
					ln = 1 + r.Intn(90)
				}
				// one byte value per (connection, prefetch): foreign or misplaced bytes show up as wrong runs
				data := make([]byte, ln)
				for j := range data {
					data[j] = byte(c.id<<5) | byte(s&31)
				}
				c.sc.next = data
				lenB, capB := len(c.cx.buf), cap(c.cx.buf)
				var baseB *byte
				if cap(c.cx.buf) > 0 {
					baseB = unsafe.SliceData(c.cx.buf[:1])
				}
				rd := c.sc.reads
				_ = c.cx.prefetch()
				k, newcap := -1, 0
				if c.sc.reads > rd {
					// the same test prefetch makes: enough room behind len to read a whole chunk in place
					inPlace := capB-lenB >= prefetchChunkSize
					if !inPlace {
						k = find(c.sc.lastP)
						if k >= 0 {
							take(k)
						}
						put(c.sc.lastP)
					}
					if cap(c.cx.buf) > 0 && unsafe.SliceData(c.cx.buf[:1]) != baseB {
						newcap = cap(c.cx.buf)
						grew = true
					}
				}
				c.sc.next = nil
				evs = append(evs, fmt.Sprintf("ZPrefetch %d %s %s %d", c.id, vRle(data), kOf(k), newcap))
			case op < 6: // peek
				c.got = append(c.got, c.cx.MatchingBytes()...)
				evs = append(evs, fmt.Sprintf("ZPeek %d", c.id))
			case op < 9: // read
				if c.cx.offset < len(c.cx.buf) {
					want := 1 + r.Intn(len(c.cx.buf)-c.cx.offset+3)
					p := make([]byte, want)
					m, _ := c.cx.Read(p)
					c.got = append(c.got, p[:m]...)
					evs = append(evs, fmt.Sprintf("ZRead %d %d", c.id, want))
					if c.state == 2 {
						late = true
					}
				}
			default:
				if c.state == 1 {
					hij := r.Intn(2) == 0
					if !hij || kind == 1 {
						bufPool.Put(c.buf0)
						put(unsafe.SliceData(c.buf0[:1]))
					}
					if hij {
						c.state = 2
					} else {
						c.state = 3
					}
					evs = append(evs, fmt.Sprintf("ZReturn %d %s", c.id, cBool(hij)))
				} else {
					c.state = 3
					evs = append(evs, fmt.Sprintf("ZEnd %d", c.id))
				}
			}
		case 3:
			// finished connections are not touched any more
		}
	}
	// late reads of everything still buffered in handed-over connections
	for _, c := range conns {
		if c.state == 2 && c.cx.offset < len(c.cx.buf) {
			want := len(c.cx.buf) - c.cx.offset
			p := make([]byte, want)
			m, _ := c.cx.Read(p)
			c.got = append(c.got, p[:m]...)
			evs = append(evs, fmt.Sprintf("ZRead %d %d", c.id, want))
			late = true
		}
	}
	// leave the pool clean for the next schedule: arrays still held are simply dropped
	var seen []string
	for _, c := range conns {
		seen = append(seen, fmt.Sprintf("(%d, %s)", c.id, vRle(c.got)))
	}
	cls = fmt.Sprintf("lockstep/kind%d/reuse=%v/grew=%v/late=%v/wrapped=%v", kind, reuse, grew, late, forked)
	return fmt.Sprintf("CPool %d [%s] [%s]", kind, strings.Join(evs, "; "), strings.Join(seen, "; ")), reuse, cls
}

// ---- (b) stress ---------------------------------------------------------------------------------
//
// Stream of connection id with kind k: byte 0 is the kind letter, byte 8 is 'w' for kind 'W',
// every other byte is the high/low byte of the id.  Routes (same shape for Server and listener):
//
//   r0  kind 'A'  terminal (Server) / not present (listener)
//   r1  kind 'W'  non-terminal: consumes 8 bytes, continues with cx.Wrap(pass-through conn): the
//                 wrapped Connection starts without a buffer and is matched AGAIN (prefetch through
//                 the temporary pooled chunk)
//   r2  second stage, matches a stream starting with 'w' (only what is left of a 'W' stream does)
//   r3  kind 'B'  terminal
//   fallback      kinds 'Z' (Server: recorded; listener: handed over)
//
// Every client sends 4 bytes, pauses, then the rest, so that every connection goes through a
// "needs more" pass while the others are being matched.  Checked: every byte seen by a matcher
// (its reads and the MatchingBytes window), by the handlers and by the wrapped listener's consumer
// is the connection's own, and every connection is handled by the route its own stream selects.

type vStressConn struct {
	net.Conn
	id   int
	kind byte
}

type vPass struct{ net.Conn } // reads through the wrapped *Connection

const vStressNeed = 8

func vStressByte(id int, kind byte, i int) byte {
	switch {
	case i == 0:
		return kind
	case i == 8 && kind == 'W':
		return 'w'
	case i%2 == 1:
		return byte(id>>8) | 0x80
	}
	return byte(id) | 0x80
}

func vStressStream(id int, kind byte, n int) []byte {
	b := make([]byte, n)
	for i := range b {
		b[i] = vStressByte(id, kind, i)
	}
	return b
}

// first index at which b (the stream from offset off on) is not the connection's stream
func vStressCheck(id int, kind byte, off int, b []byte) int {
	for i := range b {
		if b[i] != vStressByte(id, kind, off+i) {
			return i
		}
	}
	return -1
}

// who is behind cx and at which stream offset its buffer starts (8 once wrapped by r1)
func vStressWho(cx *Connection) (id int, kind byte, base int, ok bool) {
	switch c := cx.Conn.(type) {
	case *vStressConn:
		return c.id, c.kind, 0, true
	case *vSrvConn:
		return c.id, byte(c.kindTag), 0, true
	case vPass:
		if in, ok2 := c.Conn.(*Connection); ok2 {
			id, kind, _, ok = vStressWho(in)
			return id, kind, vStressNeed, ok
		}
	}
	return 0, 0, 0, false
}

type vStressMatcher struct {
	want byte
	bad  *atomic.Int64
}

func (m vStressMatcher) Match(cx *Connection) (bool, error) {
	start := cx.offset
	b := make([]byte, vStressNeed)
	if _, err := io.ReadFull(cx, b); err != nil {
		return false, err
	}
	if id, kind, base, ok := vStressWho(cx); ok {
		if vStressCheck(id, kind, base+start, b) >= 0 || vStressCheck(id, kind, base+cx.offset, cx.MatchingBytes()) >= 0 {
			m.bad.Add(1)
		}
	}
	return b[0] == m.want, nil
}

type vStressRes struct {
	checked, bad, reused, wrongVerdict int
	first, firstVerdict                string
}

func vStressRoutes(bad *atomic.Int64, withA bool, terminal func(name string) NextHandler) RouteList {
	mk := func(want byte, h NextHandler) *Route {
		return &Route{matcherSets: MatcherSets{{vStressMatcher{want, bad}}}, middleware: []Middleware{wrapHandler(h)}}
	}
	wrap := NextHandlerFunc(func(cx *Connection, next Handler) error {
		if _, err := io.ReadFull(cx, make([]byte, vStressNeed)); err != nil {
			return err
		}
		return next.Handle(cx.Wrap(vPass{cx}))
	})
	rl := RouteList{}
	if withA {
		rl = append(rl, mk('A', terminal("A")))
	} else {
		rl = append(rl, mk('a', terminal("never")))
	}
	return append(rl, mk('W', wrap), mk('w', terminal("W2")), mk('B', terminal("B")))
}

var vStressKinds = []byte{'A', 'W', 'B', 'Z', 'W', 'A'}

func vStressClient(cl net.Conn, st []byte) {
	_ = cl.SetWriteDeadline(time.Now().Add(8 * time.Second))
	if len(st) > prefetchChunkSize {
		// one write: the first prefetch fills the pooled chunk exactly (len == cap), the rest stays
		// in the socket until the handler / the wrapped listener's consumer reads it
		_, _ = cl.Write(st)
	} else if _, err := cl.Write(st[:4]); err == nil {
		time.Sleep(100 * time.Microsecond)
		_, _ = cl.Write(st[4:])
	}
	_ = cl.SetReadDeadline(time.Now().Add(8 * time.Second))
	_, _ = io.Copy(io.Discard, cl)
	_ = cl.Close()
}

func vStressServer(procs, nconn, ln int, r *vRng) vStressRes {
	old := runtime.GOMAXPROCS(procs)
	defer runtime.GOMAXPROCS(old)
	var matcherBad atomic.Int64
	var mu sync.Mutex
	res := vStressRes{}
	bases := map[*byte]int{}
	verdict := map[int]string{}
	terminal := func(name string) NextHandler {
		return NextHandlerFunc(func(cx *Connection, _ Handler) error {
			id, kind, base, _ := vStressWho(cx)
			mu.Lock()
			verdict[id] = name
			if cap(cx.buf) > 0 {
				bases[unsafe.SliceData(cx.buf[:1])]++
			}
			mu.Unlock()
			time.Sleep(time.Duration(id%7) * 150 * time.Microsecond)
			buf := make([]byte, ln-base)
			_ = cx.SetReadDeadline(time.Now().Add(5 * time.Second))
			n, _ := io.ReadFull(cx, buf)
			at := vStressCheck(id, kind, base, buf[:n])
			mu.Lock()
			res.checked++
			if at >= 0 || n != ln-base {
				res.bad++
				if res.first == "" {
					a := max(at, 0)
					res.first = fmt.Sprintf("connection %d (kind %c, route %s) read %d of %d bytes, first foreign byte at stream offset %d: got %x want %x", id, kind, name, n, ln-base, base+at, buf[a:min(a+8, n)], vStressStream(id, kind, ln)[base+a:min(base+a+8, ln)])
				}
			}
			mu.Unlock()
			return nil
		})
	}
	s := &Server{logger: zap.NewNop()}
	fallback := HandlerFunc(func(cx *Connection) error {
		id, _, _, _ := vStressWho(cx)
		mu.Lock()
		verdict[id] = "fallback"
		res.checked++
		mu.Unlock()
		return nil
	})
	s.compiledRoute = vStressRoutes(&matcherBad, true, terminal).Compile(s.logger, 5*time.Second, fallback)
	var hw, cw sync.WaitGroup
	kinds := map[int]byte{}
	for i := 0; i < nconn; i++ {
		id := 0x0101 + i
		kind := vStressKinds[r.Intn(len(vStressKinds))]
		kinds[id] = kind
		cl, sv := net.Pipe()
		hw.Add(1)
		go func() { defer hw.Done(); s.handle(&vStressConn{Conn: sv, id: id, kind: kind}) }()
		cw.Add(1)
		go func() { defer cw.Done(); vStressClient(cl, vStressStream(id, kind, ln)) }()
		if i%8 == 7 {
			runtime.Gosched()
		}
	}
	hw.Wait()
	cw.Wait()
	res.bad += int(matcherBad.Load())
	if matcherBad.Load() > 0 && res.first == "" {
		res.first = fmt.Sprintf("%d matcher evaluations saw bytes that are not the connection's own", matcherBad.Load())
	}
	want := map[byte]string{'A': "A", 'W': "W2", 'B': "B", 'Z': "fallback"}
	for id, k := range kinds {
		if verdict[id] != want[k] {
			res.wrongVerdict++
			if res.firstVerdict == "" {
				res.firstVerdict = fmt.Sprintf("connection %d with a kind-%c stream was handled by %q, alone it is handled by %q", id, k, verdict[id], want[k])
			}
		}
	}
	for _, c := range bases {
		if c > 1 {
			res.reused += c - 1
		}
	}
	return res
}

func vStressListener(procs, nconn, ln int, r *vRng) vStressRes {
	old := runtime.GOMAXPROCS(procs)
	defer runtime.GOMAXPROCS(old)
	var matcherBad atomic.Int64
	res := vStressRes{}
	h := &vHist{}
	inner := &vInner{ch: make(chan *vSrvConn), tmp: make(chan struct{}, 1), closed: make(chan struct{}), h: h}
	lw := &ListenerWrapper{logger: zap.NewNop()}
	never := func(name string) NextHandler {
		return NextHandlerFunc(func(cx *Connection, next Handler) error { return next.Handle(cx) })
	}
	// no terminal route matches 'F' or what is left of a 'W' stream after its second stage fails:
	// kinds F and V fall through to the wrapped listener, V after having been re-wrapped and re-matched
	lw.compiledRoute = RouteList{
		&Route{matcherSets: MatcherSets{{vStressMatcher{'a', &matcherBad}}}, middleware: []Middleware{wrapHandler(never("a"))}},
		&Route{matcherSets: MatcherSets{{vStressMatcher{'V', &matcherBad}}}, middleware: []Middleware{wrapHandler(NextHandlerFunc(func(cx *Connection, next Handler) error {
			if _, err := io.ReadFull(cx, make([]byte, vStressNeed)); err != nil {
				return err
			}
			return next.Handle(cx.Wrap(vPass{cx}))
		}))}},
		&Route{matcherSets: MatcherSets{{vStressMatcher{'b', &matcherBad}}}, middleware: []Middleware{wrapHandler(never("b"))}},
	}.Compile(lw.logger, 5*time.Second, listenerHandler{})
	ln2 := lw.WrapListener(inner)
	var cw sync.WaitGroup
	for i := 0; i < nconn; i++ {
		id := 0x0201 + i
		kind := []byte{'F', 'V', 'F'}[r.Intn(3)]
		cl, sv := net.Pipe()
		srv := &vSrvConn{Conn: sv, id: id, h: h, kindTag: int(kind)}
		cw.Add(1)
		go func() {
			defer cw.Done()
			inner.ch <- srv
			vStressClient(cl, vStressStream(id, kind, ln))
		}()
	}
	// slow consumer: accept everything first (with small pauses), read afterwards
	type acc struct {
		c        net.Conn
		sv       *vSrvConn
		id, base int
		kind     byte
	}
	var accepted []acc
	bases := map[*byte]int{}
	type ares struct {
		c   net.Conn
		err error
	}
	for len(accepted) < nconn {
		// a connection that is not handed over (wrong verdict, matching failure) must not hang the run
		ach := make(chan ares, 1)
		go func() { c, err := ln2.Accept(); ach <- ares{c, err} }()
		var c net.Conn
		var err error
		select {
		case a := <-ach:
			c, err = a.c, a.err
		case <-time.After(6 * time.Second):
			err = fmt.Errorf("no further connection handed over")
		}
		if err != nil {
			break
		}
		cx, _ := c.(*Connection)
		if cx == nil {
			continue
		}
		id, kind, base, ok := vStressWho(cx)
		if !ok {
			continue
		}
		var sv *vSrvConn
		for in := cx; in != nil; {
			if v, ok := in.Conn.(*vSrvConn); ok {
				sv = v
				break
			}
			if p, ok := in.Conn.(vPass); ok {
				in, _ = p.Conn.(*Connection)
			} else {
				break
			}
		}
		if cap(cx.buf) > 0 {
			bases[unsafe.SliceData(cx.buf[:1])]++
		}
		accepted = append(accepted, acc{c, sv, id, base, kind})
		if len(accepted)%5 == 0 {
			time.Sleep(200 * time.Microsecond)
		}
	}
	time.Sleep(2 * time.Millisecond)
	var rw sync.WaitGroup
	var mu sync.Mutex
	for _, a := range accepted {
		rw.Add(1)
		go func(a acc) {
			defer rw.Done()
			buf := make([]byte, ln-a.base)
			_ = a.c.SetReadDeadline(time.Now().Add(5 * time.Second))
			n, _ := io.ReadFull(a.c, buf)
			at := vStressCheck(a.id, a.kind, a.base, buf[:n])
			mu.Lock()
			res.checked++
			if at >= 0 || n != ln-a.base {
				res.bad++
				if res.first == "" {
					x := max(at, 0)
					res.first = fmt.Sprintf("connection %d (kind %c) handed over to the wrapped listener read %d of %d bytes, first foreign byte at stream offset %d: got %x want %x", a.id, a.kind, n, ln-a.base, a.base+at, buf[x:min(x+8, n)], vStressStream(a.id, a.kind, ln)[a.base+x:min(a.base+x+8, ln)])
				}
			}
			mu.Unlock()
			if a.sv != nil {
				a.sv.released.Store(true)
			}
			_ = a.c.Close()
		}(a)
	}
	rw.Wait()
	_ = ln2.Close()
	cw.Wait()
	res.bad += int(matcherBad.Load())
	if matcherBad.Load() > 0 && res.first == "" {
		res.first = fmt.Sprintf("%d matcher evaluations saw bytes that are not the connection's own", matcherBad.Load())
	}
	for _, c := range bases {
		if c > 1 {
			res.reused += c - 1
		}
	}
	return res
}

// ---- (c) access discipline ----------------------------------------------------------------------

type vAcc struct {
	loc, fn, kind string
	many          bool
}

func vFindAccessV() string {
	var cands []string
	if d := os.Getenv("VERIF_COQ_DIR"); d != "" {
		cands = append(cands, filepath.Join(d, "gen", "Access.v"))
	}
	if o := os.Getenv("VERIF_OUT"); o != "" {
		b := filepath.Dir(filepath.Dir(o)) // <build>
		cands = append(cands, filepath.Join(b, "coq", "gen", "Access.v"), filepath.Join(filepath.Dir(b), "coq", "gen", "Access.v"))
	}
	cands = append(cands, "/verif/coq/gen/Access.v")
	for _, c := range cands {
		if _, err := os.Stat(c); err == nil {
			return c
		}
	}
	return ""
}

func vReadAccess(path string) ([]vAcc, error) {
	f, err := os.Open(path)
	if err != nil {
		return nil, err
	}
	defer f.Close()
	re := regexp.MustCompile(`a_loc := "([^"]*)"; a_fn := "([^"]*)"; a_kind := (\w+); a_many := (\w+)`)
	var out []vAcc
	sc := bufio.NewScanner(f)
	sc.Buffer(make([]byte, 1<<20), 1<<20)
	for sc.Scan() {
		if m := re.FindStringSubmatch(sc.Text()); m != nil {
			out = append(out, vAcc{m[1], m[2], m[3], m[4] == "true"})
		}
	}
	return out, sc.Err()
}

func vCompat(a, b string) bool {
	return (a == "AAtomic" && b == "AAtomic") || (a == "ARead" && b == "ARead")
}

func vDiscipline(out *vOut) {
	path := vFindAccessV()
	if path == "" {
		out.Fail("C08:discipline:table-not-found", "coq/gen/Access.v was not found by the engine", nil)
		return
	}
	tab, err := vReadAccess(path)
	if err != nil || len(tab) == 0 {
		out.Fail("C08:discipline:table-not-found", fmt.Sprintf("cannot read %s: %v (%d entries)", path, err, len(tab)), nil)
		return
	}
	by := map[string][]vAcc{}
	var locs []string
	for _, a := range tab {
		if _, ok := by[a.loc]; !ok {
			locs = append(locs, a.loc)
		}
		by[a.loc] = append(by[a.loc], a)
	}
	sort.Strings(locs)
	flagged := 0
	for _, l := range locs {
		ok := true
		var why []string
		for _, a := range by[l] {
			for _, b := range by[l] {
				conc := a.fn != b.fn || a.many || b.many
				if conc && !vCompat(a.kind, b.kind) {
					ok = false
					why = append(why, fmt.Sprintf("%s in %s (many=%v) || %s in %s (many=%v)", a.kind, a.fn, a.many, b.kind, b.fn, b.many))
				}
			}
		}
		out.Case(fmt.Sprintf("CLoc %q %s", l, cBool(ok)), "discipline/ok="+cBool(ok), !ok || len(by[l]) > 1, nil)
		if !ok {
			flagged++
			sort.Strings(why)
			if len(why) > 4 {
				why = why[:4]
			}
			out.Fail("C08:race:"+l, "accesses to "+l+" from concurrently running threads are neither all atomic nor all reads", map[string]any{"location": l, "conflicting_sites": why, "source": "static access table (coq/gen/Access.v)"})
		}
	}
	// package-level sync.Pool variables
	if b, err := os.ReadFile(path); err == nil {
		txt := string(b)
		if i := strings.Index(txt, "Definition shared_pools"); i >= 0 {
			known := map[string]bool{"layer4.bufPool": true, "layer4.udpBufPool": true}
			for _, m := range regexp.MustCompile(`"([^"]+)"`).FindAllStringSubmatch(txt[i:], -1) {
				out.Case(fmt.Sprintf("CSharedPool %q %s", m[1], cBool(known[m[1]])), "shared-pool/known="+cBool(known[m[1]]), true, nil)
				if !known[m[1]] {
					out.Fail("C08:shared:"+m[1], "package-level sync.Pool "+m[1]+": its objects pass from one connection to the next, and nothing shows that they carry no per-connection state",
						map[string]any{"pool": m[1], "source": "coq/gen/Access.v (shared_pools)"})
				}
			}
		}
	}
	out.Stat("discipline.locations", len(locs))
	out.Stat("discipline.entries", len(tab))
	out.Stat("discipline.flagged", flagged)
}

// ---- driver -------------------------------------------------------------------------------------

func TestVerifC08(t *testing.T) {
	out := vOpen()
	defer out.Close()
	seed := vSeed()
	r := vNewRng(seed)

	// (a)
	n := vN(150)
	for i := 0; i < n; i++ {
		kind := 0
		if i%4 == 3 {
			kind = 1
		}
		coq, nt, cls := vLockstep(r, kind)
		out.Case(coq, cls, nt, nil)
	}

	// (b)
	type cfg struct{ procs, nconn int }
	cfgs := []cfg{{1, 64}, {4, 96}, {16, 128}}
	if vThorough() {
		cfgs = append(cfgs, cfg{1, 256}, cfg{4, 512}, cfg{16, 512}, cfg{2, 128})
	}
	for ci, c := range cfgs {
		ln := 64 + r.Intn(1400)
		if ci%3 == 1 {
			// the first prefetch fills the pooled chunk exactly (len == cap) and more follows
			ln = prefetchChunkSize + 4 + 40 + r.Intn(200)
		}
		rs := vStressServer(c.procs, c.nconn, ln, r)
		out.Case(fmt.Sprintf("CStress \"server\" %d %d %d %d", c.procs, c.nconn, rs.checked, rs.bad), fmt.Sprintf("stress/server/procs=%d", c.procs), rs.reused > 0, map[string]any{"reused_arrays": rs.reused, "stream_len": ln})
		if rs.bad > 0 {
			out.Fail("C08:pool:cross-talk-server", rs.first, map[string]any{"gomaxprocs": c.procs, "connections": c.nconn, "stream_len": ln, "bad": rs.bad, "checked": rs.checked})
		}
		if rs.wrongVerdict > 0 {
			out.Fail("C08:verdict:depends-on-other-connections", rs.firstVerdict, map[string]any{"gomaxprocs": c.procs, "connections": c.nconn, "wrong": rs.wrongVerdict})
		}
		if rs.checked != c.nconn {
			out.Fail("C08:stress:incomplete-server", fmt.Sprintf("only %d of %d connections reached a handler", rs.checked, c.nconn), nil)
		}
		rl := vStressListener(c.procs, c.nconn, ln, r)
		out.Case(fmt.Sprintf("CStress \"listener\" %d %d %d %d", c.procs, c.nconn, rl.checked, rl.bad), fmt.Sprintf("stress/listener/procs=%d", c.procs), rl.reused > 0 || rl.checked > 1, map[string]any{"stream_len": ln})
		if rl.bad > 0 {
			out.Fail("C08:pool:cross-talk-listener", rl.first, map[string]any{"gomaxprocs": c.procs, "connections": c.nconn, "stream_len": ln, "bad": rl.bad, "checked": rl.checked})
		}
		if rl.checked != c.nconn {
			out.Fail("C08:stress:incomplete-listener", fmt.Sprintf("only %d of %d connections were handed over", rl.checked, c.nconn), nil)
		}
		out.Stat(fmt.Sprintf("stress.p%d.n%d", c.procs, c.nconn), map[string]int{"server_checked": rs.checked, "server_bad": rs.bad, "server_reused": rs.reused, "listener_checked": rl.checked, "listener_bad": rl.bad})
	}

	// (c)
	vDiscipline(out)
}
