package layer4

// C05 engine: real-time behaviour of the matching deadline.
//
// Scripted clients (silent, one late message, one byte every gap, flood) against the real
// Server.handle with always-undecided matchers, over three transports: net.Pipe, loopback TCP and
// the UDP virtual connection (a layer4.packetConn built white-box and fed through its readCh the
// way Server.servePacket does; one scenario runs the real servePacket on a loopback socket).
// Timeouts {80ms, 300ms, 1.2s}; connection start aligned to wall-clock second fractions
// {.05, .5, .95}.  Also: a route that matches and whose handler reads again after the timeout has
// passed, and an empty route list whose fallback reads after the timeout has passed.
//
// Observed per scenario: when Server.handle's compiled route returned relative to its start, how
// it ended (classified from the logged error), the bytes held in the matching buffer, whether a
// handler ran and whether its late read succeeded.  The property text is checked directly
// (v5Oracle: not early, not late, bounded buffer, nothing runs after an abort, reads after a match
// are not limited by the matching deadline); every scenario is also emitted as a Coq term (actual
// start instant and actual client send instants) for comparison with model/Timing.v.

import (
	"errors"
	"fmt"
	"io"
	"net"
	"os"
	"sort"
	"strings"
	"sync"
	"testing"
	"time"

	"go.uber.org/zap"
	"go.uber.org/zap/zapcore"
)

type v5Scn struct {
	id        int
	transport string // pipe tcp udp udp-real
	timeout   time.Duration
	phase     float64
	client    string // silent late trickle flood
	gap       time.Duration
	kind      string // undecided match-read empty-fb-read nonterm-undecided
	delay     time.Duration // nonterm-undecided: how long the non-terminal handler of the first route takes
	preWait   time.Duration // time between WrapConnection and the start of the compiled route (a connection that waited)
}

func (s v5Scn) String() string {
	return fmt.Sprintf("%s/%s/%s timeout=%v phase=%.2f gap=%v delay=%v prewait=%v", s.transport, s.kind, s.client, s.timeout, s.phase, s.gap, s.delay, s.preWait)
}

type v5Send struct {
	at int64 // UnixNano
	n  int
}

type v5Res struct {
	scn      v5Scn
	start    int64 // UnixNano when the compiled route was entered
	elapsed  time.Duration
	class    string // timeout full neterr matcherr ran fallback none
	bytes    int
	hread    string // none ok fail
	hreadAt  time.Duration
	after    bool // a handler or the fallback ran after the abort was logged
	sends    []v5Send
	finished bool
	stall    time.Duration // how long this process was not scheduled while the scenario ran (see v5Mon)
}

// scheduling monitor: a goroutine that sleeps 2 ms at a time and records every oversleep of more than 10 ms.
// Lateness can be caused by a machine that does not schedule this process (other checks run in parallel);
// a result measured while the process lost more than 100 ms that way says nothing about lateness.
// (Earliness cannot be caused by load: those assertions are never suspended.)
type v5Gap struct {
	at  time.Time
	gap time.Duration
}

var v5Mon struct {
	mu   sync.Mutex
	gaps []v5Gap
	once sync.Once
}

func v5MonStart() {
	v5Mon.once.Do(func() {
		go func() {
			for {
				t := time.Now()
				time.Sleep(2 * time.Millisecond)
				if g := time.Since(t) - 2*time.Millisecond; g > 10*time.Millisecond {
					v5Mon.mu.Lock()
					v5Mon.gaps = append(v5Mon.gaps, v5Gap{t, g})
					v5Mon.mu.Unlock()
				}
			}
		}()
	})
}

func v5Stall(from, to time.Time) (d time.Duration) {
	v5Mon.mu.Lock()
	defer v5Mon.mu.Unlock()
	for _, g := range v5Mon.gaps {
		if !g.at.Before(from.Add(-50*time.Millisecond)) && !g.at.After(to) {
			d += g.gap
		}
	}
	return d
}

// the oracle's verdict with lateness assertions suspended when the process was starved meanwhile
func v5Judge(r v5Res) (fails map[string]string, inconclusive bool) {
	fails = v5Oracle(r)
	if r.stall > 100*time.Millisecond {
		for k := range fails {
			if strings.HasSuffix(k, ":aborted-late") || strings.HasSuffix(k, ":never-ended") {
				delete(fails, k)
				inconclusive = true
			}
		}
	}
	return
}

type v5Core struct {
	mu  sync.Mutex
	why string
}

func (c *v5Core) Enabled(l zapcore.Level) bool      { return l >= zapcore.WarnLevel }
func (c *v5Core) With([]zapcore.Field) zapcore.Core { return c }
func (c *v5Core) Sync() error                       { return nil }
func (c *v5Core) Check(e zapcore.Entry, ce *zapcore.CheckedEntry) *zapcore.CheckedEntry {
	if c.Enabled(e.Level) {
		return ce.AddCore(e, c)
	}
	return ce
}
func (c *v5Core) Write(e zapcore.Entry, fs []zapcore.Field) error {
	if e.Message != "matching connection" {
		return nil
	}
	var err error
	for _, f := range fs {
		if f.Type == zapcore.ErrorType {
			err, _ = f.Interface.(error)
		}
	}
	why := "neterr"
	switch {
	case errors.Is(err, ErrMatchingTimeout):
		why = "timeout"
	case errors.Is(err, ErrMatchingBufferFull):
		why = "full"
	}
	c.mu.Lock()
	c.why = why
	c.mu.Unlock()
	return nil
}

// matcher that needs k bytes and then matches
type v5Need struct{ k int }

func (m v5Need) Match(cx *Connection) (bool, error) {
	buf := make([]byte, m.k)
	if _, err := io.ReadFull(cx, buf); err != nil {
		return false, err
	}
	return true, nil
}

var v5UDPSock net.PacketConn

type v5Addr string

func (a v5Addr) Network() string { return "udp" }
func (a v5Addr) String() string  { return string(a) }

func v5SleepUntil(t time.Time) {
	if d := time.Until(t); d > 0 {
		time.Sleep(d)
	}
}

// next instant whose wall-clock second fraction is phase
func v5NextPhase(phase float64) time.Time {
	now := time.Now()
	base := now.Truncate(time.Second)
	t := base.Add(time.Duration(phase * float64(time.Second)))
	for !t.After(now.Add(20 * time.Millisecond)) {
		t = t.Add(time.Second)
	}
	return t
}

func v5RunScenario(scn v5Scn) (res v5Res) {
	res.scn = scn
	res.hread = "none"
	res.class = "none"
	core := &v5Core{}
	logger := zap.New(core)
	var mu sync.Mutex
	var startT time.Time
	lateAt := scn.timeout + 150*time.Millisecond // when the client sends the byte a late reader waits for
	lateRead := func(cx *Connection, n int) error {
		buf := make([]byte, n)
		_, err := io.ReadFull(cx, buf)
		mu.Lock()
		res.hreadAt = time.Since(startT)
		if err != nil {
			res.hread = "fail"
		} else {
			res.hread = "ok"
		}
		if core.why != "" {
			res.after = true
		}
		mu.Unlock()
		return nil
	}
	var routes RouteList
	var next Handler = HandlerFunc(func(cx *Connection) error {
		mu.Lock()
		res.class = "fallback"
		if core.why != "" {
			res.after = true
		}
		mu.Unlock()
		return nil
	})
	switch scn.kind {
	case "undecided":
		rt := &Route{matcherSets: MatcherSets{MatcherSet{v5Need{k: 1 << 20}}}}
		rt.middleware = append(rt.middleware, wrapHandler(NextHandlerFunc(func(cx *Connection, _ Handler) error {
			mu.Lock()
			res.class = "ran"
			if core.why != "" {
				res.after = true
			}
			mu.Unlock()
			return nil
		})))
		routes = RouteList{rt}
	case "nonterm-undecided":
		// a route without matchers whose handler takes a little time and passes the connection on,
		// then a route that never decides: matching goes on with the deadline armed again
		first := &Route{}
		first.middleware = append(first.middleware, wrapHandler(NextHandlerFunc(func(cx *Connection, nx Handler) error {
			time.Sleep(scn.delay)
			return nx.Handle(cx)
		})))
		rt := &Route{matcherSets: MatcherSets{MatcherSet{v5Need{k: 1 << 20}}}}
		rt.middleware = append(rt.middleware, wrapHandler(NextHandlerFunc(func(cx *Connection, _ Handler) error {
			mu.Lock()
			res.class = "ran"
			if core.why != "" {
				res.after = true
			}
			mu.Unlock()
			return nil
		})))
		routes = RouteList{first, rt}
	case "late-subroute":
		// a matching phase that STARTS late: the outer route (no matchers) first blocks in a read until the client's
		// second message at +delay (0.5 or 1.5 matching timeouts after the connection was wrapped), then enters a
		// subroute (= Compile with the rest of the chain as next, the body of l4subroute.Handler.Handle) whose only
		// route never decides: that nested matching must last its own timeout counted from ITS start
		und := &Route{matcherSets: MatcherSets{MatcherSet{v5Need{k: 1 << 20}}}}
		und.middleware = append(und.middleware, wrapHandler(NextHandlerFunc(func(cx *Connection, _ Handler) error {
			mu.Lock()
			res.class = "ran"
			mu.Unlock()
			return nil
		})))
		sub := RouteList{und}
		first := &Route{}
		first.middleware = append(first.middleware, wrapHandler(NextHandlerFunc(func(cx *Connection, nx Handler) error {
			buf := make([]byte, 2)
			if _, err := io.ReadFull(cx, buf); err != nil {
				mu.Lock()
				res.hread = "fail"
				mu.Unlock()
				return err
			}
			mu.Lock()
			res.hread = "ok"
			res.hreadAt = time.Since(startT)
			mu.Unlock()
			return nx.Handle(cx)
		})), wrapHandler(NextHandlerFunc(func(cx *Connection, nx Handler) error {
			return sub.Compile(logger, scn.timeout, nx).Handle(cx)
		})))
		routes = RouteList{first}
	case "nonterm-read-undecided":
		// a route without matchers whose NON-TERMINAL handler reads two bytes from the connection: the first is
		// there, for the second it blocks in the connection's Read until the client sends it (on UDP this goes
		// through packetConn.Read's select, which receives whatever tick the cleared deadline left in the timer);
		// then a route that never decides: the deadline is armed again and must still end matching on time
		first := &Route{}
		first.middleware = append(first.middleware, wrapHandler(NextHandlerFunc(func(cx *Connection, nx Handler) error {
			buf := make([]byte, 2)
			if _, err := io.ReadFull(cx, buf); err != nil {
				mu.Lock()
				res.hread = "fail"
				mu.Unlock()
				return err
			}
			mu.Lock()
			res.hread = "ok"
			res.hreadAt = time.Since(startT)
			mu.Unlock()
			return nx.Handle(cx)
		})))
		rt := &Route{matcherSets: MatcherSets{MatcherSet{v5Need{k: 1 << 20}}}}
		rt.middleware = append(rt.middleware, wrapHandler(NextHandlerFunc(func(cx *Connection, _ Handler) error {
			mu.Lock()
			res.class = "ran"
			mu.Unlock()
			return nil
		})))
		routes = RouteList{first, rt}
	case "match-read":
		rt := &Route{matcherSets: MatcherSets{MatcherSet{v5Need{k: 1}}}}
		rt.middleware = append(rt.middleware, wrapHandler(NextHandlerFunc(func(cx *Connection, _ Handler) error {
			mu.Lock()
			res.class = "ran"
			mu.Unlock()
			return lateRead(cx, 2) // one byte from the matching buffer, one from the connection
		})))
		routes = RouteList{rt}
	case "empty-fb-read":
		routes = RouteList{}
		next = HandlerFunc(func(cx *Connection) error {
			mu.Lock()
			res.class = "fallback"
			mu.Unlock()
			return lateRead(cx, 2) // the byte that is already there, then one that arrives after the timeout
		})
	}
	inner := routes.Compile(logger, scn.timeout, next)
	var cxSeen *Connection
	s := &Server{logger: logger, compiledRoute: HandlerFunc(func(cx *Connection) error {
		cxSeen = cx
		startT = time.Now()
		err := inner.Handle(cx)
		mu.Lock()
		res.elapsed = time.Since(startT)
		res.bytes = len(cx.buf)
		mu.Unlock()
		return err
	})}

	// what Server.handle does, with a pause between WrapConnection and the compiled route (preWait == 0: the real one)
	handle := func(conn net.Conn) {
		if scn.preWait == 0 {
			s.handle(conn)
			return
		}
		defer func() { _ = conn.Close() }()
		buf := bufPool.Get().([]byte)
		buf = buf[:0]
		defer bufPool.Put(buf)
		cx := WrapConnection(conn, buf, s.logger)
		time.Sleep(scn.preWait)
		_ = s.compiledRoute.Handle(cx)
	}
	// transports: send(b) delivers bytes to the server side; serve() runs Server.handle to completion
	var send func(b []byte) error
	var serve func()
	var cleanup func()
	first := []byte{'a'} // UDP: the datagram that creates the virtual connection
	switch scn.transport {
	case "pipe":
		c1, c2 := net.Pipe()
		send = func(b []byte) error { _, err := c2.Write(b); return err }
		serve = func() { handle(c1) }
		cleanup = func() { c2.Close() }
	case "tcp":
		ln, err := net.Listen("tcp", "127.0.0.1:0")
		if err != nil {
			return
		}
		cc, err := net.Dial("tcp", ln.Addr().String())
		if err != nil {
			ln.Close()
			return
		}
		sc, err := ln.Accept()
		if err != nil {
			ln.Close()
			return
		}
		send = func(b []byte) error { _, err := cc.Write(b); return err }
		serve = func() { handle(sc) }
		cleanup = func() { cc.Close(); ln.Close() }
	case "udp":
		pc := &packetConn{PacketConn: v5UDPSock, readCh: make(chan *packet, 128), addr: v5Addr(fmt.Sprintf("192.0.2.7:%d", 1000+scn.id)), closeCh: make(chan *packetConn, 16), closed: make(chan struct{})}
		send = func(b []byte) (err error) {
			defer func() {
				if recover() != nil {
					err = io.ErrClosedPipe
				}
			}()
			for len(b) > 0 {
				n := len(b)
				if n > 1200 {
					n = 1200
				}
				buf := udpBufPool.Get().([]byte)
				copy(buf, b[:n])
				pc.readCh <- &packet{pooledBuf: buf, n: n, addr: pc.addr}
				b = b[n:]
			}
			return nil
		}
		serve = func() { handle(pc) }
		cleanup = func() {}
	case "udp-real":
		sock, err := net.ListenPacket("udp", "127.0.0.1:0")
		if err != nil {
			return
		}
		cc, err := net.Dial("udp", sock.LocalAddr().String())
		if err != nil {
			sock.Close()
			return
		}
		done := make(chan struct{})
		orig := s.compiledRoute
		s.compiledRoute = HandlerFunc(func(cx *Connection) error {
			err := orig.Handle(cx)
			close(done)
			return err
		})
		go func() { _ = s.servePacket(sock) }()
		send = func(b []byte) error { _, err := cc.Write(b); return err }
		serve = func() {
			select {
			case <-done:
			case <-time.After(scn.timeout + 3*time.Second):
			}
		}
		cleanup = func() { cc.Close(); sock.Close() }
	}
	defer cleanup()

	begin := v5NextPhase(scn.phase)
	v5SleepUntil(begin)
	record := func(n int) {
		mu.Lock()
		res.sends = append(res.sends, v5Send{time.Now().UnixNano(), n})
		mu.Unlock()
	}
	udp := strings.HasPrefix(scn.transport, "udp")
	if udp {
		record(len(first))
		_ = send(first)
	}
	doneCh := make(chan struct{})
	go func() { serve(); close(doneCh) }()
	// wait until the compiled route has been entered
	for i := 0; i < 2000+int(scn.preWait/(100*time.Microsecond)); i++ {
		mu.Lock()
		ok := !startT.IsZero()
		mu.Unlock()
		if ok {
			break
		}
		time.Sleep(100 * time.Microsecond)
	}
	stop := make(chan struct{})
	var wg sync.WaitGroup
	wg.Add(1)
	go func() { // the scripted client
		defer wg.Done()
		sleepOrStop := func(d time.Duration) bool {
			select {
			case <-stop:
				return false
			case <-time.After(d):
				return true
			}
		}
		st := startT
		switch scn.kind {
		case "nonterm-read-undecided", "late-subroute":
			if !udp {
				record(1)
				_ = send([]byte{'a'})
			}
			if !sleepOrStop(time.Until(st.Add(scn.delay))) {
				return
			}
			record(1)
			_ = send([]byte{'b'})
			return
		case "match-read", "empty-fb-read":
			if !udp {
				record(1)
				_ = send([]byte{'a'})
			}
			if !sleepOrStop(time.Until(st.Add(lateAt))) {
				return
			}
			record(1)
			_ = send([]byte{'b'})
			return
		}
		switch scn.client {
		case "silent":
		case "late":
			if !sleepOrStop(time.Until(st.Add(scn.timeout / 2))) {
				return
			}
			record(1)
			_ = send([]byte{'b'})
		case "trickle":
			for i := 1; ; i++ {
				if !sleepOrStop(time.Until(st.Add(time.Duration(i) * scn.gap))) {
					return
				}
				if time.Since(st) > scn.timeout+400*time.Millisecond {
					return
				}
				record(1)
				if send([]byte{'c'}) != nil {
					return
				}
			}
		case "flood":
			blob := make([]byte, 24000)
			for i := range blob {
				blob[i] = 'f'
			}
			record(len(blob))
			_ = send(blob)
		}
	}()
	select {
	case <-doneCh:
		res.finished = true
	case <-time.After(scn.timeout + lateAt + scn.delay + scn.preWait + 3*time.Second):
	}
	close(stop)
	if scn.transport == "pipe" || scn.transport == "tcp" {
		cleanup() // unblocks a client stuck in Write
	}
	wg.Wait()
	mu.Lock()
	defer mu.Unlock()
	res.stall = v5Stall(begin, time.Now())
	res.start = startT.UnixNano()
	core.mu.Lock()
	if core.why != "" {
		res.class = core.why
	}
	core.mu.Unlock()
	_ = cxSeen
	return res
}

const v5Early = 5 * time.Millisecond
const v5Late = 250 * time.Millisecond

// the property text on one scenario's observations; returns key -> detail
func v5Oracle(r v5Res) map[string]string {
	f := map[string]string{}
	tr := r.scn.transport
	if tr == "udp-real" {
		tr = "udp"
	}
	if !r.finished {
		f["C05:timing:"+tr+":never-ended"] = "the compiled route did not return within timeout + 3s"
		return f
	}
	if r.bytes > MaxMatchingBytes-1+prefetchChunkSize {
		f["C05:timing:"+tr+":buffer-over-bound"] = fmt.Sprintf("%d bytes buffered", r.bytes)
	}
	if r.after {
		f["C05:timing:"+tr+":handler-after-abort"] = "a handler or the fallback ran after matching was aborted"
	}
	if r.class == "timeout" && r.elapsed < r.scn.timeout-v5Early {
		// whatever the scenario wanted to see next, matching was given up before the timeout had elapsed
		f["C05:timing:"+tr+":aborted-early"] = fmt.Sprintf("matching abandoned after %v, timeout %v, a route still undecided", r.elapsed, r.scn.timeout)
		return f
	}
	switch r.scn.kind {
	case "undecided", "nonterm-undecided", "nonterm-read-undecided":
		if r.scn.kind == "nonterm-read-undecided" && r.hread != "ok" {
			f["C05:timing:"+tr+":nonterminal-handler-read-failed"] = "the handler of the matched route could not read the byte sent at +" + r.scn.delay.String()
		}
		switch {
		case r.scn.client == "flood":
			if r.class != "full" {
				f["C05:timing:"+tr+":flood-not-stopped-by-buffer-limit"] = "ended with " + r.class
			}
			if r.elapsed > v5Late {
				f["C05:timing:"+tr+":aborted-late"] = fmt.Sprintf("flood: ended after %v", r.elapsed)
			}
		default:
			if r.class != "timeout" {
				f["C05:timing:"+tr+":undecided-not-ended-by-timeout"] = "ended with " + r.class
			}
			if r.elapsed < r.scn.timeout-v5Early {
				f["C05:timing:"+tr+":aborted-early"] = fmt.Sprintf("matching abandoned after %v, timeout %v, a route still undecided", r.elapsed, r.scn.timeout)
			}
			if r.elapsed > r.scn.timeout+v5Late {
				f["C05:timing:"+tr+":aborted-late"] = fmt.Sprintf("matching ended after %v, timeout %v", r.elapsed, r.scn.timeout)
			}
		}
	case "late-subroute":
		if r.hread != "ok" {
			f["C05:timing:"+tr+":nonterminal-handler-read-failed"] = "the handler before the subroute could not read the byte sent at +" + r.scn.delay.String()
			break
		}
		if r.class != "timeout" {
			f["C05:timing:"+tr+":undecided-not-ended-by-timeout"] = "nested route list ended with " + r.class
		}
		// the nested matching phase began when the handler before it returned
		phase := r.elapsed - r.hreadAt
		if phase < r.scn.timeout-v5Early {
			f["C05:timing:"+tr+":aborted-early"] = fmt.Sprintf("matching of a route list entered %v after the connection was wrapped was abandoned after %v, its timeout is %v and its route was still undecided", r.hreadAt, phase, r.scn.timeout)
		}
		if phase > r.scn.timeout+v5Late {
			f["C05:timing:"+tr+":aborted-late"] = fmt.Sprintf("nested matching ended after %v, timeout %v", phase, r.scn.timeout)
		}
	case "match-read":
		if r.class != "ran" {
			f["C05:timing:"+tr+":matching-route-did-not-run"] = "ended with " + r.class
		} else if r.hread != "ok" {
			f["C05:timing:"+tr+":handler-read-limited-by-matching-deadline"] = fmt.Sprintf("handler read after the timeout: %s at %v", r.hread, r.hreadAt)
		}
	case "empty-fb-read":
		if r.class != "fallback" {
			f["C05:timing:"+tr+":fallback-did-not-run"] = "ended with " + r.class
		} else if r.hread != "ok" {
			f["C05:timing:"+tr+":fallback-read-limited-by-matching-deadline-empty-routes"] = fmt.Sprintf("fallback of an empty route list: read after the timeout: %s at %v", r.hread, r.hreadAt)
		}
	}
	return f
}

// is some instant of the scenario too close to a whole-second boundary or to the deadline for the
// model's prediction to be robust against a few milliseconds of scheduling jitter?
func v5Sensitive(r v5Res) bool {
	const margin = int64(30 * time.Millisecond)
	near := func(t int64) bool {
		frac := t % int64(time.Second)
		if frac < margin || int64(time.Second)-frac < margin {
			return true
		}
		d := t - (r.start + int64(r.scn.timeout))
		return d > -margin && d < margin
	}
	frac := r.start % int64(time.Second)
	if frac < int64(10*time.Millisecond) || int64(time.Second)-frac < int64(10*time.Millisecond) {
		return true
	}
	dfrac := (r.start + int64(r.scn.timeout)) % int64(time.Second)
	if dfrac < int64(10*time.Millisecond) || int64(time.Second)-dfrac < int64(10*time.Millisecond) {
		return true
	}
	if r.scn.client == "trickle" {
		return false // judged by the tolerance of the checker: any single byte near a boundary shifts the abort by one gap at most
	}
	for _, s := range r.sends[min(1, len(r.sends)):] {
		if near(s.at) {
			return true
		}
	}
	return false
}

func (r v5Res) coq() string {
	var as []string
	for i, s := range r.sends {
		at := s.at
		if (r.scn.kind == "late-subroute" || r.scn.kind == "nonterm-read-undecided") && i == len(r.sends)-1 && r.hread == "ok" {
			// the byte the blocked handler was waiting for: what matters for what follows is when the handler GOT it
			// (under load the client's send and the handler's wake-up can be far apart)
			if got := r.start + int64(r.hreadAt); got > at {
				at = got
			}
		}
		as = append(as, fmt.Sprintf("(%d, %d)", at, s.n))
	}
	kind := map[string]string{"undecided": "KUndecided", "match-read": "KMatchRead", "empty-fb-read": "KEmptyFbRead", "nonterm-undecided": "KNonTermUndecided", "nonterm-read-undecided": "KNonTermReadUndecided", "late-subroute": "KLateSubroute"}[r.scn.kind]
	tr := map[string]string{"pipe": "TPipe", "tcp": "TTcp", "udp": "TUdp", "udp-real": "TUdp"}[r.scn.transport]
	cls := map[string]string{"timeout": "OTimeout", "full": "OFull", "neterr": "ONetErr", "ran": "ORan", "fallback": "OFallback", "none": "ONone"}[r.class]
	hr := map[string]string{"none": "RdNone", "ok": "RdOk", "fail": "RdFail"}[r.hread]
	return fmt.Sprintf("TC %s %s %d %d [%s] %s %d %d %s %s", tr, kind, int64(r.scn.timeout), r.start, strings.Join(as, "; "), cls,
		int64(r.elapsed), r.bytes, hr, cBool(r.scn.client == "trickle"))
}

func TestVerifC05Timing(t *testing.T) {
	out := vOpen()
	defer out.Close()
	var err error
	v5MonStart()
	v5UDPSock, err = net.ListenPacket("udp", "127.0.0.1:0")
	if err != nil {
		t.Fatal(err)
	}
	defer v5UDPSock.Close()

	var scns []v5Scn
	id := 0
	add := func(s v5Scn) { id++; s.id = id; scns = append(scns, s) }
	timeouts := []time.Duration{80 * time.Millisecond, 300 * time.Millisecond, 1200 * time.Millisecond}
	phases := []float64{.05, .5, .95}
	for _, tr := range []string{"pipe", "tcp", "udp"} {
		for _, to := range timeouts {
			for _, ph := range phases {
				add(v5Scn{transport: tr, timeout: to, phase: ph, client: "silent", kind: "undecided"})
				add(v5Scn{transport: tr, timeout: to, phase: ph, client: "late", kind: "undecided"})
				add(v5Scn{transport: tr, timeout: to, phase: ph, client: "trickle", gap: to / 6, kind: "undecided"})
				if ph == .5 || vThorough() {
					add(v5Scn{transport: tr, timeout: to, phase: ph, client: "flood", kind: "undecided"})
				}
			}
			add(v5Scn{transport: tr, timeout: to, phase: .5, client: "late", kind: "match-read"})
			if to <= 300*time.Millisecond || vThorough() {
				// matching phases that start late: 0.5 and 1.5 timeouts after the connection was wrapped
				for _, f := range []float64{0.5, 1.5} {
					dly := time.Duration(float64(to) * f)
					add(v5Scn{transport: tr, timeout: to, phase: .5, client: "silent", kind: "late-subroute", delay: dly})
					add(v5Scn{transport: tr, timeout: to, phase: .5, client: "silent", kind: "undecided", preWait: dly})
				}
			}
			if to >= 300*time.Millisecond {
				// ... and the non-terminal handler blocks in a read until +60 ms before passing the connection on
				add(v5Scn{transport: tr, timeout: to, phase: .5, client: "silent", kind: "nonterm-read-undecided", delay: 60 * time.Millisecond})
				add(v5Scn{transport: tr, timeout: to, phase: .95, client: "silent", kind: "nonterm-read-undecided", delay: 20 * time.Millisecond})
				// after a non-terminal match (deadline cleared, handler takes 0/20/60 ms) a later route is undecided
				for _, dly := range []time.Duration{0, 20 * time.Millisecond, 60 * time.Millisecond} {
					add(v5Scn{transport: tr, timeout: to, phase: .5, client: "silent", kind: "nonterm-undecided", delay: dly})
					if dly == 20*time.Millisecond {
						add(v5Scn{transport: tr, timeout: to, phase: .95, client: "late", kind: "nonterm-undecided", delay: dly})
					}
				}
			}
			add(v5Scn{transport: tr, timeout: to, phase: .5, client: "late", kind: "empty-fb-read"})
			if vThorough() {
				add(v5Scn{transport: tr, timeout: to, phase: .95, client: "late", kind: "match-read"})
				add(v5Scn{transport: tr, timeout: to, phase: .05, client: "late", kind: "empty-fb-read"})
			}
		}
	}
	// the real UDP server loop: two datagrams only, both sent before any abort
	add(v5Scn{transport: "udp-real", timeout: 500 * time.Millisecond, phase: .86, client: "late", kind: "undecided"})
	add(v5Scn{transport: "udp-real", timeout: 300 * time.Millisecond, phase: .5, client: "silent", kind: "undecided"})
	if vThorough() {
		g := vNewRng(vSeed())
		for i := 0; i < 40; i++ {
			tr := []string{"pipe", "tcp", "udp"}[g.Intn(3)]
			to := time.Duration(60+g.Intn(900)) * time.Millisecond
			add(v5Scn{transport: tr, timeout: to, phase: float64(g.Intn(100)) / 100, client: []string{"silent", "late", "trickle"}[g.Intn(3)], gap: to / time.Duration(3+g.Intn(6)), kind: "undecided"})
		}
	}

	run := func(list []v5Scn) []v5Res {
		res := make([]v5Res, len(list))
		var wg sync.WaitGroup
		for i := range list {
			wg.Add(1)
			go func(i int) {
				defer wg.Done()
				res[i] = v5RunScenario(list[i])
			}(i)
		}
		wg.Wait()
		return res
	}
	results := run(scns)
	// scenarios that failed the oracle, or whose measurement is inconclusive because the process was starved,
	// are run again (twice at most), a few at a time, before anything is reported
	bad := func(r v5Res) int {
		f, inc := v5Judge(r)
		n := len(f)
		if inc {
			n++
		}
		return n
	}
	for round := 0; round < 2; round++ {
		var retry []int
		for i, r := range results {
			if bad(r) > 0 {
				retry = append(retry, i)
			}
		}
		for len(retry) > 0 {
			n := len(retry)
			if n > 12 {
				n = 12
			}
			batch := make([]v5Scn, n)
			for j := 0; j < n; j++ {
				batch[j] = scns[retry[j]]
			}
			rr := run(batch)
			for j := 0; j < n; j++ {
				if bad(rr[j]) <= bad(results[retry[j]]) {
					results[retry[j]] = rr[j]
				}
			}
			retry = retry[n:]
		}
	}
	sort.Slice(results, func(i, j int) bool { return results[i].scn.id < results[j].scn.id })
	nfail := map[string]int{}
	suspended := 0
	for _, r := range results {
		sample := map[string]any{"scenario": r.scn.String(), "class": r.class, "elapsed_ms": float64(r.elapsed) / 1e6, "bytes": r.bytes,
			"handler_read": r.hread, "start_phase_ms": float64(r.start%1e9) / 1e6, "sends": len(r.sends)}
		fails, inconclusive := v5Judge(r)
		for k, d := range fails {
			nfail[k]++
			if nfail[k] <= 4 {
				out.Fail(k, d, sample)
			}
		}
		if inconclusive {
			suspended++
		}
		if !r.finished {
			continue
		}
		nt := r.scn.client != "silent" || r.scn.kind != "undecided"
		m := map[string]any{"t": "case", "coq": r.coq(), "cls": r.scn.transport + "/" + r.scn.kind + "/" + r.scn.client, "nt": nt, "sample": sample}
		if v5Sensitive(r) || r.stall > 100*time.Millisecond {
			m["nocorr"] = true
		}
		out.emit(m)
	}
	out.Stat("scenarios", len(results))
	out.Stat("lateness_assertions_suspended_because_process_was_starved", suspended)
	for k, c := range nfail {
		out.Stat("fail."+k, c)
	}
	_ = os.Getenv
}
