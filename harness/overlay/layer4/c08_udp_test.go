package layer4

// C08 engine, UDP half: the real Server.servePacket (reader goroutine, dispatch loop), the real
// packetConn.Read / Close and the real udpBufPool, over a scripted net.PacketConn.
//
//  (d) lock-step: the engine feeds one datagram at a time (2..4 clients, 16..9500 bytes, one
//      byte value per datagram), waits until the loop has dispatched it, and tells the handlers of
//      the associations when to Read (with small buffers, so that datagrams are consumed in
//      several Reads) and when to end (Close; the client's next datagram starts a new
//      association).  The array every datagram was read into is identified by its base pointer.
//      Printed as CUdp cases and replayed on model/UdpPool.v: the real pool may only hand out
//      arrays the model considers free or new, and every association must have read what the
//      model says.  Direct oracle: an array handed to ReadFrom while a queued or partially read
//      datagram still lives in it (C08:udp-pool:double-put); an association that reads bytes of
//      another datagram, with (C08:udp-pool:cross-talk) or without (C08:udp-pool:aliased-packet)
//      such a reuse.
//  (e) stress: clients send self-describing datagrams concurrently, handlers read with small
//      buffers and end their association now and then; GOMAXPROCS 1/4/16; every datagram an
//      association reads must be one its own client sent (C08:udp-pool:cross-talk).

import (
	"fmt"
	"io"
	"net"
	"runtime"
	"strings"
	"sync"
	"sync/atomic"
	"testing"
	"time"
	"unsafe"

	"go.uber.org/zap"
)

type vUAddr int

func (a vUAddr) Network() string { return "udp" }
func (a vUAddr) String() string  { return fmt.Sprintf("10.9.0.%d:4000", int(a)) }

type vUDgram struct {
	from vUAddr
	data []byte
}

// scripted net.PacketConn: ReadFrom reports the array it was given, then waits for a datagram
type vUPC struct {
	feed   chan vUDgram
	gotBuf chan *byte // base pointer of the array of the ReadFrom call that took the datagram
	stop   chan struct{}
}

func (p *vUPC) ReadFrom(b []byte) (int, net.Addr, error) {
	select {
	case d := <-p.feed:
		n := copy(b, d.data)
		select {
		case p.gotBuf <- unsafe.SliceData(b):
		case <-p.stop:
		}
		return n, d.from, nil
	case <-p.stop:
		return 0, nil, net.ErrClosed
	}
}
func (p *vUPC) WriteTo(b []byte, _ net.Addr) (int, error) { return len(b), nil }
func (p *vUPC) Close() error                              { return nil }
func (p *vUPC) LocalAddr() net.Addr                       { return vUAddr(0) }
func (p *vUPC) SetDeadline(time.Time) error               { return nil }
func (p *vUPC) SetReadDeadline(time.Time) error           { return nil }
func (p *vUPC) SetWriteDeadline(time.Time) error          { return nil }

// ---- (d) lock-step ------------------------------------------------------------------------------

type vUCmd struct {
	read  int // > 0: Read with a buffer of this size; 0: Close and end
	reply chan []byte
}

type vUAssoc struct {
	id      int // model association id (order of creation)
	client  vUAddr
	pc      *packetConn
	cmd     chan vUCmd
	pending [][]byte // datagrams dispatched and not fully read (first one may be partially read)
	off     int      // bytes of pending[0] already read
	bases   []*byte  // arrays of the pending datagrams
	got     []byte
	closed  bool
}

func vUdpLockstep(r *vRng) (coq string, fails []func(*vOut), cls string) {
	pcn := &vUPC{feed: make(chan vUDgram), gotBuf: make(chan *byte), stop: make(chan struct{})}
	reg := make(chan *vUAssoc, 16)
	s := &Server{logger: zap.NewNop()}
	s.compiledRoute = HandlerFunc(func(cx *Connection) error {
		pc, _ := cx.Conn.(*packetConn)
		a := &vUAssoc{pc: pc, cmd: make(chan vUCmd)}
		reg <- a
		for c := range a.cmd {
			if c.read == 0 {
				_ = pc.Close()
				c.reply <- nil
				return nil
			}
			_ = pc.SetReadDeadline(time.Now().Add(400 * time.Millisecond))
			buf := make([]byte, c.read)
			n, _ := pc.Read(buf)
			c.reply <- buf[:n]
		}
		return nil
	})
	srvDone := make(chan struct{})
	go func() { _ = s.servePacket(pcn); close(srvDone) }()

	nclients := 2 + r.Intn(3)
	cur := map[vUAddr]*vUAssoc{}
	var assocs []*vUAssoc
	arrayID := map[*byte]int{}
	live := map[*byte]string{}
	var evs []string
	reuseSeen, multiRead, reassoc, aborted := false, false, false, false
	addFail := func(key, detail string, in map[string]any) {
		fails = append(fails, func(o *vOut) { o.Fail(key, detail, in) })
	}
	steps := 14 + r.Intn(30)
	seq := 0
	for st := 0; st < steps && !aborted; st++ {
		op := r.Intn(10)
		switch {
		case op < 4: // a datagram
			cl := vUAddr(1 + r.Intn(nclients))
			if a := cur[cl]; a != nil && len(a.pending) >= 4 {
				continue // stay below the capacity of readCh
			}
			var ln int
			switch r.Intn(6) {
			case 0:
				ln = 16 + r.Intn(100)
			case 1:
				ln = 9000
			case 2:
				ln = 9000 + r.Intn(600) // longer than the array: truncated by ReadFrom
			default:
				ln = 1500 + r.Intn(7000)
			}
			seq++
			val := byte(int(cl)<<5 | seq&31)
			data := make([]byte, ln)
			for i := range data {
				data[i] = val
			}
			pcn.feed <- vUDgram{cl, data}
			base := <-pcn.gotBuf
			if ln > 9000 {
				data = data[:9000]
			}
			id, known := arrayID[base]
			if !known {
				id = len(arrayID)
				arrayID[base] = id
			}
			if who, isLive := live[base]; isLive {
				reuseSeen = true
				addFail("C08:udp-pool:double-put", fmt.Sprintf("the array of %s (still queued or only partially read) was handed out again by udpBufPool for a datagram of client %d", who, int(cl)),
					map[string]any{"array": id, "events": strings.Join(evs, "; ")})
			}
			evs = append(evs, fmt.Sprintf("ZURecv %d [(%d,%d)] %d", int(cl), val, ln, id), "ZUDispatch", "ZUSend")
			a := cur[cl]
			if a == nil || a.closed {
				select {
				case na := <-reg:
					na.id = len(assocs)
					na.client = cl
					assocs = append(assocs, na)
					if a != nil {
						reassoc = true
					}
					cur[cl] = na
					a = na
				case <-time.After(3 * time.Second):
					addFail("C08:udp-pool:dispatch-stalled", "no association was started for a datagram within 3 s", map[string]any{"events": strings.Join(evs, "; ")})
					aborted = true
					continue
				}
			}
			// wait until the loop has queued it
			want := len(a.pending) + 1
			if a.off > 0 {
				want-- // the first pending datagram has left the channel already
			}
			for t0 := time.Now(); len(a.pc.readCh) < want && time.Since(t0) < 3*time.Second; {
				time.Sleep(50 * time.Microsecond)
			}
			a.pending = append(a.pending, data)
			a.bases = append(a.bases, base)
			live[base] = fmt.Sprintf("datagram %d of client %d", seq, int(cl))
		case op < 9: // a read
			var cands []*vUAssoc
			for _, a := range assocs {
				if !a.closed && len(a.pending) > 0 {
					cands = append(cands, a)
				}
			}
			if len(cands) == 0 {
				continue
			}
			a := cands[r.Intn(len(cands))]
			m := 1 + r.Intn(4096)
			if r.Intn(4) == 0 {
				m = 9000
			}
			rep := make(chan []byte, 1)
			a.cmd <- vUCmd{read: m, reply: rep}
			got := <-rep
			evs = append(evs, fmt.Sprintf("ZURead %d %d", a.id, m))
			a.got = append(a.got, got...)
			want := a.pending[0][a.off:]
			if len(want) > m {
				want = want[:m]
			}
			if string(got) != string(want) {
				key := "C08:udp-pool:aliased-packet"
				if reuseSeen {
					key = "C08:udp-pool:cross-talk"
				}
				g, w := got, want
				if len(g) > 8 {
					g = g[:8]
				}
				if len(w) > 8 {
					w = w[:8]
				}
				addFail(key, fmt.Sprintf("association %d of client %d read %d bytes %x.. where its own datagram has %d bytes %x.. at offset %d", a.id, int(a.client), len(got), g, len(want), w, a.off),
					map[string]any{"events": strings.Join(evs, "; ")})
				aborted = true
				continue
			}
			if a.off > 0 {
				multiRead = true
			}
			a.off += len(got)
			if a.off >= len(a.pending[0]) {
				delete(live, a.bases[0])
				a.pending, a.bases, a.off = a.pending[1:], a.bases[1:], 0
			}
		default: // end an association
			var cands []*vUAssoc
			for _, a := range assocs {
				if !a.closed {
					cands = append(cands, a)
				}
			}
			if len(cands) == 0 {
				continue
			}
			a := cands[r.Intn(len(cands))]
			rep := make(chan []byte, 1)
			a.cmd <- vUCmd{read: 0, reply: rep}
			<-rep
			a.closed = true
			for _, b := range a.bases {
				delete(live, b)
			}
			a.pending, a.bases, a.off = nil, nil, 0
			evs = append(evs, fmt.Sprintf("ZUClose %d", a.id))
		}
	}
	// shut down
	for _, a := range assocs {
		if !a.closed {
			rep := make(chan []byte, 1)
			select {
			case a.cmd <- vUCmd{read: 0, reply: rep}:
				<-rep
			case <-time.After(2 * time.Second):
			}
		}
	}
	close(pcn.stop)
	select {
	case <-srvDone:
	case <-time.After(2 * time.Second):
	}
	var seen []string
	for _, a := range assocs {
		seen = append(seen, fmt.Sprintf("(%d, %s)", a.id, vRle(a.got)))
	}
	cls = fmt.Sprintf("udp-lockstep/multi-read=%v/new-association=%v/arrays=%d", multiRead, reassoc, min(len(arrayID), 4))
	return fmt.Sprintf("CUdp [%s] [%s]", strings.Join(evs, "; "), strings.Join(seen, "; ")), fails, cls
}

// ---- (e) stress ---------------------------------------------------------------------------------

// datagram layout: client, seq hi, seq lo, len hi, len lo, then (client ^ seq) repeated
func vUStressDgram(cl, seq, ln int) []byte {
	b := make([]byte, ln)
	fill := byte(cl*37 ^ seq)
	for i := range b {
		b[i] = fill
	}
	b[0], b[1], b[2], b[3], b[4] = byte(cl), byte(seq>>8), byte(seq), byte(ln>>8), byte(ln)
	return b
}

func vUdpStress(procs, nclients, perClient int, r *vRng) (checked, bad int, first string) {
	old := runtime.GOMAXPROCS(procs)
	defer runtime.GOMAXPROCS(old)
	pcn := &vUPC{feed: make(chan vUDgram), gotBuf: make(chan *byte, 1<<16), stop: make(chan struct{})}
	var mu sync.Mutex
	var handlers sync.WaitGroup
	var nchecked, nbad atomic.Int64
	s := &Server{logger: zap.NewNop()}
	s.compiledRoute = HandlerFunc(func(cx *Connection) error {
		handlers.Add(1)
		defer handlers.Done()
		pc, _ := cx.Conn.(*packetConn)
		cl := 0
		if a, ok := pc.addr.(vUAddr); ok {
			cl = int(a)
		}
		bufSize := 600 + (cl*131)%3000
		quota := 2 + cl%3 // datagrams before this association ends
		buf := make([]byte, bufSize)
		for d := 0; d < quota; d++ {
			// one datagram: first chunk carries the header
			_ = pc.SetReadDeadline(time.Now().Add(250 * time.Millisecond))
			n, err := pc.Read(buf)
			if err != nil || n < 5 {
				return nil
			}
			hdrCl, seq, ln := int(buf[0]), int(buf[1])<<8|int(buf[2]), int(buf[3])<<8|int(buf[4])
			whole := append([]byte(nil), buf[:n]...)
			for len(whole) < ln && ln <= 9000 {
				_ = pc.SetReadDeadline(time.Now().Add(250 * time.Millisecond))
				k, err := pc.Read(buf)
				if err != nil {
					break
				}
				whole = append(whole, buf[:k]...)
			}
			nchecked.Add(1)
			ok := hdrCl == cl && ln >= 5 && ln <= 9000 && len(whole) == ln && string(whole) == string(vUStressDgram(cl, seq, ln))
			if !ok {
				nbad.Add(1)
				mu.Lock()
				if first == "" {
					first = fmt.Sprintf("an association of client %d read a datagram that says client %d seq %d len %d (%d bytes read, consistent=%v)", cl, hdrCl, seq, ln, len(whole), len(whole) == ln && ln >= 5 && string(whole) == string(vUStressDgram(hdrCl, seq, ln)))
				}
				mu.Unlock()
				return nil
			}
		}
		return nil
	})
	srvDone := make(chan struct{})
	go func() { _ = s.servePacket(pcn); close(srvDone) }()
	var cw sync.WaitGroup
	for c := 1; c <= nclients; c++ {
		cw.Add(1)
		sizes := make([]int, perClient)
		for i := range sizes {
			switch r.Intn(4) {
			case 0:
				sizes[i] = 16 + r.Intn(200)
			case 1:
				sizes[i] = 9000
			default:
				sizes[i] = 2049 + r.Intn(6900)
			}
		}
		go func(c int, sizes []int) {
			defer cw.Done()
			for i, ln := range sizes {
				select {
				case pcn.feed <- vUDgram{vUAddr(c), vUStressDgram(c, i+1, ln)}:
				case <-time.After(3 * time.Second):
					return
				}
				if i%3 == 2 {
					time.Sleep(time.Duration(50+c*20) * time.Microsecond)
				}
			}
		}(c, sizes)
	}
	cw.Wait()
	time.Sleep(20 * time.Millisecond)
	hd := make(chan struct{})
	go func() { handlers.Wait(); close(hd) }()
	select {
	case <-hd:
	case <-time.After(3 * time.Second):
	}
	close(pcn.stop)
	select {
	case <-srvDone:
	case <-time.After(2 * time.Second):
	}
	return int(nchecked.Load()), int(nbad.Load()), first
}

var _ = io.EOF

func TestVerifC08Udp(t *testing.T) {
	out := vOpen()
	defer out.Close()
	r := vNewRng(vSeed()*7919 + 13)
	n := vN(150) / 3
	if n < 30 {
		n = 30
	}
	for i := 0; i < n; i++ {
		coq, fails, cls := vUdpLockstep(r)
		out.Case(coq, cls, strings.Contains(cls, "multi-read=true"), nil)
		for _, f := range fails {
			f(out)
		}
	}
	type cfg struct{ procs, clients, per int }
	cfgs := []cfg{{1, 3, 12}, {4, 4, 16}, {16, 4, 16}}
	if vThorough() {
		cfgs = append(cfgs, cfg{1, 4, 40}, cfg{4, 4, 60}, cfg{16, 4, 60}, cfg{2, 2, 40})
	}
	for _, c := range cfgs {
		checked, bad, first := vUdpStress(c.procs, c.clients, c.per, r)
		out.Case(fmt.Sprintf("CStress \"udp\" %d %d %d %d", c.procs, c.clients*c.per, checked, bad), fmt.Sprintf("stress/udp/procs=%d", c.procs), checked >= 2, nil)
		if bad > 0 {
			out.Fail("C08:udp-pool:cross-talk", first, map[string]any{"gomaxprocs": c.procs, "clients": c.clients, "datagrams_per_client": c.per, "bad": bad, "checked": checked})
		}
		if checked == 0 {
			out.Fail("C08:udp-pool:stress-read-nothing", "no datagram reached a handler", map[string]any{"gomaxprocs": c.procs})
		}
		out.Stat(fmt.Sprintf("udp.stress.p%d", c.procs), map[string]int{"checked": checked, "bad": bad})
	}
}
