package layer4

// C09 engine: trace validation of the real Server.servePacket / packetConn.
//
// A Server whose compiled route is an (empty) RouteList followed by a scripted handler is run
// over a scripted net.PacketConn (deterministic; datagrams are handed to ReadFrom one by one)
// or over a real loopback UDP socket. Every observable event is appended to one log under a
// mutex: datagram arrival (ReadFrom returned it), start of a handler for a new association,
// every Read result of every handler (which datagram, which byte range), EOF / deadline
// results, every Write with the destination address WriteTo was given, handler return.
// The log is printed as a Coq term (corr/C09Corr.v decides whether the model accepts it) and the
// property text is evaluated on it directly (vC09Oracle).
//
// Every scenario runs in a child process (this test binary re-executed with VERIF_C09_CHILD):
// a `panic: send on closed channel` in the server loop kills the child, the parent records it
// under C09:loop:panic-send-on-closed-channel and carries on with the next scenario.

import (
	"bufio"
	"bytes"
	"context"
	"encoding/binary"
	"encoding/json"
	"errors"
	"fmt"
	"io"
	"net"
	"os"
	"os/exec"
	"sort"
	"strconv"
	"strings"
	"sync"
	"sync/atomic"
	"testing"
	"time"

	"github.com/caddyserver/caddy/v2"
	"github.com/caddyserver/caddy/v2/modules/caddyhttp"
	"go.uber.org/zap"
	"go.uber.org/zap/zapcore"
	"go.uber.org/zap/zaptest/observer"
)

// ---------------------------------------------------------------- payloads

const vC09Hdr = 16

// datagram: "C9" client kind(0) id:u32 size:u32 0:u32 filler; reply: "C9" client kind(1) id:u32 16:u32 assoc:u32
func vC09Fill(client, id, i int) byte { return byte((client*31+id*17+i*13)^(i>>8)) | 1 }

func vC09Payload(client, id, size int) []byte {
	b := make([]byte, size)
	for i := range b {
		b[i] = vC09Fill(client, id, i)
	}
	b[0], b[1], b[2], b[3] = 'C', '9', byte(client), 0
	binary.BigEndian.PutUint32(b[4:], uint32(id))
	binary.BigEndian.PutUint32(b[8:], uint32(size))
	binary.BigEndian.PutUint32(b[12:], 0)
	return b
}

func vC09Reply(client, id, assoc int) []byte {
	b := make([]byte, vC09Hdr)
	b[0], b[1], b[2], b[3] = 'C', '9', byte(client), 1
	binary.BigEndian.PutUint32(b[4:], uint32(id))
	binary.BigEndian.PutUint32(b[8:], vC09Hdr)
	binary.BigEndian.PutUint32(b[12:], uint32(assoc))
	return b
}

type vC09Head struct{ client, kind, id, size, assoc int }

func vC09Parse(b []byte) (vC09Head, bool) {
	if len(b) < vC09Hdr || b[0] != 'C' || b[1] != '9' {
		return vC09Head{}, false
	}
	return vC09Head{int(b[2]), int(b[3]), int(binary.BigEndian.Uint32(b[4:])), int(binary.BigEndian.Uint32(b[8:])), int(binary.BigEndian.Uint32(b[12:]))}, true
}

func boolInt(b bool) int {
	if b {
		return 1
	}
	return 0
}

// ---------------------------------------------------------------- plans

const (
	vHEcho  = iota // read until an error, reply to every complete datagram
	vHReadN        // read n complete datagrams (replying), then return
	vHStall        // wait for release, then behave as `then`
	vHIdle         // echo one datagram, let the idle timer expire in the next Read, wait for release, return
	// read the first piece of a datagram larger than the buffer, Close the connection, wait for release, then
	// Read again: the remainder that was held must not be served any more (io.EOF, no bytes, no panic)
	vHCloseRead
)

type vHKind struct {
	Mode     int  `json:"mode"`
	N        int  `json:"n"`
	Buf      int  `json:"buf"`
	Then     int  `json:"then"`     // for vHStall: vHEcho or vHReadN (with N)
	Deadline bool `json:"deadline"` // first Read with an expired deadline
	Gate     bool `json:"gate"`     // vHIdle: the idle timer is only made to expire after a vPreIdle action
}

const (
	vPreNone      = iota
	vPreWaitEnded // wait until the newest association of Client has seen EOF or returned, then settle
	vPreRelease   // release stalled/idle handlers of Client, then settle
	vPreSettle    // wait for quiescence
	vPreIdle      // let the gated idle handlers of Client expire now, then settle
)

type vSend struct {
	Client int `json:"c"`
	Size   int `json:"s"`
	Pre    int `json:"pre"`
	Expect int `json:"exp"` // 1: this datagram must be read by an association newer than the one that ended
	// Targets: the clients a vPreRelease / vPreIdle action applies to (default: Client); NoSend: action only
	Targets []int `json:"t,omitempty"`
	NoSend  bool  `json:"nosend,omitempty"`
}

type vPlan struct {
	Name     string            `json:"name"`
	Real     bool              `json:"real"`
	NClients int               `json:"nclients"`
	Sends    []vSend           `json:"sends"`
	Kinds    map[string]vHKind `json:"kinds"` // "client/ordinal" or "client/*"
	Back     bool              `json:"back"`  // backpressure count scenario
	Seq      bool              `json:"seq"`   // sequential: every action waits for the visible effect of the previous one
	Addrs    int               `json:"addrs"` // which client address set (vC09Addrs); scripted mode only
	Match    bool              `json:"match"` // the route list has a matcher that needs data: the first Read is the 2048-byte prefetch
}

func (p *vPlan) kind(client, ord int) vHKind {
	if k, ok := p.Kinds[fmt.Sprintf("%d/%d", client, ord)]; ok {
		return k
	}
	if k, ok := p.Kinds[fmt.Sprintf("%d/*", client)]; ok {
		return k
	}
	return vHKind{Mode: vHEcho, Buf: 9000}
}

var vC09Sizes = []int{16, 17, 100, 511, 512, 513, 1200, 1472, 2047, 2048, 2049, 4096, 8999, 9000}

// handler read buffers; 2048 is also the size of the matching-phase prefetch read
var vC09Bufs = []int{9000, 9000, 4096, 2048, 2048, 1024, 512, 100, 1}

// vC09PickSize: datagram sizes around the reader's buffer size (buf-1, buf, buf+1), around the
// prefetch chunk (2047..2049), the usual boundaries, or anything in 16..9000
func vC09PickSize(r *vRng, buf int, small bool) int {
	if buf == 1 {
		return vC09Hdr + r.Intn(24)
	}
	clamp := func(x int) int {
		if x < vC09Hdr {
			return vC09Hdr
		}
		if x > 9000 {
			return 9000
		}
		return x
	}
	var sz int
	switch r.Intn(6) {
	case 0, 1:
		if buf <= 0 {
			buf = 9000
		}
		sz = clamp(buf - 1 + r.Intn(3))
	case 2:
		sz = 2047 + r.Intn(3)
	case 3:
		sz = vC09Hdr + r.Intn(9000-vC09Hdr+1)
	default:
		sz = vC09Sizes[r.Intn(len(vC09Sizes))]
	}
	if small && sz > 1500 {
		sz = vC09Hdr + r.Intn(1400)
	}
	return sz
}

func vC09Corpus() []vPlan {
	mk := func(c, s int) vSend { return vSend{Client: c, Size: s} }
	var ps []vPlan
	// 0: the handler never reads; readCh fills, the loop blocks in its send; the handler returns
	p := vPlan{Name: "blocked-sender-then-close", NClients: 1, Kinds: map[string]vHKind{"0/0": {Mode: vHStall, Then: vHReadN, N: 0}}}
	for i := 0; i < 7; i++ {
		p.Sends = append(p.Sends, mk(0, 64))
	}
	p.Sends = append(p.Sends, vSend{Client: 0, Size: 64, Pre: vPreRelease})
	ps = append(ps, p)
	// 1: burst from one client whose handler returns at once (a client that matches no route)
	p = vPlan{Name: "burst-immediate-return", NClients: 1, Kinds: map[string]vHKind{"0/*": {Mode: vHReadN, N: 0}}}
	for i := 0; i < 40; i++ {
		p.Sends = append(p.Sends, mk(0, 32))
	}
	ps = append(ps, p)
	// 2: idle expiry (first notification), a new association, then the old handler's Close (second notification)
	p = vPlan{Name: "idle-then-late-close", Seq: true, NClients: 1, Kinds: map[string]vHKind{"0/0": {Mode: vHIdle, Buf: 9000}}}
	p.Sends = []vSend{mk(0, 100), {Client: 0, Size: 100, Pre: vPreWaitEnded, Expect: 1}, {Client: 0, Size: 100, Pre: vPreRelease}, mk(0, 100)}
	ps = append(ps, p)
	// 3: read one and return, then a later datagram: served by a fresh association
	p = vPlan{Name: "read-once-then-fresh", Seq: true, NClients: 2, Kinds: map[string]vHKind{"0/*": {Mode: vHReadN, N: 1, Buf: 9000}}}
	p.Sends = []vSend{mk(0, 100), mk(1, 200), {Client: 0, Size: 300, Pre: vPreWaitEnded, Expect: 1}, mk(1, 100), {Client: 0, Size: 9000, Pre: vPreWaitEnded, Expect: 1}}
	ps = append(ps, p)
	// 4: four clients interleaved, jumbo datagrams read through a small buffer
	p = vPlan{Name: "interleaved-partial-reads", NClients: 4, Kinds: map[string]vHKind{"0/*": {Mode: vHEcho, Buf: 512}, "1/*": {Mode: vHEcho, Buf: 9000}, "2/*": {Mode: vHEcho, Buf: 100}, "3/*": {Mode: vHEcho, Buf: 4096, Deadline: true}}}
	for i := 0; i < 24; i++ {
		p.Sends = append(p.Sends, mk(i%4, vC09Sizes[(i*7)%len(vC09Sizes)]))
	}
	ps = append(ps, p)
	// 5: the same over real loopback sockets
	q := p
	q.Name, q.Real = "interleaved-partial-reads-real", true
	ps = append(ps, q)
	// 6: backpressure: how many datagrams does the server take from the socket while the handler does not read
	p = vPlan{Name: "backpressure", NClients: 1, Back: true, Kinds: map[string]vHKind{"0/0": {Mode: vHStall, Then: vHEcho, Buf: 9000}}}
	for i := 0; i < 30; i++ {
		p.Sends = append(p.Sends, mk(0, 48))
	}
	ps = append(ps, p)
	// idle expiry while closeCh is full: the loop is blocked on the full readCh of a handler that does not
	// read (client 1), ten short-lived associations (clients 2..11) finish and fill closeCh, the victim
	// (client 0) idles out at that moment; the loop then gets going again and works the notifications off;
	// the victim's next datagram, sent before its old handler has returned, must get a fresh association
	p = vPlan{Name: "idle-expiry-while-closech-full", NClients: 12, Kinds: map[string]vHKind{
		"0/0": {Mode: vHIdle, Buf: 9000, Gate: true}, "1/*": {Mode: vHStall, Then: vHEcho, Buf: 9000}}}
	closers := []int{}
	for c := 2; c < 12; c++ {
		p.Kinds[fmt.Sprintf("%d/*", c)] = vHKind{Mode: vHStall, Then: vHReadN, N: 0}
		closers = append(closers, c)
	}
	p.Sends = []vSend{mk(0, 64)}
	for _, c := range closers {
		p.Sends = append(p.Sends, mk(c, 32))
	}
	p.Sends = append(p.Sends, vSend{Client: 1, Size: 48, Pre: vPreSettle})
	for i := 0; i < 5; i++ {
		p.Sends = append(p.Sends, mk(1, 48))
	}
	p.Sends = append(p.Sends,
		vSend{Pre: vPreSettle, NoSend: true},
		vSend{Pre: vPreRelease, Targets: closers, NoSend: true},
		vSend{Pre: vPreIdle, Targets: []int{0}, NoSend: true},
		vSend{Pre: vPreRelease, Targets: []int{1}, NoSend: true},
		vSend{Client: 0, Size: 80, Pre: vPreWaitEnded, Expect: 1},
		mk(0, 81))
	ps = append(ps, p)
	// a jumbo datagram read in part, Close, other clients' datagrams, then Read again on the closed association
	p = vPlan{Name: "read-after-close-with-partial-datagram", NClients: 3, Kinds: map[string]vHKind{"0/0": {Mode: vHCloseRead, Buf: 2048}}}
	p.Sends = []vSend{mk(0, 9000), {Client: 1, Size: 9000, Pre: vPreSettle}, mk(2, 9000), mk(1, 8999), mk(2, 9000), mk(1, 9000),
		{Pre: vPreRelease, Targets: []int{0}, NoSend: true},
		{Client: 0, Size: 300, Pre: vPreWaitEnded, Expect: 1}, mk(0, 9000)}
	ps = append(ps, p)
	// datagrams of buf-1, buf, buf+1 bytes for reader buffers of 9000, 2048, 100 and 1 bytes (a datagram that
	// fits the buffer exactly is consumed entirely: the next Read must wait, not return an empty read or EOF)
	for _, match := range []bool{false, true} {
		p = vPlan{Name: fmt.Sprintf("exact-fit-reads-match=%v", match), NClients: 4, Match: match, Kinds: map[string]vHKind{
			"0/*": {Mode: vHEcho, Buf: 9000}, "1/*": {Mode: vHEcho, Buf: 2048}, "2/*": {Mode: vHEcho, Buf: 100}, "3/*": {Mode: vHEcho, Buf: 1}}}
		for _, d := range []int{-1, 0, 1, 0} {
			p.Sends = append(p.Sends, mk(0, 9000+d-boolInt(d > 0)), mk(1, 2048+d), mk(2, 100+d), mk(3, 17+d))
		}
		p.Sends = append(p.Sends, mk(0, 2048), mk(1, 9000), mk(0, 2047), mk(1, 2049), mk(2, 2048))
		ps = append(ps, p)
	}
	// one interleaved plan per client address set (clients differ in port / IP / IPv6 zone / family / type only)
	for k := 1; k < vC09AddrKinds; k++ {
		p = vPlan{Name: fmt.Sprintf("address-set-%d", k), NClients: 4, Addrs: k, Kinds: map[string]vHKind{"2/*": {Mode: vHReadN, N: 2, Buf: 9000}}}
		for i := 0; i < 16; i++ {
			p.Sends = append(p.Sends, mk((i*3+i/4)%4, 40+i))
		}
		ps = append(ps, p)
	}
	// 7: real sockets, read-once handlers and fresh associations
	p = vPlan{Name: "read-once-then-fresh-real", Real: true, NClients: 2, Kinds: map[string]vHKind{"0/*": {Mode: vHReadN, N: 1, Buf: 9000}}}
	p.Sends = []vSend{mk(0, 100), mk(1, 200), {Client: 0, Size: 300, Pre: vPreWaitEnded, Expect: 1}, mk(1, 100), {Client: 0, Size: 1400, Pre: vPreWaitEnded, Expect: 1}}
	ps = append(ps, p)
	return ps
}

func vC09Random(r *vRng, idx int) vPlan {
	p := vPlan{Name: fmt.Sprintf("random-%d", idx), NClients: 1 + r.Intn(4), Kinds: map[string]vHKind{}}
	p.Real = r.Intn(5) == 0
	p.Addrs = r.Intn(vC09AddrKinds)
	p.Match = r.Intn(4) == 0
	bufs := vC09Bufs
	small := map[int]bool{}
	bufOf := map[int]int{}
	stall := false
	readers := map[int]bool{}
	for c := 0; c < p.NClients; c++ {
		var k vHKind
		switch r.Intn(8) {
		case 0, 1, 2:
			k = vHKind{Mode: vHEcho, Buf: bufs[r.Intn(len(bufs))], Deadline: r.Intn(4) == 0}
		case 3, 4:
			k = vHKind{Mode: vHReadN, N: 1 + r.Intn(3), Buf: bufs[r.Intn(len(bufs))]}
			readers[c] = true
		case 5:
			k = vHKind{Mode: vHReadN, N: 0}
		case 6:
			k = vHKind{Mode: vHStall, Then: vHEcho, Buf: bufs[r.Intn(len(bufs))]}
			if r.Bool() {
				k.Then, k.N = vHReadN, r.Intn(3)
			}
			stall = true
		case 7:
			k = vHKind{Mode: vHIdle, Buf: 9000}
			p.Kinds[fmt.Sprintf("%d/0", c)] = k
			k = vHKind{Mode: vHEcho, Buf: 9000}
		}
		p.Kinds[fmt.Sprintf("%d/*", c)] = k
		small[c] = k.Buf > 0 && k.Buf < 512
		bufOf[c] = k.Buf
	}
	total := 2 + r.Intn(40)
	if r.Intn(4) == 0 {
		total = 30 + r.Intn(50)
	}
	for i := 0; i < total; i++ {
		c := r.Intn(p.NClients)
		sz := vC09PickSize(r, bufOf[c], small[c])
		if p.Real && sz > 2000 && r.Intn(3) != 0 {
			sz = vC09Hdr + r.Intn(1400)
		}
		s := vSend{Client: c, Size: sz}
		if !stall && readers[c] && r.Intn(3) == 0 {
			s.Pre, s.Expect = vPreWaitEnded, 1
		} else if r.Intn(12) == 0 {
			s.Pre = vPreSettle
		} else if stall && r.Intn(15) == 0 {
			s.Pre = vPreRelease
		}
		p.Sends = append(p.Sends, s)
	}
	return p
}

// sequential plans: every handler reads and replies, the harness waits for each reply
func vC09RandomSeq(r *vRng, idx int) vPlan {
	p := vPlan{Name: fmt.Sprintf("sequential-%d", idx), Seq: true, NClients: 1 + r.Intn(3), Addrs: r.Intn(vC09AddrKinds), Match: r.Intn(4) == 0, Kinds: map[string]vHKind{}}
	bufs := vC09Bufs
	small := map[int]bool{}
	bufOf := map[int]int{}
	for c := 0; c < p.NClients; c++ {
		var k vHKind
		switch r.Intn(5) {
		case 0, 1:
			k = vHKind{Mode: vHEcho, Buf: bufs[r.Intn(len(bufs))], Deadline: r.Intn(3) == 0}
		case 2, 3:
			k = vHKind{Mode: vHReadN, N: 1 + r.Intn(3), Buf: bufs[r.Intn(len(bufs))]}
		case 4:
			p.Kinds[fmt.Sprintf("%d/0", c)] = vHKind{Mode: vHIdle, Buf: 9000}
			k = vHKind{Mode: vHEcho, Buf: 9000}
		}
		p.Kinds[fmt.Sprintf("%d/*", c)] = k
		small[c] = k.Buf > 0 && k.Buf < 512
		bufOf[c] = k.Buf
	}
	total := 3 + r.Intn(22)
	for i := 0; i < total; i++ {
		c := r.Intn(p.NClients)
		sz := vC09PickSize(r, bufOf[c], small[c])
		s := vSend{Client: c, Size: sz}
		if r.Intn(10) == 0 {
			s.Pre = vPreRelease // lets an idled-out handler return (its Close notifies a second time)
		}
		p.Sends = append(p.Sends, s)
	}
	return p
}

// ---------------------------------------------------------------- client address sets
//
// A client is identified by addr.String() (that is what the association table must be keyed by).
// Each set makes the clients differ in exactly one component; a client may own several net.Addr
// values that print the same (4-byte and 16-byte form of an IPv4 address): they are ONE client.

type vC09Addr struct{ s string } // a net.Addr that is not a *net.UDPAddr

func (a vC09Addr) Network() string { return "udp" }
func (a vC09Addr) String() string  { return a.s }

const vC09AddrKinds = 6

func vC09Addrs(kind, n int) [][]net.Addr {
	out := make([][]net.Addr, n)
	ll := net.ParseIP("fe80::1")
	for c := 0; c < n; c++ {
		switch kind {
		default: // one IP, ports differ; both byte forms of the IPv4 address
			out[c] = []net.Addr{&net.UDPAddr{IP: net.IPv4(10, 9, 0, 1), Port: 4000 + c}, &net.UDPAddr{IP: net.IPv4(10, 9, 0, 1).To4(), Port: 4000 + c}}
		case 1: // one port, IPs differ
			out[c] = []net.Addr{&net.UDPAddr{IP: net.IPv4(10, 9, 0, byte(1+c)).To4(), Port: 4000}}
		case 2: // link-local IPv6: only the zone differs
			out[c] = []net.Addr{&net.UDPAddr{IP: ll, Port: 5000, Zone: fmt.Sprintf("eth%d", c)}}
		case 3: // mixed: port / family / zone
			switch c {
			case 0:
				out[c] = []net.Addr{&net.UDPAddr{IP: net.IPv4(10, 9, 0, 1).To4(), Port: 4000}, &net.UDPAddr{IP: net.IPv4(10, 9, 0, 1), Port: 4000}}
			case 1:
				out[c] = []net.Addr{&net.UDPAddr{IP: ll, Port: 4000}}
			case 2:
				out[c] = []net.Addr{&net.UDPAddr{IP: ll, Port: 4000, Zone: "eth0"}}
			default:
				out[c] = []net.Addr{&net.UDPAddr{IP: ll, Port: 4000, Zone: "eth1"}}
			}
		case 4: // not UDP addresses at all
			out[c] = []net.Addr{vC09Addr{fmt.Sprintf("peer/%c", 'a'+c)}}
		case 5: // global IPv6 with and without zone, and an IPv4 neighbour
			switch c {
			case 0:
				out[c] = []net.Addr{&net.UDPAddr{IP: net.ParseIP("2001:db8::7"), Port: 5000}}
			case 1:
				out[c] = []net.Addr{&net.UDPAddr{IP: net.ParseIP("2001:db8::7"), Port: 5000, Zone: "wan0"}}
			case 2:
				out[c] = []net.Addr{&net.UDPAddr{IP: net.ParseIP("2001:db8::7"), Port: 5001}}
			default:
				out[c] = []net.Addr{vC09Addr{"[2001:db8::7]:5000/x"}}
			}
		}
	}
	return out
}

// ---------------------------------------------------------------- event log

type vC09Read struct {
	id, off, n int
	fresh      bool
	pos        int // log position
}

type vC09Assoc struct {
	ord     int // global ordinal (order of handler start)
	client  int
	cord    int // ordinal among the client's associations
	reads   []vC09Read
	endPos  int // log position of the first EOF / return (-1: none)
	newPos  int
	release chan struct{}
	idleGo  chan struct{}
	idled   atomic.Bool // the harness has made the idle timer fire
	pc      *packetConn
	inRead  atomic.Bool
}

type vC09Fail struct{ key, detail string }

type vC09Log struct {
	mu       sync.Mutex
	coq      []string
	n        int64
	arrPos   map[int]int // datagram id -> arrival index
	arrCl    map[int]int // datagram id -> client (by source address)
	arrSize  map[int]int
	narr     int
	assocs   []*vC09Assoc
	byClient map[int][]*vC09Assoc
	fails    []vC09Fail
	readBy   map[int]int // datagram id -> association ordinal (first fresh read)
	replied  map[int]bool
	readFrom atomic.Int64
}

func newVC09Log() *vC09Log {
	return &vC09Log{arrPos: map[int]int{}, arrCl: map[int]int{}, arrSize: map[int]int{}, byClient: map[int][]*vC09Assoc{}, readBy: map[int]int{}, replied: map[int]bool{}}
}

func (l *vC09Log) add(s string) int {
	l.coq = append(l.coq, s)
	atomic.AddInt64(&l.n, 1)
	return len(l.coq) - 1
}

func (l *vC09Log) fail(key, detail string) {
	for _, f := range l.fails {
		if f.key == key {
			return
		}
	}
	l.fails = append(l.fails, vC09Fail{key, detail})
}

func (l *vC09Log) count() int64 { return atomic.LoadInt64(&l.n) }

// waitQuiet returns once nothing has been logged for d (at most max).
func (l *vC09Log) waitQuiet(d, max time.Duration) {
	end := time.Now().Add(max)
	for {
		c := l.count()
		time.Sleep(d)
		if l.count() == c || time.Now().After(end) {
			return
		}
	}
}

// ---------------------------------------------------------------- the socket under the server

type vC09Dgram struct {
	b    []byte
	addr net.Addr
}

type vC09PC struct {
	log     *vC09Log
	in      chan vC09Dgram // scripted mode
	inner   net.PacketConn // real mode
	done    chan struct{}
	once    sync.Once
	clients map[string]int // address -> client
}

func (p *vC09PC) clientOf(a net.Addr) int {
	if a == nil {
		return -1
	}
	if c, ok := p.clients[a.String()]; ok {
		return c
	}
	return -1
}

func (p *vC09PC) ReadFrom(b []byte) (int, net.Addr, error) {
	var n int
	var addr net.Addr
	if p.inner != nil {
		var err error
		n, addr, err = p.inner.ReadFrom(b)
		if err != nil {
			return n, addr, err
		}
	} else {
		select {
		case d := <-p.in:
			n = copy(b, d.b)
			addr = d.addr
		case <-p.done:
			return 0, nil, net.ErrClosed
		}
	}
	h, ok := vC09Parse(b[:n])
	l := p.log
	l.mu.Lock()
	if ok && h.kind == 0 {
		l.arrPos[h.id] = l.narr
		l.arrCl[h.id] = p.clientOf(addr)
		l.arrSize[h.id] = n
		l.narr++
		l.add(fmt.Sprintf("OArr %d %d %d", p.clientOf(addr), h.id, n))
	}
	l.mu.Unlock()
	l.readFrom.Add(1)
	return n, addr, nil
}

func (p *vC09PC) WriteTo(b []byte, addr net.Addr) (int, error) {
	h, ok := vC09Parse(b)
	l := p.log
	l.mu.Lock()
	dst := p.clientOf(addr)
	if ok && h.kind == 1 {
		l.add(fmt.Sprintf("OWrite %d %d %d", h.assoc, h.id, dst))
		l.replied[h.id] = true
		if dst != h.client {
			l.fail("C09:reply:wrong-address", fmt.Sprintf("reply to datagram %d of client %d was sent to %v (client %d)", h.id, h.client, addr, dst))
		}
	}
	l.mu.Unlock()
	if p.inner != nil {
		return p.inner.WriteTo(b, addr)
	}
	return len(b), nil
}

func (p *vC09PC) Close() error {
	p.once.Do(func() { close(p.done) })
	if p.inner != nil {
		return p.inner.Close()
	}
	return nil
}

func (p *vC09PC) LocalAddr() net.Addr {
	if p.inner != nil {
		return p.inner.LocalAddr()
	}
	return &net.UDPAddr{IP: net.IPv4(10, 9, 0, 254), Port: 5300}
}
func (p *vC09PC) SetDeadline(time.Time) error      { return nil }
func (p *vC09PC) SetReadDeadline(time.Time) error  { return nil }
func (p *vC09PC) SetWriteDeadline(time.Time) error { return nil }

// a matcher that needs one byte: the route list prefetches (one 2048-byte Read) before the handler runs
type vC09Matcher struct{}

var vC09RegisterMatcher sync.Once

func (vC09Matcher) CaddyModule() caddy.ModuleInfo {
	return caddy.ModuleInfo{ID: "layer4.matchers.verif_c09", New: func() caddy.Module { return new(vC09Matcher) }}
}

func (m *vC09Matcher) Match(cx *Connection) (bool, error) {
	b := make([]byte, 1)
	if _, err := io.ReadFull(cx, b); err != nil {
		return false, err
	}
	return true, nil
}

// ---------------------------------------------------------------- scripted handler

type vC09Run struct {
	plan *vPlan
	log  *vC09Log
	pc   *vC09PC
}

func (r *vC09Run) handle(cx *Connection) error {
	l := r.log
	pconn, _ := cx.Conn.(*packetConn)
	client := r.pc.clientOf(cx.RemoteAddr())
	l.mu.Lock()
	a := &vC09Assoc{ord: len(l.assocs), client: client, cord: len(l.byClient[client]), endPos: -1, release: make(chan struct{}), idleGo: make(chan struct{}), pc: pconn}
	// property: a new association for a client means the previous one has ended
	if prev := l.byClient[client]; len(prev) > 0 && prev[len(prev)-1].endPos < 0 {
		l.fail("C09:fresh:live-association-dropped", fmt.Sprintf("client %d: association #%d was started while association #%d had neither seen EOF nor returned (two live virtual connections for one client)", client, a.cord, a.cord-1))
	}
	l.assocs = append(l.assocs, a)
	l.byClient[client] = append(l.byClient[client], a)
	a.newPos = l.add(fmt.Sprintf("ONew %d %d", a.ord, client))
	l.mu.Unlock()

	k := r.plan.kind(client, a.cord)
	mode, n := k.Mode, k.N
	if mode == vHStall {
		<-a.release
		mode = k.Then
	}
	bufSize := k.Buf
	if bufSize <= 0 {
		bufSize = 9000
	}
	buf := make([]byte, bufSize)
	var cur *vC09Head // datagram being read in pieces
	curOff := 0
	complete := 0
	var pre []byte // pieces of a datagram whose header is not complete yet (read buffers below 16 bytes)
	var preLens []int
	idling := false
	ended := func(ev string) {
		l.mu.Lock()
		pos := l.add(ev)
		if a.endPos < 0 {
			a.endPos = pos
		}
		l.mu.Unlock()
	}
	if k.Deadline && mode == vHEcho && !r.plan.Match {
		_ = cx.SetReadDeadline(time.Now().Add(-2 * time.Second))
		_, err := cx.Read(buf)
		if errors.Is(err, os.ErrDeadlineExceeded) {
			l.mu.Lock()
			l.add(fmt.Sprintf("ODeadline %d", a.ord))
			l.mu.Unlock()
		}
		_ = cx.SetReadDeadline(time.Time{})
	}
	for {
		if mode == vHReadN && complete >= n {
			break
		}
		if mode == vHIdle && complete >= 1 && pconn != nil && !idling {
			// let the association's idle timer expire while Read is blocked
			idling = true
			stop := make(chan struct{})
			go func() {
				if k.Gate {
					select {
					case <-stop:
						return
					case <-a.idleGo:
					}
				}
				for {
					select {
					case <-stop:
						return
					case <-time.After(3 * time.Millisecond):
						if a.inRead.Load() && pconn.idleTimer != nil {
							a.idled.Store(true)
							pconn.idleTimer.Reset(time.Millisecond)
						}
					}
				}
			}()
			defer close(stop)
		}
		a.inRead.Store(true)
		m, err := cx.Read(buf)
		a.inRead.Store(false)
		if m > 0 {
			chunk := buf[:m]
			l.mu.Lock()
			if cur != nil {
				// continuation of a partially read datagram
				want := vC09Payload(cur.client, cur.id, cur.size)
				if curOff+m > len(want) || !bytes.Equal(chunk, want[curOff:curOff+m]) {
					l.fail("C09:demux:corrupt-payload", fmt.Sprintf("association #%d of client %d: continuation of datagram %d at offset %d does not carry that datagram's bytes", a.cord, client, cur.id, curOff))
					l.add(fmt.Sprintf("ORead %d (-1) false %d %d", a.ord, curOff, m))
					cur = nil
				} else {
					pos := l.add(fmt.Sprintf("ORead %d %d false %d %d", a.ord, cur.id, curOff, m))
					a.reads = append(a.reads, vC09Read{cur.id, curOff, m, false, pos})
					curOff += m
					if curOff == cur.size {
						cur = nil
					}
				}
			} else if len(pre)+m < vC09Hdr {
				// a reader with a tiny buffer: the header is not complete yet, hold the pieces back
				pre = append(pre, chunk...)
				preLens = append(preLens, m)
			} else if len(pre) > 0 {
				// the header is complete now: identify the datagram and log the pieces that were held back
				pre = append(pre, chunk...)
				preLens = append(preLens, m)
				h, ok := vC09Parse(pre)
				var want []byte
				if ok && h.kind == 0 && h.size <= 9000 {
					want = vC09Payload(h.client, h.id, h.size)
				}
				if want == nil || len(pre) > len(want) || !bytes.Equal(pre, want[:len(pre)]) {
					l.fail("C09:demux:corrupt-payload", fmt.Sprintf("association #%d of client %d read %d bytes that are not the beginning of any datagram sent", a.cord, client, len(pre)))
					l.add(fmt.Sprintf("ORead %d (-1) true 0 %d", a.ord, len(pre)))
				} else {
					off := 0
					for i, n := range preLens {
						pos := l.add(fmt.Sprintf("ORead %d %d %v %d %d", a.ord, h.id, i == 0, off, n))
						a.reads = append(a.reads, vC09Read{h.id, off, n, i == 0, pos})
						off += n
					}
					if h.client != client {
						l.fail("C09:demux:wrong-client", fmt.Sprintf("association #%d of client %d read datagram %d, which was sent by client %d", a.cord, client, h.id, h.client))
					}
					if prev, dup := l.readBy[h.id]; dup {
						l.fail("C09:demux:duplicate-delivery", fmt.Sprintf("datagram %d was delivered twice (associations %d and %d)", h.id, prev, a.ord))
					}
					l.readBy[h.id] = a.ord
					if off < h.size {
						hh := h
						cur, curOff = &hh, off
					}
				}
				pre, preLens = nil, nil
			} else {
				h, ok := vC09Parse(chunk)
				var want []byte
				if ok && h.kind == 0 && h.size <= 9000 {
					want = vC09Payload(h.client, h.id, h.size)
				}
				if want == nil || m > len(want) || !bytes.Equal(chunk, want[:m]) {
					l.fail("C09:demux:corrupt-payload", fmt.Sprintf("association #%d of client %d read %d bytes that are not the beginning of any datagram sent", a.cord, client, m))
					l.add(fmt.Sprintf("ORead %d (-1) true 0 %d", a.ord, m))
				} else {
					pos := l.add(fmt.Sprintf("ORead %d %d true 0 %d", a.ord, h.id, m))
					a.reads = append(a.reads, vC09Read{h.id, 0, m, true, pos})
					if h.client != client {
						l.fail("C09:demux:wrong-client", fmt.Sprintf("association #%d of client %d read datagram %d, which was sent by client %d", a.cord, client, h.id, h.client))
					}
					if prev, dup := l.readBy[h.id]; dup {
						l.fail("C09:demux:duplicate-delivery", fmt.Sprintf("datagram %d was delivered twice (associations %d and %d)", h.id, prev, a.ord))
					}
					l.readBy[h.id] = a.ord
					if m < h.size {
						hh := h
						cur, curOff = &hh, m
					}
				}
			}
			done := cur == nil && len(pre) == 0
			var last vC09Read
			if len(a.reads) > 0 {
				last = a.reads[len(a.reads)-1]
			}
			l.mu.Unlock()
			if done {
				complete++
				_, _ = cx.Write(vC09Reply(client, last.id, a.ord))
			}
		}
		if mode == vHCloseRead && err == nil {
			ended(fmt.Sprintf("ORet %d", a.ord)) // Close begins
			_ = cx.Close()
			l.mu.Lock()
			l.add(fmt.Sprintf("OClosed %d", a.ord))
			l.mu.Unlock()
			<-a.release // other clients' datagrams arrive meanwhile; the released buffer may be reused for them
			for i := 0; i < 4; i++ {
				m, err := cx.Read(buf)
				if m > 0 {
					l.mu.Lock()
					own := false
					if cur != nil {
						want := vC09Payload(cur.client, cur.id, cur.size)
						own = curOff+m <= len(want) && bytes.Equal(buf[:m], want[curOff:curOff+m])
					}
					if own {
						l.fail("C09:read:bytes-after-close", fmt.Sprintf("association #%d of client %d: Read after Close returned %d more bytes of datagram %d (offset %d) instead of io.EOF", a.cord, client, m, cur.id, curOff))
						l.add(fmt.Sprintf("ORead %d %d false %d %d", a.ord, cur.id, curOff, m))
					} else {
						l.fail("C09:demux:wrong-client", fmt.Sprintf("association #%d of client %d: Read after Close returned %d bytes that are not this client's (a buffer that is back in the pool, now holding another client's datagram)", a.cord, client, m))
						l.add(fmt.Sprintf("ORead %d (-1) false %d %d", a.ord, curOff, m))
					}
					l.mu.Unlock()
					break
				}
				if errors.Is(err, io.EOF) {
					l.mu.Lock()
					l.add(fmt.Sprintf("OEof %d", a.ord))
					l.mu.Unlock()
					break
				}
				if err != nil {
					break
				}
			}
			return nil
		}
		if err != nil {
			if errors.Is(err, io.EOF) {
				l.mu.Lock()
				if a.idled.Load() {
					l.add(fmt.Sprintf("OIdle %d", a.ord))
				} else {
					// nobody closed this association and its idle timer (30 s) was not touched
					l.fail("C09:read:spurious-eof", fmt.Sprintf("association #%d of client %d: Read returned io.EOF (after %d complete datagrams, read buffer %d bytes) although the association was neither closed nor idle: the virtual connection ends and queued datagrams are lost", a.cord, client, complete, bufSize))
				}
				l.mu.Unlock()
				ended(fmt.Sprintf("OEof %d", a.ord))
			} else if errors.Is(err, os.ErrDeadlineExceeded) {
				l.mu.Lock()
				l.add(fmt.Sprintf("ODeadline %d", a.ord))
				l.mu.Unlock()
			}
			break
		}
	}
	if mode == vHIdle {
		<-a.release
	}
	ended(fmt.Sprintf("ORet %d", a.ord))
	return nil
}

// ---------------------------------------------------------------- running one plan

type vC09Result struct {
	Coq   string     `json:"coq"`
	Cls   string     `json:"cls"`
	NT    bool       `json:"nt"`
	Fails [][]string `json:"fails"`
	Stats []int      `json:"stats"`
}

// vC09Exec runs a plan; the one oracle that depends on the harness's idea of "the association has
// ended" (the handler returned, Close follows) is retried with ten times longer waits before it counts.
func vC09Exec(plan *vPlan) vC09Result {
	res := vC09ExecOnce(plan, 4*time.Millisecond)
	for _, f := range res.Fails {
		if f[0] == "C09:fresh:stale-connection-reused" {
			return vC09ExecOnce(plan, 40*time.Millisecond)
		}
	}
	return res
}

func vC09ExecOnce(plan *vPlan, settle time.Duration) vC09Result {
	t0 := time.Now()
	l := newVC09Log()
	pc := &vC09PC{log: l, done: make(chan struct{}), clients: map[string]int{}}
	var addrs [][]net.Addr
	var socks []*net.UDPConn
	if plan.Real {
		inner, err := net.ListenPacket("udp", "127.0.0.1:0")
		if err != nil {
			panic(err)
		}
		pc.inner = inner
		for c := 0; c < plan.NClients; c++ {
			s, err := net.DialUDP("udp", nil, inner.LocalAddr().(*net.UDPAddr))
			if err != nil {
				panic(err)
			}
			socks = append(socks, s)
			addrs = append(addrs, []net.Addr{s.LocalAddr()})
			pc.clients[s.LocalAddr().String()] = c
		}
	} else {
		pc.in = make(chan vC09Dgram)
		addrs = vC09Addrs(plan.Addrs, plan.NClients)
		for c, as := range addrs {
			for _, a := range as {
				pc.clients[a.String()] = c
			}
		}
	}
	run := &vC09Run{plan: plan, log: l, pc: pc}
	srv := &Server{logger: zap.NewNop()}
	var matchLogs *observer.ObservedLogs
	if plan.Match {
		vC09RegisterMatcher.Do(func() { caddy.RegisterModule(vC09Matcher{}) })
		ctx, cancel := caddy.NewContext(caddy.Context{Context: context.Background()})
		defer cancel()
		routes := RouteList{&Route{MatcherSetsRaw: caddyhttp.RawMatcherSets{caddy.ModuleMap{"verif_c09": json.RawMessage("{}")}}}}
		if err := routes.Provision(ctx); err != nil {
			panic(err)
		}
		core, logs := observer.New(zapcore.WarnLevel)
		matchLogs = logs
		srv.compiledRoute = routes.Compile(zap.New(core), 2*time.Second, HandlerFunc(run.handle))
	} else {
		srv.compiledRoute = RouteList{}.Compile(zap.NewNop(), 2*time.Second, HandlerFunc(run.handle))
	}
	loopDone := make(chan struct{})
	go func() { _ = srv.servePacket(pc); close(loopDone) }()

	release := func(client int) {
		l.mu.Lock()
		for _, a := range l.byClient[client] {
			select {
			case <-a.release:
			default:
				close(a.release)
			}
		}
		l.mu.Unlock()
	}
	idleNow := func(client int) {
		l.mu.Lock()
		for _, a := range l.byClient[client] {
			select {
			case <-a.idleGo:
			default:
				close(a.idleGo)
			}
		}
		l.mu.Unlock()
	}
	targets := func(s vSend) []int {
		if len(s.Targets) > 0 {
			return s.Targets
		}
		return []int{s.Client}
	}
	waitEnded := func(client int) int {
		end := time.Now().Add(400 * time.Millisecond)
		for time.Now().Before(end) {
			l.mu.Lock()
			as := l.byClient[client]
			ok := len(as) > 0 && as[len(as)-1].endPos >= 0
			ord := -1
			if ok {
				ord = as[len(as)-1].ord
			}
			l.mu.Unlock()
			if ok {
				return ord
			}
			time.Sleep(time.Millisecond)
		}
		return -2
	}
	id := 0
	blocked := false
	seqBroken := false
	for _, s := range plan.Sends {
		endedOrd := -1
		if plan.Seq {
			// the client's newest association has returned or seen EOF: let Close and the loop finish
			l.mu.Lock()
			as := l.byClient[s.Client]
			wait := len(as) > 0 && as[len(as)-1].endPos >= 0
			l.mu.Unlock()
			if wait {
				l.waitQuiet(settle, time.Second)
				time.Sleep(3 * settle)
			}
		}
		switch s.Pre {
		case vPreWaitEnded:
			endedOrd = waitEnded(s.Client)
			// Close runs after the handler returned; give it and the loop time to finish
			l.waitQuiet(settle, time.Second)
			time.Sleep(5 * settle)
		case vPreRelease:
			for _, c := range targets(s) {
				release(c)
			}
			l.waitQuiet(settle, time.Second)
			time.Sleep(2 * settle)
		case vPreIdle:
			for _, c := range targets(s) {
				idleNow(c)
			}
			l.waitQuiet(settle, time.Second)
			time.Sleep(6 * settle)
		case vPreSettle:
			l.waitQuiet(settle, time.Second)
		}
		if s.NoSend {
			continue
		}
		b := vC09Payload(s.Client, id, s.Size)
		if plan.Real {
			_, _ = socks[s.Client].Write(b)
			if s.Size > 4000 {
				time.Sleep(200 * time.Microsecond)
			}
		} else {
			select {
			case pc.in <- vC09Dgram{b, addrs[s.Client][id%len(addrs[s.Client])]}:
			case <-time.After(250 * time.Millisecond):
				// the server does not take more datagrams (a handler is not reading): stop feeding
				blocked = true
			}
		}
		if blocked {
			break
		}
		if plan.Seq && !seqBroken {
			// wait for the reply to this datagram (every handler of a sequential plan reads and replies)
			end := time.Now().Add(2 * time.Second)
			for {
				l.mu.Lock()
				ok := l.replied[id]
				l.mu.Unlock()
				if ok {
					break
				}
				if time.Now().After(end) {
					seqBroken = true
					break
				}
				time.Sleep(200 * time.Microsecond)
			}
			l.waitQuiet(settle/2, 200*time.Millisecond)
		}
		if s.Expect == 1 && endedOrd >= 0 {
			// a datagram sent after the client's association has ended must be served by a newer one
			ok := false
			end := time.Now().Add(2 * time.Second)
			for time.Now().Before(end) && !ok {
				l.mu.Lock()
				if o, rd := l.readBy[id]; rd && o > endedOrd {
					ok = true
				}
				_, arrived := l.arrPos[id]
				l.mu.Unlock()
				if !ok {
					time.Sleep(time.Millisecond)
					if plan.Real && !arrived && time.Now().Add(1500*time.Millisecond).After(end) {
						break // lost on the way to the server: not the server's doing
					}
				}
			}
			l.mu.Lock()
			_, arrived := l.arrPos[id]
			if !ok && arrived && l.kindReads(plan, s.Client, endedOrd) {
				o, rd := l.readBy[id]
				det := "was not delivered to any association"
				if rd {
					det = fmt.Sprintf("was delivered to association %d, the one that had ended", o)
				}
				l.fail("C09:fresh:stale-connection-reused", fmt.Sprintf("client %d: datagram %d sent after association %d had ended %s", s.Client, id, endedOrd, det))
			}
			l.mu.Unlock()
		}
		id++
	}
	l.waitQuiet(5*settle, 2*time.Second)
	taken := int(l.readFrom.Load())
	// let stalled handlers go, let everything drain, then stop the server
	for c := 0; c < plan.NClients; c++ {
		release(c)
	}
	l.waitQuiet(5*settle, 2*time.Second)
	if plan.Real {
		// replies must reach the client they belong to, and only that one
		for c, s := range socks {
			_ = s.SetReadDeadline(time.Now().Add(30 * time.Millisecond))
			rb := make([]byte, 9100)
			for {
				n, err := s.Read(rb)
				if err != nil {
					break
				}
				if h, ok := vC09Parse(rb[:n]); ok && h.kind == 1 && h.client != c {
					l.mu.Lock()
					l.fail("C09:reply:wrong-address", fmt.Sprintf("client %d received the reply to datagram %d of client %d", c, h.id, h.client))
					l.mu.Unlock()
				}
				_ = s.SetReadDeadline(time.Now().Add(10 * time.Millisecond))
			}
		}
	}
	_ = pc.Close()
	select {
	case <-loopDone:
	case <-time.After(2 * time.Second):
	}
	for _, s := range socks {
		_ = s.Close()
	}

	l.mu.Lock()
	defer l.mu.Unlock()
	if matchLogs != nil {
		for _, e := range matchLogs.All() {
			if e.Message != "matching connection" {
				continue
			}
			for _, f := range e.Context {
				if err, ok := f.Interface.(error); ok && f.Key == "error" && errors.Is(err, io.EOF) {
					l.fail("C09:read:spurious-eof", "matching was aborted with io.EOF although the association was neither closed nor idle: "+fmt.Sprint(e.ContextMap()["remote"]))
				}
			}
		}
	}
	vC09Oracle(l)
	res := vC09Result{}
	for _, f := range l.fails {
		res.Fails = append(res.Fails, []string{f.key, f.detail})
	}
	if plan.Back {
		res.Coq = fmt.Sprintf("CBack %d %d", len(plan.Sends), taken)
		res.Cls = "backpressure"
		res.NT = true
		return res
	}
	res.Coq = "CTrace [" + strings.Join(l.coq, "; ") + "]"
	if plan.Seq && !seqBroken && !blocked {
		res.Coq = "CSeq [" + strings.Join(l.coq, "; ") + "]"
	}
	// non-trivial: at least two datagrams from one address with a handler event (EOF, return, new association) between them
	nt := false
	for _, as := range l.byClient {
		if len(as) >= 2 {
			nt = true
		}
		for _, a := range as {
			if len(a.reads) >= 2 && a.endPos >= 0 {
				nt = true
			}
		}
	}
	res.NT = nt
	mode := "scripted"
	if plan.Real {
		mode = "loopback"
	}
	if strings.HasPrefix(res.Coq, "CSeq") {
		mode = "sequential"
	}
	nas := len(l.assocs)
	if nas > 6 {
		nas = 6
	}
	res.Cls = fmt.Sprintf("%s clients=%d assocs=%d", mode, plan.NClients, nas)
	res.Stats = []int{l.narr, len(l.assocs), len(l.coq), int(time.Since(t0) / time.Millisecond)}
	return res
}

// does the handler of the association that follows endedOrd read at all?
func (l *vC09Log) kindReads(plan *vPlan, client, endedOrd int) bool {
	k := plan.kind(client, 0)
	for _, a := range l.byClient[client] {
		if a.ord == endedOrd {
			k = plan.kind(client, a.cord+1)
		}
	}
	switch k.Mode {
	case vHEcho, vHIdle, vHCloseRead:
		return true
	case vHReadN:
		return k.N > 0
	}
	return false
}

// vC09Oracle evaluates the property text on the complete log (per-read checks were made on the fly).
func vC09Oracle(l *vC09Log) {
	for client, as := range l.byClient {
		lastArr := -1
		for _, a := range as {
			for _, rd := range a.reads {
				if !rd.fresh {
					continue
				}
				ap, ok := l.arrPos[rd.id]
				if !ok {
					l.fail("C09:demux:corrupt-payload", fmt.Sprintf("client %d read datagram %d, which never arrived", client, rd.id))
					continue
				}
				if l.arrCl[rd.id] != client {
					l.fail("C09:demux:wrong-client", fmt.Sprintf("association #%d of client %d read datagram %d that arrived from client %d's address", a.cord, client, rd.id, l.arrCl[rd.id]))
					continue
				}
				if ap <= lastArr {
					l.fail("C09:demux:out-of-order", fmt.Sprintf("client %d: datagram %d (arrival %d) was delivered after a datagram that arrived later (arrival %d)", client, rd.id, ap, lastArr))
				}
				if ap > lastArr {
					lastArr = ap
				}
			}
		}
	}
}

// ---------------------------------------------------------------- parent / child

func vC09Plans(n int) []vPlan {
	ps := vC09Corpus()
	r := vNewRng(vSeed()*1000003 + 9)
	for i := 0; i < n; i++ {
		if i%3 == 2 {
			ps = append(ps, vC09RandomSeq(r, i))
		} else {
			ps = append(ps, vC09Random(r, i))
		}
	}
	return ps
}

func TestVerifC09(t *testing.T) {
	n := vN(120)
	plans := vC09Plans(n)
	if from := os.Getenv("VERIF_C09_CHILD"); from != "" {
		start, _ := strconv.Atoi(from)
		w := bufio.NewWriter(os.Stdout)
		for i := start; i < len(plans); i++ {
			fmt.Fprintf(w, "\n@@BEGIN %d\n", i)
			w.Flush()
			res := vC09Exec(&plans[i])
			b, _ := json.Marshal(res)
			fmt.Fprintf(w, "\n@@RES %d %s\n", i, b)
			w.Flush()
		}
		fmt.Fprintf(w, "\n@@DONE\n")
		w.Flush()
		return
	}

	out := vOpen()
	defer out.Close()
	next := 0
	crashes := 0
	realN, scriptedN := 0, 0
	for next < len(plans) {
		cmd := exec.Command(os.Args[0], "-test.run", "^TestVerifC09$", "-test.count=1", "-test.timeout=600s")
		cmd.Env = append(os.Environ(), "VERIF_C09_CHILD="+strconv.Itoa(next), "VERIF_OUT=/dev/null")
		var stderr bytes.Buffer
		cmd.Stderr = &stderr
		stdout, err := cmd.StdoutPipe()
		if err != nil {
			t.Fatal(err)
		}
		if err := cmd.Start(); err != nil {
			t.Fatal(err)
		}
		cur, done := -1, false
		var tail []string
		sc := bufio.NewScanner(stdout)
		sc.Buffer(make([]byte, 1<<20), 64<<20)
		for sc.Scan() {
			line := sc.Text()
			switch {
			case strings.HasPrefix(line, "@@BEGIN "):
				cur, _ = strconv.Atoi(strings.TrimPrefix(line, "@@BEGIN "))
			case strings.HasPrefix(line, "@@RES "):
				rest := strings.TrimPrefix(line, "@@RES ")
				sp := strings.IndexByte(rest, ' ')
				idx, _ := strconv.Atoi(rest[:sp])
				var res vC09Result
				if err := json.Unmarshal([]byte(rest[sp+1:]), &res); err != nil {
					t.Fatalf("bad child record: %v", err)
				}
				pl := plans[idx]
				out.Case(res.Coq, res.Cls, res.NT, map[string]any{"plan": pl.Name, "stats": res.Stats})
				for _, f := range res.Fails {
					out.Fail(f[0], f[1], pl)
				}
				if pl.Real {
					realN++
				} else {
					scriptedN++
				}
				next = idx + 1
				cur = -1
			case line == "@@DONE":
				done = true
			default:
				if len(line) > 0 {
					tail = append(tail, line)
					if len(tail) > 60 {
						tail = tail[1:]
					}
				}
			}
		}
		werr := cmd.Wait()
		if done {
			break
		}
		// the child died in the middle of scenario cur
		if cur < 0 {
			cur = next
		}
		crashes++
		msg := stderr.String() + "\n" + strings.Join(tail, "\n")
		first := ""
		for _, ln := range strings.Split(msg, "\n") {
			if strings.HasPrefix(ln, "panic: ") || strings.HasPrefix(ln, "fatal error: ") {
				first = ln
				break
			}
		}
		where := ""
		if i := strings.Index(msg, "servePacket"); i >= 0 {
			where = " in Server.servePacket"
		}
		pl := plans[cur]
		switch {
		case strings.Contains(first, "send on closed channel"):
			out.Fail("C09:loop:panic-send-on-closed-channel", fmt.Sprintf("the server process died with %q%s during scenario %q", first, where, pl.Name), pl)
		case strings.Contains(first, "close of closed channel"):
			out.Fail("C09:loop:panic-close-of-closed-channel", fmt.Sprintf("the server process died with %q during scenario %q", first, pl.Name), pl)
		case strings.Contains(first, "all goroutines are asleep"):
			out.Fail("C09:loop:deadlock", fmt.Sprintf("the server process died with %q during scenario %q", first, pl.Name), pl)
		case strings.Contains(first, "nil pointer dereference") && strings.Contains(msg, "packetConn).Read"):
			out.Fail("C09:loop:panic-other", fmt.Sprintf("the server process died with %q in packetConn.Read during scenario %q", first, pl.Name), pl)
		case strings.Contains(first, "test timed out"):
			t.Fatalf("child process timed out in scenario %d (%s):\n%s", cur, pl.Name, msg)
		case first != "":
			out.Fail("C09:loop:panic-other", fmt.Sprintf("the server process died with %q during scenario %q", first, pl.Name), pl)
		default:
			t.Fatalf("child process failed without a panic message (%v) in scenario %d:\n%s", werr, cur, msg)
		}
		next = cur + 1
		if crashes > 40 {
			break
		}
	}
	out.Stat("scenarios", len(plans))
	out.Stat("scenarios_loopback", realN)
	out.Stat("scenarios_scripted", scriptedN)
	out.Stat("child_crashes", crashes)
	_ = sort.Ints
}
