package layer4

// C01 through the listener wrapper (layer4/listener.go): connections that fall through the
// wrapper's routes are handed to whoever Accepts from the wrapped listener, and that reader must
// see the client's stream from the first byte no handler consumed - whatever earlier connections
// left in the pooled matching buffers. Many connections go through a few wrapped listeners that
// share the package's bufPool; matchers need 0..5000 bytes (several prefetch rounds, so that the
// pooled temporary chunk is used), one route consumes a few bytes and continues.
// Oracle only (no model evaluation): bytes read from the accepted connection == expected suffix.

import (
	"bytes"
	"fmt"
	"io"
	"net"
	"sync"
	"testing"
	"time"

	"go.uber.org/zap"
)

type vLBase struct {
	ch   chan net.Conn
	done chan struct{}
	once sync.Once
}

func (b *vLBase) Accept() (net.Conn, error) {
	select {
	case c := <-b.ch:
		return c, nil
	case <-b.done:
		return nil, net.ErrClosed
	}
}
func (b *vLBase) Close() error   { b.once.Do(func() { close(b.done) }); return nil }
func (b *vLBase) Addr() net.Addr { return &net.TCPAddr{IP: net.IPv4(127, 0, 0, 1), Port: 9} }

// need k bytes, then answer
type vLNeed struct {
	k   int
	yes bool
}

func (m vLNeed) Match(cx *Connection) (bool, error) {
	p := make([]byte, m.k)
	if _, err := io.ReadFull(cx, p); err != nil {
		return false, err
	}
	return m.yes, nil
}

type vLCfg struct {
	k       int // the route's matcher needs k bytes
	consume int // > 0: the route matches, its handler consumes this many bytes and continues
	ln      net.Listener
	base    *vLBase
}

func TestVerifC01Listener(t *testing.T) {
	out := vOpen()
	defer out.Close()
	rng := vNewRng(vSeed() + 31337)
	cfgs := []*vLCfg{{k: 0}, {k: 1}, {k: 2049}, {k: 3000}, {k: 5000}, {k: 2500, consume: 7}, {k: 4097, consume: 100}}
	for _, c := range cfgs {
		c := c
		route := &Route{matcherSets: MatcherSets{MatcherSet{vLNeed{k: c.k, yes: c.consume > 0}}}}
		if c.consume > 0 {
			route.middleware = []Middleware{wrapHandler(NextHandlerFunc(func(cx *Connection, next Handler) error {
				if _, err := io.ReadFull(cx, make([]byte, c.consume)); err != nil {
					return err
				}
				return next.Handle(cx)
			}))}
		}
		lw := &ListenerWrapper{logger: zap.NewNop()}
		lw.compiledRoute = RouteList{route}.Compile(zap.NewNop(), 5*time.Second, listenerHandler{})
		c.base = &vLBase{ch: make(chan net.Conn), done: make(chan struct{})}
		c.ln = lw.WrapListener(c.base)
	}
	defer func() {
		for _, c := range cfgs {
			_ = c.ln.Close()
		}
	}()

	n := vN(300) / 3
	if n < 40 {
		n = 40
	}
	type result struct {
		got, want []byte
		err       string
		desc      string
	}
	results := make([]result, n)
	one := func(i int, c *vLCfg, L, seg, seed int) {
		stream := vC01Stream(seed, L)
		want := stream[c.consume:]
		results[i].want = want
		results[i].desc = fmt.Sprintf("listener wrapper: matcher needs %d bytes, handler consumes %d, stream %d bytes in %d-byte writes", c.k, c.consume, L, seg)
		c1, c2 := net.Pipe()
		select {
		case c.base.ch <- c2:
		case <-time.After(5 * time.Second):
			results[i].err = "base listener not accepting"
			return
		}
		go func() {
			_ = c1.SetWriteDeadline(time.Now().Add(10 * time.Second))
			for off := 0; off < L; off += seg {
				e := off + seg
				if e > L {
					e = L
				}
				if _, err := c1.Write(stream[off:e]); err != nil {
					return
				}
			}
		}()
		type acc struct {
			c   net.Conn
			err error
		}
		ach := make(chan acc, 1)
		go func() { ac, err := c.ln.Accept(); ach <- acc{ac, err} }()
		select {
		case a := <-ach:
			if a.err != nil {
				results[i].err = "Accept: " + a.err.Error()
				break
			}
			_ = a.c.SetReadDeadline(time.Now().Add(5 * time.Second))
			got := make([]byte, len(want)+4096) // room to notice extra bytes
			k := 0
			for k < len(want) {
				m, err := a.c.Read(got[k:])
				k += m
				if err != nil {
					results[i].err = "Read: " + err.Error()
					break
				}
			}
			results[i].got = got[:k]
			_ = a.c.Close()
		case <-time.After(8 * time.Second):
			results[i].err = "the connection was not handed to Accept"
		}
		_ = c1.Close()
	}
	sizes := []int{5001, 5100, 6000, 8192, 9000, 12000}
	segs := []int{1000, 2048, 3000, 100000}
	// sequential connections, then overlapping pairs on different listeners
	i := 0
	for ; i < n/2; i++ {
		c := cfgs[rng.Intn(len(cfgs))]
		one(i, c, sizes[rng.Intn(len(sizes))], segs[rng.Intn(len(segs))], rng.Intn(256))
	}
	for ; i+1 < n; i += 2 {
		a, b := rng.Intn(len(cfgs)), rng.Intn(len(cfgs)-1)
		if b >= a {
			b++
		}
		var wg sync.WaitGroup
		for j, ci := range []int{a, b} {
			wg.Add(1)
			L, seg, seed := sizes[rng.Intn(len(sizes))], segs[rng.Intn(len(segs))], rng.Intn(256)
			go func(j, ci, L, seg, seed int) {
				defer wg.Done()
				one(i+j, cfgs[ci], L, seg, seed)
			}(j, ci, L, seg, seed)
		}
		wg.Wait()
	}
	nfail := 0
	for j, r := range results[:i] {
		what := ""
		switch {
		case bytes.Equal(r.got, r.want):
		case r.err != "" && len(r.got) < len(r.want) && bytes.HasPrefix(r.want, r.got):
			what = "handover-incomplete"
		case len(r.got) > len(r.want):
			what = "duplicate-bytes"
		case bytes.HasPrefix(r.want, r.got):
			what = "lost-bytes"
		default:
			what = "stream-corrupted"
		}
		if what != "" {
			nfail++
			d := 0
			for d < len(r.got) && d < len(r.want) && r.got[d] == r.want[d] {
				d++
			}
			out.Fail("C01:listener:"+what, fmt.Sprintf("the connection accepted from the wrapped listener delivered %d bytes, expected %d bytes of the client's stream (first difference at %d, error %q)", len(r.got), len(r.want), d, r.err),
				map[string]any{"connection": j, "desc": r.desc})
		}
		out.Case("", "listener", true, map[string]any{"desc": r.desc, "failed": what != ""})
	}
	out.Stat("listener_connections", i)
	out.Stat("listener_failed", nfail)
}
