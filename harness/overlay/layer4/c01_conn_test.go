package layer4

// C01 (and the Connection-level part of C06) lock-step engine: random operation sequences on a
// real *Connection over a scripted net.Conn. After every operation the observable state
// (result bytes / error enum, len(buf), cap(buf), offset, frozenOffset, matching, bytes pulled
// from the socket) is recorded; coq/corr/C01Corr.v replays the same operations on
// model/Conn.v and compares every step. The property text is evaluated directly as well:
// whatever the sequence did, draining the connection at the end must deliver exactly the part
// of the client's stream that no read outside matching mode has consumed yet.

import (
	"bufio"
	"bytes"
	"errors"
	"fmt"
	"io"
	"net"
	"os"
	"strings"
	"testing"
	"time"

	"go.uber.org/zap"
)

// ---- scripted socket (mirrors net_read in model/Conn.v) ----
type vScript struct {
	data   []byte
	pos    int
	script []int // k>0: deliver min(k, len p, remaining); -1: deadline error
	idx    int
	reads  int
}

func (c *vScript) Read(p []byte) (int, error) {
	c.reads++
	if c.idx < len(c.script) && c.script[c.idx] < 0 {
		c.idx++
		return 0, os.ErrDeadlineExceeded
	}
	if c.pos == len(c.data) {
		return 0, io.EOF
	}
	m := len(p)
	if r := len(c.data) - c.pos; r < m {
		m = r
	}
	if m == 0 {
		return 0, nil
	}
	k := m
	if c.idx < len(c.script) {
		k = c.script[c.idx]
		c.idx++
		if k < 1 {
			k = 1
		}
		if k > m {
			k = m
		}
	}
	copy(p, c.data[c.pos:c.pos+k])
	c.pos += k
	return k, nil
}
func (c *vScript) Write(b []byte) (int, error)      { return len(b), nil }
func (c *vScript) Close() error                     { return nil }
func (c *vScript) LocalAddr() net.Addr              { return &net.TCPAddr{IP: net.IPv4(127, 0, 0, 1), Port: 1} }
func (c *vScript) RemoteAddr() net.Addr             { return &net.TCPAddr{IP: net.IPv4(127, 0, 0, 1), Port: 2} }
func (c *vScript) SetDeadline(time.Time) error      { return nil }
func (c *vScript) SetReadDeadline(time.Time) error  { return nil }
func (c *vScript) SetWriteDeadline(time.Time) error { return nil }

// wrappers used by the Wrap operations
type vBufConn struct {
	net.Conn
	r *bufio.Reader
}

func (b vBufConn) Read(p []byte) (int, error) { return b.r.Read(p) }

type vTeeConn struct {
	net.Conn
	r io.Reader
}

func (t vTeeConn) Read(p []byte) (int, error) { return t.r.Read(p) }

type vThrConn struct {
	net.Conn
	burst int
}

func (t vThrConn) Read(p []byte) (int, error) {
	n := len(p)
	if n > t.burst {
		n = t.burst
	}
	return t.Conn.Read(p[:n])
}

// position-coded stream, the same function as gen_stream in C01Corr.v
func vC01Stream(seed, n int) []byte {
	b := make([]byte, n)
	for i := range b {
		b[i] = byte((i + (i/251)*7 + seed) % 256)
	}
	return b
}

func vErrEnum(err error) int {
	switch {
	case err == nil:
		return 0
	case errors.Is(err, io.EOF):
		return 1
	case errors.Is(err, ErrConsumedAllPrefetchedBytes):
		return 2
	case errors.Is(err, ErrMatchingBufferFull):
		return 3
	case errors.Is(err, os.ErrDeadlineExceeded):
		return 4
	}
	return 9
}

// a returned byte string as a Coq term: a concatenation of slices of the stream (one slice
// whenever the bytes are a contiguous part of it), raw hex for bytes that are not in the stream
func vData(stream, d []byte) string {
	if len(d) == 0 {
		return "(DS [])"
	}
	if i := bytes.Index(stream, d); i >= 0 {
		return fmt.Sprintf("(DS [(%d,%d)])", i, len(d))
	}
	var parts []string
	i := 0
	for i < len(d) && len(parts) < 400 {
		w := 8
		if len(d)-i < w {
			w = len(d) - i
		}
		j := bytes.Index(stream, d[i:i+w])
		if j < 0 {
			break
		}
		k := w
		for i+k < len(d) && j+k < len(stream) && d[i+k] == stream[j+k] {
			k++
		}
		parts = append(parts, fmt.Sprintf("(%d,%d)", j, k))
		i += k
	}
	if i == len(d) {
		return "(DS [" + strings.Join(parts, "; ") + "])"
	}
	if len(d) > 2000 {
		return "(DH " + cHex(d[:2000]) + ")" // cannot match the model anyway
	}
	return "(DH " + cHex(d) + ")"
}

// ---- scripted matchers evaluated through the real MatcherSet.Match / MatchNot.Match ----
type vSMOp struct {
	peek bool
	n    int
}

// vSM performs its scripted reads / peeks, stops at the first error (as io.ReadFull-based
// matchers do) and otherwise answers its scripted verdict. It records what it saw.
type vSM struct {
	ops      []vSMOp
	verdict  bool
	seq      *vC01Seq
	ran      bool
	exec     []string // executed ops as Coq terms (model/Conn.v mop)
	obs      []string // observations as Coq terms (C01Corr.v kobs)
	unfrozen bool     // the connection was not in matching mode when the matcher ran
}

func (m *vSM) Match(cx *Connection) (bool, error) {
	m.ran = true
	if !cx.matching {
		m.unfrozen = true
	}
	for _, op := range m.ops {
		if op.peek {
			var d []byte
			panicked := false
			func() {
				defer func() {
					if recover() != nil {
						panicked = true
					}
				}()
				d = cx.MatchingBytes()
			}()
			m.exec = append(m.exec, "MPeek")
			m.obs = append(m.obs, fmt.Sprintf("KPk %s %s", cBool(panicked), vData(m.seq.stream, d)))
			continue
		}
		p := make([]byte, op.n)
		k, err := cx.Read(p)
		m.exec = append(m.exec, fmt.Sprintf("MRead %d%%nat", op.n))
		m.obs = append(m.obs, fmt.Sprintf("KRd %s %d", vData(m.seq.stream, p[:k]), vErrEnum(err)))
		if err != nil {
			return false, err
		}
	}
	return m.verdict, nil
}

// configured tree
type vMNode struct {
	plain *vSM
	not   [][]*vMNode // MatchNot: matcher sets
}

func vGenPlain(rng *vRng, s *vC01Seq, verdict bool) *vMNode {
	sizes := []int{0, 1, 2, 4, 5, 16, 100, 1000, 2048, 4096, 5000}
	m := &vSM{verdict: verdict, seq: s}
	for k := 1 + rng.Intn(3); k > 0; k-- {
		if rng.Intn(4) == 0 {
			m.ops = append(m.ops, vSMOp{peek: true})
		} else {
			m.ops = append(m.ops, vSMOp{n: sizes[rng.Intn(len(sizes))]})
		}
	}
	return &vMNode{plain: m}
}

func vGenSet(rng *vRng, s *vC01Seq, depth int) []*vMNode {
	var set []*vMNode
	if depth == 0 && rng.Intn(3) == 0 {
		// the interesting order: a `not` whose inner matcher says no, followed by a reading matcher
		inner := []*vMNode{vGenPlain(rng, s, false)}
		return []*vMNode{{not: [][]*vMNode{inner}}, vGenPlain(rng, s, true), vGenPlain(rng, s, rng.Bool())}
	}
	for k := 1 + rng.Intn(3); k > 0; k-- {
		if depth < 2 && rng.Intn(3) == 0 {
			var sets [][]*vMNode
			for j := 1 + rng.Intn(2); j > 0; j-- {
				sets = append(sets, vGenSetInner(rng, s, depth+1))
			}
			set = append(set, &vMNode{not: sets})
		} else {
			set = append(set, vGenPlain(rng, s, rng.Intn(10) < 7))
		}
	}
	return set
}

func vGenSetInner(rng *vRng, s *vC01Seq, depth int) []*vMNode {
	var set []*vMNode
	for k := 1 + rng.Intn(2); k > 0; k-- {
		if depth < 2 && rng.Intn(5) == 0 {
			set = append(set, &vMNode{not: [][]*vMNode{vGenSetInner(rng, s, depth+1)}})
		} else {
			set = append(set, vGenPlain(rng, s, rng.Intn(10) < 3)) // mostly "no", so that the `not` passes
		}
	}
	return set
}

func vBuildSet(set []*vMNode) MatcherSet {
	var ms MatcherSet
	for _, n := range set {
		if n.plain != nil {
			ms = append(ms, n.plain)
		} else {
			mn := &MatchNot{}
			for _, inner := range n.not {
				mn.MatcherSets = append(mn.MatcherSets, vBuildSet(inner))
			}
			ms = append(ms, mn)
		}
	}
	return ms
}

func vNodeRan(n *vMNode) bool {
	if n.plain != nil {
		return n.plain.ran
	}
	for _, set := range n.not {
		for _, c := range set {
			if vNodeRan(c) {
				return true
			}
		}
	}
	return false
}

// the part of the configured tree that was executed, as a model/Conn.v mset term, and the
// observations in execution order
func vExecSet(set []*vMNode, obs *[]string, unfrozen *bool) string {
	out := "MNil"
	var parts []string
	for _, n := range set {
		if !vNodeRan(n) {
			break
		}
		if n.plain != nil {
			parts = append(parts, "(MPlain ["+strings.Join(n.plain.exec, "; ")+"])")
			*obs = append(*obs, n.plain.obs...)
			if n.plain.unfrozen {
				*unfrozen = true
			}
		} else {
			ss := "SNil"
			var sp []string
			for _, inner := range n.not {
				ran := false
				for _, c := range inner {
					if vNodeRan(c) {
						ran = true
					}
				}
				if !ran {
					break
				}
				sp = append(sp, vExecSet(inner, obs, unfrozen))
			}
			for i := len(sp) - 1; i >= 0; i-- {
				ss = "(SCons " + sp[i] + " " + ss + ")"
			}
			parts = append(parts, "(MNot "+ss+")")
		}
	}
	for i := len(parts) - 1; i >= 0; i-- {
		out = "(MCons " + parts[i] + " " + out + ")"
	}
	return out
}

// one MatcherSet.Match on the connection, outside matching mode (as the router calls it)
func (s *vC01Seq) opMatchSet(out *vOut, rng *vRng, idx int) {
	set := vGenSet(rng, s, 0)
	ms := vBuildSet(set)
	pulled := s.sock.pos
	sockReads := s.sock.reads
	var before []byte
	before = append(before, s.cx.buf[min(s.cx.offset, len(s.cx.buf)):]...)
	matched, err := ms.Match(s.cx)
	var obs []string
	unfrozen := false
	tree := vExecSet(set, &obs, &unfrozen)
	s.step(fmt.Sprintf("KMatchSet %s [%s]", tree, strings.Join(obs, "; ")))
	s.nMatchSet++
	s.nMatchRead += len(obs)
	prop := os.Getenv("VERIF_PROP")
	if prop == "" {
		prop = "C06"
	}
	in := map[string]any{"seq": idx, "step": len(s.steps), "set": tree, "matched": matched, "err": fmt.Sprint(err)}
	if s.sock.reads != sockReads || s.sock.pos != pulled {
		out.Fail(prop+":matcherset:network-read", fmt.Sprintf("MatcherSet.Match read from the network (%d socket reads, %d bytes pulled)", s.sock.reads-sockReads, s.sock.pos-pulled), in)
		s.xfOK = false
	}
	if unfrozen {
		out.Fail(prop+":matcherset:matcher-ran-unfrozen", "a matcher of the set was invoked while the connection was not in matching mode", in)
		s.xfOK = false
	}
	after := s.cx.buf[min(s.cx.offset, len(s.cx.buf)):]
	if s.cx.matching || !bytes.Equal(before, after) {
		out.Fail(prop+":matcherset:stream-changed", "MatcherSet.Match changed what later matchers and handlers will read (buffered bytes before/after differ or matching mode left on)", in)
		s.xfOK = false
	}
}

type vC01Seq struct {
	stream []byte
	sock   *vScript
	cx     *Connection
	sinks  []*bytes.Buffer
	steps  []string
	// oracle bookkeeping: index into stream of the next byte a non-matching read must deliver
	consumed   int
	xfOK       bool // no op so far broke the simple accounting (reads while matching do not consume)
	nWrap      int
	nMatchRead int
	nMatchSet  int
	badOffset  bool // offset > len(buf) was observed: unreachable by the modelled call patterns
	maxBuf     int
}

func (s *vC01Seq) snap() string {
	cx := s.cx
	if len(cx.buf) > s.maxBuf {
		s.maxBuf = len(cx.buf)
	}
	return fmt.Sprintf("(%d,%d,%d,%d,%s,%d)", len(cx.buf), cap(cx.buf), cx.offset, cx.frozenOffset, cBool(cx.matching), s.sock.pos)
}

func (s *vC01Seq) step(op string) {
	s.steps = append(s.steps, "("+op+", "+s.snap()+")")
	if s.cx.offset > len(s.cx.buf) && !s.badOffset {
		s.badOffset = true
		s.xfOK = false
	}
}

func (s *vC01Seq) opRead(n int) ([]byte, error) {
	p := make([]byte, n)
	k, err := s.cx.Read(p)
	s.step(fmt.Sprintf("KRead %d %s %d", n, vData(s.stream, p[:k]), vErrEnum(err)))
	return p[:k], err
}

func vC01Run(out *vOut, rng *vRng, idx int, style int) {
	// ---- stream and segmentation ----
	sizes := []int{0, 1, 7, 100, 2047, 2048, 2049, 4095, 4096, 4097, 5000, 8191, 8192, 8193, 9000, 10240, 16384, 20000, 32768}
	L := sizes[rng.Intn(len(sizes))]
	if rng.Intn(3) == 0 {
		L = rng.Intn(4*MaxMatchingBytes + 1)
	}
	seed := rng.Intn(256)
	stream := vC01Stream(seed, L)
	pre := 0
	cap0 := prefetchChunkSize
	switch rng.Intn(6) {
	case 0: // preloaded prefix, as external callers of WrapConnection do
		if L > 0 {
			pre = rng.Intn(L + 1)
			if pre > 3000 {
				pre = rng.Intn(3000)
			}
		}
		cap0 = pre + rng.Intn(3)*1024
	case 1:
		cap0 = 0
	}
	var script []int
	segStyle := rng.Intn(5)
	nscript := 80
	for i := 0; i < nscript; i++ {
		switch segStyle {
		case 0:
			script = append(script, 1)
		case 1:
			script = append(script, 1+rng.Intn(3000))
		case 2:
			script = append(script, 2048)
		case 3:
			script = append(script, 65536)
		default:
			script = append(script, []int{1, 2, 100, 1000, 2047, 2048, 4096, 65536}[rng.Intn(8)])
		}
		if rng.Intn(25) == 0 {
			script = append(script, -1)
		}
	}
	sock := &vScript{data: stream[pre:], script: script}
	buf := make([]byte, pre, cap0)
	copy(buf, stream[:pre])
	s := &vC01Seq{stream: stream, sock: sock, xfOK: true}
	s.cx = WrapConnection(sock, buf, zap.NewNop())

	readSizes := []int{0, 1, 2, 5, 16, 100, 512, 1000, 2048, 4096, 5000, 16384}
	nops := 10 + rng.Intn(50)
	depth := 0 // freeze nesting as the router/not matcher would produce it
	for i := 0; i < nops; i++ {
		if depth == 0 && !s.cx.matching && rng.Intn(6) == 0 {
			s.opMatchSet(out, rng, idx)
			continue
		}
		// freeze/unfreeze are driven only in the patterns MatcherSet.Match and MatchNot.Match produce:
		//   outside (depth 0): anything a handler or the router does, or freeze (a matcher starts)
		//   matching (depth > 0, matching on): the matcher reads / peeks, a `not` delegates (nested
		//     freeze at the frozen offset), or the matcher returns (unfreeze)
		//   between (depth > 0, matching off: a nested set has just unfrozen): the `not` starts its
		//     next inner matcher (freeze) or returns to the outer set (unfreeze) -- nothing else
		// (model/Conn.v run_set; the reachable states satisfy offset <= len(buf), lemma run_set_wf)
		r := rng.Intn(100)
		switch {
		case depth == 0:
			if r >= 60 && r < 75 {
				r = 20 // no unfreeze without a freeze
			}
			if style == 1 && r >= 20 && r < 45 {
				r = 20 // bias towards prefetching first
			}
		case s.cx.matching:
			switch x := rng.Intn(100); {
			case x < 45:
				r = 0 // Read
			case x < 60:
				r = 75 // MatchingBytes
			case x < 75 && depth < 3 && s.cx.offset == s.cx.frozenOffset:
				r = 45 // nested freeze
			case x < 75:
				r = 0
			default:
				r = 60 // unfreeze
			}
		default:
			if depth < 3 && rng.Intn(3) == 0 {
				r = 45
			} else {
				r = 60
			}
		}
		switch {
		case r < 20: // Read
			n := readSizes[rng.Intn(len(readSizes))]
			matching := s.cx.matching
			d, err := s.opRead(n)
			if matching {
				s.nMatchRead++
			} else if err == nil {
				// direct oracle: a read outside matching delivers the next unconsumed bytes
				if s.xfOK && !bytes.Equal(d, stream[min(s.consumed, L):min(s.consumed+len(d), L)]) {
					out.Fail("C01:conn:read-not-next-bytes", "a read outside matching mode did not return the next unconsumed bytes of the stream",
						map[string]any{"seq": idx, "step": len(s.steps), "consumed": s.consumed, "got": len(d)})
					s.xfOK = false
				}
				s.consumed += len(d)
			}
		case r < 45: // prefetch
			err := s.cx.prefetch()
			s.step(fmt.Sprintf("KPrefetch %d %d", vErrEnum(err), cap(s.cx.buf)))
		case r < 60: // freeze (possibly nested, as MatchNot does)
			s.cx.freeze()
			depth++
			s.step("KFreeze")
		case r < 75: // unfreeze (only ever after a freeze)
			if depth > 0 {
				s.cx.unfreeze()
				depth--
				s.step("KUnfreeze")
			}
		case r < 82: // MatchingBytes
			var d []byte
			panicked := false
			func() {
				defer func() {
					if recover() != nil {
						panicked = true
					}
				}()
				d = s.cx.MatchingBytes()
			}()
			s.step(fmt.Sprintf("KBytes %s %s", cBool(panicked), vData(stream, d)))
		case r < 86: // Wrap(identity): the new connection reads through the old one
			if !s.cx.matching {
				s.cx = s.cx.Wrap(s.cx)
				s.nWrap++
				s.step("KWrapId")
			}
		case r < 92: // Wrap(bufio): a bufio.Reader over cx reads n1 bytes (a header), then cx.Wrap
			if !s.cx.matching {
				sz := []int{16, 64, 1024, 4096, 4096, 4096}[rng.Intn(6)]
				n1 := []int{1, 1, 12, 16, 108, 4096}[rng.Intn(6)]
				if depth > 0 {
					s.xfOK = false
				}
				br := bufio.NewReaderSize(s.cx, sz)
				p := make([]byte, n1)
				k, err := br.Read(p)
				if err == nil {
					if s.xfOK && !bytes.Equal(p[:k], stream[min(s.consumed, L):min(s.consumed+k, L)]) {
						out.Fail("C01:conn:bufio-read-not-next-bytes", "a bufio.Reader over the connection did not return the next unconsumed bytes",
							map[string]any{"seq": idx, "step": len(s.steps), "consumed": s.consumed, "got": k})
						s.xfOK = false
					}
					s.consumed += k
				}
				s.cx = s.cx.Wrap(vBufConn{Conn: s.cx, r: br})
				s.nWrap++
				s.step(fmt.Sprintf("KWrapBufio %d %d %s %d", sz, n1, vData(stream, p[:k]), vErrEnum(err)))
			}
		case r < 96: // throttle: replaces the embedded Conn in place
			burst := []int{1, 7, 512, 4096, 65536}[rng.Intn(5)]
			if L > 2100 && burst < 512 {
				burst = 512 // keep the replay of the final drain cheap
			}
			s.cx.Conn = vThrConn{Conn: s.cx.Conn, burst: burst}
			s.step(fmt.Sprintf("KThrottle %d", burst))
		default: // tee: the new connection reads through an io.TeeReader over the old one
			if !s.cx.matching {
				sink := &bytes.Buffer{}
				s.sinks = append([]*bytes.Buffer{sink}, s.sinks...)
				s.cx = s.cx.Wrap(vTeeConn{Conn: s.cx, r: io.TeeReader(s.cx, sink)})
				s.nWrap++
				s.step("KTee")
			}
		}
	}
	// leave matching mode the way the router does, then drain
	for depth > 0 {
		s.cx.unfreeze()
		depth--
		s.step("KUnfreeze")
	}
	var got []byte
	bsz := []int{1, 100, 4096, 4096, 32768}[rng.Intn(5)]
	if L > 4096 && bsz == 1 {
		bsz = 100
	}
	zero := 0
	timeouts := 0
	for guard := 0; guard < 200000; guard++ {
		p := make([]byte, bsz)
		k, err := s.cx.Read(p)
		got = append(got, p[:k]...)
		if err != nil {
			if errors.Is(err, os.ErrDeadlineExceeded) {
				timeouts++
				continue
			}
			break
		}
		if k == 0 {
			zero++
			if zero > 1000 {
				break
			}
		}
	}
	s.step(fmt.Sprintf("KDrain %d %s", bsz, vData(stream, got)))
	var sk []string
	for _, b := range s.sinks {
		sk = append(sk, vData(stream, b.Bytes()))
	}
	s.step("KSinks [" + strings.Join(sk, "; ") + "]")

	if s.xfOK {
		want := stream[min(s.consumed, L):]
		if !bytes.Equal(got, want) {
			key := "C01:conn:drain-not-suffix"
			if s.nWrap > 0 {
				key = "C01:conn:drain-not-suffix-after-wrap"
			}
			out.Fail(key, fmt.Sprintf("draining the connection delivered %d bytes, the unconsumed suffix of the stream has %d", len(got), len(want)),
				map[string]any{"seq": idx, "stream_seed": seed, "stream_len": L, "consumed": s.consumed, "wraps": s.nWrap, "steps": strings.Join(s.steps, "; ")})
		}
	}
	if s.badOffset {
		out.Fail("C01:conn:offset-out-of-range", "cx.offset > len(cx.buf) after an operation sequence that only uses the call patterns of the real code",
			map[string]any{"seq": idx, "steps": strings.Join(s.steps, "; ")})
	}
	if int64(s.maxBuf) > int64(MaxMatchingBytes-1+prefetchChunkSize) && pre == 0 {
		out.Fail("C01:conn:buffer-bound", fmt.Sprintf("len(buf) reached %d > MaxMatchingBytes-1+prefetchChunkSize", s.maxBuf), map[string]any{"seq": idx})
	}

	sc := make([]int64, len(script))
	for i, k := range script {
		sc[i] = int64(k)
	}
	coq := fmt.Sprintf("CSeq %d %d %d %d %s [%s]", seed, L, pre, cap0, cZList(sc), strings.Join(s.steps, "; "))
	cls := fmt.Sprintf("seg%d/wraps%d/msets%d", segStyle, min(s.nWrap, 3), min(s.nMatchSet, 3))
	nt := s.maxBuf > 0 && s.nMatchRead > 0
	out.Case(coq, cls, nt, map[string]any{"len": L, "pre": pre, "ops": len(s.steps), "wraps": s.nWrap, "max_buf": s.maxBuf})
}

func TestVerifC01Conn(t *testing.T) {
	out := vOpen()
	defer out.Close()
	rng := vNewRng(vSeed())
	n := vN(400)
	for i := 0; i < n; i++ {
		vC01Run(out, rng, i, i%2)
	}
	out.Stat("sequences", n)
}
