package l4subroute

// C02 engine, part 2: the REAL subroute module (modules/l4subroute) inside real, provisioned route
// lists, with SEVERAL connections through the same provisioned instance.
//
// Scripted matchers and handlers are registered as caddy modules (layer4.matchers.verif_thr /
// verif_at, layer4.handlers.verif_rec / verif_term / verif_cons / verif_fail); route lists are
// written as JSON ([outer route with subroute{inner routes} ...; later outer routes], nested to
// depth 2, also `not`), unmarshalled, provisioned and compiled ONCE; then connections (scripted
// net.Conn: one chunk per Read, EOF at the end) are pushed through that one compiled handler, one
// after the other and a few concurrently.  Each connection carries its own trace (in the
// connection's variable table): deadline arm/clear, route runs (depth, index, bytes available),
// bytes consumed, handler errors, the top-level fallback, top-level drops (from the log).
//
// Oracle: the property text on each connection's trace (keys C02:subroute:...).  Every trace is
// also emitted for the in-Coq comparison with model/Router.v (corr/C02Corr.v, case RS: fallbacks and
// drops of nested route lists cannot be observed from outside the real module and are projected
// away on the model side).

import (
	"bytes"
	"context"
	"encoding/json"
	"errors"
	"fmt"
	"io"
	"net"
	"strings"
	"sync"
	"testing"
	"time"

	"github.com/caddyserver/caddy/v2"
	"go.uber.org/zap"
	"go.uber.org/zap/zapcore"

	"github.com/mholt/caddy-l4/layer4"
)

// ---------------------------------------------------------------- per-connection trace

type vsEvt struct {
	kind  string // arm clr run rd fb drop herr term
	depth int
	idx   int
	data  []byte
	why   string
	armed bool
}

type vsTrace struct {
	mu     sync.Mutex
	ev     []vsEvt
	armed  bool
	retErr bool
}

func (t *vsTrace) add(e vsEvt) {
	t.mu.Lock()
	e.armed = t.armed
	t.ev = append(t.ev, e)
	t.mu.Unlock()
}

func vsTraceOf(cx *layer4.Connection) *vsTrace {
	t, _ := cx.GetVar("verif_trace").(*vsTrace)
	return t
}

// ---------------------------------------------------------------- scripted modules

type VsThr struct {
	K int    `json:"k"`
	V string `json:"v"` // yes no fail
}

func (*VsThr) CaddyModule() caddy.ModuleInfo {
	return caddy.ModuleInfo{ID: "layer4.matchers.verif_thr", New: func() caddy.Module { return new(VsThr) }}
}

var vsErrScripted = errors.New("scripted matcher error")

func vsAnswer(v string) (bool, error) {
	switch v {
	case "yes":
		return true, nil
	case "no":
		return false, nil
	default:
		return false, vsErrScripted
	}
}

func (m *VsThr) Match(cx *layer4.Connection) (bool, error) {
	buf := make([]byte, m.K)
	if _, err := io.ReadFull(cx, buf); err != nil {
		return false, err
	}
	return vsAnswer(m.V)
}

type VsAt struct {
	K int    `json:"k"`
	C int    `json:"c"`
	Y string `json:"y"`
	N string `json:"n"`
}

func (*VsAt) CaddyModule() caddy.ModuleInfo {
	return caddy.ModuleInfo{ID: "layer4.matchers.verif_at", New: func() caddy.Module { return new(VsAt) }}
}

func (m *VsAt) Match(cx *layer4.Connection) (bool, error) {
	buf := make([]byte, m.K+1)
	if _, err := io.ReadFull(cx, buf); err != nil {
		return false, err
	}
	if int(buf[m.K]) == m.C {
		return vsAnswer(m.Y)
	}
	return vsAnswer(m.N)
}

type VsRec struct {
	Depth int `json:"depth"`
	Idx   int `json:"idx"`
}

func (*VsRec) CaddyModule() caddy.ModuleInfo {
	return caddy.ModuleInfo{ID: "layer4.handlers.verif_rec", New: func() caddy.Module { return new(VsRec) }}
}

func (h *VsRec) Handle(cx *layer4.Connection, next layer4.Handler) error {
	if t := vsTraceOf(cx); t != nil {
		t.add(vsEvt{kind: "run", depth: h.Depth, idx: h.Idx, data: append([]byte(nil), cx.MatchingBytes()...)})
	}
	return next.Handle(cx)
}

type VsTerm struct {
	Depth int `json:"depth"`
	Idx   int `json:"idx"`
}

func (*VsTerm) CaddyModule() caddy.ModuleInfo {
	return caddy.ModuleInfo{ID: "layer4.handlers.verif_term", New: func() caddy.Module { return new(VsTerm) }}
}

func (h *VsTerm) Handle(cx *layer4.Connection, _ layer4.Handler) error {
	if t := vsTraceOf(cx); t != nil {
		t.add(vsEvt{kind: "term", depth: h.Depth, idx: h.Idx})
	}
	return nil
}

type VsCons struct {
	K     int `json:"k"`
	Depth int `json:"depth"`
	Idx   int `json:"idx"`
}

func (*VsCons) CaddyModule() caddy.ModuleInfo {
	return caddy.ModuleInfo{ID: "layer4.handlers.verif_cons", New: func() caddy.Module { return new(VsCons) }}
}

func (h *VsCons) Handle(cx *layer4.Connection, next layer4.Handler) error {
	buf := make([]byte, h.K)
	t := vsTraceOf(cx)
	if _, err := io.ReadFull(cx, buf); err != nil {
		if t != nil {
			t.add(vsEvt{kind: "herr", depth: h.Depth, idx: h.Idx})
		}
		return err
	}
	if t != nil {
		t.add(vsEvt{kind: "rd", depth: h.Depth, idx: h.Idx, data: buf})
	}
	return next.Handle(cx)
}

// VsWrap replaces the connection, as the tls / proxy_protocol / tee handlers do: the next handler gets
// cx.Wrap(conn) where conn reads THROUGH cx; with Xor != 0 conn also transforms every byte (as a decrypting
// layer would), so that whoever reads afterwards can tell the new connection from the old one
type VsWrap struct {
	Xor   int `json:"xor"`
	Depth int `json:"depth"`
	Idx   int `json:"idx"`
}

func (*VsWrap) CaddyModule() caddy.ModuleInfo {
	return caddy.ModuleInfo{ID: "layer4.handlers.verif_wrap", New: func() caddy.Module { return new(VsWrap) }}
}

type vsXorConn struct {
	net.Conn
	x byte
}

func (c *vsXorConn) Read(p []byte) (int, error) {
	n, err := c.Conn.Read(p)
	for i := 0; i < n; i++ {
		p[i] ^= c.x
	}
	return n, err
}

func (h *VsWrap) Handle(cx *layer4.Connection, next layer4.Handler) error {
	if t := vsTraceOf(cx); t != nil {
		t.add(vsEvt{kind: "wrap", depth: h.Depth, idx: h.Idx, why: fmt.Sprint(h.Xor)})
	}
	var conn net.Conn = cx
	if h.Xor != 0 {
		conn = &vsXorConn{Conn: cx, x: byte(h.Xor)}
	}
	return next.Handle(cx.Wrap(conn))
}

type VsFail struct {
	Depth int `json:"depth"`
	Idx   int `json:"idx"`
}

func (*VsFail) CaddyModule() caddy.ModuleInfo {
	return caddy.ModuleInfo{ID: "layer4.handlers.verif_fail", New: func() caddy.Module { return new(VsFail) }}
}

func (h *VsFail) Handle(cx *layer4.Connection, _ layer4.Handler) error {
	if t := vsTraceOf(cx); t != nil {
		t.add(vsEvt{kind: "herr", depth: h.Depth, idx: h.Idx})
	}
	return errors.New("scripted handler error")
}

// ---------------------------------------------------------------- specs, their JSON and their Coq terms

type vsM struct {
	kind int // 0 thr; 1 at; 2 not
	k    int
	c    byte
	v    string
	y, n string
	sets [][]vsM // not: each set holds exactly one matcher (a matcher set is a JSON object: no order inside)
}

type vsH struct {
	kind int // 0 term; 1 cons; 2 fail; 3 wrap (k = xor mask, 0: identity); 4 sub
	k    int
	sub  []vsR
}

type vsR struct {
	mss [][]vsM // each set holds exactly one matcher
	hs  []vsH
}

func vsCap(v string) string { return strings.ToUpper(v[:1]) + v[1:] }

func (m vsM) coq() string {
	switch m.kind {
	case 0:
		return fmt.Sprintf("T %d %s", m.k, vsCap(m.v))
	case 1:
		return fmt.Sprintf("A %d %d %s %s", m.k, m.c, vsCap(m.y), vsCap(m.n))
	default:
		return "Nt " + vsSetsCoq(m.sets)
	}
}

func vsSetsCoq(sets [][]vsM) string {
	ss := make([]string, len(sets))
	for i, s := range sets {
		ms := make([]string, len(s))
		for j, m := range s {
			ms[j] = m.coq()
		}
		ss[i] = "[" + strings.Join(ms, "; ") + "]"
	}
	return "[" + strings.Join(ss, "; ") + "]"
}

func vsRoutesCoq(rs []vsR) string {
	ss := make([]string, len(rs))
	for i, r := range rs {
		hs := make([]string, len(r.hs))
		for j, h := range r.hs {
			switch h.kind {
			case 0:
				hs[j] = "HTerm"
			case 1:
				hs[j] = fmt.Sprintf("hC %d", h.k)
			case 2:
				hs[j] = "HFail"
			case 3:
				hs[j] = "HWrap" // the model has the identity wrap only; transforming wraps are not sent to Coq
			default:
				hs[j] = "hS " + vsRoutesCoq(h.sub)
			}
		}
		ss[i] = "R " + vsSetsCoq(r.mss) + " [" + strings.Join(hs, "; ") + "]"
	}
	return "[" + strings.Join(ss, "; ") + "]"
}

func (m vsM) json() map[string]any {
	switch m.kind {
	case 0:
		return map[string]any{"verif_thr": map[string]any{"k": m.k, "v": m.v}}
	case 1:
		return map[string]any{"verif_at": map[string]any{"k": m.k, "c": int(m.c), "y": m.y, "n": m.n}}
	default:
		var sets []any
		for _, s := range m.sets {
			sets = append(sets, s[0].json())
		}
		return map[string]any{"not": sets}
	}
}

func vsRoutesJSON(rs []vsR, depth int) []any {
	var out []any
	for i, r := range rs {
		route := map[string]any{}
		var match []any
		for _, s := range r.mss {
			match = append(match, s[0].json())
		}
		if len(match) > 0 {
			route["match"] = match
		}
		handle := []any{map[string]any{"handler": "verif_rec", "depth": depth, "idx": i}}
		for _, h := range r.hs {
			switch h.kind {
			case 0:
				handle = append(handle, map[string]any{"handler": "verif_term", "depth": depth, "idx": i})
			case 1:
				handle = append(handle, map[string]any{"handler": "verif_cons", "k": h.k, "depth": depth, "idx": i})
			case 2:
				handle = append(handle, map[string]any{"handler": "verif_fail", "depth": depth, "idx": i})
			case 3:
				handle = append(handle, map[string]any{"handler": "verif_wrap", "xor": h.k, "depth": depth, "idx": i})
			default:
				sub := vsRoutesJSON(h.sub, depth+1)
				if sub == nil {
					sub = []any{}
				}
				handle = append(handle, map[string]any{"handler": "subroute", "routes": sub})
			}
		}
		route["handle"] = handle
		out = append(out, route)
	}
	return out
}

func vsHasXor(rs []vsR) bool {
	for _, r := range rs {
		for _, h := range r.hs {
			if h.kind == 3 && h.k != 0 {
				return true
			}
			if h.kind == 4 && vsHasXor(h.sub) {
				return true
			}
		}
	}
	return false
}

// the property text's own evaluation of matchers: 0 yes 1 no 2 more 3 fail
func (m vsM) spec(b []byte) int {
	code := func(v string) int {
		switch v {
		case "yes":
			return 0
		case "no":
			return 1
		}
		return 3
	}
	switch m.kind {
	case 0:
		if len(b) < m.k {
			return 2
		}
		return code(m.v)
	case 1:
		if len(b) <= m.k {
			return 2
		}
		if b[m.k] == m.c {
			return code(m.y)
		}
		return code(m.n)
	default:
		for _, s := range m.sets {
			switch v := s[0].spec(b); v {
			case 0:
				return 1
			case 1:
			default:
				return v
			}
		}
		return 0
	}
}

func vsSpecAny(mss [][]vsM, b []byte) int {
	if len(mss) == 0 {
		return 0
	}
	for _, s := range mss {
		if v := s[0].spec(b); v != 1 {
			return v
		}
	}
	return 1
}

// ---------------------------------------------------------------- scripted connection and logger

type vsAddr string

func (a vsAddr) Network() string { return "tcp" }
func (a vsAddr) String() string  { return string(a) }

type vsConn struct {
	t      *vsTrace
	chunks [][]byte
	addr   vsAddr
}

func (c *vsConn) Read(p []byte) (int, error) {
	if len(c.chunks) == 0 {
		return 0, io.EOF
	}
	n := copy(p, c.chunks[0])
	c.chunks[0] = c.chunks[0][n:]
	if len(c.chunks[0]) == 0 {
		c.chunks = c.chunks[1:]
	}
	return n, nil
}
func (c *vsConn) Write(p []byte) (int, error)      { return len(p), nil }
func (c *vsConn) Close() error                     { return nil }
func (c *vsConn) LocalAddr() net.Addr              { return vsAddr("192.0.2.1:443") }
func (c *vsConn) RemoteAddr() net.Addr             { return c.addr }
func (c *vsConn) SetDeadline(time.Time) error      { return nil }
func (c *vsConn) SetWriteDeadline(time.Time) error { return nil }
func (c *vsConn) SetReadDeadline(t time.Time) error {
	c.t.mu.Lock()
	c.t.armed = !t.IsZero()
	c.t.mu.Unlock()
	if !t.IsZero() {
		c.t.add(vsEvt{kind: "arm"})
	} else {
		c.t.add(vsEvt{kind: "clr"})
	}
	return nil
}

// top-level logger: "matching connection" lines are attributed to a connection by its remote address
type vsCore struct {
	mu     sync.Mutex
	traces map[string]*vsTrace
}

func (c *vsCore) Enabled(l zapcore.Level) bool      { return l >= zapcore.WarnLevel }
func (c *vsCore) With([]zapcore.Field) zapcore.Core { return c }
func (c *vsCore) Sync() error                       { return nil }
func (c *vsCore) Check(e zapcore.Entry, ce *zapcore.CheckedEntry) *zapcore.CheckedEntry {
	if c.Enabled(e.Level) {
		return ce.AddCore(e, c)
	}
	return ce
}
func (c *vsCore) Write(e zapcore.Entry, fs []zapcore.Field) error {
	if e.Message != "matching connection" {
		return nil
	}
	var err error
	remote := ""
	for _, f := range fs {
		if f.Type == zapcore.ErrorType {
			err, _ = f.Interface.(error)
		}
		if f.Key == "remote" {
			remote = f.String
		}
	}
	why := "DNetErr"
	switch {
	case errors.Is(err, layer4.ErrMatchingTimeout):
		why = "DTimeout"
	case errors.Is(err, layer4.ErrMatchingBufferFull):
		why = "DFull"
	case errors.Is(err, vsErrScripted):
		why = "DMatchErr"
	}
	c.mu.Lock()
	t := c.traces[remote]
	c.mu.Unlock()
	if t != nil {
		t.add(vsEvt{kind: "drop", depth: 0, why: why})
	}
	return nil
}

// ---------------------------------------------------------------- one provisioned instance, many connections

type vsInstance struct {
	rs       []vsR
	compiled layer4.Handler
	core     *vsCore
	cancel   func()
	seq      int
	mu       sync.Mutex
}

var vsRegister sync.Once

func vsProvision(rs []vsR) (*vsInstance, error) {
	vsRegister.Do(func() {
		caddy.RegisterModule(&VsThr{})
		caddy.RegisterModule(&VsAt{})
		caddy.RegisterModule(&VsRec{})
		caddy.RegisterModule(&VsTerm{})
		caddy.RegisterModule(&VsCons{})
		caddy.RegisterModule(&VsFail{})
		caddy.RegisterModule(&VsWrap{})
	})
	js := vsRoutesJSON(rs, 0)
	if js == nil {
		js = []any{}
	}
	raw, err := json.Marshal(js)
	if err != nil {
		return nil, err
	}
	var routes layer4.RouteList
	if err := json.Unmarshal(raw, &routes); err != nil {
		return nil, fmt.Errorf("unmarshal %s: %v", raw, err)
	}
	ctx, cancel := caddy.NewContext(caddy.Context{Context: context.Background()})
	if err := routes.Provision(ctx); err != nil {
		cancel()
		return nil, fmt.Errorf("provision %s: %v", raw, err)
	}
	in := &vsInstance{rs: rs, core: &vsCore{traces: map[string]*vsTrace{}}, cancel: cancel}
	fallback := layer4.HandlerFunc(func(cx *layer4.Connection) error {
		if t := vsTraceOf(cx); t != nil {
			t.add(vsEvt{kind: "fb", depth: 0, data: append([]byte(nil), cx.MatchingBytes()...)})
		}
		return nil
	})
	in.compiled = routes.Compile(zap.New(in.core), time.Hour, fallback)
	return in, nil
}

// pushes one connection through the instance (what Server.handle does around the compiled route)
func (in *vsInstance) run(chunks [][]byte) *vsTrace {
	t := &vsTrace{}
	in.mu.Lock()
	in.seq++
	addr := vsAddr(fmt.Sprintf("198.51.100.7:%d", 10000+in.seq))
	in.mu.Unlock()
	cp := make([][]byte, len(chunks))
	for i, c := range chunks {
		cp[i] = append([]byte(nil), c...)
	}
	conn := &vsConn{t: t, chunks: cp, addr: addr}
	in.core.mu.Lock()
	in.core.traces[string(addr)] = t
	in.core.mu.Unlock()
	cx := layer4.WrapConnection(conn, make([]byte, 0, 2048), zap.New(in.core))
	cx.SetVar("verif_trace", t)
	if err := in.compiled.Handle(cx); err != nil {
		t.retErr = true
	}
	_ = conn.Close()
	return t
}

func cHexS(b []byte) string { return cHex(b) }

func (t *vsTrace) coq() string {
	var ss []string
	for _, e := range t.ev {
		switch e.kind {
		case "arm":
			ss = append(ss, "EArm")
		case "clr":
			ss = append(ss, "EClear")
		case "run":
			ss = append(ss, fmt.Sprintf("eRun %d %d %s", e.depth, e.idx, cHexS(e.data)))
		case "rd":
			ss = append(ss, fmt.Sprintf("eRead %d %d %s", e.depth, e.idx, cHexS(e.data)))
		case "fb":
			ss = append(ss, fmt.Sprintf("eFb %d %s", e.depth, cHexS(e.data)))
		case "drop":
			ss = append(ss, fmt.Sprintf("eDrop %d %s", e.depth, e.why))
		case "herr":
			ss = append(ss, fmt.Sprintf("eHErr %d %d", e.depth, e.idx))
		}
	}
	return "[" + strings.Join(ss, "; ") + "]"
}

// ---------------------------------------------------------------- oracle

// route list addressed by the path of (route index at depth 0, 1, ...) of the subroutes entered
func vsListAt(rs []vsR, path []int) []vsR {
	cur := rs
	for _, i := range path {
		if i >= len(cur) {
			return nil
		}
		var sub []vsR
		found := false
		for _, h := range cur[i].hs {
			if h.kind == 4 {
				sub, found = h.sub, true
				break
			}
		}
		if !found {
			return nil
		}
		cur = sub
	}
	return cur
}

// decidable = the engine built this scenario so that no matcher can stay undecided or fail and no
// handler can fail: then nothing may end the connection except a terminal handler or the top-level fallback
func vsOracle(rs []vsR, stream []byte, t *vsTrace, decidable bool) map[string]string {
	f := map[string]string{}
	add := func(k, d string) {
		if _, ok := f[k]; !ok {
			f[k] = d
		}
	}
	consumed := 0
	var mask byte // what every byte read from now on is XORed with (the wrapping handlers that ran so far)
	want := func(a, b int) []byte {
		x := append([]byte(nil), vsSlice(stream, a, b)...)
		for i := range x {
			x[i] ^= mask
		}
		return x
	}
	ended := ""
	fbs := 0
	lastRun := map[int]int{} // depth -> index of the last route that ran in the current invocation at that depth
	var path []int           // route indices of the enclosing runs
	for n, e := range t.ev {
		where := fmt.Sprintf("event %d (%s depth=%d idx=%d)", n, e.kind, e.depth, e.idx)
		switch e.kind {
		case "run", "fb", "rd", "term", "herr":
			if ended != "" {
				add("C02:subroute:ran-after-"+ended, where+" after "+ended)
			}
		}
		switch e.kind {
		case "run":
			if e.armed {
				add("C05:subroute:deadline-armed-at-handler", where)
			}
			// a run at depth d ends every invocation below d
			for d := range lastRun {
				if d > e.depth {
					delete(lastRun, d)
				}
			}
			if e.depth > len(path) {
				add("C02:subroute:run-outside-any-route", where)
				break
			}
			path = path[:e.depth]
			list := vsListAt(rs, path)
			if list == nil || e.idx >= len(list) {
				add("C02:subroute:run-of-unknown-route", where)
				break
			}
			if v := vsSpecAny(list[e.idx].mss, e.data); v != 0 {
				add("C02:subroute:ran-unmatched-route", fmt.Sprintf("%s: matcher sets do not match the %d available bytes", where, len(e.data)))
			}
			last, ok := lastRun[e.depth]
			if !ok {
				last = -1
			}
			if e.idx <= last {
				add("C02:subroute:order", fmt.Sprintf("%s: route %d ran after route %d in the same route list", where, e.idx, last))
			}
			for i := last + 1; i < e.idx; i++ {
				if vsSpecAny(list[i].mss, e.data) == 0 {
					add("C02:subroute:skipped-matching-route", fmt.Sprintf("%s: route %d matches the same bytes but was passed over", where, i))
				}
			}
			lastRun[e.depth] = e.idx
			path = append(path, e.idx)
			if !bytes.Equal(e.data, want(consumed, consumed+len(e.data))) {
				add("C02:subroute:stream-not-intact", fmt.Sprintf("%s: bytes available to the route are %x, the connection as the earlier handlers left it continues with %x", where, e.data, want(consumed, consumed+len(e.data))))
			}
		case "wrap":
			var x int
			fmt.Sscan(e.why, &x)
			mask ^= byte(x)
		case "rd":
			if !bytes.Equal(e.data, want(consumed, consumed+len(e.data))) {
				add("C02:subroute:stream-not-intact", fmt.Sprintf("%s: the handler read %x, the connection as the earlier handlers left it continues with %x", where, e.data, want(consumed, consumed+len(e.data))))
			}
			consumed += len(e.data)
		case "fb":
			fbs++
			if fbs > 1 {
				add("C02:subroute:fallback-twice", where)
			}
			if e.armed {
				add("C05:subroute:deadline-armed-at-fallback", where)
			}
			last, ok := lastRun[0]
			if !ok {
				last = -1
			}
			for i := last + 1; i < len(rs); i++ {
				if v := vsSpecAny(rs[i].mss, e.data); v != 1 {
					add("C02:subroute:fallback-with-undecided-or-matching-route", fmt.Sprintf("%s: outer route %d is not decided as not matching on the available bytes", where, i))
				}
			}
			if !bytes.Equal(e.data, want(consumed, consumed+len(e.data))) {
				add("C02:subroute:stream-not-intact", where+": bytes handed to the fallback are not the client's unconsumed stream")
			}
		case "term":
			ended = "terminal"
		case "herr":
			if ended == "" {
				ended = "handler-error"
			}
		case "drop":
			if ended == "" {
				ended = "drop"
			}
		}
	}
	if decidable {
		if ended == "" && fbs != 1 {
			add("C02:subroute:connection-silently-dropped", fmt.Sprintf("no terminal handler ran and nothing failed, every matcher is decidable on the stream, yet the outer fallback ran %d times: what follows the subroute never got the connection", fbs))
		}
		if ended == "drop" || ended == "handler-error" {
			add("C02:subroute:unexpected-"+ended, "the scenario cannot fail, yet the connection ended with "+ended)
		}
	}
	return f
}

func vsSlice(s []byte, a, b int) []byte {
	if a > len(s) {
		a = len(s)
	}
	if b > len(s) {
		b = len(s)
	}
	return s[a:b]
}

// ---------------------------------------------------------------- generators

func vsT(k int, v string) vsM { return vsM{kind: 0, k: k, v: v} }
func vsFirst(c byte) vsM      { return vsM{kind: 1, k: 0, c: c, y: "yes", n: "no"} }
func vsOne(m vsM) [][]vsM     { return [][]vsM{{m}} }

// matchers that are decided by 3 bytes at most and never fail
func vsRandMatcher(g *vRng, depth int) vsM {
	switch x := g.Intn(10); {
	case x < 4:
		v := "yes"
		if g.Intn(3) == 0 {
			v = "no"
		}
		return vsT(g.Intn(3), v)
	case x < 8 || depth > 0:
		y, n := "yes", "no"
		if g.Intn(4) == 0 {
			y, n = "no", "yes"
		}
		c := byte('a' + g.Intn(3))
		if g.Intn(3) == 0 {
			c ^= 0x20
		}
		return vsM{kind: 1, k: g.Intn(2), c: c, y: y, n: n}
	default:
		return vsM{kind: 2, sets: [][]vsM{{vsRandMatcher(g, depth+1)}}}
	}
}

func vsRandRoutes(g *vRng, depth, n int) []vsR {
	rs := make([]vsR, n)
	for i := range rs {
		if g.Intn(6) != 0 {
			rs[i].mss = append(rs[i].mss, []vsM{vsRandMatcher(g, 0)})
			if g.Intn(4) == 0 {
				rs[i].mss = append(rs[i].mss, []vsM{vsRandMatcher(g, 0)})
			}
		}
		// at most one subroute and one consuming handler per chain
		switch x := g.Intn(10); {
		case x < 2:
			rs[i].hs = []vsH{{kind: 0}}
		case x < 3:
			rs[i].hs = []vsH{{kind: 1, k: g.Intn(2)}}
		case x < 4:
			rs[i].hs = []vsH{{kind: 3, k: []int{0, 0x20}[g.Intn(2)]}, {kind: 1, k: g.Intn(2)}}
		case x < 5:
		default:
			if depth < 2 {
				rs[i].hs = []vsH{{kind: 4, sub: vsRandRoutes(g, depth+1, g.Intn(3))}}
				if g.Bool() {
					rs[i].hs = append(rs[i].hs, vsH{kind: 1, k: 1})
				}
			} else {
				rs[i].hs = []vsH{{kind: 0}}
			}
		}
	}
	return rs
}

func vsRandStream(g *vRng) []byte {
	b := make([]byte, 16)
	for i := range b {
		b[i] = byte('a' + g.Intn(3))
	}
	return b
}

func vsChunks(g *vRng, s []byte) [][]byte {
	switch g.Intn(3) {
	case 0:
		return [][]byte{s}
	case 1:
		return [][]byte{s[:1], s[1:3], s[3:]}
	default:
		return [][]byte{s[:2], s[2:]}
	}
}

func vsChunksCoq(cs [][]byte) string {
	ss := make([]string, len(cs))
	for i, c := range cs {
		ss[i] = "ch " + cHex(c)
	}
	return "[" + strings.Join(ss, "; ") + "]"
}

// ---------------------------------------------------------------- the test

func TestVerifC02Subroute(t *testing.T) {
	out := vOpen()
	defer out.Close()
	g := vNewRng(vSeed())
	nInst := vN(60)

	type conn struct {
		stream []byte
		chunks [][]byte
	}
	failCount := map[string]int{}
	conns, insts := 0, 0
	report := func(rs []vsR, c conn, tr *vsTrace, decidable bool, seqNo int, mode string) {
		conns++
		input := map[string]any{"routes": vsRoutesCoq(rs), "script": vsChunksCoq(c.chunks), "connection_no": seqNo, "mode": mode, "trace": tr.coq()}
		for k, d := range vsOracle(rs, c.stream, tr, decidable) {
			failCount[k]++
			if failCount[k] <= 3 {
				out.Fail(k, fmt.Sprintf("connection #%d (%s) through the same provisioned route list: %s", seqNo, mode, d), input)
			}
		}
		nRun := 0
		deep := false
		for _, e := range tr.ev {
			if e.kind == "run" {
				nRun++
				if e.depth > 0 {
					deep = true
				}
			}
		}
		// non-trivial: not the first connection of the instance, and a route inside a subroute ran or several routes ran
		nt := seqNo > 1 && (deep || nRun >= 2)
		m := map[string]any{"t": "case", "coq": fmt.Sprintf("RS %s %s %s %s", vsRoutesCoq(rs), vsChunksCoq(c.chunks), tr.coq(), cBool(tr.retErr)), "cls": "subroute-" + mode, "nt": nt, "sample": nil}
		if vsHasXor(rs) {
			m["cls"] = "subroute-transform-" + mode
			m["nocorr"] = true // model/Router.v has the identity wrap only
		}
		out.emit(m)
	}
	exercise := func(rs []vsR, cs []conn, decidable bool) {
		in, err := vsProvision(rs)
		if err != nil {
			out.Fail("C02:subroute:harness-provision-failed", err.Error(), vsRoutesCoq(rs))
			return
		}
		defer in.cancel()
		insts++
		// one after the other through the same compiled handler
		for i, c := range cs {
			report(rs, c, in.run(c.chunks), decidable, i+1, "sequential")
		}
		// and a few at the same time
		trs := make([]*vsTrace, len(cs))
		var wg sync.WaitGroup
		for i := range cs {
			wg.Add(1)
			go func(i int) {
				defer wg.Done()
				trs[i] = in.run(cs[i].chunks)
			}(i)
		}
		wg.Wait()
		for i, c := range cs {
			report(rs, c, trs[i], decidable, len(cs)+i+1, "concurrent")
		}
	}
	mk := func(s string, cuts ...int) conn {
		b := []byte(s)
		var cs [][]byte
		prev := 0
		for _, c := range cuts {
			cs = append(cs, b[prev:c])
			prev = c
		}
		cs = append(cs, b[prev:])
		return conn{b, cs}
	}
	term := []vsH{{kind: 0}}

	// 1. corpus: a subroute that does not match must hand every connection to what follows it
	inner := []vsR{{mss: vsOne(vsFirst('a')), hs: term}}
	corpus := [][]vsR{
		// the subroute is the only handler of the first route, a second route follows
		{{hs: []vsH{{kind: 4, sub: inner}}}, {mss: vsOne(vsFirst('b')), hs: term}},
		// the subroute is followed by a non-terminal handler in the same route; then the outer fallback
		{{hs: []vsH{{kind: 4, sub: inner}, {kind: 1, k: 1}}}},
		// the subroute sits behind a matcher; two later routes
		{{mss: vsOne(vsT(1, "yes")), hs: []vsH{{kind: 4, sub: inner}}}, {mss: vsOne(vsFirst('c')), hs: []vsH{{kind: 1, k: 1}}}, {mss: vsOne(vsT(2, "yes")), hs: term}},
		// nested twice: the innermost list falls through to the rest of the middle route, that one to the outer list
		{{hs: []vsH{{kind: 4, sub: []vsR{{hs: []vsH{{kind: 4, sub: inner}, {kind: 1, k: 1}}}, {mss: vsOne(vsFirst('c')), hs: term}}}}}, {mss: vsOne(vsT(0, "yes")), hs: term}},
		// an empty subroute
		{{hs: []vsH{{kind: 4, sub: []vsR{}}}}, {mss: vsOne(vsFirst('b')), hs: term}},
		// a non-terminal inner route REPLACES the connection (transforming wrap) and reads one byte; what follows the
		// subroute - the rest of the outer route, then the later outer routes - must go on with that connection
		{{hs: []vsH{{kind: 4, sub: []vsR{{mss: vsOne(vsT(0, "yes")), hs: []vsH{{kind: 3, k: 0x20}, {kind: 1, k: 1}}}}}, {kind: 1, k: 1}}},
			{mss: vsOne(vsFirst('C')), hs: term}, {mss: vsOne(vsFirst('A')), hs: term}, {mss: vsOne(vsFirst('B')), hs: term}},
		// the same with the subroute as the only handler: the outer routes see the transformed stream
		{{mss: vsOne(vsT(1, "yes")), hs: []vsH{{kind: 4, sub: []vsR{{mss: vsOne(vsT(1, "yes")), hs: []vsH{{kind: 3, k: 0x20}}}}}}},
			{mss: vsOne(vsFirst('B')), hs: term}, {mss: vsOne(vsFirst('A')), hs: term}, {mss: vsOne(vsFirst('C')), hs: term}},
		// identity wrap after a partial read inside the subroute (also compared with the model)
		{{hs: []vsH{{kind: 4, sub: []vsR{{mss: vsOne(vsT(2, "yes")), hs: []vsH{{kind: 1, k: 1}, {kind: 3}}}}}, {kind: 1, k: 1}}}, {mss: vsOne(vsFirst('c')), hs: term}, {mss: vsOne(vsT(0, "yes")), hs: term}},
		// nested twice with a transforming wrap in the innermost list
		{{hs: []vsH{{kind: 4, sub: []vsR{{hs: []vsH{{kind: 4, sub: []vsR{{mss: vsOne(vsFirst('a')), hs: []vsH{{kind: 3, k: 0x20}}}}}}}, {mss: vsOne(vsFirst('A')), hs: []vsH{{kind: 1, k: 1}}}}}}},
			{mss: vsOne(vsFirst('B')), hs: term}, {mss: vsOne(vsFirst('b')), hs: term}},
	}
	streams := []conn{mk("bbbbbbbbbbbb"), mk("bcabcabcabca", 1, 3), mk("abcabcabcabc", 2), mk("ccccbbbbaaaa", 1), mk("bacbacbacbac")}
	for _, rs := range corpus {
		exercise(rs, streams, true)
	}

	// 2. random decidable instances, 4 connections each (+ the same 4 concurrently)
	for i := 0; i < nInst; i++ {
		rs := vsRandRoutes(g, 0, 1+g.Intn(3))
		// make sure a subroute is there
		if g.Intn(4) != 0 {
			rs[0].hs = []vsH{{kind: 4, sub: vsRandRoutes(g, 1, g.Intn(3))}}
			if g.Bool() {
				rs[0].hs = append(rs[0].hs, vsH{kind: 1, k: g.Intn(2)})
			}
		}
		var cs []conn
		for j := 0; j < 4; j++ {
			s := vsRandStream(g)
			cs = append(cs, conn{s, vsChunks(g, s)})
		}
		exercise(rs, cs, true)
	}

	// 3. instances whose matchers may stay undecided or fail (short streams): compared with the model only
	for i := 0; i < nInst/3; i++ {
		rs := vsRandRoutes(g, 0, 1+g.Intn(3))
		rs[0].hs = []vsH{{kind: 4, sub: []vsR{{mss: vsOne(vsT(2+g.Intn(4), []string{"yes", "no", "fail"}[g.Intn(3)])), hs: term}}}}
		var cs []conn
		for j := 0; j < 3; j++ {
			s := vsRandStream(g)[:1+g.Intn(5)]
			cs = append(cs, conn{s, [][]byte{s}})
		}
		exercise(rs, cs, false)
	}

	out.Stat("provisioned_instances", insts)
	out.Stat("connections", conns)
	for k, c := range failCount {
		out.Stat("fail."+k, c)
	}
}
