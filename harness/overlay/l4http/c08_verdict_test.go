package l4http

// C08 engine (verdict independence with REAL matchers): one route list, provisioned from JSON and
// compiled once, shared by all connections:
//
//   r0  http {host a.example}   -> "A"
//   r1  http {host b.example}   -> "B"
//   r2  openvpn {modes [auth], group_key, ignore_timestamp}   -> "V"
//   fallback                    -> "none"
//
// Connections: HTTP/2 with prior knowledge whose first HEADERS block uses the HPACK dynamic table
// in the ways a stateful decoder would leak (an entry added with incremental indexing; an indexed
// reference to dynamic entry 62 the connection never created; a dynamic-table size update to 0;
// a block that refers back to an entry it has just inserted), plain HTTP/1.1 requests, and OpenVPN
// P_CONTROL_HARD_RESET_CLIENT_V2 packets authenticated with different digests (the matcher
// remembers the last successful digest) or with a wrong HMAC.
//
// The verdict of every connection is a function of its own bytes (known by construction); it must
// be that verdict when the connections run one after the other in any order and when they run
// interleaved on 1/4/16 processors.   key C08:verdict:depends-on-other-connections

import (
	"bytes"
	"context"
	"encoding/hex"
	"encoding/json"
	"fmt"
	"net"
	"runtime"
	"sync"
	"testing"
	"time"

	"github.com/caddyserver/caddy/v2"
	"go.uber.org/zap"
	"golang.org/x/net/http2"

	"github.com/mholt/caddy-l4/layer4"
	"github.com/mholt/caddy-l4/modules/l4openvpn"
)

type vMark struct {
	Name string `json:"name,omitempty"`
}

func (*vMark) CaddyModule() caddy.ModuleInfo {
	return caddy.ModuleInfo{ID: "layer4.handlers.verif_c08_mark", New: func() caddy.Module { return new(vMark) }}
}

type vVConn struct {
	net.Conn
	id int
}

var vVerdicts sync.Map // id -> string

func (h *vMark) Handle(cx *layer4.Connection, _ layer4.Handler) error {
	if c, ok := cx.Conn.(*vVConn); ok {
		vVerdicts.Store(c.id, h.Name)
	}
	return nil
}

func init() { caddy.RegisterModule(&vMark{}) }

// ---- HPACK by hand (no Huffman, lengths < 127) ----

func hLitInc(nameIdx int, value string) []byte { // literal with incremental indexing, indexed name
	return append([]byte{0x40 | byte(nameIdx), byte(len(value))}, value...)
}
func hLit(nameIdx int, value string) []byte { // literal without indexing, indexed name
	return append([]byte{byte(nameIdx), byte(len(value))}, value...)
}
func hLitIncNew(name, value string) []byte { // literal with incremental indexing, new name
	b := append([]byte{0x40, byte(len(name))}, name...)
	return append(append(b, byte(len(value))), value...)
}

var hBase = []byte{0x82, 0x86, 0x84} // :method GET, :scheme http, :path /

func h2Conn(block []byte) []byte {
	var b bytes.Buffer
	b.WriteString("PRI * HTTP/2.0\r\n\r\nSM\r\n\r\n")
	fr := http2.NewFramer(&b, nil)
	_ = fr.WriteSettings()
	_ = fr.WriteHeaders(http2.HeadersFrameParam{StreamID: 1, BlockFragment: block, EndHeaders: true, EndStream: true})
	return b.Bytes()
}

type vVKind struct {
	name   string
	stream func(i int) []byte
	want   string
}

const vGroupKeyHex = "6d2b31a0e1c5d8f4a7b3c2e9f01122334455667788990a0b0c0d0e0f10111213" +
	"1415161718191a1b1c1d1e1f202122232425262728292a2b2c2d2e2f30313233" +
	"3435363738393a3b3c3d3e3f404142434445464748494a4b4c4d4e4f50515253" +
	"5455565758595a5b5c5d5e5f606162636465666768696a6b6c6d6e6f70717273" +
	"7475767778797a7b7c7d7e7f808182838485868788898a8b8c8d8e8f90919293" +
	"9495969798999a9b9c9d9e9fa0a1a2a3a4a5a6a7a8a9aaabacadaeafb0b1b2b3" +
	"b4b5b6b7b8b9babbbcbdbebfc0c1c2c3c4c5c6c7c8c9cacbcccdcecfd0d1d2d3" +
	"d4d5d6d7d8d9dadbdcdddedfe0e1e2e3e4e5e6e7e8e9eaebecedeeeff0f1f2f3"

func vOvpn(i int, digestIdx int, corrupt bool) []byte {
	sk := &l4openvpn.StaticKey{}
	if err := sk.FromHex(vGroupKeyHex); err != nil {
		panic(err)
	}
	ma := &l4openvpn.MessageAuth{}
	ma.Opcode = l4openvpn.OpcodeControlHardResetClientV2
	ma.LocalSessionID = uint64(1000 + i)
	ma.ReplayPacketID = 1
	ma.ReplayTimestamp = uint32(time.Now().Unix())
	ad := l4openvpn.AuthDigests[digestIdx%len(l4openvpn.AuthDigests)]
	ma.HMAC = ad.HMACGenerateOnClient(sk, ma.ToBytesAuth())
	if corrupt {
		ma.HMAC[0] ^= 0xff
	}
	body := ma.ToBytes()
	// TCP framing: 2-byte length
	return append([]byte{byte(len(body) >> 8), byte(len(body))}, body...)
}

func vKinds() []vVKind {
	return []vVKind{
		{"h2-indexing-a", func(i int) []byte { return h2Conn(append(append([]byte{}, hBase...), hLitInc(1, "a.example")...)) }, "A"},
		{"h2-indexing-b", func(i int) []byte { return h2Conn(append(append([]byte{}, hBase...), hLitInc(1, "b.example")...)) }, "B"},
		{"h2-ref-to-entry-it-never-made", func(i int) []byte { return h2Conn(append(append([]byte{}, hBase...), 0xBE)) }, "none"},
		{"h2-table-size-0", func(i int) []byte {
			return h2Conn(append(append([]byte{0x20}, hBase...), hLit(1, "b.example")...))
		}, "B"},
		{"h2-refers-back-to-own-entry", func(i int) []byte {
			blk := append(append([]byte{}, hBase...), hLit(1, "a.example")...)
			blk = append(blk, hLitIncNew("x-tag", fmt.Sprintf("v%d", i))...)
			return h2Conn(append(blk, 0xBE))
		}, "A"},
		{"http1-a", func(i int) []byte {
			return []byte("GET / HTTP/1.1\r\nHost: a.example\r\nX-N: " + fmt.Sprint(i) + "\r\n\r\n")
		}, "A"},
		{"http1-other", func(i int) []byte { return []byte("GET / HTTP/1.1\r\nHost: c.example\r\n\r\n") }, "none"},
		{"openvpn-digest-0", func(i int) []byte { return vOvpn(i, 0, false) }, "V"},
		{"openvpn-digest-3", func(i int) []byte { return vOvpn(i, 3, false) }, "V"},
		{"openvpn-digest-5", func(i int) []byte { return vOvpn(i, 5, false) }, "V"},
		{"openvpn-bad-hmac", func(i int) []byte { return vOvpn(i, 3, true) }, "none"},
	}
}

// the openvpn matcher distinguishes TCP from UDP by the type of LocalAddr
func (c *vVConn) LocalAddr() net.Addr { return &net.TCPAddr{IP: net.IPv4(127, 0, 0, 1), Port: 1194} }

func vRunOne(compiled layer4.Handler, id int, stream []byte) {
	cl, sv := net.Pipe()
	done := make(chan struct{})
	go func() {
		defer close(done)
		cx := layer4.WrapConnection(&vVConn{Conn: sv, id: id}, make([]byte, 0, 2048), zap.NewNop())
		_ = compiled.Handle(cx)
		_ = sv.Close()
	}()
	_ = cl.SetWriteDeadline(time.Now().Add(2 * time.Second))
	_, _ = cl.Write(stream)
	<-done
	_ = cl.Close()
}

func TestVerifC08Verdict(t *testing.T) {
	out := vOpen()
	defer out.Close()
	r := vNewRng(vSeed()*31 + 5)

	routes := []map[string]any{
		{"match": []any{map[string]any{"http": []any{map[string]any{"host": []string{"a.example"}}}}}, "handle": []any{map[string]any{"handler": "verif_c08_mark", "name": "A"}}},
		{"match": []any{map[string]any{"http": []any{map[string]any{"host": []string{"b.example"}}}}}, "handle": []any{map[string]any{"handler": "verif_c08_mark", "name": "B"}}},
		{"match": []any{map[string]any{"openvpn": map[string]any{"modes": []string{"auth"}, "group_key": vGroupKeyHex, "ignore_timestamp": true}}}, "handle": []any{map[string]any{"handler": "verif_c08_mark", "name": "V"}}},
	}
	rj, _ := json.Marshal(routes)
	var rl layer4.RouteList
	if err := json.Unmarshal(rj, &rl); err != nil {
		t.Fatal(err)
	}
	ctx, cancel := caddy.NewContext(caddy.Context{Context: context.Background()})
	defer cancel()
	if err := rl.Provision(ctx); err != nil {
		t.Fatal(err)
	}
	compiled := rl.Compile(zap.NewNop(), 300*time.Millisecond, layer4.HandlerFunc(func(cx *layer4.Connection) error {
		if c, ok := cx.Conn.(*vVConn); ok {
			vVerdicts.Store(c.id, "none")
		}
		return nil
	}))
	kinds := vKinds()
	nextID := 0
	type job struct {
		id   int
		kind vVKind
		data []byte
	}
	mk := func(k vVKind) job { nextID++; return job{nextID, k, k.stream(nextID)} }
	check := func(mode string, procs int, jobs []job, order string) (bad int) {
		for _, j := range jobs {
			got := "none"
			if v, ok := vVerdicts.Load(j.id); ok {
				got = v.(string)
			}
			if got != j.kind.want {
				bad++
				if bad == 1 {
					out.Fail("C08:verdict:depends-on-other-connections",
						fmt.Sprintf("a %s connection was routed to %q; its own bytes select %q (%s)", j.kind.name, got, j.kind.want, mode),
						map[string]any{"mode": mode, "gomaxprocs": procs, "connection_kind": j.kind.name, "stream": hex.EncodeToString(j.data), "order": order})
				}
			}
		}
		return
	}
	// (1) every kind alone first in a fresh order, one after the other: pairs (x then y) for all x, y
	bad := 0
	total := 0
	for _, x := range kinds {
		for _, y := range kinds {
			jx, jy := mk(x), mk(y)
			vRunOne(compiled, jx.id, jx.data)
			vRunOne(compiled, jy.id, jy.data)
			total += 2
			bad += check("sequential pair", runtime.GOMAXPROCS(0), []job{jx, jy}, x.name+" then "+y.name)
		}
	}
	out.Case(fmt.Sprintf("CStress \"verdict\" %d %d %d %d", 0, total, total, bad), "verdict/sequential-pairs", true, nil)
	// (2) interleaved
	rounds := []struct{ procs, n int }{{1, 40}, {4, 80}, {16, 120}}
	if vThorough() {
		rounds = append(rounds, struct{ procs, n int }{1, 200}, struct{ procs, n int }{4, 400}, struct{ procs, n int }{16, 400})
	}
	for _, rd := range rounds {
		old := runtime.GOMAXPROCS(rd.procs)
		var jobs []job
		for i := 0; i < rd.n; i++ {
			jobs = append(jobs, mk(kinds[r.Intn(len(kinds))]))
		}
		var wg sync.WaitGroup
		for _, j := range jobs {
			wg.Add(1)
			go func(j job) { defer wg.Done(); vRunOne(compiled, j.id, j.data) }(j)
		}
		wg.Wait()
		runtime.GOMAXPROCS(old)
		b := check("interleaved", rd.procs, jobs, "concurrent")
		out.Case(fmt.Sprintf("CStress \"verdict\" %d %d %d %d", rd.procs, rd.n, rd.n, b), fmt.Sprintf("verdict/interleaved/procs=%d", rd.procs), true, nil)
		out.Stat(fmt.Sprintf("verdict.p%d", rd.procs), map[string]int{"connections": rd.n, "wrong": b})
	}
}
