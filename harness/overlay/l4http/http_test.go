package l4http

// HTTP matcher engine (C06, C04, C14): the HTTP matcher delegates parsing to net/http and
// x/net/http2, which are not modelled; this engine therefore evaluates the property text directly
// on the implementation (oracle only, no Coq correspondence):
//   - every prefix of generated HTTP/1.x and HTTP/2 prior-knowledge requests is evaluated in
//     matching mode (fresh connection preloaded with the prefix; the socket must not be read),
//   - every two-fragment delivery of a request that matches whole is routed through the real
//     RouteList.Compile and must reach the route's handler,
//   - verdicts on whole messages are compared with a reference predicate computed from the
//     generator's abstract request (host / method / path filters).

import (
	"bufio"
	"bytes"
	"context"
	"encoding/json"
	"errors"
	"fmt"
	"net"
	"net/http"
	"os"
	"runtime"
	"strings"
	"testing"
	"time"

	"github.com/caddyserver/caddy/v2"
	"github.com/caddyserver/caddy/v2/modules/caddyhttp"
	"go.uber.org/zap"
	"golang.org/x/net/http2"
	"golang.org/x/net/http2/hpack"

	"github.com/mholt/caddy-l4/layer4"
)

type vhReq struct {
	method, path, host string
	headers            [][2]string
	lf                 bool // LF-only line endings
	h2                 bool // HTTP/2 with prior knowledge
	trailing           []byte
}

func (r vhReq) bytes() []byte {
	if r.h2 {
		var b bytes.Buffer
		b.WriteString("PRI * HTTP/2.0\r\n\r\nSM\r\n\r\n")
		fr := http2.NewFramer(&b, nil)
		_ = fr.WriteSettings()
		var hb bytes.Buffer
		enc := hpack.NewEncoder(&hb)
		_ = enc.WriteField(hpack.HeaderField{Name: ":method", Value: r.method})
		_ = enc.WriteField(hpack.HeaderField{Name: ":scheme", Value: "http"})
		_ = enc.WriteField(hpack.HeaderField{Name: ":authority", Value: r.host})
		_ = enc.WriteField(hpack.HeaderField{Name: ":path", Value: r.path})
		for _, h := range r.headers {
			_ = enc.WriteField(hpack.HeaderField{Name: strings.ToLower(h[0]), Value: h[1]})
		}
		_ = fr.WriteHeaders(http2.HeadersFrameParam{StreamID: 1, BlockFragment: hb.Bytes(), EndHeaders: true, EndStream: len(r.trailing) == 0})
		b.Write(r.trailing)
		return b.Bytes()
	}
	nl := "\r\n"
	if r.lf {
		nl = "\n"
	}
	var sb strings.Builder
	sb.WriteString(r.method + " " + r.path + " HTTP/1.1" + nl)
	sb.WriteString("Host: " + r.host + nl)
	for _, h := range r.headers {
		sb.WriteString(h[0] + ": " + h[1] + nl)
	}
	sb.WriteString(nl)
	return append([]byte(sb.String()), r.trailing...)
}

type vhFilter struct {
	kind, val string // kind: "", host, method, path
}

func (f vhFilter) json() json.RawMessage {
	switch f.kind {
	case "host":
		return json.RawMessage(fmt.Sprintf(`[{"host":[%q]}]`, f.val))
	case "method":
		return json.RawMessage(fmt.Sprintf(`[{"method":[%q]}]`, f.val))
	case "path":
		return json.RawMessage(fmt.Sprintf(`[{"path":[%q]}]`, f.val))
	}
	return json.RawMessage(`[]`)
}

// reference predicate: does the filter pass on the abstract request?
func (f vhFilter) passes(r vhReq) bool {
	switch f.kind {
	case "host":
		h := r.host
		if i := strings.LastIndex(h, ":"); i >= 0 {
			h = h[:i]
		}
		return strings.EqualFold(h, f.val)
	case "method":
		return r.method == f.val
	case "path":
		p := r.path
		if i := strings.Index(p, "?"); i >= 0 {
			p = p[:i]
		}
		return p == f.val
	}
	return true
}

// conn that must never be read while matching
type vhConn struct {
	reads int
}

func (c *vhConn) Read(p []byte) (int, error)       { c.reads++; return 0, os.ErrDeadlineExceeded }
func (c *vhConn) Write(p []byte) (int, error)      { return len(p), nil }
func (c *vhConn) Close() error                     { return nil }
func (c *vhConn) LocalAddr() net.Addr              { return &net.TCPAddr{IP: net.IPv4(127, 0, 0, 1), Port: 80} }
func (c *vhConn) RemoteAddr() net.Addr             { return &net.TCPAddr{IP: net.IPv4(127, 0, 0, 1), Port: 4000} }
func (c *vhConn) SetDeadline(time.Time) error      { return nil }
func (c *vhConn) SetReadDeadline(time.Time) error  { return nil }
func (c *vhConn) SetWriteDeadline(time.Time) error { return nil }

// scripted conn delivering fragments, then a timeout error (never blocks)
type vhScript struct {
	vhConn
	frags [][]byte
}

func (c *vhScript) Read(p []byte) (int, error) {
	c.reads++
	if len(c.frags) == 0 {
		return 0, os.ErrDeadlineExceeded
	}
	n := copy(p, c.frags[0])
	if n == len(c.frags[0]) {
		c.frags = c.frags[1:]
	} else {
		c.frags[0] = c.frags[0][n:]
	}
	return n, nil
}

const (
	vhYes = iota
	vhNo
	vhMore
	vhFail
	vhPanic
)

var vhNames = []string{"Yes", "No", "More", "Fail", "Panic"}

func vhEval(m *MatchHTTP, prefix []byte) (v int, reads int, rest []byte, emsg string) {
	c := &vhConn{}
	buf := append(make([]byte, 0, len(prefix)), prefix...)
	cx := layer4.WrapConnection(c, buf, zap.NewNop())
	func() {
		defer func() {
			if r := recover(); r != nil {
				v, emsg = vhPanic, fmt.Sprint(r)
			}
		}()
		ok, err := layer4.MatcherSet{m}.Match(cx)
		switch {
		case err == nil && ok:
			v = vhYes
		case err == nil:
			v = vhNo
		case errors.Is(err, layer4.ErrConsumedAllPrefetchedBytes):
			v = vhMore
		default:
			v, emsg = vhFail, err.Error()
		}
	}()
	reads = c.reads
	// what a handler would read afterwards
	tmp := make([]byte, len(prefix)+8)
	n, _ := cx.Read(tmp)
	rest = tmp[:n]
	return
}

func vhTotalAlloc() uint64 {
	var ms runtime.MemStats
	runtime.ReadMemStats(&ms)
	return ms.TotalAlloc
}

// the bound the other matcher engines use for "a small multiple of the matching buffer limit"
const vhAllocBound = 16 * layer4.MaxMatchingBytes

// bytes allocated by one Match call on prefix (smallest of up to three measurements, so that an
// allocation of the runtime or of another goroutine is not attributed to the matcher)
func vhAlloc(m *MatchHTTP, prefix []byte) uint64 {
	best := ^uint64(0)
	for try := 0; try < 3; try++ {
		a0 := vhTotalAlloc()
		vhEval(m, prefix)
		if d := vhTotalAlloc() - a0; d < best {
			best = d
		}
		if best <= vhAllocBound {
			break
		}
	}
	return best
}

func TestVerifHTTP(t *testing.T) {
	out := vOpen()
	defer out.Close()
	rng := vNewRng(vSeed())
	ctx, cancel := caddy.NewContext(caddy.Context{Context: context.Background()})
	defer cancel()

	mk := func(f vhFilter) *MatchHTTP {
		m := &MatchHTTP{}
		if f.kind != "" {
			var sets caddyhttp.RawMatcherSets
			if err := json.Unmarshal(f.json(), &sets); err != nil {
				t.Fatal(err)
			}
			m.MatcherSetsRaw = sets
		}
		if err := m.Provision(ctx); err != nil {
			t.Fatal(err)
		}
		return m
	}

	methods := []string{"GET", "POST", "DELETE", "OPTIONS"}
	hosts := []string{"example.com", "localhost:10443", "a.b.example.org:8080"}
	paths := []string{"/", "/foo/bar?aaa=bbb", "/index.html", "/a/very/long/path/" + strings.Repeat("x", 40)}
	hdrs := [][2]string{{"User-Agent", "curl/7.82.0"}, {"Accept", "*/*"}, {"X-Token", "abc def"}, {"Cookie", "k=v; k2=v2"}}

	n := vN(60)
	evals := 0
	for i := 0; i < n; i++ {
		r := vhReq{method: methods[rng.Intn(len(methods))], path: paths[rng.Intn(len(paths))], host: hosts[rng.Intn(len(hosts))]}
		for k := rng.Intn(4); k > 0; k-- {
			r.headers = append(r.headers, hdrs[rng.Intn(len(hdrs))])
		}
		r.lf = rng.Intn(4) == 0
		r.h2 = rng.Intn(3) == 0
		if rng.Intn(3) == 0 {
			r.trailing = []byte("trailing-body-data")
		}
		var f vhFilter
		// mostly filters the request satisfies (so that the whole message matches), some it does not
		own := rng.Intn(10) < 7
		switch rng.Intn(4) {
		case 0:
			h := hosts[rng.Intn(len(hosts))]
			if own {
				h = r.host
			}
			f = vhFilter{"host", strings.Split(h, ":")[0]}
		case 1:
			mm := methods[rng.Intn(len(methods))]
			if own {
				mm = r.method
			}
			f = vhFilter{"method", mm}
		case 2:
			pp := paths[rng.Intn(len(paths))]
			if own {
				pp = r.path
			}
			f = vhFilter{"path", strings.Split(pp, "?")[0]}
		}
		m := mk(f)
		data := r.bytes()
		desc := map[string]any{"request": string(data), "filter": f.kind + "=" + f.val, "h2": r.h2, "lf": r.lf}
		kind := "http1"
		if r.h2 {
			kind = "http2"
		}

		whole, _, _, wmsg := vhEval(m, data)
		evals++
		want := f.passes(r)
		if whole == vhPanic {
			out.Fail("C04:http:panic", "http matcher panicked: "+wmsg, desc)
		}
		if want && whole != vhYes {
			out.Fail("C14:http:rejects-valid", fmt.Sprintf("well-formed %s request passing the filter got %s %s", kind, vhNames[whole], wmsg), desc)
		}
		if !want && whole == vhYes {
			out.Fail("C14:http:accepts-invalid", "request violating the filter matched", desc)
		}

		// verdict chain over every prefix
		sawNo := -1
		for k := 0; k <= len(data); k++ {
			v, reads, rest, emsg := vhEval(m, data[:k])
			evals++
			d := map[string]any{"request": string(data), "filter": f.kind + "=" + f.val, "prefix_len": k, "verdict": vhNames[v], "err": emsg}
			if v == vhPanic {
				out.Fail("C04:http:panic", "http matcher panicked on a prefix: "+emsg, d)
			}
			if reads != 0 {
				out.Fail("C06:http:network-read", "matching read from the network", d)
			}
			if !bytes.Equal(rest, data[:k]) {
				out.Fail("C06:http:stream-changed", "bytes readable after matching differ from the prefetched bytes", d)
			}
			v2, _, _, _ := vhEval(m, data[:k])
			if v2 != v {
				out.Fail("C06:http:nondeterministic", "two evaluations on the same bytes disagree", d)
			}
			if sawNo >= 0 && v != vhNo {
				d["no_at"] = sawNo
				out.Fail("C06:http:no-then-not-no", "No on a prefix but "+vhNames[v]+" on a longer prefix", d)
				sawNo = -1
			}
			if v == vhNo && sawNo < 0 {
				sawNo = k
			}
			if whole == vhYes && k < len(data)-len(r.trailing) && (v == vhNo || v == vhFail) {
				key := "C06:" + kind + ":fragment-rejected-" + strings.ToLower(vhNames[v])
				out.Fail(key, fmt.Sprintf("request matches whole but its %d-byte prefix is answered %s (%s) instead of asking for more data", k, vhNames[v], emsg), d)
			}
		}
		out.Case("", kind+"/"+f.kind, true, map[string]any{"len": len(data), "whole": vhNames[whole], "filter": f.kind})

		// two-fragment delivery through the real router
		if whole == vhYes {
			limit := len(data) - len(r.trailing)
			for _, split := range []int{1, 5, 12, 16, 17, 18, 20, limit / 2, limit - 3, limit - 2, limit - 1} {
				if split <= 0 || split >= limit {
					continue
				}
				matched, herr := vhRoute(ctx, f, [][]byte{data[:split], data[split:]})
				evals++
				if !matched {
					out.Fail("C06:"+kind+":fragmented-delivery-not-routed",
						fmt.Sprintf("request matches when delivered whole but is not routed when delivered as %d + %d bytes (%v)", split, len(data)-split, herr),
						map[string]any{"request": string(data), "filter": f.kind + "=" + f.val, "split": split})
				}
			}
		}
	}
	// malformed / garbage inputs: never panic, never Yes
	for i := 0; i < n; i++ {
		g := rng.Bytes(1 + rng.Intn(300))
		if rng.Intn(2) == 0 {
			g = append([]byte("GET / HTTP/1.1\r\n"), g...)
		}
		v, _, _, emsg := vhEval(mk(vhFilter{}), g)
		evals++
		if v == vhPanic {
			out.Fail("C04:http:panic", "http matcher panicked on malformed input: "+emsg, map[string]any{"hex": fmt.Sprintf("%x", g)})
		}
	}
	// first lines of every small length: the request-line test indexes backwards from the first
	// line feed (i-9, i-3, i-1), so every position of the first LF from 0 to 40 is tried, with and
	// without a CR in front, with letters / spaces / an " HTTP/1.1" tail, alone and followed by more
	// lines. Never a panic; Yes only if the reference parser accepts the request.
	{
		m := mk(vhFilter{})
		for i := 0; i <= 40; i++ {
			for _, cr := range []bool{false, true} {
				for fill := 0; fill < 4; fill++ {
					line := make([]byte, i)
					for j := range line {
						switch fill {
						case 0:
							line[j] = 'A'
						case 1:
							line[j] = ' '
						case 2:
							line[j] = "GET / HTTP/1.1"[j%14]
						default:
							line[j] = byte(rng.Intn(256))
							if line[j] == '\n' {
								line[j] = 'x'
							}
						}
					}
					if cr && i > 0 {
						line[i-1] = '\r'
					}
					for _, tail := range []string{"", "\r\n", "Host: a\r\n\r\n"} {
						g := append(append(append([]byte{}, line...), '\n'), tail...)
						v, _, _, emsg := vhEval(m, g)
						evals++
						if v == vhPanic {
							out.Fail("C04:http:panic", "http matcher panicked on a short first line: "+emsg, map[string]any{"first_lf_at": i, "cr": cr, "hex": fmt.Sprintf("%x", g)})
						}
						if v == vhYes {
							if _, perr := http.ReadRequest(bufio.NewReader(bytes.NewReader(g))); perr != nil {
								out.Fail("C14:http:accepts-invalid", "matched a first line net/http rejects: "+perr.Error(), map[string]any{"hex": fmt.Sprintf("%x", g)})
							}
						}
					}
				}
			}
			out.Case("", "http1-shortline", i >= 8 && i <= 12, map[string]any{"first_lf_at": i})
		}
	}
	// HTTP/2 prior-knowledge prefaces followed by frame sequences WITHOUT a usable HEADERS frame:
	// k frames of the kinds a client may send first (SETTINGS, WINDOW_UPDATE, PING, PRIORITY), also
	// more than the 10 the matcher is willing to skip, truncated frames, and a HEADERS frame whose
	// block is garbage or continues in CONTINUATION frames. Never a panic, never Yes.
	for k := 0; k <= 14; k++ {
		for variant := 0; variant < 6; variant++ {
			var b bytes.Buffer
			b.WriteString("PRI * HTTP/2.0\r\n\r\nSM\r\n\r\n")
			fr := http2.NewFramer(&b, nil)
			for j := 0; j < k; j++ {
				switch (variant + j) % 4 {
				case 0:
					_ = fr.WriteSettings()
				case 1:
					_ = fr.WriteWindowUpdate(0, 1000)
				case 2:
					_ = fr.WritePing(false, [8]byte{1, 2, 3, 4, 5, 6, 7, 8})
				default:
					_ = fr.WritePriority(1, http2.PriorityParam{Weight: 1})
				}
			}
			switch variant {
			case 3: // garbage header block
				_ = fr.WriteHeaders(http2.HeadersFrameParam{StreamID: 1, BlockFragment: rng.Bytes(20), EndHeaders: true})
			case 4: // header block continued in a CONTINUATION frame
				var hb bytes.Buffer
				enc := hpack.NewEncoder(&hb)
				_ = enc.WriteField(hpack.HeaderField{Name: ":method", Value: "GET"})
				_ = enc.WriteField(hpack.HeaderField{Name: ":path", Value: "/"})
				full := hb.Bytes()
				_ = fr.WriteHeaders(http2.HeadersFrameParam{StreamID: 1, BlockFragment: full[:1], EndHeaders: false})
				_ = fr.WriteContinuation(1, true, full[1:])
			case 5: // truncated last frame
				if b.Len() > 30 {
					b.Truncate(b.Len() - 3)
				}
			}
			data := b.Bytes()
			v, _, _, emsg := vhEval(mk(vhFilter{}), data)
			evals++
			if v == vhPanic {
				out.Fail("C04:http:panic", "http matcher panicked on an HTTP/2 preface followed by frames without a usable HEADERS frame: "+emsg,
					map[string]any{"frames": k, "variant": variant, "hex": fmt.Sprintf("%x", data)})
			}
			out.Case("", "http2-noheaders", k >= 10, map[string]any{"frames": k, "variant": variant, "verdict": vhNames[v]})
		}
	}
	// HTTP/2 prior-knowledge preface followed by ONE frame header that declares a large payload
	// (up to the 2^24-1 the frame format allows), with none / some / as much as fits of that payload
	// present: the matcher must answer (error or "more") without allocating the declared size. Also
	// HTTP/1 requests announcing a huge body. Allocation is measured per Match call.
	{
		m := mk(vhFilter{})
		var maxAlloc uint64
		check := func(class string, data []byte, nt bool) {
			v, _, _, emsg := vhEval(m, data)
			evals++
			if v == vhPanic {
				out.Fail("C04:http:panic", "http matcher panicked: "+emsg, map[string]any{"class": class, "hex": fmt.Sprintf("%x", data[:min(len(data), 64)])})
			}
			a := vhAlloc(m, data)
			if a > maxAlloc {
				maxAlloc = a
			}
			if a > vhAllocBound {
				out.Fail("C04:http:alloc", fmt.Sprintf("one Match call on %d bytes allocated %d bytes (bound %d = 16 x matching limit)", len(data), a, vhAllocBound),
					map[string]any{"class": class, "len": len(data), "hex_head": fmt.Sprintf("%x", data[:min(len(data), 64)]), "verdict": vhNames[v], "err": emsg})
			}
			out.Case("", class, nt, map[string]any{"len": len(data), "verdict": vhNames[v], "alloc": a})
		}
		for _, ftype := range []byte{0, 1, 4, 5, 9, 0x7f} {
			for _, flen := range []uint32{0, 100, 8191, 8192, 16384, 16385, 65536, 1 << 20, 1<<24 - 1} {
				for _, present := range []int{0, 1, 200, 8000} {
					var b bytes.Buffer
					b.WriteString("PRI * HTTP/2.0\r\n\r\nSM\r\n\r\n")
					if ftype == 0x7f { // a SETTINGS frame first, as real clients send
						_ = http2.NewFramer(&b, nil).WriteSettings()
					}
					ft := ftype
					if ft == 0x7f {
						ft = 1
					}
					b.Write([]byte{byte(flen >> 16), byte(flen >> 8), byte(flen), ft, 4, 0, 0, 0, 1})
					k := present
					if uint32(k) > flen {
						k = int(flen)
					}
					b.Write(rng.Bytes(k))
					check(fmt.Sprintf("http2-bigframe/type%d", ftype), b.Bytes(), flen > 16384)
				}
			}
		}
		for _, cl := range []string{"0", "100", "100000000", "99999999999999"} {
			for _, te := range []bool{false, true} {
				req := "POST /upload HTTP/1.1\r\nHost: example.com\r\nContent-Length: " + cl + "\r\n"
				if te {
					req = "POST /upload HTTP/1.1\r\nHost: example.com\r\nTransfer-Encoding: chunked\r\n"
				}
				req += "\r\n"
				body := "ffffffff\r\n" + strings.Repeat("z", 300)
				check("http1-bigbody", []byte(req+body), len(cl) > 3)
			}
		}
		// header block as long as the matching buffer allows
		for _, hl := range []int{1000, 4000, 7900} {
			check("http1-longheader", []byte("GET / HTTP/1.1\r\nHost: example.com\r\nX-Long: "+strings.Repeat("a", hl)+"\r\n\r\n"), true)
		}
		out.Stat("max_alloc_per_match", int(maxAlloc))
	}
	out.Stat("evaluations", evals)
}

func vhRoute(ctx caddy.Context, f vhFilter, frags [][]byte) (bool, error) {
	c := &vhScript{frags: frags}
	cx := layer4.WrapConnection(c, make([]byte, 0, 64), zap.NewNop())
	// the route is provisioned from JSON exactly as the server does; test_handler is the
	// recording handler registered by the package's own tests
	routes := layer4.RouteList{&layer4.Route{
		MatcherSetsRaw: caddyhttp.RawMatcherSets{caddy.ModuleMap{"http": f.json()}},
		HandlersRaw:    []json.RawMessage{json.RawMessage(`{"handler":"test_handler"}`)},
	}}
	if err := routes.Provision(ctx); err != nil {
		return false, err
	}
	matched := false
	h := routes.Compile(zap.NewNop(), 100*time.Millisecond, layer4.HandlerFunc(func(con *layer4.Connection) error {
		matched = con.GetVar("test_handler_called") != nil
		return nil
	}))
	err := h.Handle(cx)
	return matched, err
}
