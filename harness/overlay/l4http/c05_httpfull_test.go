package l4http

// C05 engine, part 3: buffer exhaustion with the REAL http matcher (the only real matcher that reports
// ErrMatchingBufferFull itself: once for a request line that never ends, once for a header block that never
// ends).  Route lists [route gated by http] (+ optionally a later route without matchers) + fallback recorder
// are provisioned from JSON and run over a scripted net.Conn (chunked delivery) with clients that
//   - flood a valid request line followed by headers that never end (>= 12 KiB),
//   - flood a request line that never ends,
//   - send a header block that ends just below / just above MaxMatchingBytes,
//   - send a complete small request (must match), send non-HTTP bytes (must fall through).
// Oracle (keys C05:http:...): after the matching buffer is exhausted no handler, no later route and no
// fallback runs and the abort is reported as "matching buffer is full"; the buffer never exceeds
// MaxMatchingBytes - 1 + prefetchChunkSize (2048); complete requests still match; garbage still falls through.

import (
	"bytes"
	"context"
	"encoding/json"
	"errors"
	"fmt"
	"io"
	"net"
	"strings"
	"sync"
	"testing"
	"time"

	"github.com/caddyserver/caddy/v2"
	"go.uber.org/zap"
	"go.uber.org/zap/zapcore"

	"github.com/mholt/caddy-l4/layer4"
)

type v5hTrace struct {
	mu     sync.Mutex
	ev     []string // "handler:<name>", "fallback", "drop:<why>"
	maxBuf int
}

func (t *v5hTrace) add(s string) {
	t.mu.Lock()
	t.ev = append(t.ev, s)
	t.mu.Unlock()
}

type V5hRec struct {
	Name   string `json:"name"`
	PassOn bool   `json:"pass_on"`
}

func (*V5hRec) CaddyModule() caddy.ModuleInfo {
	return caddy.ModuleInfo{ID: "layer4.handlers.verif_c05_rec", New: func() caddy.Module { return new(V5hRec) }}
}

func (h *V5hRec) Handle(cx *layer4.Connection, next layer4.Handler) error {
	if t, _ := cx.GetVar("verif_trace").(*v5hTrace); t != nil {
		t.add("handler:" + h.Name)
	}
	if h.PassOn {
		return next.Handle(cx)
	}
	return nil
}

type v5hConn struct {
	chunks [][]byte
}

func (c *v5hConn) Read(p []byte) (int, error) {
	if len(c.chunks) == 0 {
		return 0, io.EOF
	}
	n := copy(p, c.chunks[0])
	c.chunks[0] = c.chunks[0][n:]
	if len(c.chunks[0]) == 0 {
		c.chunks = c.chunks[1:]
	}
	return n, nil
}
func (c *v5hConn) Write(p []byte) (int, error)       { return len(p), nil }
func (c *v5hConn) Close() error                      { return nil }
func (c *v5hConn) LocalAddr() net.Addr               { return &net.TCPAddr{IP: net.IPv4(127, 0, 0, 1), Port: 80} }
func (c *v5hConn) RemoteAddr() net.Addr              { return &net.TCPAddr{IP: net.IPv4(192, 0, 2, 9), Port: 4000} }
func (c *v5hConn) SetDeadline(time.Time) error       { return nil }
func (c *v5hConn) SetReadDeadline(time.Time) error   { return nil }
func (c *v5hConn) SetWriteDeadline(time.Time) error  { return nil }

type v5hCore struct{ t *v5hTrace }

func (c *v5hCore) Enabled(l zapcore.Level) bool      { return l >= zapcore.WarnLevel }
func (c *v5hCore) With([]zapcore.Field) zapcore.Core { return c }
func (c *v5hCore) Sync() error                       { return nil }
func (c *v5hCore) Check(e zapcore.Entry, ce *zapcore.CheckedEntry) *zapcore.CheckedEntry {
	if c.Enabled(e.Level) {
		return ce.AddCore(e, c)
	}
	return ce
}
func (c *v5hCore) Write(e zapcore.Entry, fs []zapcore.Field) error {
	if e.Message != "matching connection" {
		return nil
	}
	var err error
	for _, f := range fs {
		if f.Type == zapcore.ErrorType {
			err, _ = f.Interface.(error)
		}
	}
	why := "other"
	switch {
	case errors.Is(err, layer4.ErrMatchingBufferFull):
		why = "full"
	case errors.Is(err, layer4.ErrMatchingTimeout):
		why = "timeout"
	case errors.Is(err, io.EOF):
		why = "eof"
	}
	c.t.add("drop:" + why)
	return nil
}

var v5hRegister sync.Once

// runs one connection through a freshly provisioned [http route (+ later route)] + fallback
func v5hRun(laterRoute bool, passOn bool, chunks [][]byte) (*v5hTrace, error) {
	v5hRegister.Do(func() { caddy.RegisterModule(&V5hRec{}) })
	rec := func(name string, pass bool) json.RawMessage {
		b, _ := json.Marshal(map[string]any{"handler": "verif_c05_rec", "name": name, "pass_on": pass})
		return b
	}
	routes := layer4.RouteList{&layer4.Route{
		MatcherSetsRaw: []caddy.ModuleMap{{"http": json.RawMessage("[]")}},
		HandlersRaw:    []json.RawMessage{rec("http-route", passOn)},
	}}
	if laterRoute {
		// a later route that is also gated by the http matcher (with a host filter): it cannot decide either
		// before the request is complete (a route without matchers would legitimately run at once)
		routes = append(routes, &layer4.Route{
			MatcherSetsRaw: []caddy.ModuleMap{{"http": json.RawMessage(`[{"host":["other.example.org"]}]`)}},
			HandlersRaw:    []json.RawMessage{rec("later-route", false)},
		})
	}
	ctx, cancel := caddy.NewContext(caddy.Context{Context: context.Background()})
	defer cancel()
	if err := routes.Provision(ctx); err != nil {
		return nil, err
	}
	t := &v5hTrace{}
	logger := zap.New(&v5hCore{t: t})
	var last *layer4.Connection
	compiled := routes.Compile(logger, time.Hour, layer4.HandlerFunc(func(cx *layer4.Connection) error {
		t.add("fallback")
		return nil
	}))
	cp := make([][]byte, len(chunks))
	for i, c := range chunks {
		cp[i] = append([]byte(nil), c...)
	}
	cx := layer4.WrapConnection(&v5hConn{chunks: cp}, make([]byte, 0, 2048), logger)
	cx.SetVar("verif_trace", t)
	last = cx
	err := compiled.Handle(cx)
	t.maxBuf = len(last.MatchingBytes())
	return t, err
}

func v5hSplit(b []byte, size int) [][]byte {
	var out [][]byte
	for len(b) > 0 {
		n := size
		if n > len(b) {
			n = len(b)
		}
		out = append(out, b[:n])
		b = b[n:]
	}
	return out
}

func v5hHeaders(total int, end bool) []byte {
	var b bytes.Buffer
	b.WriteString("GET /index.html HTTP/1.1\r\nHost: example.com\r\n")
	for i := 0; b.Len()+80 < total; i++ {
		b.WriteString(fmt.Sprintf("X-Pad-%d: %s\r\n", i, strings.Repeat("a", 60)))
	}
	if end {
		b.WriteString("\r\n")
	}
	return b.Bytes()
}

func TestVerifC05HTTPFull(t *testing.T) {
	out := vOpen()
	defer out.Close()
	const bound = layer4.MaxMatchingBytes - 1 + 2048

	type scn struct {
		name   string
		data   []byte
		expect string // full match fallthrough
	}
	noEOL := append([]byte("GET /"), bytes.Repeat([]byte("a"), 12000)...)
	scns := []scn{
		{"headers-never-end-12k", v5hHeaders(12000, false), "full"},
		{"headers-never-end-24k", v5hHeaders(24000, false), "full"},
		{"headers-end-after-bound", v5hHeaders(layer4.MaxMatchingBytes+2048+150, true), "full"}, // beyond MaxMatchingBytes-1+chunk: cannot fit whatever the chunking
		{"request-line-never-ends", noEOL, "full"},
		{"headers-end-below-limit", v5hHeaders(layer4.MaxMatchingBytes-150, true), "match"},
		{"small-request", []byte("GET / HTTP/1.1\r\nHost: example.com\r\n\r\n"), "match"},
		{"not-http", append([]byte("\x16\x03\x01\x02\x00\x01\x00\x01\xfc\x03\x03\n"), bytes.Repeat([]byte{0x55}, 200)...), "fallthrough"},
	}
	n, nfail := 0, map[string]int{}
	for _, sc := range scns {
		for _, size := range []int{1 << 20, 2048, 1000, 4096, 333} {
			for _, later := range []bool{false, true} {
				for _, passOn := range []bool{false, true} {
					n++
					tr, err := v5hRun(later, passOn, v5hSplit(sc.data, size))
					input := map[string]any{"scenario": sc.name, "bytes": len(sc.data), "chunk": size, "later_route": later, "http_route_passes_on": passOn}
					fail := func(key, detail string) {
						nfail[key]++
						if nfail[key] <= 3 {
							out.Fail(key, detail, input)
						}
					}
					if tr == nil {
						fail("C05:http:harness-provision-failed", fmt.Sprint(err))
						continue
					}
					input["trace"] = strings.Join(tr.ev, ",")
					ran := false
					reported := ""
					for _, e := range tr.ev {
						if strings.HasPrefix(e, "handler:") || e == "fallback" {
							ran = true
						}
						if strings.HasPrefix(e, "drop:") {
							reported = e[5:]
						}
					}
					if tr.maxBuf > bound {
						fail("C05:http:buffer-over-bound", fmt.Sprintf("%d bytes in the matching buffer", tr.maxBuf))
					}
					switch sc.expect {
					case "full":
						if ran {
							fail("C05:http:ran-after-buffer-full", "the client filled the matching buffer without completing a request, yet a handler, a later route or the fallback ran: "+strings.Join(tr.ev, ","))
						}
						if reported != "full" {
							fail("C05:http:buffer-full-not-reported", "matching was not given up with 'matching buffer is full' but with '"+reported+"'")
						}
					case "match":
						want := "handler:http-route"
						if len(tr.ev) == 0 || tr.ev[0] != want {
							fail("C05:http:complete-request-not-matched", "trace: "+strings.Join(tr.ev, ","))
						}
					case "fallthrough":
						want := "fallback"
						if len(tr.ev) != 1 || tr.ev[0] != want {
							fail("C05:http:non-http-not-fallen-through", "trace: "+strings.Join(tr.ev, ","))
						}
					}
					nt := sc.expect == "full"
					out.emit(map[string]any{"t": "case", "coq": fmt.Sprintf("%s/%d/%v/%v", sc.name, size, later, passOn), "cls": "http/" + sc.expect, "nt": nt, "sample": input, "nocorr": true})
				}
			}
		}
	}
	out.Stat("scenarios", n)
}
